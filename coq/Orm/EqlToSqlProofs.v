(* C07 -- proofs: on the fragment F07 the statement produced by the translator model, executed by the
   relational-algebra semantics on the encoded world, returns exactly (same rows, same order, same
   multiplicities) what the in-memory meaning of the query returns. *)
From Coq Require Import List ZArith Bool Lia Arith.
From Krrood Require Import Base.Sx Orm.EqlToSqlSpec Orm.SqlAlg Orm.EqlToSql.
Import ListNotations.
Open Scope Z_scope.

(* ---------- small facts ---------- *)
Lemma tv_true_of_bool b : tv_true (tv_of_bool b) = b.
Proof. now destruct b. Qed.
Lemma tv_and_bool a b : tv_and (tv_of_bool a) (tv_of_bool b) = tv_of_bool (a && b).
Proof. now destruct a, b. Qed.
Lemma tv_or_bool a b : tv_or (tv_of_bool a) (tv_of_bool b) = tv_of_bool (a || b).
Proof. now destruct a, b. Qed.
Lemma tv_not_bool a : tv_not (tv_of_bool a) = tv_of_bool (negb a).
Proof. now destruct a. Qed.

Lemma enc_scalar v : scalar_val v = true -> enc_val v = v.
Proof. now destruct v. Qed.

Lemma assoc_map_enc a (l : list (Z * val)) :
  assoc a (map (fun p => (fst p, enc_val (snd p))) l) = option_map enc_val (assoc a l).
Proof.
  induction l as [|[k v] l IH]; simpl; auto. destruct (a =? k); auto.
Qed.
Lemma col_row_of o a :
  col (row_of o) a = match assoc a (o_fields o) with Some v => enc_val v | None => VNull end.
Proof. unfold col, row_of; simpl. rewrite assoc_map_enc. now destruct (assoc a (o_fields o)). Qed.

Lemma ecol_app env more i a : (i < length env)%nat -> ecol (env ++ more) i a = ecol env i a.
Proof. intros H. unfold ecol. now rewrite nth_error_app1. Qed.
Lemma ecol_some env i a r : nth_error env i = Some r -> ecol env i a = col r a.
Proof. intros H. unfold ecol. now rewrite H. Qed.
Lemma nth_some_lt {A} (l : list A) i x : nth_error l i = Some x -> (i < length l)%nat.
Proof. intros H. apply nth_error_Some. congruence. Qed.

(* ---------- python vs SQL on scalars of one kind ---------- *)
Lemma val_eq_scalar f w a b : same_kind a b = true -> sql_eq a b = tv_of_bool (val_eq f w a b).
Proof. destruct a, b; simpl; try discriminate; destruct f; auto. Qed.
Lemma cmp_agree w op a b : same_kind a b = true -> py_cmp w op a b = Ok (tv_true (sql_cmp op a b)) /\
                                                   sql_cmp op a b = tv_of_bool (tv_true (sql_cmp op a b)).
Proof.
  intros H. destruct a, b; simpl in H; try discriminate; destruct op; simpl;
    rewrite ?tv_not_bool, ?tv_true_of_bool; auto.
Qed.
Lemma same_kind_sym a b : same_kind a b = same_kind b a.
Proof. now destruct a, b. Qed.
Lemma in_agree w v cs : forallb (same_kind v) cs = true ->
  sql_in v cs = tv_of_bool (existsb (fun c => val_eq eq_fuel w v c) cs).
Proof.
  induction cs as [|c cs IH]; simpl; auto. rewrite andb_true_iff. intros [H1 H2].
  rewrite IH by auto. rewrite (val_eq_scalar eq_fuel w) by auto. apply tv_or_bool.
Qed.

(* ---------- unique keys ---------- *)
Lemma memz_false_filter sc tgt k (l : world) :
  memz k (map o_key l) = false ->
  filter (fun r => r_id r =? k) (map row_of (filter (inst_of sc tgt) l)) = [].
Proof.
  induction l as [|a l IH]; simpl; auto. rewrite orb_false_iff. intros [H1 H2].
  destruct (inst_of sc tgt a); simpl; auto.
  rewrite Z.eqb_sym, H1. auto.
Qed.
Lemma join_rel_unique sc tgt (w : world) k o' :
  nodup_z (map o_key w) = true -> find_obj w k = Some o' -> inst_of sc tgt o' = true ->
  filter (fun r => r_id r =? k) (map row_of (filter (inst_of sc tgt) w)) = [row_of o'].
Proof.
  induction w as [|a w IH]; simpl; try discriminate.
  rewrite andb_true_iff, negb_true_iff. intros [Hm Hn] Hf Hi.
  destruct (o_key a =? k) eqn:E.
  - injection Hf as ->. rewrite Hi. simpl. rewrite E. f_equal.
    apply Z.eqb_eq in E. subst k. now apply memz_false_filter.
  - destruct (inst_of sc tgt a); simpl; [rewrite E|]; auto.
Qed.

Section Agree.
  Variable sc : schema.
  Variable w : world.
  Hypothesis Hnd : nodup_z (map o_key w) = true.

  (* ---------- the one environment a root row extends to along to-one joins ---------- *)
  Definition step_env (env : list row) (j : join) : option (list row) :=
    match j with
    | JRel src a tgt =>
        match ecol env src a with
        | VInt k => match find_obj w k with
                    | Some o' => if inst_of sc tgt o' then Some (env ++ [row_of o']) else None
                    | None => None
                    end
        | _ => None
        end
    | _ => None
    end.
  Fixpoint build_env (env : list row) (js : list join) : option (list row) :=
    match js with
    | [] => Some env
    | j :: js' => match step_env env j with Some env' => build_env env' js' | None => None end
    end.

  Lemma build_env_app env js1 js2 :
    build_env env (js1 ++ js2) = match build_env env js1 with Some e => build_env e js2 | None => None end.
  Proof.
    revert env. induction js1 as [|j js1 IH]; simpl; intros; auto.
    destruct (step_env env j); auto.
  Qed.
  Lemma step_env_shape env j env' : step_env env j = Some env' -> exists r, env' = env ++ [r].
  Proof.
    destruct j; simpl; try discriminate. destruct (ecol env src a); try discriminate.
    destruct (find_obj w z); try discriminate. destruct (inst_of sc tgt o); try discriminate.
    intros H. injection H as <-. eauto.
  Qed.
  Lemma build_env_prefix js : forall env env', build_env env js = Some env' ->
    exists more, env' = env ++ more /\ length more = length js.
  Proof.
    induction js as [|j js IH]; simpl; intros env env' H.
    - injection H as <-. exists []. now rewrite app_nil_r.
    - destruct (step_env env j) as [e1|] eqn:E; try discriminate.
      destruct (step_env_shape _ _ _ E) as [r ->]. destruct (IH _ _ H) as [more [-> Hl]].
      exists (r :: more). rewrite <- app_assoc. simpl. auto.
  Qed.

  Lemma step_join_rows env j env' : step_env env j = Some env' ->
    map (fun r => env ++ [r]) (join_rows (encode sc w) env j) = [env'].
  Proof.
    destruct j; simpl; try discriminate. destruct (ecol env src a) eqn:Ec; try discriminate.
    destruct (find_obj w z) eqn:Ef; try discriminate. destruct (inst_of sc tgt o) eqn:Ei; try discriminate.
    intros H. injection H as <-. unfold encode, instances.
    erewrite filter_ext with (g := fun r => r_id r =? z).
    - rewrite (join_rel_unique sc tgt w z o); auto.
    - intros r. simpl. apply tv_true_of_bool.
  Qed.

  Lemma envs_of_build js : forall envs outs,
    Forall2 (fun env out => build_env env js = Some out) envs outs ->
    envs_of (encode sc w) js envs = outs.
  Proof.
    induction js as [|j js IH]; simpl; intros envs outs H.
    - induction H; auto. injection H as <-. now f_equal.
    - apply IH. induction H as [|env out envs outs H1 H2 IH2]; simpl; auto.
      destruct (step_env env j) as [e1|] eqn:E; try discriminate.
      rewrite (step_join_rows _ _ _ E). simpl. constructor; auto.
  Qed.

  (* the i-th join put the row of the referenced object at position |env0| + i *)
  Lemma build_env_nth js : forall env0 env n src a tgt,
    build_env env0 js = Some env -> nth_error js n = Some (JRel src a tgt) ->
    exists k o', ecol env src a = VInt k /\ find_obj w k = Some o' /\
                 nth_error env (length env0 + n) = Some (row_of o').
  Proof.
    induction js as [|j js IH]; intros env0 env n src a tgt Hb Hn.
    - destruct n; discriminate.
    - simpl in Hb. destruct (step_env env0 j) as [e1|] eqn:E; try discriminate.
      destruct n as [|n]; simpl in Hn.
      + injection Hn as ->. simpl in E.
        destruct (ecol env0 src a) eqn:Ec; try discriminate.
        destruct (find_obj w z) eqn:Ef; try discriminate. destruct (inst_of sc tgt o); try discriminate.
        injection E as <-. destruct (build_env_prefix _ _ _ Hb) as [more [-> _]].
        exists z, o. repeat split; auto.
        * assert (src < length env0)%nat.
          { unfold ecol in Ec. destruct (nth_error env0 src) eqn:En; try discriminate. eapply nth_some_lt; eauto. }
          rewrite <- app_assoc, ecol_app; auto.
        * rewrite Nat.add_0_r, <- app_assoc. rewrite nth_error_app2 by lia. now rewrite Nat.sub_diag.
      + destruct (step_env_shape _ _ _ E) as [r ->].
        destruct (IH _ _ _ _ _ _ Hb Hn) as [k [o' [H1 [H2 H3]]]].
        exists k, o'. repeat split; auto. rewrite app_length in H3. simpl in H3.
        now replace (length env0 + S n)%nat with (length env0 + 1 + n)%nat by lia.
  Qed.

  (* ---------- the translator state while only to-one joins from the root have been made ---------- *)
  Definition inv (st : jm) : Prop :=
    (forall src a i, lookup_path (j_paths st) src a = Some i ->
        (1 <= i)%nat /\ exists tgt, nth_error (j_joins st) (pred i) = Some (JRel src a tgt)) /\
    j_loose st = [] /\ j_invalid st = false.

  Variable o : obj.                                 (* the object of the root row *)
  Definition renv (st : jm) : option (list row) := build_env [row_of o] (j_joins st).

  Lemma lookup_path_cons src a i l s b :
    lookup_path (((src, a), i) :: l) s b = if Nat.eqb src s && (b =? a) then Some i else lookup_path l s b.
  Proof. simpl. now rewrite Nat.eqb_sym. Qed.

  Lemma alias_for_ok st env cur oc a k o' tgt i st' :
    inv st -> renv st = Some env -> nth_error env cur = Some (row_of oc) ->
    assoc a (o_fields oc) = Some (VRef k) -> find_obj w k = Some o' -> inst_of sc tgt o' = true ->
    alias_for st cur a tgt = (i, st') ->
    inv st' /\ exists more, renv st' = Some (env ++ more) /\ nth_error (env ++ more) i = Some (row_of o').
  Proof.
    intros [Hp [Hl Hi]] He Hc Ha Hf Ht. unfold alias_for.
    assert (Hcol : ecol env cur a = VInt k).
    { rewrite (ecol_some _ _ _ _ Hc), col_row_of, Ha. reflexivity. }
    destruct (lookup_path (j_paths st) cur a) as [i0|] eqn:El.
    - intros H. injection H as <- <-. split; [exact (conj Hp (conj Hl Hi))|].
      exists []. rewrite app_nil_r. split; auto.
      destruct (Hp _ _ _ El) as [Hge [tgt' Hn]].
      destruct (build_env_nth _ _ _ _ _ _ _ He Hn) as [k' [o'' [H1 [H2 H3]]]].
      rewrite Hcol in H1. injection H1 as <-. rewrite Hf in H2. injection H2 as <-.
      replace (length [row_of o] + pred i0)%nat with i0 in H3 by (simpl; lia). exact H3.
    - intros H. injection H as <- <-.
      assert (Hlen : length env = S (length (j_joins st))).
      { destruct (build_env_prefix _ _ _ He) as [more [-> Hm]]. simpl. now rewrite Hm. }
      split.
      + split; [|split]; cbn [j_paths j_joins j_loose j_invalid].
        * intros src b i. rewrite lookup_path_cons.
          destruct (Nat.eqb cur src && (b =? a)) eqn:E.
          -- intros H. injection H as <-. apply andb_true_iff in E. destruct E as [E1 E2].
             apply Nat.eqb_eq in E1. apply Z.eqb_eq in E2. subst. split; [lia|].
             exists tgt. cbn [pred]. rewrite nth_error_app2 by lia. now rewrite Nat.sub_diag.
          -- intros H. destruct (Hp _ _ _ H) as [Hge [t Hn]]. split; auto. exists t.
             rewrite nth_error_app1; auto. eapply nth_some_lt; eauto.
        * rewrite Hl. reflexivity.
        * rewrite Hi, Hl. reflexivity.
      + exists [row_of o']. unfold renv in *. cbn [j_joins]. rewrite build_env_app, He. simpl.
        rewrite Hcol, Hf, Ht. split; auto.
        change (nth_error (env ++ [row_of o']) (S (length (j_joins st))) = Some (row_of o')).
        rewrite <- Hlen. rewrite nth_error_app2 by lia. rewrite Nat.sub_diag. reflexivity.
  Qed.

  Lemma twalk_ok chain : forall st env cur ccls oc v,
    inv st -> renv st = Some env -> nth_error env cur = Some (row_of oc) ->
    twalk_data sc w oc ccls chain = Some v ->
    exists i a st' more,
      twalk sc st cur ccls chain = ROk (SCol i a) st' /\ inv st' /\ renv st' = Some (env ++ more) /\
      (i < length (env ++ more))%nat /\ ecol (env ++ more) i a = v /\ walk w oc chain = Ok v /\ scalar_val v = true.
  Proof.
    induction chain as [|a rest IH]; intros st env cur ccls oc v Hinv He Hc Hd; simpl in Hd; try discriminate.
    simpl. destruct (field_kind sc ccls a) as [[|tgt]|] eqn:Ek; try discriminate.
    - destruct (assoc a (o_fields oc)) as [v0|] eqn:Ea; try discriminate.
      destruct rest; try discriminate. destruct (scalar_val v0) eqn:Es; try discriminate.
      injection Hd as <-. exists cur, a, st, []. rewrite app_nil_r.
      split; [reflexivity|]. split; [assumption|]. split; [assumption|].
      split; [eapply nth_some_lt; eauto|].
      split; [rewrite (ecol_some _ _ _ _ Hc), col_row_of, Ea; now apply enc_scalar|].
      split; [|assumption]. reflexivity.
    - destruct (assoc a (o_fields oc)) as [[| | |k|]|] eqn:Ea; try discriminate.
      destruct rest as [|b rest']; try discriminate.
      destruct (find_obj w k) as [o'|] eqn:Ef; try discriminate.
      destruct (inst_of sc tgt o') eqn:Ei; try discriminate.
      destruct (alias_for st cur a tgt) as [i st1] eqn:Eal.
      destruct (alias_for_ok _ _ _ _ _ _ _ _ _ _ Hinv He Hc Ea Ef Ei Eal) as [Hinv1 [more1 [He1 Hn1]]].
      destruct (IH _ _ _ _ _ _ Hinv1 He1 Hn1 Hd) as [i2 [a2 [st2 [more2 [H1 [H2 [H3 [H4 [H5 [H6 H7]]]]]]]]]].
      exists i2, a2, st2, (more1 ++ more2). rewrite app_assoc.
      split; [assumption|]. split; [assumption|]. split; [assumption|]. split; [assumption|].
      split; [assumption|]. split; [|assumption]. exact H6.
  Qed.
