(* C07 -- proofs: on the fragment F07 the statement produced by the translator model, executed by the
   relational-algebra semantics on the encoded world, returns exactly (same rows, same order, same
   multiplicities) what the in-memory meaning of the query returns. *)
From Coq Require Import List ZArith Bool Lia Arith.
From Krrood Require Import Base.Sx Orm.EqlToSqlSpec Orm.SqlAlg Orm.EqlToSql.
Import ListNotations.
Open Scope Z_scope.

(* ---------- small facts ---------- *)
Lemma tv_true_of_bool b : tv_true (tv_of_bool b) = b.
Proof. now destruct b. Qed.
Lemma tv_and_bool a b : tv_and (tv_of_bool a) (tv_of_bool b) = tv_of_bool (a && b).
Proof. now destruct a, b. Qed.
Lemma tv_or_bool a b : tv_or (tv_of_bool a) (tv_of_bool b) = tv_of_bool (a || b).
Proof. now destruct a, b. Qed.
Lemma tv_not_bool a : tv_not (tv_of_bool a) = tv_of_bool (negb a).
Proof. now destruct a. Qed.

Lemma tv_true_and a b : tv_true (tv_and a b) = tv_true a && tv_true b.
Proof. now destruct a, b. Qed.
Lemma tv_true_or a b : tv_true (tv_or a b) = tv_true a || tv_true b.
Proof. now destruct a, b. Qed.

Lemma enc_scalar v : scalar_val v = true -> enc_val v = v.
Proof. now destruct v. Qed.
Lemma enc_nscalar v : nscalar v = true -> enc_val v = v.
Proof. now destruct v. Qed.

Lemma assoc_map_enc a (l : list (Z * val)) :
  assoc a (map (fun p => (fst p, enc_val (snd p))) l) = option_map enc_val (assoc a l).
Proof.
  induction l as [|[k v] l IH]; simpl; auto. destruct (a =? k); auto.
Qed.
Lemma col_row_of o a :
  col (row_of o) a = match assoc a (o_fields o) with Some v => enc_val v | None => VNull end.
Proof. unfold col, row_of; simpl. rewrite assoc_map_enc. now destruct (assoc a (o_fields o)). Qed.

Lemma ecol_app env more i a : (i < length env)%nat -> ecol (env ++ more) i a = ecol env i a.
Proof. intros H. unfold ecol. now rewrite nth_error_app1. Qed.
Lemma ecol_some env i a r : nth_error env i = Some r -> ecol env i a = col r a.
Proof. intros H. unfold ecol. now rewrite H. Qed.
Lemma nth_some_lt {A} (l : list A) i x : nth_error l i = Some x -> (i < length l)%nat.
Proof. intros H. apply nth_error_Some. congruence. Qed.

(* ---------- python vs SQL on scalars of one kind ---------- *)
Lemma val_eq_scalar f w a b : same_kind a b = true -> sql_eq a b = tv_of_bool (val_eq f w a b).
Proof. destruct a, b; simpl; try discriminate; destruct f; auto. Qed.
Lemma cmp_agree w op a b : ord_kind a b = true -> eqne op = false ->
  py_cmp w op a b = Ok (tv_true (sql_cmp op a b)).
Proof.
  intros H Ho. destruct a as [|x|x| |], b as [|y|y| |]; simpl in H; try discriminate; destruct op; try discriminate; simpl;
    rewrite ?tv_not_bool, ?tv_true_of_bool; auto;
    apply negb_true_iff in H; apply orb_false_iff in H; destruct H as [H1 H2];
    rewrite ?H1, ?H2; simpl; rewrite ?tv_not_bool, ?tv_true_of_bool; auto.
Qed.
Lemma same_kind_sym a b : same_kind a b = same_kind b a.
Proof. now destruct a, b. Qed.
Lemma in_agree w v cs : forallb (same_kind v) cs = true ->
  sql_in v cs = tv_of_bool (existsb (fun c => val_eq eq_fuel w v c) cs).
Proof.
  induction cs as [|c cs IH]; simpl; auto. rewrite andb_true_iff. intros [H1 H2].
  rewrite IH by auto. rewrite (val_eq_scalar eq_fuel w) by auto. apply tv_or_bool.
Qed.

(* None included: Python's == on column values is SQL's IS; = agrees with it whenever the right side is not None *)
Lemma nullsafe_val_eq f w a b : nscalar a = true -> nscalar b = true -> compat a b = true ->
  nullsafe_eq a b = val_eq f w a b.
Proof. destruct a, b; simpl; try discriminate; intros; destruct f; auto; now rewrite tv_true_of_bool. Qed.
Lemma sql_eq_true f w a b : nscalar a = true -> scalar_val b = true -> compat a b = true ->
  tv_true (sql_eq a b) = val_eq f w a b.
Proof. destruct a, b; simpl; try discriminate; intros; destruct f; auto; now rewrite tv_true_of_bool. Qed.
Lemma in_sound w a cs : nscalar a = true -> forallb scalar_val cs = true -> forallb (compat a) cs = true ->
  tv_true (sql_in a cs) = existsb (fun c => val_eq eq_fuel w a c) cs.
Proof.
  intros Ha. induction cs as [|c cs IH]; simpl; auto. rewrite !andb_true_iff. intros [S1 S2] [C1 C2].
  rewrite tv_true_or, IH by auto. now rewrite (sql_eq_true eq_fuel w).
Qed.
Lemma truth_sound a : nscalar a = true ->
  tv_true (match a with
           | VInt z => tv_of_bool (negb (z =? 0))
           | VStr s => tv_of_bool (negb (zlist_eqb s []))
           | VNull => TU
           | _ => TF
           end) = truthy a.
Proof. destruct a; simpl; try discriminate; intros; now rewrite ?tv_true_of_bool. Qed.

(* OperatorMapper.map_comparison_operator on a column and (a column or a literal): the emitted predicate holds exactly
   when Python's comparison holds *)
Lemma mk_cmp_sound w op ea eb a b :
  is_col ea = true -> (is_col eb = true \/ eb = SConst b) ->
  nscalar a = true -> nscalar b = true -> cmp_data (eqne op) a b = true -> sx_bad eb = false ->
  exists p, mk_cmp op ea eb = Some p /\ pred_bad p = false /\
            forall env, eval_sx env ea = a -> eval_sx env eb = b -> py_cmp w op a b = Ok (tv_true (eval_pred env p)).
Proof.
  intros Hca Hcb Ha Hb Hd Hbad. destruct ea as [ia aa|]; try discriminate.
  assert (ORD : forall op', eqne op' = false -> ord_kind a b = true ->
            forall env eb', eval_sx env (SCol ia aa) = a -> eval_sx env eb' = b ->
            py_cmp w op' a b = Ok (tv_true (eval_pred env (SCmp op' (SCol ia aa) eb')))).
  { intros op' Ho Hk env eb' E1 E2. cbn [eval_pred]. rewrite E1, E2. apply (cmp_agree w op' a b Hk Ho). }
  destruct Hcb as [Hcb | ->].
  - destruct eb as [ib ab|]; try discriminate.
    destruct op; simpl in Hd; cbn [mk_cmp is_col andb]; eexists; (split; [reflexivity|]); (split; [reflexivity|]);
      intros env E1 E2; try (now apply ORD).
    + cbn [eval_pred]. rewrite E1, E2, xorb_false_l, tv_true_of_bool. simpl py_cmp.
      now rewrite (nullsafe_val_eq eq_fuel w a b).
    + cbn [eval_pred]. rewrite E1, E2, xorb_true_l, tv_true_of_bool. simpl py_cmp.
      now rewrite (nullsafe_val_eq eq_fuel w a b).
  - destruct op; simpl in Hd.
    + (* == literal *)
      destruct b; try discriminate; cbn [mk_cmp is_col andb]; eexists; (split; [reflexivity|]); (split; [reflexivity|]);
        intros env E1 E2; cbn [eval_pred]; rewrite E1; cbn [eval_sx]; simpl py_cmp.
      * destruct a; try discriminate; reflexivity.
      * now rewrite (sql_eq_true eq_fuel w).
      * now rewrite (sql_eq_true eq_fuel w).
    + (* != literal *)
      cbn [mk_cmp]; eexists; (split; [reflexivity|]); (split; [simpl; exact Hbad|]).
      intros env E1 E2. cbn [eval_pred]. rewrite E1, E2, xorb_true_l, tv_true_of_bool. simpl py_cmp.
      now rewrite (nullsafe_val_eq eq_fuel w a b).
    + destruct b; try (destruct a; discriminate); cbn [mk_cmp]; eexists; (split; [reflexivity|]); (split; [reflexivity|]);
        intros env E1 E2; now apply ORD.
    + destruct b; try (destruct a; discriminate); cbn [mk_cmp]; eexists; (split; [reflexivity|]); (split; [reflexivity|]);
        intros env E1 E2; now apply ORD.
    + destruct b; try (destruct a; discriminate); cbn [mk_cmp]; eexists; (split; [reflexivity|]); (split; [reflexivity|]);
        intros env E1 E2; now apply ORD.
    + destruct b; try (destruct a; discriminate); cbn [mk_cmp]; eexists; (split; [reflexivity|]); (split; [reflexivity|]);
        intros env E1 E2; now apply ORD.
Qed.

(* ---------- unique keys ---------- *)
Lemma memz_false_filter sc tgt k (l : world) :
  memz k (map o_key l) = false ->
  filter (fun r => r_id r =? k) (map row_of (filter (inst_of sc tgt) l)) = [].
Proof.
  induction l as [|a l IH]; simpl; auto. rewrite orb_false_iff. intros [H1 H2].
  destruct (inst_of sc tgt a); simpl; auto.
  rewrite Z.eqb_sym, H1. auto.
Qed.
Lemma join_rel_unique sc tgt (w : world) k o' :
  nodup_z (map o_key w) = true -> find_obj w k = Some o' -> inst_of sc tgt o' = true ->
  filter (fun r => r_id r =? k) (map row_of (filter (inst_of sc tgt) w)) = [row_of o'].
Proof.
  induction w as [|a w IH]; simpl; try discriminate.
  rewrite andb_true_iff, negb_true_iff. intros [Hm Hn] Hf Hi.
  destruct (o_key a =? k) eqn:E.
  - injection Hf as ->. rewrite Hi. simpl. rewrite E. f_equal.
    apply Z.eqb_eq in E. subst k. now apply memz_false_filter.
  - destruct (inst_of sc tgt a); simpl; [rewrite E|]; auto.
Qed.

Section Agree.
  Variable sc : schema.
  Variable w : world.
  Hypothesis Hnd : nodup_z (map o_key w) = true.
  Variable t : obj.                  (* the object bound to the other variable (two-variable queries); unused otherwise *)

  Definition is_jrel (j : join) : bool := match j with JRel _ _ _ _ => true | _ => false end.

  (* ---------- the one environment a root row (and a row of the joined table) extends to along to-one joins ---------- *)
  Definition step_env (env : list row) (j : join) : option (list row) :=
    match j with
    | JRel _ src a tgt =>
        match ecol env src a with
        | VInt k => match find_obj w k with
                    | Some o' => if inst_of sc tgt o' then Some (env ++ [row_of o']) else None
                    | None => None
                    end
        | _ => None
        end
    | JCross _ _ | JEq _ _ _ _ => Some (env ++ [row_of t])
    end.
  Fixpoint build_env (env : list row) (js : list join) : option (list row) :=
    match js with
    | [] => Some env
    | j :: js' => match step_env env j with Some env' => build_env env' js' | None => None end
    end.

  Lemma build_env_app env js1 js2 :
    build_env env (js1 ++ js2) = match build_env env js1 with Some e => build_env e js2 | None => None end.
  Proof.
    revert env. induction js1 as [|j js1 IH]; simpl; intros; auto.
    destruct (step_env env j); auto.
  Qed.
  Lemma step_env_shape env j env' : step_env env j = Some env' -> exists r, env' = env ++ [r].
  Proof.
    destruct j as [oo src a tgt|oo c|c tfk an afk]; simpl; try (intros H; injection H as <-; eauto; fail).
    destruct (ecol env src a); try discriminate.
    destruct (find_obj w z) as [ob|]; try discriminate. destruct (inst_of sc tgt ob); try discriminate.
    intros H. injection H as <-. eauto.
  Qed.
  Lemma build_env_prefix js : forall env env', build_env env js = Some env' ->
    exists more, env' = env ++ more /\ length more = length js.
  Proof.
    induction js as [|j js IH]; simpl; intros env env' H.
    - injection H as <-. exists []. now rewrite app_nil_r.
    - destruct (step_env env j) as [e1|] eqn:E; try discriminate.
      destruct (step_env_shape _ _ _ E) as [r ->]. destruct (IH _ _ H) as [more [-> Hl]].
      exists (r :: more). rewrite <- app_assoc. simpl. auto.
  Qed.

  Lemma step_join_rows env j env' : is_jrel j = true -> step_env env j = Some env' ->
    map (fun r => env ++ [r]) (join_rows (encode sc w) env j) = [env'].
  Proof.
    destruct j as [oo src a tgt|oo c|c tfk an afk]; simpl; try discriminate. intros _.
    destruct (ecol env src a) eqn:Ec; try discriminate.
    destruct (find_obj w z) as [ob|] eqn:Ef; try discriminate. destruct (inst_of sc tgt ob) eqn:Ei; try discriminate.
    intros H. injection H as <-. unfold encode, instances.
    erewrite filter_ext with (g := fun r => r_id r =? z).
    - rewrite (join_rel_unique sc tgt w z ob); auto. now destruct oo.
    - intros r. simpl. apply tv_true_of_bool.
  Qed.

  Lemma envs_of_build js : forallb is_jrel js = true -> forall envs outs,
    Forall2 (fun env out => build_env env js = Some out) envs outs ->
    envs_of (encode sc w) js envs = outs.
  Proof.
    induction js as [|j js IH]; simpl; intros Hj envs outs H.
    - induction H; auto. injection H as <-. now f_equal.
    - apply andb_true_iff in Hj. destruct Hj as [Hj1 Hj2].
      apply IH; auto. induction H as [|env out envs outs H1 H2 IH2]; simpl; auto.
      destruct (step_env env j) as [e1|] eqn:E; try discriminate.
      rewrite (step_join_rows _ _ _ Hj1 E). simpl. constructor; auto.
  Qed.

  (* the i-th join put the row of the referenced object at position |env0| + i *)
  Lemma build_env_nth js : forall env0 env n oo src a tgt,
    build_env env0 js = Some env -> nth_error js n = Some (JRel oo src a tgt) ->
    exists k o', ecol env src a = VInt k /\ find_obj w k = Some o' /\
                 nth_error env (length env0 + n) = Some (row_of o').
  Proof.
    induction js as [|j js IH]; intros env0 env n oo src a tgt Hb Hn.
    - destruct n; discriminate.
    - simpl in Hb. destruct (step_env env0 j) as [e1|] eqn:E; try discriminate.
      destruct n as [|n]; simpl in Hn.
      + injection Hn as ->. simpl in E.
        destruct (ecol env0 src a) eqn:Ec; try discriminate.
        destruct (find_obj w z) as [ob|] eqn:Ef; try discriminate. destruct (inst_of sc tgt ob); try discriminate.
        injection E as <-. destruct (build_env_prefix _ _ _ Hb) as [more [-> _]].
        exists z, ob. repeat split; auto.
        * assert (src < length env0)%nat.
          { unfold ecol in Ec. destruct (nth_error env0 src) eqn:En; try discriminate. eapply nth_some_lt; eauto. }
          rewrite <- app_assoc, ecol_app; auto.
        * rewrite Nat.add_0_r, <- app_assoc. rewrite nth_error_app2 by lia. now rewrite Nat.sub_diag.
      + destruct (step_env_shape _ _ _ E) as [r ->].
        destruct (IH _ _ _ _ _ _ _ Hb Hn) as [k [o' [H1 [H2 H3]]]].
        exists k, o'. repeat split; auto. rewrite app_length in H3. simpl in H3.
        now replace (length env0 + S n)%nat with (length env0 + 1 + n)%nat by lia.
  Qed.

  (* ---------- the translator state while only to-one joins from the root have been made ---------- *)
  Definition inv (st : jm) : Prop :=
    forall src a i, lookup_path (j_paths st) src a = Some i ->
        (1 <= i)%nat /\ exists oo tgt, nth_error (j_joins st) (pred i) = Some (JRel oo src a tgt).

  Variable o : obj.                                 (* the object of the root row *)
  Definition renv (st : jm) : option (list row) := build_env [row_of o] (j_joins st).

  Lemma lookup_path_cons src a i l s b :
    lookup_path (((src, a), i) :: l) s b = if Nat.eqb src s && (b =? a) then Some i else lookup_path l s b.
  Proof. simpl. now rewrite Nat.eqb_sym. Qed.

  Lemma alias_for_ok st env cur oc a k o' tgt i st' :
    inv st -> renv st = Some env -> nth_error env cur = Some (row_of oc) ->
    assoc a (o_fields oc) = Some (VRef k) -> find_obj w k = Some o' -> inst_of sc tgt o' = true ->
    alias_for st cur a tgt = (i, st') ->
    inv st' /\ exists more, renv st' = Some (env ++ more) /\ nth_error (env ++ more) i = Some (row_of o').
  Proof.
    intros Hp He Hc Ha Hf Ht. unfold alias_for.
    assert (Hcol : ecol env cur a = VInt k).
    { rewrite (ecol_some _ _ _ _ Hc), col_row_of, Ha. reflexivity. }
    destruct (lookup_path (j_paths st) cur a) as [i0|] eqn:El.
    - intros H. injection H as <- <-. split; [exact Hp|].
      exists []. rewrite app_nil_r. split; auto.
      destruct (Hp _ _ _ El) as [Hge [oo' [tgt' Hn]]].
      destruct (build_env_nth _ _ _ _ _ _ _ _ He Hn) as [k' [o'' [H1 [H2 H3]]]].
      rewrite Hcol in H1. injection H1 as <-. rewrite Hf in H2. injection H2 as <-.
      replace (length [row_of o] + pred i0)%nat with i0 in H3 by (simpl; lia). exact H3.
    - intros H. injection H as <- <-.
      assert (Hlen : length env = S (length (j_joins st))).
      { destruct (build_env_prefix _ _ _ He) as [more [-> Hm]]. simpl. now rewrite Hm. }
      split.
      + unfold inv; cbn [j_paths j_joins].
        * intros src b i. rewrite lookup_path_cons.
          destruct (Nat.eqb cur src && (b =? a)) eqn:E.
          -- intros H. injection H as <-. apply andb_true_iff in E. destruct E as [E1 E2].
             apply Nat.eqb_eq in E1. apply Z.eqb_eq in E2. subst. split; [lia|].
             exists (j_io st), tgt. cbn [pred]. rewrite nth_error_app2 by lia. now rewrite Nat.sub_diag.
          -- intros H. destruct (Hp _ _ _ H) as [Hge [oo' [t' Hn]]]. split; auto. exists oo', t'.
             rewrite nth_error_app1; auto. eapply nth_some_lt; eauto.
      + exists [row_of o']. unfold renv in *. cbn [j_joins]. rewrite build_env_app, He. simpl.
        rewrite Hcol, Hf, Ht. split; auto.
        change (nth_error (env ++ [row_of o']) (S (length (j_joins st))) = Some (row_of o')).
        rewrite <- Hlen. rewrite nth_error_app2 by lia. rewrite Nat.sub_diag. reflexivity.
  Qed.

  Lemma twalk_ok chain : forall st env cur ccls oc v,
    inv st -> renv st = Some env -> nth_error env cur = Some (row_of oc) ->
    twalk_data sc w oc ccls chain = Some v ->
    exists i a st' more,
      twalk sc st cur ccls chain = ROk (SCol i a) st' /\ inv st' /\ renv st' = Some (env ++ more) /\
      (i < length (env ++ more))%nat /\ ecol (env ++ more) i a = v /\ walk w oc chain = Ok v /\ nscalar v = true.
  Proof.
    induction chain as [|a rest IH]; intros st env cur ccls oc v Hinv He Hc Hd; simpl in Hd; try discriminate.
    simpl. destruct (field_kind sc ccls a) as [[|tgt]|] eqn:Ek; try discriminate.
    - destruct (assoc a (o_fields oc)) as [v0|] eqn:Ea; try discriminate.
      destruct rest; try discriminate. destruct (nscalar v0) eqn:Es; try discriminate.
      injection Hd as <-. exists cur, a, st, []. rewrite app_nil_r.
      split; [reflexivity|]. split; [assumption|]. split; [assumption|].
      split; [eapply nth_some_lt; eauto|].
      split; [rewrite (ecol_some _ _ _ _ Hc), col_row_of, Ea; now apply enc_nscalar|].
      split; [|assumption]. reflexivity.
    - destruct (assoc a (o_fields oc)) as [[| | |k|]|] eqn:Ea; try discriminate.
      destruct rest as [|b rest']; try discriminate.
      destruct (find_obj w k) as [o'|] eqn:Ef; try discriminate.
      destruct (inst_of sc tgt o') eqn:Ei; try discriminate.
      destruct (alias_for st cur a tgt) as [i st1] eqn:Eal.
      destruct (alias_for_ok _ _ _ _ _ _ _ _ _ _ Hinv He Hc Ea Ef Ei Eal) as [Hinv1 [more1 [He1 Hn1]]].
      destruct (IH _ _ _ _ _ _ Hinv1 He1 Hn1 Hd) as [i2 [a2 [st2 [more2 [H1 [H2 [H3 [H4 [H5 [H6 H7]]]]]]]]]].
      exists i2, a2, st2, (more1 ++ more2). rewrite app_assoc.
      split; [assumption|]. split; [assumption|]. split; [assumption|]. split; [assumption|].
      split; [assumption|]. split; [|assumption]. exact H6.
  Qed.

  Variables sel root : Z.
  Variable vars : list (Z * Z).      (* the query's variables: the selected one has type root *)
  Hypothesis Hvars : assoc sel vars = Some root.
  Variable bnd : binding.            (* the binding under which the condition is evaluated in memory *)
  Hypothesis Hbnd : assoc sel bnd = Some o.

  Lemma renv_root st env : renv st = Some env -> nth_error env 0 = Some (row_of o).
  Proof. intros H. destruct (build_env_prefix _ _ _ H) as [more [-> _]]. reflexivity. Qed.

  Lemma shape_attr v ch : operand_shape sc sel root (OAttr v ch) = true ->
    (v =? sel) = true /\ chain_kind sc root ch = Some FScalar.
  Proof.
    simpl. rewrite andb_true_iff. intros [H1 H2]. split; auto.
    destruct (chain_kind sc root ch) as [[|]|]; try discriminate. reflexivity.
  Qed.

  Lemma toperand_ok x : forall st env v,
    inv st -> renv st = Some env -> operand_shape sc sel root x = true -> operand_data sc w sel root o x = Some v ->
    exists e st' more,
      toperand sc sel root st x = ROk e st' /\ inv st' /\ renv st' = Some (env ++ more) /\
      (forall more', eval_sx ((env ++ more) ++ more') e = v) /\ eval_operand w bnd x = Ok v /\
      nscalar v = true /\ sx_bad e = false /\ match x with OAttr _ _ => is_col e = true | _ => e = SConst v end.
  Proof.
    intros st env v Hinv He Hs Hd. destruct x as [x ch| c | |]; try discriminate.
    - destruct (shape_attr _ _ Hs) as [Hv _]. cbn [operand_data] in Hd. rewrite Hv in Hd.
      unfold toperand, tattr. rewrite Hv. assert (Hx : x = sel) by (now apply Z.eqb_eq). subst x.
      destruct (twalk_ok _ _ _ _ _ _ _ Hinv He (renv_root _ _ He) Hd)
        as [i [a [st' [more [H1 [H2 [H3 [H4 [H5 [H6 H7]]]]]]]]]].
      exists (SCol i a), st', more. rewrite H1.
      split; [reflexivity|]. split; [assumption|]. split; [assumption|].
      split; [intros more'; simpl; rewrite ecol_app; auto|].
      split; [simpl; rewrite Hbnd; exact H6|]. split; [assumption|]. split; reflexivity.
    - simpl in Hs. simpl in Hd. destruct (nscalar c) eqn:Es; try discriminate. injection Hd as <-.
      exists (SConst c), st, []. rewrite app_nil_r.
      split; [reflexivity|]. split; [assumption|]. split; [assumption|].
      split; [reflexivity|]. split; [reflexivity|]. split; [assumption|].
      split; [now destruct c|reflexivity].
  Qed.

  Lemma teqjoin_none io st op v ch r :
    operand_shape sc sel root (OAttr v ch) = true -> operand_shape sc sel root r = true ->
    teqjoin sc vars sel root io st op (OAttr v ch) r = None.
  Proof.
    intros H1 H2. destruct (shape_attr _ _ H1) as [E1 _].
    destruct op; try reflexivity; try (destruct ch as [|? [|]]; reflexivity).
    destruct ch as [|a1 [|]]; try reflexivity. destruct r as [v2 [|a2 [|]]| | |]; try reflexivity.
    destruct (shape_attr _ _ H2) as [E2 _].
    apply Z.eqb_eq in E1, E2. subst. cbn [teqjoin]. now rewrite Z.eqb_refl.
  Qed.

  Lemma shape_not_rel x : operand_shape sc sel root x = true -> is_rel sc vars x = false.
  Proof.
    destruct x as [v ch| | |]; auto. intros H. destruct (shape_attr _ _ H) as [E1 E2].
    apply Z.eqb_eq in E1. subst v. unfold is_rel. now rewrite Hvars, E2.
  Qed.
  Lemma rel_check_shape b l r :
    operand_shape sc sel root l = true -> operand_shape sc sel root r = true -> rel_check sc vars b l r = true.
  Proof. intros H1 H2. unfold rel_check. now rewrite (shape_not_rel _ H1), (shape_not_rel _ H2). Qed.

  Lemma enum_col_shape x : operand_shape sc sel root x = true -> enum_col sc vars x = enum_op sc root x.
  Proof.
    destruct x as [v ch| | |]; auto. intros H. destruct (shape_attr _ _ H) as [E1 _].
    apply Z.eqb_eq in E1. subst v. unfold enum_col, enum_op. now rewrite Hvars.
  Qed.
  Lemma enum_check_shape op l r :
    operand_shape sc sel root l = true -> operand_shape sc sel root r = true ->
    (eqne op || negb (enum_op sc root l || enum_op sc root r)) = true ->
    negb (eqne op) && (enum_col sc vars l || enum_col sc vars r) = false.
  Proof.
    intros H1 H2 H. rewrite (enum_col_shape _ H1), (enum_col_shape _ H2).
    destruct (eqne op); simpl in *; auto. now apply negb_true_iff in H.
  Qed.

  Lemma mismatch_shape l r :
    operand_shape sc sel root l = true -> operand_shape sc sel root r = true -> negb (mismatch_op sc root l r) = true ->
    (exists v ch, l = OAttr v ch) ->
    cmp_mismatch sc vars l r = false.
  Proof.
    intros Hl Hr Hm [v [ch ->]]. destruct (shape_attr _ _ Hl) as [E1 _]. apply Z.eqb_eq in E1. subst v.
    apply negb_true_iff in Hm. unfold cmp_mismatch, lit_mismatch, col_mismatch, operand_mismatch. rewrite Hvars.
    destruct r as [v2 ch2|c| |]; simpl in *; auto.
    - destruct (shape_attr _ _ Hr) as [E2 _]. apply Z.eqb_eq in E2. subst v2. now rewrite Hvars, Hm.
    - now rewrite Hm.
  Qed.
  Lemma mismatch_list_shape v ch cs :
    operand_shape sc sel root (OAttr v ch) = true -> negb (existsb (mismatch_lit sc root ch) cs) = true ->
    existsb (operand_mismatch sc vars (OAttr v ch)) cs = false.
  Proof.
    intros Hl Hm. destruct (shape_attr _ _ Hl) as [E1 _]. apply Z.eqb_eq in E1. subst v.
    apply negb_true_iff in Hm. unfold operand_mismatch. now rewrite Hvars.
  Qed.
  Lemma mk_in_scalars a cs : forallb scalar_val cs = true -> mk_in a cs = SIn a cs.
  Proof.
    intros H. unfold mk_in. assert (E : existsb is_null cs = false).
    { induction cs as [|c cs IH]; simpl in *; auto. apply andb_true_iff in H. destruct H as [H1 H2].
      rewrite IH by auto. now destruct c. }
    now rewrite E.
  Qed.

  Lemma unbindable_scalars cs : forallb scalar_val cs = true -> existsb unbindable cs = false.
  Proof.
    induction cs as [|c cs IH]; simpl; auto. rewrite andb_true_iff. intros [H1 H2].
    rewrite IH by auto. now destruct c.
  Qed.

  Lemma tcond_ok c : forall io st env,
    inv st -> renv st = Some env -> cond_shape sc sel root c = true -> cond_ok sc w sel root o c = true ->
    exists p st' more b,
      tcond sc vars sel root io st c = ROk (Some p) st' /\ inv st' /\ renv st' = Some (env ++ more) /\
      eval_cond w bnd c = Ok b /\ (forall more', tv_true (eval_pred ((env ++ more) ++ more') p) = b) /\
      pred_bad p = false.
  Proof.
    induction c as [op l r|ct it|p IHp q IHq|p IHp q IHq|p _|x|cs0 it0|]; intros io st env Hinv He Hs Hd;
      cbn [cond_shape cond_ok] in Hs, Hd; try discriminate.
    - (* comparison *)
      destruct l as [v ch| | |]; try discriminate.
      apply andb_true_iff in Hs. destruct Hs as [Hs Hmm]. apply andb_true_iff in Hs. destruct Hs as [Hs Hen].
      apply andb_true_iff in Hs. destruct Hs as [Hs _].
      apply andb_true_iff in Hs. destruct Hs as [Hs1 Hs2].
      destruct (operand_data sc w sel root o (OAttr v ch)) as [a|] eqn:Ea; try discriminate.
      destruct (operand_data sc w sel root o r) as [b|] eqn:Eb; try discriminate.
      destruct (toperand_ok _ (set_io io st) _ _ Hinv He Hs1 Ea) as [e1 [st1 [m1 [T1 [I1 [R1 [V1 [P1 [S1 [B1 C1]]]]]]]]]].
      destruct (toperand_ok _ _ _ _ I1 R1 Hs2 Eb) as [e2 [st2 [m2 [T2 [I2 [R2 [V2 [P2 [S2 [B2 C2]]]]]]]]]].
      assert (C2' : is_col e2 = true \/ e2 = SConst b) by (destruct r; auto).
      destruct (mk_cmp_sound w op e1 e2 a b C1 C2' S1 S2 Hd B2) as [p [M [PB PV]]].
      exists p, st2, (m1 ++ m2), (tv_true (eval_pred (((env ++ m1) ++ m2)) p)).
      cbn [tcond]. unfold tcmp. rewrite (teqjoin_none _ _ _ _ _ _ Hs1 Hs2), (rel_check_shape _ _ _ Hs1 Hs2). cbn [negb].
      rewrite T1, T2, (mismatch_shape _ _ Hs1 Hs2 Hmm (ex_intro _ v (ex_intro _ ch eq_refl))), (enum_check_shape _ _ _ Hs1 Hs2 Hen), M.
      rewrite app_assoc.
      assert (PV' : forall more', py_cmp w op a b = Ok (tv_true (eval_pred (((env ++ m1) ++ m2) ++ more') p))).
      { intros more'. apply PV; [rewrite <- (app_assoc (env ++ m1) m2 more'); apply V1 | apply V2]. }
      split; [reflexivity|]. split; [assumption|]. split; [assumption|].
      split; [cbn [eval_cond]; rewrite P1, P2; specialize (PV' []); now rewrite app_nil_r in PV'|].
      split; [|assumption].
      intros more'. assert (Q := PV' more'). assert (Q0 := PV' []). rewrite app_nil_r in Q0. congruence.
    - (* membership in a literal list *)
      destruct ct as [| |cs|]; try discriminate. destruct it as [v ch| | |]; try discriminate.
      apply andb_true_iff in Hs. destruct Hs as [Hs Hmm]. apply andb_true_iff in Hs. destruct Hs as [Hs1 Hs2].
      destruct (operand_data sc w sel root o (OAttr v ch)) as [a|] eqn:Ea; try discriminate.
      destruct (toperand_ok _ (set_io io st) _ _ Hinv He Hs1 Ea) as [e1 [st1 [m1 [T1 [I1 [R1 [V1 [P1 [S1 [B1 N1]]]]]]]]]].
      exists (SIn e1 cs), st1, m1, (existsb (fun c => val_eq eq_fuel w a c) cs).
      cbn [tcond]. unfold tcontains. rewrite (shape_not_rel _ Hs1). cbn [is_rel orb]. cbn [toperand] in T1. rewrite T1.
      rewrite (mismatch_list_shape _ _ _ Hs1 Hmm), (mk_in_scalars _ _ Hs2).
      split; [reflexivity|]. split; [assumption|]. split; [assumption|].
      split; [cbn [eval_cond eval_operand]; cbn [eval_operand] in P1; rewrite P1; reflexivity|].
      split; [|simpl; now rewrite B1, unbindable_scalars].
      intros more'. cbn [eval_pred]. rewrite V1. now apply in_sound.
    - (* and *)
      apply andb_true_iff in Hs, Hd. destruct Hs as [Hs1 Hs2]. destruct Hd as [Hd1 Hd2].
      destruct (IHp io _ _ Hinv He Hs1 Hd1) as [p1 [st1 [m1 [b1 [T1 [I1 [R1 [E1 [V1 B1]]]]]]]]].
      destruct (IHq io _ _ I1 R1 Hs2 Hd2) as [p2 [st2 [m2 [b2 [T2 [I2 [R2 [E2 [V2 B2]]]]]]]]].
      exists (SAnd p1 p2), st2, (m1 ++ m2), (b1 && b2). cbn [tcond]. rewrite T1, T2. rewrite app_assoc.
      split; [reflexivity|]. split; [assumption|]. split; [assumption|].
      split; [cbn [eval_cond]; rewrite E1; destruct b1; simpl; auto|].
      split; [|simpl; now rewrite B1, B2].
      intros more'. cbn [eval_pred]. rewrite tv_true_and, V2, <- (app_assoc (env ++ m1) m2 more'), V1. reflexivity.
    - (* or *)
      apply andb_true_iff in Hs, Hd. destruct Hs as [Hs1 Hs2]. destruct Hd as [Hd1 Hd2].
      destruct (IHp true _ _ Hinv He Hs1 Hd1) as [p1 [st1 [m1 [b1 [T1 [I1 [R1 [E1 [V1 B1]]]]]]]]].
      destruct (IHq true _ _ I1 R1 Hs2 Hd2) as [p2 [st2 [m2 [b2 [T2 [I2 [R2 [E2 [V2 B2]]]]]]]]].
      exists (SOr p1 p2), st2, (m1 ++ m2), (b1 || b2). cbn [tcond]. rewrite T1, T2. rewrite app_assoc.
      split; [reflexivity|]. split; [assumption|]. split; [assumption|].
      split; [cbn [eval_cond]; rewrite E1; destruct b1; simpl; auto|].
      split; [|simpl; now rewrite B1, B2].
      intros more'. cbn [eval_pred]. rewrite tv_true_or, V2, <- (app_assoc (env ++ m1) m2 more'), V1. reflexivity.
    - (* a column as condition *)
      destruct x as [v ch| | |]; try discriminate.
      destruct (operand_data sc w sel root o (OAttr v ch)) as [a|] eqn:Ea; try discriminate.
      destruct (toperand_ok _ (set_io io st) _ _ Hinv He Hs Ea) as [e1 [st1 [m1 [T1 [I1 [R1 [V1 [P1 [S1 [B1 N1]]]]]]]]]].
      exists (STruth e1), st1, m1, (truthy a).
      cbn [tcond]. cbn [toperand] in T1. rewrite T1.
      split; [reflexivity|]. split; [assumption|]. split; [assumption|].
      split; [cbn [eval_cond]; rewrite P1; reflexivity|].
      split; [|exact B1].
      intros more'. cbn [eval_pred]. rewrite V1. now apply truth_sound.
    - (* membership in a literal set *)
      destruct it0 as [v ch| | |]; try discriminate.
      apply andb_true_iff in Hs. destruct Hs as [Hs Hmm]. apply andb_true_iff in Hs. destruct Hs as [Hs1 Hs2].
      destruct (operand_data sc w sel root o (OAttr v ch)) as [a|] eqn:Ea; try discriminate.
      destruct (toperand_ok _ (set_io io st) _ _ Hinv He Hs1 Ea) as [e1 [st1 [m1 [T1 [I1 [R1 [V1 [P1 [S1 [B1 N1]]]]]]]]]].
      exists (SIn e1 cs0), st1, m1, (existsb (fun c => val_eq eq_fuel w a c) cs0).
      cbn [tcond]. unfold tcontains. rewrite (shape_not_rel _ Hs1). cbn [is_rel orb]. cbn [toperand] in T1. rewrite T1.
      rewrite (mismatch_list_shape _ _ _ Hs1 Hmm), (mk_in_scalars _ _ Hs2).
      split; [reflexivity|]. split; [assumption|]. split; [assumption|].
      split; [cbn [eval_cond eval_operand]; cbn [eval_operand] in P1; rewrite P1; reflexivity|].
      split; [|simpl; now rewrite B1, unbindable_scalars].
      intros more'. cbn [eval_pred]. rewrite V1. now apply in_sound.
  Qed.
End Agree.

(* ---------- the selected type has no instance: the statement still executes, both sides are empty ---------- *)
Lemma twalk_safe sc chain : forall st cur ccls e st',
  twalk sc st cur ccls chain = ROk e st' -> sx_bad e = false.
Proof.
  induction chain as [|a rest IH]; intros st cur ccls e st' H; simpl in H; try discriminate.
  destruct (field_kind sc ccls a) as [[|tgt]|]; try discriminate.
  - destruct rest; try discriminate. now injection H as <- <-.
  - destruct rest as [|b rest'].
    + now injection H as <- <-.
    + destruct (alias_for st cur a tgt) as [i st1] eqn:E. eapply IH; exact H.
Qed.
Section Syn.
  Variable sc : schema.
  Variables sel root : Z.
  Variable vars : list (Z * Z).
  Hypothesis Hvars : assoc sel vars = Some root.

Lemma toperand_safe x st e st' :
  operand_shape sc sel root x = true -> toperand sc sel root st x = ROk e st' -> sx_bad e = false.
Proof.
  intros Hx H. destruct x as [v ch|c| |]; try discriminate.
  - unfold toperand, tattr in H. destruct (v =? sel); try discriminate. eapply twalk_safe; eauto.
  - simpl in H, Hx. injection H as <- <-. now destruct c.
Qed.
Lemma mk_cmp_bad op a b p : mk_cmp op a b = Some p -> sx_bad a = false -> sx_bad b = false -> pred_bad p = false.
Proof.
  intros H Ba Bb. unfold mk_cmp in H.
  destruct op; try destruct (is_col a && is_col b); destruct b as [|[]]; try discriminate;
    injection H as <-; simpl; rewrite ?Ba, ?Bb; auto.
Qed.
Lemma tcond_safe c : forall io st p st',
  cond_shape sc sel root c = true -> tcond sc vars sel root io st c = ROk p st' ->
  forall p0, p = Some p0 -> pred_bad p0 = false.
Proof.
  induction c as [op l r|ct it|p1 IH1 q1 IH2|p1 IH1 q1 IH2|p1 _|x|cs0 it0|]; intros io st p st' Hc H;
    cbn [cond_shape] in Hc; try discriminate.
  - destruct l as [v ch| | |]; try discriminate. apply andb_true_iff in Hc. destruct Hc as [Hc _].
    apply andb_true_iff in Hc. destruct Hc as [Hc _].
    apply andb_true_iff in Hc. destruct Hc as [Hc _].
    apply andb_true_iff in Hc. destruct Hc as [Hc1 Hc2].
    cbn [tcond] in H. unfold tcmp in H. rewrite (teqjoin_none sc sel root vars io (set_io io st) op v ch r Hc1 Hc2) in H.
    destruct (negb (rel_check sc vars (eqne op) (OAttr v ch) r)); try discriminate.
    destruct (toperand sc sel root (set_io io st) (OAttr v ch)) as [a st1| | |] eqn:E1; try discriminate.
    destruct (toperand sc sel root st1 r) as [b st2| | |] eqn:E2; try discriminate.
    destruct (cmp_mismatch sc vars (OAttr v ch) r); try discriminate.
    destruct (negb (eqne op) && (enum_col sc vars (OAttr v ch) || enum_col sc vars r)); try discriminate.
    assert (B1 := toperand_safe _ _ _ _ Hc1 E1). assert (B2 := toperand_safe _ _ _ _ Hc2 E2).
    destruct (mk_cmp op a b) as [p0|] eqn:Em; try discriminate. injection H as <- <-.
    intros p1 Hp. injection Hp as <-. eapply mk_cmp_bad; eauto.
  - destruct ct as [| |cs|]; try discriminate. destruct it as [v ch| | |]; try discriminate.
    apply andb_true_iff in Hc. destruct Hc as [Hc _]. apply andb_true_iff in Hc. destruct Hc as [Hc1 Hc2].
    cbn [tcond] in H. unfold tcontains in H.
    destruct (is_rel sc vars (OList cs) || is_rel sc vars (OAttr v ch)); try discriminate.
    destruct (tattr sc sel root (set_io io st) v ch) as [a st1| | |] eqn:E1; try discriminate.
    destruct (existsb (operand_mismatch sc vars (OAttr v ch)) cs); try discriminate.
    injection H as <- <-. rewrite (mk_in_scalars _ _ Hc2).
    assert (B1 := toperand_safe (OAttr v ch) (set_io io st) a st1 Hc1 E1).
    intros p0 Hp. injection Hp as <-. simpl. rewrite B1. now apply unbindable_scalars.
  - apply andb_true_iff in Hc. destruct Hc as [Hc1 Hc2]. cbn [tcond] in H.
    destruct (tcond sc vars sel root io st p1) as [a st1| | |] eqn:E1; try discriminate.
    destruct (tcond sc vars sel root io st1 q1) as [b st2| | |] eqn:E2; try discriminate.
    injection H as <- <-. assert (B1 := IH1 _ _ _ _ Hc1 E1). assert (B2 := IH2 _ _ _ _ Hc2 E2).
    intros p0 Hp. destruct a, b; simpl in Hp; try discriminate; injection Hp as <-; simpl;
      rewrite ?(B1 _ eq_refl), ?(B2 _ eq_refl); auto.
  - apply andb_true_iff in Hc. destruct Hc as [Hc1 Hc2]. cbn [tcond] in H.
    destruct (tcond sc vars sel root true st p1) as [a st1| | |] eqn:E1; try discriminate.
    destruct (tcond sc vars sel root true st1 q1) as [b st2| | |] eqn:E2; try discriminate.
    injection H as <- <-. assert (B1 := IH1 _ _ _ _ Hc1 E1). assert (B2 := IH2 _ _ _ _ Hc2 E2).
    intros p0 Hp. destruct a, b; simpl in Hp; try discriminate; injection Hp as <-; simpl;
      rewrite ?(B1 _ eq_refl), ?(B2 _ eq_refl); auto.
  - destruct x as [v ch| | |]; try discriminate. cbn [tcond] in H.
    destruct (tattr sc sel root (set_io io st) v ch) as [a st1| | |] eqn:E1; try discriminate. injection H as <- <-.
    assert (B1 := toperand_safe (OAttr v ch) (set_io io st) a st1 Hc E1).
    intros p0 Hp. injection Hp as <-. exact B1.
  - destruct it0 as [v ch| | |]; try discriminate.
    apply andb_true_iff in Hc. destruct Hc as [Hc _]. apply andb_true_iff in Hc. destruct Hc as [Hc1 Hc2].
    cbn [tcond] in H. unfold tcontains in H.
    destruct (is_rel sc vars (OList cs0) || is_rel sc vars (OAttr v ch)); try discriminate.
    destruct (tattr sc sel root (set_io io st) v ch) as [a st1| | |] eqn:E1; try discriminate.
    destruct (existsb (operand_mismatch sc vars (OAttr v ch)) cs0); try discriminate.
    injection H as <- <-. rewrite (mk_in_scalars _ _ Hc2).
    assert (B1 := toperand_safe (OAttr v ch) (set_io io st) a st1 Hc1 E1).
    intros p0 Hp. injection Hp as <-. simpl. rewrite B1. now apply unbindable_scalars.
Qed.

Definition relonly (st : jm) : Prop := forallb is_jrel (j_joins st) = true.
Lemma alias_for_relonly st cur a tgt i st' : relonly st -> alias_for st cur a tgt = (i, st') -> relonly st'.
Proof.
  unfold relonly, alias_for. intros H. destruct (lookup_path (j_paths st) cur a); intros E; injection E as <- <-; auto.
  cbn [j_joins]. rewrite forallb_app, H. reflexivity.
Qed.
Lemma twalk_relonly chain : forall st cur ccls e st',
  relonly st -> twalk sc st cur ccls chain = ROk e st' -> relonly st'.
Proof.
  induction chain as [|a rest IH]; intros st cur ccls e st' Hr H; simpl in H; try discriminate.
  destruct (field_kind sc ccls a) as [[|tgt]|]; try discriminate.
  - destruct rest; try discriminate. now injection H as <- <-.
  - destruct rest as [|b rest'].
    + now injection H as <- <-.
    + destruct (alias_for st cur a tgt) as [i st1] eqn:E. eapply IH; [|exact H]. eapply alias_for_relonly; eauto.
Qed.
Lemma toperand_relonly x st e st' :
  operand_shape sc sel root x = true -> relonly st -> toperand sc sel root st x = ROk e st' -> relonly st'.
Proof.
  intros Hx Hr H. destruct x as [v ch|c| |]; try discriminate.
  - unfold toperand, tattr in H. destruct (v =? sel); try discriminate. eapply twalk_relonly; eauto.
  - simpl in H. now injection H as <- <-.
Qed.
Lemma tcond_relonly c : forall io st p st',
  cond_shape sc sel root c = true -> relonly st -> tcond sc vars sel root io st c = ROk p st' -> relonly st'.
Proof.
  induction c as [op l r|ct it|p1 IH1 q1 IH2|p1 IH1 q1 IH2|p1 _|x|cs0 it0|]; intros io st p st' Hc Hr H;
    cbn [cond_shape] in Hc; try discriminate.
  - destruct l as [v ch| | |]; try discriminate. apply andb_true_iff in Hc. destruct Hc as [Hc _].
    apply andb_true_iff in Hc. destruct Hc as [Hc _].
    apply andb_true_iff in Hc. destruct Hc as [Hc _].
    apply andb_true_iff in Hc. destruct Hc as [Hc1 Hc2].
    cbn [tcond] in H. unfold tcmp in H. rewrite (teqjoin_none sc sel root vars io (set_io io st) op v ch r Hc1 Hc2) in H.
    destruct (negb (rel_check sc vars (eqne op) (OAttr v ch) r)); try discriminate.
    destruct (toperand sc sel root (set_io io st) (OAttr v ch)) as [a st1| | |] eqn:E1; try discriminate.
    destruct (toperand sc sel root st1 r) as [b st2| | |] eqn:E2; try discriminate.
    destruct (cmp_mismatch sc vars (OAttr v ch) r); try discriminate.
    destruct (negb (eqne op) && (enum_col sc vars (OAttr v ch) || enum_col sc vars r)); try discriminate.
    destruct (mk_cmp op a b); try discriminate. injection H as _ <-.
    eapply toperand_relonly; [exact Hc2| |exact E2]. eapply (toperand_relonly (OAttr v ch) (set_io io st)); [exact Hc1|exact Hr|exact E1].
  - destruct ct as [| |cs|]; try discriminate. destruct it as [v ch| | |]; try discriminate.
    apply andb_true_iff in Hc. destruct Hc as [Hc _]. apply andb_true_iff in Hc. destruct Hc as [Hc1 Hc2].
    cbn [tcond] in H. unfold tcontains in H.
    destruct (is_rel sc vars (OList cs) || is_rel sc vars (OAttr v ch)); try discriminate.
    destruct (tattr sc sel root (set_io io st) v ch) as [a st1| | |] eqn:E1; try discriminate.
    destruct (existsb (operand_mismatch sc vars (OAttr v ch)) cs); try discriminate.
    injection H as _ <-. eapply (toperand_relonly (OAttr v ch) (set_io io st)); eauto.
  - apply andb_true_iff in Hc. destruct Hc as [Hc1 Hc2]. cbn [tcond] in H.
    destruct (tcond sc vars sel root io st p1) as [a st1| | |] eqn:E1; try discriminate.
    destruct (tcond sc vars sel root io st1 q1) as [b st2| | |] eqn:E2; try discriminate.
    injection H as _ <-. eauto.
  - apply andb_true_iff in Hc. destruct Hc as [Hc1 Hc2]. cbn [tcond] in H.
    destruct (tcond sc vars sel root true st p1) as [a st1| | |] eqn:E1; try discriminate.
    destruct (tcond sc vars sel root true st1 q1) as [b st2| | |] eqn:E2; try discriminate.
    injection H as _ <-. eauto.
  - destruct x as [v ch| | |]; try discriminate. cbn [tcond] in H.
    destruct (tattr sc sel root (set_io io st) v ch) as [a st1| | |] eqn:E1; try discriminate. injection H as _ <-.
    eapply (toperand_relonly (OAttr v ch) (set_io io st)); eauto.
  - destruct it0 as [v ch| | |]; try discriminate.
    apply andb_true_iff in Hc. destruct Hc as [Hc _]. apply andb_true_iff in Hc. destruct Hc as [Hc1 Hc2].
    cbn [tcond] in H. unfold tcontains in H.
    destruct (is_rel sc vars (OList cs0) || is_rel sc vars (OAttr v ch)); try discriminate.
    destruct (tattr sc sel root (set_io io st) v ch) as [a st1| | |] eqn:E1; try discriminate.
    destruct (existsb (operand_mismatch sc vars (OAttr v ch)) cs0); try discriminate.
    injection H as _ <-. eapply (toperand_relonly (OAttr v ch) (set_io io st)); eauto.
Qed.
End Syn.

Lemma inv_jm0 : inv jm0.
Proof. intros src a i H. discriminate. Qed.

Lemma collect_single (f : binding -> res bool) (g : obj -> bool) v (l : list obj) :
  (forall o, In o l -> f [(v, o)] = Ok (g o)) ->
  collect f v (flat_map (fun o => [[(v, o)]]) l) = Ok (map o_key (filter g l)).
Proof.
  induction l as [|o l IH]; intros H; simpl; auto.
  rewrite (H o) by (now left). rewrite IH by (intros; apply H; now right).
  rewrite Z.eqb_refl. now destruct (g o).
Qed.

Lemma filter_map_rows (wt : list row -> bool) (envf : obj -> list row) (g : obj -> bool) (l : list obj) :
  (forall o, In o l -> root_id (envf o) = o_key o /\ wt (envf o) = g o) ->
  map root_id (filter wt (map envf l)) = map o_key (filter g l).
Proof.
  induction l as [|o l IH]; intros H; simpl; auto.
  destruct (H o (or_introl eq_refl)) as [H1 H2]. rewrite H2.
  assert (IH' := IH (fun o' Ho' => H o' (or_intror Ho'))).
  destruct (g o); simpl; rewrite ?H1, IH'; reflexivity.
Qed.

(* F07 without the (technical) requirement that the selected type has at least one instance is f07; the
   non-empty case is proved here, the empty one in [agree_empty] *)
Lemma agree_nonempty sc q w s :
  translate sc q = TOk s -> f07 sc q w = true ->
  (exists v root, q_vars q = [(v, root)] /\ instances sc w root <> []) ->
  sem_res s (encode sc w) = answers sc q w.
Proof.
  intros Ht Hf [v0 [root0 [Ev0 Hne]]]. unfold f07 in Hf. rewrite Ev0 in Hf.
  destruct (q_cond q) as [c|] eqn:Ec; try discriminate.
  repeat (apply andb_true_iff in Hf; destruct Hf as [Hf ?]).
  rename H into Hall, H0 into Hnd, H1 into Hshape, H2 into Hf0. apply negb_true_iff in Hf. apply Z.eqb_eq in Hf0.
  unfold translate in Ht. rewrite Hf in Ht. clear Hf. rename Hf0 into Hf.
  rewrite Ev0, Ec, <- Hf in Ht. simpl assoc in Ht. rewrite Z.eqb_refl in Ht.
  destruct (tcond sc [(v0, root0)] v0 root0 false jm0 c) as [p st| | |] eqn:Et; try discriminate.
  injection Ht as <-.
  rewrite forallb_forall in Hall.
  destruct (instances sc w root0) as [|o1 rest] eqn:Ei; [now destruct Hne|]. rewrite <- Ei in *.
  assert (Hv0 : assoc v0 [(v0, root0)] = Some root0) by (simpl; now rewrite Z.eqb_refl).
  assert (Hrel : forallb is_jrel (j_joins st) = true).
  { apply (tcond_relonly sc v0 root0 [(v0, root0)] c false jm0 p st Hshape eq_refl Et). }
  assert (Hobj : forall o, In o (instances sc w root0) ->
            exists p0 more b, p = Some p0 /\ build_env sc w o1 [row_of o] (j_joins st) = Some ([row_of o] ++ more) /\
                              eval_cond w [(v0, o)] c = Ok b /\ tv_true (eval_pred ([row_of o] ++ more) p0) = b /\
                              pred_bad p0 = false).
  { intros o Ho.
    assert (Hb0 : assoc v0 [(v0, o)] = Some o) by (simpl; now rewrite Z.eqb_refl).
    destruct (tcond_ok sc w o1 o v0 root0 [(v0, root0)] Hv0 [(v0, o)] Hb0 c false jm0 [row_of o] inv_jm0 eq_refl Hshape (Hall o Ho))
      as [p0 [st' [more [b [T [I [R [E [V B]]]]]]]]].
    rewrite Et in T. injection T as -> ->. exists p0, more, b.
    repeat split; auto. specialize (V []). now rewrite app_nil_r in V. }
  destruct (Hobj o1) as [p0 [_ [_ [-> [_ [_ [_ Hbad]]]]]]]; [rewrite Ei; now left|].
  set (g := fun o => match eval_cond w [(v0, o)] c with Ok b => b | Err _ => false end).
  set (envf := fun o => match build_env sc w o1 [row_of o] (j_joins st) with Some e => e | None => [] end).
  unfold sem_res, sem. cbn [s_invalid s_where s_joins s_root]. rewrite Hbad. cbn [orb].
  unfold answers. rewrite Ev0, Ec. cbn [bindings map].
  rewrite <- Hf. rewrite (collect_single _ g).
  - f_equal. unfold encode at 2. rewrite map_map.
    rewrite (envs_of_build sc w Hnd o1 (j_joins st) Hrel _ (map envf (instances sc w root0))).
    + apply filter_map_rows. intros o Ho.
      destruct (Hobj o Ho) as [p1 [more [b [Hp [Hb [He [Hv _]]]]]]]. injection Hp as <-.
      unfold envf, g. rewrite Hb, He. split; [reflexivity|].
      unfold where_true. cbn [s_where]. exact Hv.
    + assert (HF : forall l : list obj,
                (forall o, In o l -> exists e, build_env sc w o1 [row_of o] (j_joins st) = Some e) ->
                Forall2 (fun env out => build_env sc w o1 env (j_joins st) = Some out)
                        (map (fun x => [row_of x]) l) (map envf l)).
      { induction l as [|o l IH]; intros Hl; simpl; constructor.
        - destruct (Hl o (or_introl eq_refl)) as [e He]. unfold envf. now rewrite He.
        - apply IH. intros; apply Hl; now right. }
      apply HF. intros o Ho. destruct (Hobj o Ho) as [p1 [more [b [_ [Hb _]]]]]. eauto.
  - intros o Ho. destruct (Hobj o Ho) as [p1 [more [b [_ [_ [He _]]]]]]. unfold g. now rewrite He.
Qed.


Lemma envs_of_nil d js : envs_of d js [] = [].
Proof. induction js; simpl; auto. Qed.

Lemma agree_empty sc q w s v root :
  translate sc q = TOk s -> f07 sc q w = true -> q_vars q = [(v, root)] -> instances sc w root = [] ->
  sem_res s (encode sc w) = answers sc q w.
Proof.
  intros Ht Hf Ev Hi. unfold f07 in Hf. rewrite Ev in Hf.
  destruct (q_cond q) as [c|] eqn:Ec; try discriminate.
  repeat (apply andb_true_iff in Hf; destruct Hf as [Hf ?]).
  rename H1 into Hshape, H2 into Hf0. apply negb_true_iff in Hf. apply Z.eqb_eq in Hf0.
  unfold translate in Ht. rewrite Hf in Ht. clear Hf. rename Hf0 into Hf.
  rewrite Ev, Ec, <- Hf in Ht. simpl assoc in Ht. rewrite Z.eqb_refl in Ht.
  destruct (tcond sc [(v, root)] v root false jm0 c) as [p st| | |] eqn:Et; try discriminate.
  injection Ht as <-.
  assert (B := tcond_safe sc v root [(v, root)] c false jm0 p st Hshape Et).
  unfold sem_res, sem. cbn [s_invalid s_where s_joins s_root].
  assert (Hb : match p with Some p0 => pred_bad p0 | None => false end = false).
  { destruct p; auto. }
  rewrite Hb. cbn [orb]. unfold encode at 2. rewrite Hi. cbn [map]. rewrite envs_of_nil.
  unfold answers. rewrite Ev. cbn [bindings]. rewrite Hi. reflexivity.
Qed.

Theorem agree sc q w s :
  translate sc q = TOk s -> f07 sc q w = true -> sem_res s (encode sc w) = answers sc q w.
Proof.
  intros Ht Hf. assert (Hf' := Hf). unfold f07 in Hf'.
  destruct (q_vars q) as [|[v root] [|]] eqn:Ev; try discriminate.
  destruct (instances sc w root) eqn:Ei.
  - eapply agree_empty; eauto.
  - eapply agree_nonempty; eauto. exists v, root. split; auto. rewrite Ei. discriminate.
Qed.

(* ---------- the(...) / .one() ---------- *)
Theorem the_agree sc q w s :
  translate sc q = TOk s -> f07 sc q w = true -> one_of (sem_res s (encode sc w)) = one_of (answers sc q w).
Proof. intros H1 H2. now rewrite (agree sc q w s H1 H2). Qed.

(* ---------- node kinds the translator does not know are never answered ---------- *)
Lemma tcond_not sc vars sel root c : has_not c = true -> forall io st p st', tcond sc vars sel root io st c <> ROk p st'.
Proof.
  induction c as [op l r|ct it|p1 IH1 q1 IH2|p1 IH1 q1 IH2|p1 _|x|cs0 it0|]; intros Hn io st p st'; simpl in Hn; try discriminate.
  - cbn [tcond]. destruct (tcond sc vars sel root io st p1) as [a st1| | |] eqn:E1; try discriminate.
    destruct (has_not p1) eqn:N1; [exfalso; eapply IH1; eauto|]. simpl in Hn.
    destruct (tcond sc vars sel root io st1 q1) as [b st2| | |] eqn:E2; try discriminate. exfalso; eapply IH2; eauto.
  - cbn [tcond]. destruct (tcond sc vars sel root true st p1) as [a st1| | |] eqn:E1; try discriminate.
    destruct (has_not p1) eqn:N1; [exfalso; eapply IH1; eauto|]. simpl in Hn.
    destruct (tcond sc vars sel root true st1 q1) as [b st2| | |] eqn:E2; try discriminate. exfalso; eapply IH2; eauto.
Qed.
Theorem not_never_answered sc q c : q_cond q = Some c -> has_not c = true -> forall s, translate sc q <> TOk s.
Proof.
  intros Hc Hn s. unfold translate. destruct (q_setof q); try discriminate.
  rewrite Hc. destruct (assoc (q_sel q) (q_vars q)); try discriminate.
  destruct (tcond sc (q_vars q) (q_sel q) z false jm0 c) eqn:E; try discriminate. exfalso. eapply tcond_not; eauto.
Qed.

(* ---------- the rejections introduced by the C07 fix: commits ---------- *)
(* a single comparison / membership / truth test: the whole query is that atom *)
Definition atom_query (q : query) (c : cond) : Prop := q_cond q = Some c.

Lemma teqjoin_lit_none sc vars sel root io st op v ch c :
  teqjoin sc vars sel root io st op (OAttr v ch) (OLit c) = None.
Proof. destruct op; try reflexivity; destruct ch as [|a [|]]; reflexivity. Qed.

(* C07-a: an attribute of a variable other than the selected one, compared with a literal *)
Theorem rejects_othervar sc q op v ch lit :
  atom_query q (CCmp op (OAttr v ch) (OLit lit)) -> v <> q_sel q -> translate sc q = TReject.
Proof.
  intros Hc Hv. unfold translate. destruct (q_setof q); [reflexivity|]. rewrite Hc. destruct (assoc (q_sel q) (q_vars q)) as [root|]; auto.
  cbn [tcond]. unfold tcmp.
  rewrite teqjoin_lit_none. destruct (negb (rel_check sc (q_vars q) (eqne op) (OAttr v ch) (OLit lit))); auto.
  unfold toperand, tattr. apply Z.eqb_neq in Hv. now rewrite Hv.
Qed.
(* the same inside any operand position: translate_attribute itself refuses *)
Theorem tattr_othervar sc sel root st v ch : v <> sel -> tattr sc sel root st v ch = RReject.
Proof. intros Hv. unfold tattr. apply Z.eqb_neq in Hv. now rewrite Hv. Qed.

(* C07-c: a relationship-valued operand against a plain literal, whatever the operator *)
Theorem rejects_rel_literal sc q op v ch lit :
  atom_query q (CCmp op (OAttr v ch) (OLit lit)) -> is_rel sc (q_vars q) (OAttr v ch) = true ->
  translate sc q = TReject.
Proof.
  intros Hc Hr. unfold translate. destruct (q_setof q); [reflexivity|]. rewrite Hc. destruct (assoc (q_sel q) (q_vars q)) as [root|]; auto.
  cbn [tcond]. unfold tcmp.
  rewrite teqjoin_lit_none. unfold rel_check. rewrite Hr. cbn [is_rel is_var negb orb andb]. reflexivity.
Qed.
Theorem rejects_rel_in_list sc q v ch cs :
  atom_query q (CContains (OList cs) (OAttr v ch)) -> is_rel sc (q_vars q) (OAttr v ch) = true ->
  translate sc q = TReject.
Proof.
  intros Hc Hr. unfold translate. destruct (q_setof q); [reflexivity|]. rewrite Hc. destruct (assoc (q_sel q) (q_vars q)) as [root|]; auto.
  cbn [tcond]. unfold tcontains. rewrite Hr. cbn [is_rel orb]. reflexivity.
Qed.

(* C07-g: an attribute-equality join of two different variables whose join target is the selected type itself *)
Theorem rejects_selfjoin sc q v1 a1 v2 a2 root t1 t2 :
  atom_query q (CCmp OEq (OAttr v1 [a1]) (OAttr v2 [a2])) -> v1 <> v2 ->
  assoc (q_sel q) (q_vars q) = Some root -> assoc v1 (q_vars q) = Some root -> assoc v2 (q_vars q) = Some root ->
  field_kind sc root a1 = Some (FRel t1) -> field_kind sc root a2 = Some (FRel t2) ->
  translate sc q = TReject.
Proof.
  intros Hc Hv Hs H1 H2 K1 K2. unfold translate. destruct (q_setof q); [reflexivity|]. rewrite Hc, Hs. cbn [tcond]. unfold tcmp, teqjoin.
  apply Z.eqb_neq in Hv. rewrite Hv, H1, H2, K1, K2.
  destruct ((v1 =? q_sel q) || (v2 =? q_sel q)); [|reflexivity].
  destruct (v1 =? q_sel q); unfold related; rewrite Z.eqb_refl; reflexivity.
Qed.

(* C07-f: an ordering comparison against the literal None *)
Theorem rejects_none_order sc q op v ch :
  atom_query q (CCmp op (OAttr v ch) (OLit VNull)) -> eqne op = false -> forall s, translate sc q <> TOk s.
Proof.
  intros Hc Ho s. unfold translate. destruct (q_setof q); try discriminate.
  rewrite Hc. destruct (assoc (q_sel q) (q_vars q)) as [root|]; try discriminate.
  cbn [tcond]. unfold tcmp.
  rewrite teqjoin_lit_none. destruct (negb (rel_check sc (q_vars q) (eqne op) (OAttr v ch) (OLit VNull))); try discriminate.
  destruct (toperand sc (q_sel q) root (set_io false jm0) (OAttr v ch)) as [a st1| | |]; try discriminate.
  cbn [toperand]. destruct (cmp_mismatch _ _ _ _); try discriminate. destruct (negb (eqne op) && _); try discriminate.
  destruct op; try discriminate; cbn [mk_cmp]; discriminate.
Qed.

(* ---------- every query of the right shape is accepted (a purely syntactic fact) ---------- *)
Lemma twalk_total sc chain : forall st cur c, chain_kind sc c chain = Some FScalar ->
  exists i a st', twalk sc st cur c chain = ROk (SCol i a) st'.
Proof.
  induction chain as [|a rest IH]; intros st cur c H; simpl in H; try discriminate. simpl.
  destruct (field_kind sc c a) as [[|tgt]|]; try discriminate.
  - destruct rest; try discriminate. eauto.
  - destruct rest as [|b rest']; try discriminate.
    destruct (alias_for st cur a tgt) as [i st1]. apply IH. exact H.
Qed.
Section SynTotal.
  Variable sc : schema.
  Variables sel root : Z.
  Variable vars : list (Z * Z).
  Hypothesis Hvars : assoc sel vars = Some root.

Lemma toperand_total x st : operand_shape sc sel root x = true ->
  exists e st', toperand sc sel root st x = ROk e st' /\
                match x with OAttr _ _ => is_col e = true | OLit c => e = SConst c | _ => True end.
Proof.
  intros H. destruct x as [v ch|c| |]; try discriminate.
  - destruct (shape_attr sc sel root v ch H) as [E1 E2]. unfold toperand, tattr. rewrite E1.
    destruct (twalk_total sc ch st 0%nat root E2) as [i [a [st' T]]]. rewrite T. exists (SCol i a), st'. split; auto.
  - simpl in H. exists (SConst c), st. split; auto.
Qed.
Lemma mk_cmp_total op a b r : is_col a = true ->
  match r with OAttr _ _ => is_col b = true | OLit c => b = SConst c | _ => True end ->
  (eqne op || negb (none_lit r)) = true -> (exists v ch, r = OAttr v ch) \/ (exists c, r = OLit c) ->
  exists p, mk_cmp op a b = Some p.
Proof.
  intros Ha Hb Hs [[v [ch ->]]|[c ->]].
  - destruct b; try discriminate. destruct op; simpl; rewrite ?Ha; simpl; eauto.
  - subst b. destruct a; try discriminate. destruct op; simpl in *; destruct c; try discriminate; eauto.
Qed.
Lemma tcond_total c : cond_shape sc sel root c = true ->
  forall io st, exists p st', tcond sc vars sel root io st c = ROk (Some p) st'.
Proof.
  induction c as [op l r|ct it|p1 IH1 q1 IH2|p1 IH1 q1 IH2|p1 _|x|cs0 it0|]; intros Hc io st; cbn [cond_shape] in Hc; try discriminate.
  - destruct l as [v ch| | |]; try discriminate. apply andb_true_iff in Hc. destruct Hc as [Hc Hmm].
    apply andb_true_iff in Hc. destruct Hc as [Hc Hen].
    apply andb_true_iff in Hc. destruct Hc as [Hc Hn].
    apply andb_true_iff in Hc. destruct Hc as [Hc1 Hc2].
    cbn [tcond]. unfold tcmp. rewrite (teqjoin_none sc sel root vars io (set_io io st) op v ch r Hc1 Hc2), (rel_check_shape sc sel root vars Hvars _ _ _ Hc1 Hc2).
    cbn [negb]. destruct (toperand_total _ (set_io io st) Hc1) as [a [st1 [T1 A1]]]. rewrite T1.
    destruct (toperand_total _ st1 Hc2) as [b [st2 [T2 A2]]]. rewrite T2.
    rewrite (mismatch_shape sc sel root vars Hvars _ _ Hc1 Hc2 Hmm (ex_intro _ v (ex_intro _ ch eq_refl))).
    rewrite (enum_check_shape sc sel root vars Hvars _ _ _ Hc1 Hc2 Hen).
    destruct (mk_cmp_total op a b r A1 A2 Hn) as [p M].
    { destruct r; try discriminate; eauto. }
    rewrite M. eauto.
  - destruct ct as [| |cs|]; try discriminate. destruct it as [v ch| | |]; try discriminate.
    apply andb_true_iff in Hc. destruct Hc as [Hc Hmm]. apply andb_true_iff in Hc. destruct Hc as [Hc1 Hc2]. cbn [tcond]. unfold tcontains.
    rewrite (shape_not_rel sc sel root vars Hvars _ Hc1). cbn [is_rel orb].
    destruct (toperand_total _ (set_io io st) Hc1) as [a [st1 [T1 _]]]. cbn [toperand] in T1. rewrite T1.
    rewrite (mismatch_list_shape sc sel root vars Hvars _ _ _ Hc1 Hmm). eauto.
  - apply andb_true_iff in Hc. destruct Hc as [Hc1 Hc2]. cbn [tcond].
    destruct (IH1 Hc1 io st) as [a [st1 T1]]. rewrite T1. destruct (IH2 Hc2 io st1) as [b [st2 T2]]. rewrite T2. simpl. eauto.
  - apply andb_true_iff in Hc. destruct Hc as [Hc1 Hc2]. cbn [tcond].
    destruct (IH1 Hc1 true st) as [a [st1 T1]]. rewrite T1. destruct (IH2 Hc2 true st1) as [b [st2 T2]]. rewrite T2. simpl. eauto.
  - destruct x as [v ch| | |]; try discriminate. cbn [tcond].
    destruct (toperand_total _ (set_io io st) Hc) as [a [st1 [T1 _]]]. cbn [toperand] in T1. rewrite T1. eauto.
  - destruct it0 as [v ch| | |]; try discriminate.
    apply andb_true_iff in Hc. destruct Hc as [Hc Hmm]. apply andb_true_iff in Hc. destruct Hc as [Hc1 Hc2]. cbn [tcond]. unfold tcontains.
    rewrite (shape_not_rel sc sel root vars Hvars _ Hc1). cbn [is_rel orb].
    destruct (toperand_total _ (set_io io st) Hc1) as [a [st1 [T1 _]]]. cbn [toperand] in T1. rewrite T1.
    rewrite (mismatch_list_shape sc sel root vars Hvars _ _ _ Hc1 Hmm). eauto.
Qed.
End SynTotal.

Theorem f07_accepted sc q w : f07 sc q w = true -> exists s, translate sc q = TOk s.
Proof.
  intros Hf. unfold f07 in Hf. destruct (q_vars q) as [|[v root] [|]] eqn:Ev; try discriminate.
  destruct (q_cond q) as [c|] eqn:Ec; try discriminate.
  repeat (apply andb_true_iff in Hf; destruct Hf as [Hf ?]).
  rename H1 into Hshape, H2 into Hf0. apply negb_true_iff in Hf. apply Z.eqb_eq in Hf0.
  assert (Hv0 : assoc v [(v, root)] = Some root) by (simpl; now rewrite Z.eqb_refl).
  destruct (tcond_total sc v root [(v, root)] Hv0 c Hshape false jm0) as [p [st T]].
  unfold translate. rewrite Hf, Ev, Ec, <- Hf0. simpl assoc. rewrite Z.eqb_refl, T. eauto.
Qed.

(* ---------- witnesses (each replayed on the implementation: corpus/C07/*.json) ---------- *)
Module Wit.
  (* classes: 1 Position(x=3,y=4)  3 Orientation(w=6)  4 Pose(position=7 -> 1, orientation=8 -> 3)  5 Body(name=1,size=9)
              8 FixedConnection(parent=10 -> 5, child=11 -> 5)  9 PrismaticConnection(parent, child) *)
  Definition sc : schema :=
    {| sc_fields := [(1, [(3, FScalar); (4, FScalar)]); (3, [(6, FScalar)]);
                     (4, [(7, FRel 1); (8, FRel 3)]); (5, [(1, FScalar); (9, FScalar)]);
                     (8, [(10, FRel 5); (11, FRel 5)]); (9, [(10, FRel 5); (11, FRel 5)])];
       sc_sub := [(1, 1); (3, 3); (4, 4); (5, 5); (8, 8); (9, 9)]; sc_enums := [];
       sc_nums := [(1, 3); (1, 4); (3, 6); (5, 9)]; sc_texts := [(5, 1)] |}.
  Definition body1 : list Z := [66; 111; 100; 121; 49].   (* "Body1" *)
  Definition w : world :=
    [ {| o_key := 1; o_cls := 1; o_fields := [(3, VInt 1); (4, VInt 0)] |};
      {| o_key := 2; o_cls := 1; o_fields := [(3, VInt 0); (4, VInt 3)] |};
      {| o_key := 3; o_cls := 3; o_fields := [(6, VNull)] |};
      {| o_key := 4; o_cls := 3; o_fields := [(6, VInt 1)] |};
      {| o_key := 5; o_cls := 4; o_fields := [(7, VRef 1); (8, VRef 3)] |};
      {| o_key := 6; o_cls := 4; o_fields := [(7, VRef 2); (8, VRef 4)] |};
      {| o_key := 7; o_cls := 5; o_fields := [(1, VStr body1); (9, VInt 1)] |};
      {| o_key := 8; o_cls := 5; o_fields := [(1, VStr body1); (9, VInt 1)] |};       (* equal to 7 by value *)
      {| o_key := 9; o_cls := 5; o_fields := [(1, VStr [98]); (9, VInt 2)] |};        (* "b" *)
      {| o_key := 10; o_cls := 8; o_fields := [(10, VRef 7); (11, VRef 8)] |};
      {| o_key := 11; o_cls := 8; o_fields := [(10, VRef 7); (11, VRef 9)] |};
      {| o_key := 12; o_cls := 9; o_fields := [(10, VRef 9); (11, VRef 7)] |} ].
  Definition mk (the : bool) (vars : list (Z * Z)) (c : cond) : query :=
    {| q_the := the; q_setof := false; q_sel := 1; q_vars := vars; q_cond := Some c |}.
  (* open: entity(o, o.w < 0) and the(entity(o, o.w < 2)) with a None w *)
  Definition q_null_lt := mk false [(1, 3)] (CCmp OLt (OAttr 1 [6]) (OLit (VInt 0))).
  Definition q_null_lt_the := mk true [(1, 3)] (CCmp OLt (OAttr 1 [6]) (OLit (VInt 2))).
  (* repaired, now inside F07: entity(o, o.w != 1) with a None w; entity(b, b.name) *)
  Definition q_null_ne := mk false [(1, 3)] (CCmp ONe (OAttr 1 [6]) (OLit (VInt 1))).
  Definition q_strtruth := mk false [(1, 5)] (CTruth (OAttr 1 [1])).
  (* inside F07 with None: entity(o, or_(o.w != 1, and_(o.w, in_(o.w, [1, 2])))), entity(o, o.w == None) *)
  Definition q_null_mix := mk false [(1, 3)]
    (COr (CCmp ONe (OAttr 1 [6]) (OLit (VInt 1)))
         (CAnd (CTruth (OAttr 1 [6])) (CContains (OList [VInt 1; VInt 2]) (OAttr 1 [6])))).
  Definition q_is_none := mk false [(1, 3)] (CCmp OEq (OAttr 1 [6]) (OLit VNull)).
  (* repaired: entity(f, and_(f.parent == pc.child, f.child == pc.parent)) *)
  Definition q_eqjoin_twice := mk false [(1, 8); (2, 9)]
    (CAnd (CCmp OEq (OAttr 1 [10]) (OAttr 2 [11])) (CCmp OEq (OAttr 1 [11]) (OAttr 2 [10]))).
  Definition q_eqjoin_once := mk false [(1, 8); (2, 9)] (CCmp OEq (OAttr 1 [10]) (OAttr 2 [11])).
  (* open: entity(f, f.parent == f.child) *)
  Definition q_valueeq := mk false [(1, 8)] (CCmp OEq (OAttr 1 [10]) (OAttr 1 [11])).
  (* repaired: entity(p, q.x >= 1), p q : Position *)
  Definition q_othervar := mk false [(1, 1); (2, 1)] (CCmp OGe (OAttr 2 [3]) (OLit (VInt 1))).
  (* repaired: entity(s, s.position == 2) *)
  Definition q_fk := mk false [(1, 4)] (CCmp OEq (OAttr 1 [7]) (OLit (VInt 2))).
  (* repaired: entity(b, contains(b.name, "body")) and contains(b.name, "ody") *)
  Definition q_like := mk false [(1, 5)] (CContains (OAttr 1 [1]) (OLit (VStr [98; 111; 100; 121]))).
  Definition q_like2 := mk false [(1, 5)] (CContains (OAttr 1 [1]) (OLit (VStr [111; 100; 121]))).
  (* repaired: entity(s, s.position == p), p : Position *)
  Definition q_varop := mk false [(1, 4); (2, 1)] (CCmp OEq (OAttr 1 [7]) (OVar 2)).
  (* repaired: entity(o, o.w < None) *)
  Definition q_noneorder := mk false [(1, 3)] (CCmp OLt (OAttr 1 [6]) (OLit VNull)).
  (* repaired: entity(s, s.position == t.position), s t : Pose *)
  Definition q_selfjoin := mk false [(1, 4); (2, 4)] (CCmp OEq (OAttr 1 [7]) (OAttr 2 [7])).
  (* inside F07: entity(s, and_(s.position.x >= 1, or_(s.orientation.w == 1, s.position.y < s.position.x))) over poses with non-None w *)
  Definition w_ok : world :=
    [ {| o_key := 1; o_cls := 1; o_fields := [(3, VInt 1); (4, VInt 0)] |};
      {| o_key := 2; o_cls := 1; o_fields := [(3, VInt 0); (4, VInt 3)] |};
      {| o_key := 4; o_cls := 3; o_fields := [(6, VInt 1)] |};
      {| o_key := 5; o_cls := 4; o_fields := [(7, VRef 1); (8, VRef 4)] |};
      {| o_key := 6; o_cls := 4; o_fields := [(7, VRef 2); (8, VRef 4)] |} ].
  Definition q_ok := mk false [(1, 4)]
    (CAnd (CCmp OGe (OAttr 1 [7; 3]) (OLit (VInt 1)))
          (COr (CCmp OEq (OAttr 1 [8; 6]) (OLit (VInt 1))) (CCmp OLt (OAttr 1 [7; 4]) (OAttr 1 [7; 3])))).
End Wit.

Definition model_res (sc : schema) (q : query) (w : world) : option (res (list Z)) :=
  match translate sc q with TOk s => Some (sem_res s (encode sc w)) | _ => None end.

Lemma refuted_null :
  (model_res Wit.sc Wit.q_null_lt Wit.w = Some (Ok []) /\ answers Wit.sc Wit.q_null_lt Wit.w = Err TypeErr) /\
  (option_map one_of (model_res Wit.sc Wit.q_null_lt_the Wit.w) = Some (OneValue 4) /\
   one_of (answers Wit.sc Wit.q_null_lt_the Wit.w) = OneFailed).
Proof. repeat split; vm_compute; reflexivity. Qed.
Lemma refuted_valueeq :
  model_res Wit.sc Wit.q_valueeq Wit.w = Some (Ok []) /\ answers Wit.sc Wit.q_valueeq Wit.w = Ok [10].
Proof. split; vm_compute; reflexivity. Qed.
(* the repaired classes: now rejected, or answered as in memory *)
Lemma fixed_witnesses :
  translate Wit.sc Wit.q_othervar = TReject /\ translate Wit.sc Wit.q_fk = TReject /\
  translate Wit.sc Wit.q_varop = TReject /\ translate Wit.sc Wit.q_noneorder = TReject /\
  translate Wit.sc Wit.q_selfjoin = TReject /\
  (model_res Wit.sc Wit.q_like Wit.w = Some (Ok []) /\ answers Wit.sc Wit.q_like Wit.w = Ok []) /\
  (model_res Wit.sc Wit.q_like2 Wit.w = Some (Ok [7; 8]) /\ answers Wit.sc Wit.q_like2 Wit.w = Ok [7; 8]) /\
  (model_res Wit.sc Wit.q_null_ne Wit.w = Some (Ok [3]) /\ answers Wit.sc Wit.q_null_ne Wit.w = Ok [3]) /\
  (model_res Wit.sc Wit.q_strtruth Wit.w = Some (Ok [7; 8; 9]) /\ answers Wit.sc Wit.q_strtruth Wit.w = Ok [7; 8; 9]) /\
  (model_res Wit.sc Wit.q_eqjoin_twice Wit.w = Some (Ok [11]) /\ answers Wit.sc Wit.q_eqjoin_twice Wit.w = Ok [11]) /\
  (model_res Wit.sc Wit.q_eqjoin_once Wit.w = Some (Ok [10; 11]) /\ answers Wit.sc Wit.q_eqjoin_once Wit.w = Ok [10; 11]).
Proof. repeat split; vm_compute; reflexivity. Qed.
Lemma nonvacuous_null :
  f07 Wit.sc Wit.q_null_mix Wit.w = true /\ model_res Wit.sc Wit.q_null_mix Wit.w = Some (Ok [3; 4]) /\
  answers Wit.sc Wit.q_null_mix Wit.w = Ok [3; 4] /\
  f07 Wit.sc Wit.q_is_none Wit.w = true /\ model_res Wit.sc Wit.q_is_none Wit.w = Some (Ok [3]) /\
  f07 Wit.sc Wit.q_null_ne Wit.w = true /\ f07 Wit.sc Wit.q_strtruth Wit.w = true /\
  f07 Wit.sc Wit.q_null_lt Wit.w = false.
Proof. repeat split; vm_compute; reflexivity. Qed.
Lemma nonvacuous :
  f07 Wit.sc Wit.q_ok Wit.w_ok = true /\ model_res Wit.sc Wit.q_ok Wit.w_ok = Some (Ok [5]) /\
  answers Wit.sc Wit.q_ok Wit.w_ok = Ok [5].
Proof. repeat split; vm_compute; reflexivity. Qed.
