(* C07 -- Spec side.  The EQL query as the translator sees it (small syntax), a world of Python objects,
   and the in-memory meaning [answers] of a query under Python semantics.  No dependency on the
   translator model (EqlToSql.v) nor on the relational algebra (SqlAlg.v). *)
From Coq Require Import List ZArith Bool Lia.
From Krrood Require Import Base.Sx.
Import ListNotations.
Open Scope Z_scope.

(* ---------- values ---------- *)
(* VRef k: a Python object (identity k; the harness uses the database_id, which is unique over all mapped
   classes because every DAO table inherits SymbolDAO's key).  VObjLit: some Python object that is no row. *)
Inductive val := VNull | VInt (z : Z) | VStr (s : list Z) | VRef (k : Z) | VObjLit.
Inductive cmpop := OEq | ONe | OLt | OLe | OGt | OGe.

Fixpoint zlist_eqb (a b : list Z) : bool :=
  match a, b with
  | [], [] => true
  | x :: a', y :: b' => (x =? y) && zlist_eqb a' b'
  | _, _ => false
  end.
(* lexicographic strict order, as Python compares str (code points) and SQLite BINARY collation (bytes, ASCII) *)
Fixpoint zlist_ltb (a b : list Z) : bool :=
  match a, b with
  | _, [] => false
  | [], _ :: _ => true
  | x :: a', y :: b' => (x <? y) || ((x =? y) && zlist_ltb a' b')
  end.

(* ---------- schema and world ---------- *)
Inductive fkind := FScalar | FRel (tgt : Z).
Record schema := {
  sc_fields : list (Z * list (Z * fkind));   (* class -> all (also inherited) mapped fields *)
  sc_sub : list (Z * Z);                     (* (c, a): c is a (non-strict) subclass of a *)
  sc_enums : list (Z * Z);                   (* (class, attribute): the column is Enum-typed *)
  sc_nums : list (Z * Z);                    (* (class, attribute): the column is numeric (int / float) *)
  sc_texts : list (Z * Z)                    (* (class, attribute): the column is plain text (str) *)
}.
Record obj := { o_key : Z; o_cls : Z; o_fields : list (Z * val) }.
Definition world := list obj.

Fixpoint assoc {A} (k : Z) (l : list (Z * A)) : option A :=
  match l with
  | [] => None
  | (k', v) :: l' => if k =? k' then Some v else assoc k l'
  end.
Definition field_kind (sc : schema) (c a : Z) : option fkind :=
  match assoc c (sc_fields sc) with Some fs => assoc a fs | None => None end.
Definition subclass (sc : schema) (c a : Z) : bool :=
  existsb (fun p => (fst p =? c) && (snd p =? a)) (sc_sub sc).
Definition inst_of (sc : schema) (c : Z) (o : obj) : bool := subclass sc (o_cls o) c.
Definition instances (sc : schema) (w : world) (c : Z) : list obj := filter (inst_of sc c) w.
Fixpoint find_obj (w : world) (k : Z) : option obj :=
  match w with
  | [] => None
  | o :: w' => if o_key o =? k then Some o else find_obj w' k
  end.

(* ---------- Python comparison ---------- *)
Inductive err := TypeErr | AttrErr.
Inductive res (A : Type) := Ok (a : A) | Err (e : err).
Arguments Ok {A}. Arguments Err {A}.

(* dataclass(eq=True) objects compare by class and field values; fuel bounds the depth (the dataset is acyclic) *)
Fixpoint val_eq (fuel : nat) (w : world) (a b : val) : bool :=
  match a, b with
  | VNull, VNull => true
  | VInt x, VInt y => x =? y
  | VStr x, VStr y => zlist_eqb x y
  | VObjLit, VObjLit => false
  | VRef x, VRef y =>
      (x =? y) ||
      match fuel with
      | O => false
      | S f =>
          match find_obj w x, find_obj w y with
          | Some ox, Some oy =>
              (o_cls ox =? o_cls oy) &&
              (fix go (fa fb : list (Z * val)) : bool :=
                 match fa, fb with
                 | [], [] => true
                 | (n1, v1) :: fa', (n2, v2) :: fb' => (n1 =? n2) && val_eq f w v1 v2 && go fa' fb'
                 | _, _ => false
                 end) (o_fields ox) (o_fields oy)
          | _, _ => false
          end
      end
  | _, _ => false
  end.
Definition eq_fuel : nat := 4.

(* an Enum member is represented by VStr (0 :: name): it compares equal by name, is truthy, and has no order in Python *)
Definition is_enum (s : list Z) : bool := match s with 0 :: _ => true | _ => false end.
Definition py_lt (a b : val) : option bool :=
  match a, b with
  | VInt x, VInt y => Some (x <? y)
  | VStr x, VStr y => if is_enum x || is_enum y then None else Some (zlist_ltb x y)
  | _, _ => None                                  (* TypeError: '<' not supported between ... *)
  end.
Definition py_cmp (w : world) (op : cmpop) (a b : val) : res bool :=
  match op with
  | OEq => Ok (val_eq eq_fuel w a b)
  | ONe => Ok (negb (val_eq eq_fuel w a b))
  | OLt => match py_lt a b with Some r => Ok r | None => Err TypeErr end
  | OGt => match py_lt b a with Some r => Ok r | None => Err TypeErr end
  | OLe => match py_lt b a with Some r => Ok (negb r) | None => Err TypeErr end
  | OGe => match py_lt a b with Some r => Ok (negb r) | None => Err TypeErr end
  end.

Fixpoint is_infix (n h : list Z) : bool :=       (* n occurs in h *)
  (fix pre (a b : list Z) : bool :=
     match a, b with
     | [], _ => true
     | x :: a', y :: b' => (x =? y) && pre a' b'
     | _ :: _, [] => false
     end) n h ||
  match h with [] => false | _ :: h' => is_infix n h' end.

(* ---------- the query as the translator sees it ---------- *)
Inductive operand :=
| OAttr (v : Z) (chain : list Z)     (* Attribute chain rooted at variable v, base to leaf *)
| OLit (c : val)                     (* Literal with a scalar value *)
| OList (cs : list val)              (* Literal with a list value *)
| OVar (v : Z).                      (* a bare variable *)
Inductive cond :=
| CCmp (op : cmpop) (l r : operand)          (* Comparator with ==, !=, <, <=, >, >= *)
| CContains (container item : operand)       (* Comparator(container, item, operator.contains): in_/contains *)
| CAnd (a b : cond) | COr (a b : cond)
| CNot (a : cond)                            (* a node kind the translator does not know *)
| CTruth (o : operand)                       (* a bare attribute used as condition *)
| CInSet (cs : list val) (item : operand)    (* in_(item, {..}) / contains({..}, item): the container is a set / frozenset literal *)
| COther.                                    (* a condition with an operand the translator does not know (method call, index on an attribute) *)
Record query := {
  q_the : bool;                    (* the(...) instead of an(...) *)
  q_setof : bool;                  (* set_of([sel], ...) instead of entity(sel, ...) *)
  q_sel : Z;                       (* selected variable *)
  q_vars : list (Z * Z);           (* variables with their types; the selected one first *)
  q_cond : option cond
}.

(* ---------- evaluation in memory ---------- *)
Definition binding := list (Z * obj).

Fixpoint walk (w : world) (o : obj) (chain : list Z) : res val :=
  match chain with
  | [] => Ok (VRef (o_key o))
  | a :: rest =>
      match assoc a (o_fields o) with
      | None => Err AttrErr
      | Some v =>
          match rest with
          | [] => Ok v
          | _ :: _ =>
              match v with
              | VRef k => match find_obj w k with Some o' => walk w o' rest | None => Err AttrErr end
              | _ => Err AttrErr                       (* 'NoneType' object has no attribute ... *)
              end
          end
      end
  end.

Definition eval_operand (w : world) (b : binding) (x : operand) : res val :=
  match x with
  | OAttr v chain => match assoc v b with Some o => walk w o chain | None => Err AttrErr end
  | OLit c => Ok c
  | OList _ => Ok VObjLit
  | OVar v => match assoc v b with Some o => Ok (VRef (o_key o)) | None => Err AttrErr end
  end.

Definition py_contains (w : world) (container : operand) (cv item : val) : res bool :=
  match container with
  | OList cs => Ok (existsb (fun c => val_eq eq_fuel w item c) cs)
  | _ => match cv, item with
         | VStr h, VStr n => Ok (is_infix n h)
         | _, _ => Err TypeErr
         end
  end.
Definition truthy (v : val) : bool :=
  match v with VNull => false | VInt z => negb (z =? 0) | VStr s => negb (zlist_eqb s []) | _ => true end.

Fixpoint eval_cond (w : world) (b : binding) (c : cond) : res bool :=
  match c with
  | CCmp op l r =>
      match eval_operand w b l with Err e => Err e | Ok x =>
      match eval_operand w b r with Err e => Err e | Ok y => py_cmp w op x y end end
  | CContains ct it =>
      match eval_operand w b ct with Err e => Err e | Ok x =>
      match eval_operand w b it with Err e => Err e | Ok y => py_contains w ct x y end end
  | CAnd p q => match eval_cond w b p with Err e => Err e | Ok false => Ok false | Ok true => eval_cond w b q end
  | COr p q => match eval_cond w b p with Err e => Err e | Ok true => Ok true | Ok false => eval_cond w b q end
  | CNot p => match eval_cond w b p with Err e => Err e | Ok t => Ok (negb t) end
  | CTruth o => match eval_operand w b o with Err e => Err e | Ok v => Ok (truthy v) end
  | CInSet cs it => match eval_operand w b it with
                    | Err e => Err e
                    | Ok y => Ok (existsb (fun c => val_eq eq_fuel w y c) cs)
                    end
  | COther => Err AttrErr                          (* its in-memory meaning is not modelled *)
  end.

Fixpoint bindings (sc : schema) (w : world) (vars : list (Z * Z)) : list binding :=
  match vars with
  | [] => [[]]
  | (v, c) :: vars' =>
      flat_map (fun o => map (fun b => (v, o) :: b) (bindings sc w vars')) (instances sc w c)
  end.

Fixpoint collect (f : binding -> res bool) (sel : Z) (bs : list binding) : res (list Z) :=
  match bs with
  | [] => Ok []
  | b :: bs' =>
      match f b with
      | Err e => Err e
      | Ok t =>
          match collect f sel bs' with
          | Err e => Err e
          | Ok l => Ok (if t then match assoc sel b with Some o => o_key o :: l | None => l end else l)
          end
      end
  end.

(* the rows of the selected variable, one per satisfying binding, in domain order *)
Definition answers (sc : schema) (q : query) (w : world) : res (list Z) :=
  collect (fun b => match q_cond q with None => Ok true | Some c => eval_cond w b c end)
          (q_sel q) (bindings sc w (q_vars q)).

(* ---------- the(...) / .one() ---------- *)
Inductive one_result := OneValue (k : Z) | NoneFound | MultipleFound | OneFailed.
Definition one_of (r : res (list Z)) : one_result :=
  match r with
  | Ok [k] => OneValue k
  | Ok [] => NoneFound
  | Ok (_ :: _ :: _) => MultipleFound
  | Err _ => OneFailed
  end.

(* ---------- printing ---------- *)
(* outcome of either side:  [0; keys]  rows |  [5] none found (the) | [6] several found (the)
   | [7] evaluation raised something else (memory: TypeError/AttributeError; SQL: see the model) *)
Definition show_rows (the : bool) (sorted_set : bool) (r : res (list Z)) : sx :=
  match r with
  | Err _ => SL [SZ 7]
  | Ok l =>
      if the then match l with [] => SL [SZ 5] | [k] => SL [SZ 0; SL [SZ k]] | _ => SL [SZ 6] end
      else SL [SZ 0; SL (if sorted_set then sx_set (map SZ l) else sx_sort (map SZ l))]
  end.
Definition show_both (the : bool) (r : res (list Z)) : sx :=
  SL [show_rows the false r; if the then show_rows true false r else show_rows false true r].
Definition spec_out (sc : schema) (q : query) (w : world) : sx := show_both (q_the q) (answers sc q w).
