(* C06 proofs, part 2: per-field coverage and static well-formedness of the generated schema. *)
From Coq Require Import List String Ascii Bool ZArith Arith Lia Permutation.
From Krrood Require Import Base.Sx Orm.SchemaStr Orm.SchemaSpec Gen.ParseField Orm.Schema Orm.SchemaProofs.
Import ListNotations.
Open Scope string_scope.
Open Scope nat_scope.
Open Scope list_scope.

Definition dao_of (n : string) : string := tablename n.
Definition pk_of (tn : string) : string := full_primary_key_name tn primary_key_name.

Lemma is_mapped_find M t : is_mapped M t = true -> exists tc, find_cls M t = Some tc /\ In tc M /\ c_name tc = t.
Proof.
  unfold is_mapped. destruct (find_cls M t) eqn:E; [|discriminate]. intros _. exists c. split; auto.
  now apply find_some_name.
Qed.

(* ---------------------------------------------------------------- each field yields what its annotation calls for *)
Lemma parse_one_ok M c f : field_ok dao_of pk_of M c f (parse_one M c f).
Proof.
  unfold field_ok, kind_of, parse_one.
  destruct f as [nm sh ep d]. destruct ep as [b|m e|t]; simpl f_ep.
  - (* builtin scalar / JSON list *)
    destruct sh; destruct b; cbn; try exact I;
      (split; [reflexivity|]); eexists; cbn; repeat split; intros; try reflexivity; try discriminate.
  - destruct sh; cbn; try exact I;
      (split; [reflexivity|]); eexists; cbn; repeat split; intros; try reflexivity; try discriminate.
  - destruct (is_mapped M t) eqn:E.
    + destruct (is_mapped_find _ _ E) as [tc [F [_ N]]].
      destruct sh; cbn; rewrite E; cbn; unfold target_of; cbn; rewrite F; cbn; rewrite N;
        (split; [reflexivity|]); do 2 eexists; cbn; repeat split; reflexivity.
    + destruct sh; cbn; exact I.
Qed.
