(* C06 proofs, part 2: per-field coverage and static well-formedness of the generated schema. *)
From Coq Require Import List String Ascii Bool ZArith Arith Lia Permutation.
From Krrood Require Import Base.Sx Orm.SchemaStr Orm.SchemaSpec Gen.ParseField Orm.Schema Orm.SchemaProofs.
Import ListNotations.
Open Scope string_scope.
Open Scope nat_scope.
Open Scope list_scope.

Definition dao_of (n : string) : string := tablename n.
Definition pk_of (tn : string) : string := full_primary_key_name tn primary_key_name.

Lemma is_mapped_find M t : is_mapped M t = true -> exists tc, find_cls M t = Some tc /\ In tc M /\ c_name tc = t.
Proof.
  unfold is_mapped. destruct (find_cls M t) eqn:E; [|discriminate]. intros _. exists c. split; auto.
  now apply find_some_name.
Qed.

(* ---------------------------------------------------------------- each field yields what its annotation calls for *)
Lemma parse_one_ok M c f : field_ok dao_of pk_of M c f (parse_one M c f).
Proof.
  unfold field_ok, kind_of, parse_one.
  destruct f as [nm sh ep d]. destruct ep as [b|m e|t]; simpl f_ep.
  - (* builtin scalar / JSON list *)
    destruct sh; destruct b; cbn; try exact I;
      (split; [reflexivity|]); eexists; cbn; repeat split; intros; try reflexivity; try discriminate.
  - destruct (String.eqb m "builtins") eqn:E1; [destruct sh; cbn; rewrite ?E1; exact I|].
    destruct (String.eqb m "datetime") eqn:E2; [destruct sh; cbn; rewrite ?E1, ?E2; exact I|].
    destruct sh; cbn; rewrite ?E1, ?E2; cbn; try exact I;
      (split; [reflexivity|]); eexists; cbn; repeat split; intros; try reflexivity; try discriminate;
      unfold col_code; cbn; rewrite E1, E2; reflexivity.
  - destruct (is_mapped M t) eqn:E.
    + destruct (is_mapped_find _ _ E) as [tc [F [_ N]]].
      destruct sh; cbn; rewrite E; cbn; unfold target_of; cbn; rewrite F; cbn; rewrite N;
        (split; [reflexivity|]); do 2 eexists; cbn; repeat split; try reflexivity;
        match goal with |- context [if ?b then _ else _] => destruct b end;
        ((left; reflexivity) || (right; reflexivity)).
    + destruct sh; cbn; rewrite E; exact I.
Qed.

(* ---------------------------------------------------------------- accessors *)
Lemma wfM_class M c : wfM M = true -> In c M ->
  str_nodup (field_names (c_fields c)) = true /\ forallb (field_in_grammar M) (c_fields c) = true
  /\ terminates (List.length M) M c = true.
Proof.
  intros W Hc. unfold wfM in W. apply andb_true_iff in W. destruct W as [_ W].
  rewrite forallb_forall in W. specialize (W c Hc). unfold wf_class in W.
  repeat (apply andb_true_iff in W; destruct W as [W ?]). auto.
Qed.

Lemma own_public_in M c f : In f (own_public_fields M c) -> In f (c_fields c).
Proof. unfold own_public_fields, own_fields. intros H. apply filter_In in H. destruct H as [H _]. apply filter_In in H. tauto. Qed.

Lemma Forall2_map_r {A B} (P : A -> B -> Prop) (g : A -> B) l : (forall x, In x l -> P x (g x)) -> Forall2 P l (map g l).
Proof. induction l; simpl; intros H; constructor; auto. Qed.

Lemma table_items_own M c : wfM M = true -> In c M -> table_items M c = map (parse_one M c) (own_public_fields M c).
Proof. intros W Hc. unfold table_items. now rewrite parsed_fields_own. Qed.

(* ---------------------------------------------------------------- C06_field_coverage *)
Theorem field_coverage M c : wfM M = true -> In c M ->
  exists its,
    Forall2 (field_ok dao_of pk_of M c) (own_public_fields M c) its
    /\ t_builtin (table_of M c) = flat_map i_builtin its
    /\ (exists disc, t_custom (table_of M c) = flat_map i_custom its ++ disc /\ (disc = [] \/ disc = [disc_column]))
    /\ t_fks (table_of M c) = flat_map i_fks its
    /\ t_rels (table_of M c) = flat_map i_rels its
    /\ table_items M c = its.
Proof.
  intros W Hc. exists (map (parse_one M c) (own_public_fields M c)).
  split; [apply Forall2_map_r; intros; apply parse_one_ok|].
  unfold table_of; cbn. rewrite (table_items_own M c W Hc). repeat split; auto.
  eexists; split; [reflexivity|]. destruct (is_polymorphic_root _ _); auto.
Qed.

(* fields starting with "_" and inherited fields yield nothing: they are not among the fields a table is built from *)
Lemma private_not_parsed M c f : wfM M = true -> In c M -> In f (parsed_fields M c) ->
  is_public f = true /\ In f (c_fields c)
  /\ ~ In (f_name f) (flat_map (fun p => field_names (c_fields p)) (ancestors (List.length M) M c)).
Proof.
  intros W Hc H. rewrite (parsed_fields_own M c W Hc) in H. unfold own_public_fields, own_fields in H.
  apply filter_In in H. destruct H as [H P]. apply filter_In in H. destruct H as [H N].
  repeat split; auto. apply negb_true_iff in N. now apply str_in_false.
Qed.

(* ---------------------------------------------------------------- no generation error inside the grammar *)
Lemma grammar_no_err M c f : field_in_grammar M f = true -> i_err (parse_one M c f) = false.
Proof.
  intros G. pose proof (parse_one_ok M c f) as H. unfold field_ok in H. unfold field_in_grammar in G.
  destruct (kind_of M f); try discriminate; tauto.
Qed.

Lemma items_no_err M c : wfM M = true -> In c M -> existsb i_err (table_items M c) = false.
Proof.
  intros W Hc. rewrite (table_items_own M c W Hc).
  destruct (existsb i_err (map (parse_one M c) (own_public_fields M c))) eqn:E; auto.
  apply existsb_exists in E. destruct E as [it [Hit E]]. apply in_map_iff in Hit. destruct Hit as [f [<- Hf]].
  destruct (wfM_class M c W Hc) as [_ [G _]]. rewrite forallb_forall in G.
  rewrite (grammar_no_err M c f) in E; [discriminate|]. apply G. now apply own_public_in in Hf.
Qed.

Theorem gen_no_error M order : wfM M = true -> (forall c, In c order -> In c M) -> s_error (gen M order) = false.
Proof.
  intros W Ho. unfold gen; cbn.
  destruct (existsb _ order) eqn:E; auto. apply existsb_exists in E. destruct E as [c [Hc E]].
  rewrite (items_no_err M c W (Ho c Hc)) in E. discriminate.
Qed.

(* ---------------------------------------------------------------- one DAO per class, inheritance mirrored *)
Theorem one_dao_per_class M order : topo M order ->
  s_tables (gen M order) = map (table_of M) order
  /\ map t_cls (s_tables (gen M order)) = map c_name order
  /\ NoDup (map t_cls (s_tables (gen M order)))
  /\ (forall c, In c M -> In (table_of M c) (s_tables (gen M order)))
  /\ (forall t, In t (s_tables (gen M order)) -> exists c, In c M /\ t = table_of M c).
Proof.
  intros [T1 [T2 _]]. unfold gen; cbn. repeat split.
  - rewrite map_map. reflexivity.
  - rewrite map_map. exact T2.
  - intros c Hc. apply in_map. now apply T1.
  - intros t Ht. apply in_map_iff in Ht. destruct Ht as [c [<- Hc]]. exists c. split; auto. now apply T1.
Qed.

Theorem mirrors_inheritance M c :
  t_name (table_of M c) = dao_of (c_name c) /\ t_cls (table_of M c) = c_name c /\ t_module (table_of M c) = c_module c
  /\ t_base (table_of M c) = option_map (fun p => dao_of (c_name p)) (parent_of M c)
  /\ t_pk_target (table_of M c) = match parent_of M c with Some p => pk_of (dao_of (c_name p)) | None => "" end.
Proof. unfold table_of; cbn. repeat split. Qed.

Lemma bases_first_gen M : forall order seen, parents_first M seen order = true ->
  wf_bases_first (map tablename seen) (map (table_of M) order) = true.
Proof.
  induction order as [|c r IH]; intros seen H; simpl in *; auto.
  apply andb_true_iff in H. destruct H as [H1 H2]. apply andb_true_iff. split.
  - destruct (parent_of M c) as [p|]; cbn; auto. apply str_in_In. apply in_map. now apply str_in_In.
  - apply (IH (c_name c :: seen) H2).
Qed.

Theorem bases_first M order : topo M order -> wf_bases_first [] (s_tables (gen M order)) = true.
Proof. intros [_ [_ T]]. exact (bases_first_gen M order [] T). Qed.

(* ---------------------------------------------------------------- association tables *)
Lemma assoc_shape M c f a : In a (i_assoc (parse_one M c f)) ->
  exists t, kind_of M f = KColl t
    /\ a_name a = o2m_association_table_name (tablename (c_name c)) (f_name f)
    /\ (let l0 := o2m_left_fk_name (tablename (c_name c)) in let r0 := o2m_right_fk_name (tablename t) in
        a_lfk a = (if o2m_fk_names_clash l0 r0 then o2m_left_fk_name_on_clash l0 else l0)
        /\ a_rfk a = (if o2m_fk_names_clash l0 r0 then o2m_right_fk_name_on_clash r0 else r0))
    /\ a_lpk a = pk_of (dao_of (c_name c)) /\ a_rpk a = pk_of (dao_of t).
Proof.
  unfold kind_of, parse_one. destruct f as [nm sh ep d]. destruct ep as [b|m e|t]; simpl f_ep.
  - destruct sh; destruct b; cbn; intros [].
  - destruct sh; cbn; try (intros H; destruct H; fail); destruct (String.eqb m "builtins"); cbn; intros H; destruct H.
  - destruct (is_mapped M t) eqn:E.
    + destruct (is_mapped_find _ _ E) as [tc [F [_ N]]].
      destruct sh; cbn; rewrite ?E; cbn; unfold target_of; cbn; rewrite F; cbn; rewrite ?N; intros H;
        try (destruct H; fail); destruct H as [<-|[]]; exists t; cbn; repeat split; reflexivity.
    + destruct sh; cbn; rewrite ?E; cbn; unfold target_of; cbn; intros H; try (destruct H; fail).
      all: unfold is_mapped in E; destruct (find_cls M t); [discriminate|destruct H].
Qed.

Lemma lower_dao_inj a b : py_lower (tablename a) = py_lower (tablename b) -> py_lower a = py_lower b.
Proof. unfold tablename. rewrite !py_lower_append. apply append_inj_l. Qed.

Theorem assoc_columns_distinct M order : wfM M = true -> (forall c, In c order -> In c M) ->
  wf_assoc_columns (gen M order) = true.
Proof.
  intros W Ho. unfold wf_assoc_columns, gen; cbn. apply forallb_forall. intros a Ha.
  apply in_flat_map in Ha. destruct Ha as [c [Hc Ha]]. pose proof (Ho c Hc) as HcM.
  rewrite (table_items_own M c W HcM) in Ha. apply in_flat_map in Ha. destruct Ha as [it [Hit Ha]].
  apply in_map_iff in Hit. destruct Hit as [f [<- Hf]].
  destruct (assoc_shape M c f a Ha) as [t [K [_ [[L R] _]]]].
  apply negb_true_iff. apply String.eqb_neq. rewrite L, R.
  destruct (o2m_fk_names_clash _ _) eqn:E.
  - (* both columns would be named alike: they get different prefixes *)
    unfold o2m_left_fk_name_on_clash, o2m_right_fk_name_on_clash. cbn. discriminate.
  - unfold o2m_fk_names_clash in E. now apply String.eqb_neq in E.
Qed.

(* ---------------------------------------------------------------- polymorphic roots and derived tables *)
Lemma has_kv_here t k v r : t_mapper t = r -> In (k, v) r -> has_kv t k v = true.
Proof.
  intros E H. unfold has_kv. rewrite E. apply existsb_exists. exists (k, v). split; auto. cbn. now rewrite !String.eqb_refl.
Qed.

Lemma tablename_inj a b : tablename a = tablename b -> a = b.
Proof. unfold tablename. apply append_inj_l. Qed.

Lemma mapper_derived M c p : parent_of M c = Some p ->
  t_mapper (table_of M c) = mapper_args_derived (tablename (c_name c)) ++ mapper_args_joined (pk_of (dao_of (c_name p))).
Proof. intros P. unfold table_of; cbn. rewrite P. reflexivity. Qed.

Lemma mapper_root M c : parent_of M c = None -> has_children M c = true ->
  t_mapper (table_of M c) = mapper_args_root (tablename (c_name c))
  /\ t_custom (table_of M c) = flat_map i_custom (table_items M c) ++ [disc_column].
Proof. intros P H. unfold table_of; cbn. rewrite P, H. cbn. rewrite ?app_nil_r. auto. Qed.

Theorem polymorphic_ok M order : wfM M = true -> (forall c, In c order -> In c M) -> wf_polymorphic (gen M order) = true.
Proof.
  intros W Ho. unfold wf_polymorphic. apply forallb_forall. intros t Ht. cbn in Ht.
  apply in_map_iff in Ht. destruct Ht as [c [<- Hc]].
  destruct (mirrors_inheritance M c) as [N [_ [_ [B PT]]]].
  destruct (parent_of M c) as [p|] eqn:P.
  - (* derived *)
    rewrite B. cbn [option_map]. rewrite N, PT. rewrite !andb_true_iff. repeat split.
    + eapply has_kv_here; [apply (mapper_derived M c p P)|]. left; reflexivity.
    + eapply has_kv_here; [apply (mapper_derived M c p P)|]. right; left; reflexivity.
    + apply String.eqb_eq. reflexivity.
  - (* root *)
    rewrite B. cbn [option_map]. destruct (existsb _ (s_tables (gen M order))) eqn:E; auto.
    apply existsb_exists in E. destruct E as [u [Hu E]]. cbn in Hu. apply in_map_iff in Hu. destruct Hu as [d [<- Hd]].
    assert (HC : has_children M c = true).
    { unfold has_children. apply existsb_exists. exists d. split; [now apply Ho|].
      destruct (mirrors_inheritance M d) as [_ [_ [_ [Bd _]]]]. rewrite Bd in E.
      destruct (parent_of M d) as [q|]; cbn in E; [|discriminate].
      apply String.eqb_eq in E. rewrite ?N in E. apply tablename_inj in E. rewrite E. apply String.eqb_refl. }
    destruct (mapper_root M c P HC) as [MR CU]. rewrite N. rewrite !andb_true_iff. repeat split.
    + apply str_in_In. rewrite CU, map_app. apply in_app_iff. right. left; reflexivity.
    + eapply has_kv_here; [apply MR|]. left; reflexivity.
    + eapply has_kv_here; [apply MR|]. right; left; reflexivity.
Qed.

(* ---------------------------------------------------------------- imports *)
Definition item_mods (it : items) : list string :=
  flat_map col_mods (i_builtin it) ++ flat_map col_mods (i_custom it) ++ flat_map fk_mods (i_fks it) ++ flat_map rel_mods (i_rels it).

Lemma item_mods_ok M c f m : In m (item_mods (parse_one M c f)) ->
  m = "typing" \/ m = "builtins" \/ In m (i_imports (parse_one M c f)).
Proof.
  unfold item_mods, parse_one. destruct f as [nm sh ep d]. destruct ep as [b|mo e|t]; simpl f_ep.
  - destruct sh; destruct b; cbn; intuition.
  - destruct sh; cbn; try (intuition; fail); destruct (String.eqb mo "builtins") eqn:EB; cbn; intuition;
      destruct (String.eqb mo ""); cbn in *; intuition;
      apply String.eqb_eq in EB; subst; auto.
  - destruct (is_mapped M t) eqn:E.
    + destruct (is_mapped_find _ _ E) as [tc [F [_ N]]].
      destruct sh; cbn; rewrite ?E; cbn; unfold target_of; cbn; rewrite F; cbn; intuition.
    + destruct sh; cbn; rewrite ?E; cbn; unfold target_of; cbn; try (intuition; fail);
        unfold is_mapped in E; destruct (find_cls M t); try discriminate; cbn; intuition.
Qed.

Lemma in_flat_flat {A B C} (g : C -> list B) (h : B -> list A) (l : list C) x :
  In x (flat_map h (flat_map g l)) -> exists it, In it l /\ In x (flat_map h (g it)).
Proof.
  intros H. apply in_flat_map in H. destruct H as [b [Hb Hx]]. apply in_flat_map in Hb. destruct Hb as [it [Hit Hb]].
  exists it. split; auto. apply in_flat_map. eauto.
Qed.

Theorem imports_closed M order : wfM M = true -> topo M order ->
  wf_imports (gen M order) = true.
Proof.
  intros W [T1 _]. unfold wf_imports. apply forallb_forall. intros t Ht. cbn in Ht.
  apply in_map_iff in Ht. destruct Ht as [c [<- Hc]]. pose proof (proj1 (T1 c) Hc) as HcM.
  apply str_subset_incl. intros m Hm.
  assert (TY : In "typing" (s_imports (gen M order))) by (cbn; auto).
  assert (BI : In "builtins" (s_imports (gen M order))) by (cbn; auto).
  assert (IT : forall it, In it (table_items M c) -> forall x, In x (item_mods it) -> In x (s_imports (gen M order))).
  { intros it Hit x Hx. rewrite (table_items_own M c W HcM) in Hit. apply in_map_iff in Hit. destruct Hit as [f [<- Hf]].
    destruct (item_mods_ok M c f x Hx) as [->|[->|I]]; auto.
    cbn. right. right. right. apply in_app_iff. right. apply in_flat_map. exists c. split; auto.
    rewrite (table_items_own M c W HcM). apply in_flat_map. exists (parse_one M c f). split; auto. now apply in_map. }
  unfold table_mods in Hm. cbn [app] in Hm. destruct Hm as [<-|[<-|Hm]]; auto.
  - cbn. right. right. right. apply in_app_iff. left. apply in_map_iff. exists c. auto.
  - unfold table_of in Hm; cbn in Hm. rewrite !in_app_iff in Hm. unfold item_mods in IT.
    destruct Hm as [Hm|[Hm|[Hm|Hm]]].
    + apply in_flat_flat in Hm. destruct Hm as [it [Hit Hm]]. apply (IT it Hit). rewrite !in_app_iff. auto.
    + rewrite flat_map_app, in_app_iff in Hm. destruct Hm as [Hm|Hm].
      * apply in_flat_flat in Hm. destruct Hm as [it [Hit Hm]]. apply (IT it Hit). rewrite !in_app_iff. auto.
      * destruct (is_polymorphic_root _ _); cbn in Hm; tauto.
    + apply in_flat_flat in Hm. destruct Hm as [it [Hit Hm]]. apply (IT it Hit). rewrite !in_app_iff. auto.
    + apply in_flat_flat in Hm. destruct Hm as [it [Hit Hm]]. apply (IT it Hit). rewrite !in_app_iff. auto.
Qed.

(* ---------------------------------------------------------------- every foreign key / relationship target exists *)
Lemma kind_ref_mapped M f t : kind_of M f = KRef t \/ kind_of M f = KColl t -> exists tc, In tc M /\ c_name tc = t.
Proof.
  unfold kind_of. destruct (f_ep f) as [b| |u]; destruct (is_coll (f_shape f)); try destruct (json_elem b);
    try destruct (_ || _); try (intros [H|H]; discriminate).
  all: destruct (is_mapped M u) eqn:E; try (intros [H|H]; discriminate).
  all: destruct (is_mapped_find _ _ E) as [tc [_ [A B]]]; intros [H|H]; inversion H; subst; eauto.
Qed.

Lemma item_targets M c f : field_in_grammar M f = true ->
  let it := parse_one M c f in
  (forall k, In k (i_fks it) -> exists tc, In tc M /\ fk_target k = pk_of (dao_of (c_name tc)))
  /\ (forall r, In r (i_rels it) -> exists tc, In tc M /\ rel_target r = dao_of (c_name tc)
         /\ (rel_secondary r = "" \/ In (rel_secondary r) (map a_name (i_assoc it)))
         /\ (rel_uselist r = true \/ In (rel_fk r) (map fk_name (i_fks it))))
  /\ (forall a, In a (i_assoc it) -> a_lpk a = pk_of (dao_of (c_name c)) /\ exists tc, In tc M /\ a_rpk a = pk_of (dao_of (c_name tc))).
Proof.
  intros G it. pose proof (parse_one_ok M c f) as H. fold it in H. unfold field_ok in H. unfold field_in_grammar in G.
  destruct (kind_of M f) eqn:K; try discriminate.
  - destruct H as [_ [col [_ [_ [_ [_ [_ [A [B C]]]]]]]]]. rewrite A, B, C. split; [|split]; intros ? Hx; destruct Hx.
  - destruct (kind_ref_mapped M f target (or_introl K)) as [tc [Htc N]].
    destruct H as [_ [k [r [A [B [_ [_ [C [_ [T [U [FK [S [FT _]]]]]]]]]]]]]]. rewrite A, B, C. split; [|split].
    + intros k' [<-|[]]. exists tc. rewrite N. auto.
    + intros r' [<-|[]]. exists tc. rewrite N. repeat split; auto. right. cbn. auto.
    + intros ? [].
  - destruct (kind_ref_mapped M f target (or_intror K)) as [tc [Htc N]].
    destruct H as [_ [a [r [A [B [_ [_ [C [_ [T [U [S [L R]]]]]]]]]]]]]. rewrite A, B, C. split; [|split].
    + intros ? [].
    + intros r' [<-|[]]. exists tc. rewrite N. repeat split; auto. right. cbn. auto.
    + intros a' [<-|[]]. split; auto. exists tc. rewrite N. auto.
Qed.

Lemma pk_in M order tc : In tc order -> In (pk_of (dao_of (c_name tc))) (pk_names (gen M order)).
Proof. intros H. unfold pk_names; cbn. rewrite map_map. apply in_map_iff. exists tc. split; auto. Qed.

Lemma tn_in M order tc : In tc order -> In (dao_of (c_name tc)) (table_names (gen M order)).
Proof. intros H. unfold table_names; cbn. rewrite map_map. apply in_map_iff. exists tc. split; auto. Qed.

Theorem fk_targets_exist M order : wfM M = true -> topo M order -> wf_fk_targets (gen M order) = true.
Proof.
  intros W [T1 _]. unfold wf_fk_targets. apply andb_true_iff. split.
  - apply forallb_forall. intros t Ht. cbn in Ht. apply in_map_iff in Ht. destruct Ht as [c [<- Hc]].
    pose proof (proj1 (T1 c) Hc) as HcM. destruct (wfM_class M c W HcM) as [_ [G _]]. rewrite forallb_forall in G.
    assert (IT : forall it, In it (table_items M c) -> exists f, it = parse_one M c f /\ field_in_grammar M f = true).
    { intros it Hit. rewrite (table_items_own M c W HcM) in Hit. apply in_map_iff in Hit. destruct Hit as [f [<- Hf]].
      exists f. split; auto. apply G. now apply own_public_in in Hf. }
    rewrite !andb_true_iff. repeat split.
    + apply forallb_forall. intros k Hk. unfold table_of in Hk; cbn in Hk. apply in_flat_map in Hk.
      destruct Hk as [it [Hit Hk]]. destruct (IT it Hit) as [f [-> Gf]].
      destruct (item_targets M c f Gf) as [A _]. destruct (A k Hk) as [tc [Htc ->]].
      apply str_in_In. apply pk_in. now apply T1.
    + apply forallb_forall. intros r Hr. unfold table_of in Hr; cbn in Hr. apply in_flat_map in Hr.
      destruct Hr as [it [Hit Hr]]. destruct (IT it Hit) as [f [-> Gf]].
      destruct (item_targets M c f Gf) as [_ [A _]]. destruct (A r Hr) as [tc [Htc [-> _]]].
      apply str_in_In. apply tn_in. now apply T1.
    + apply forallb_forall. intros r Hr. unfold table_of in Hr; cbn in Hr. apply in_flat_map in Hr.
      destruct Hr as [it [Hit Hr]]. destruct (IT it Hit) as [f [E Gf]]. subst it.
      destruct (item_targets M c f Gf) as [_ [A _]]. destruct (A r Hr) as [tc [_ [_ [[S|S] _]]]].
      * rewrite S. reflexivity.
      * apply orb_true_iff. right. apply str_in_In. cbn. apply in_map_iff in S. destruct S as [a [<- Ha]].
        apply in_map. apply in_flat_map. exists c. split; auto. apply in_flat_map. eauto.
    + apply forallb_forall. intros r Hr. unfold table_of in Hr; cbn in Hr. apply in_flat_map in Hr.
      destruct Hr as [it [Hit Hr]]. destruct (IT it Hit) as [f [E Gf]]. subst it.
      destruct (item_targets M c f Gf) as [_ [A _]]. destruct (A r Hr) as [tc [_ [_ [_ [S|S]]]]].
      * rewrite S. reflexivity.
      * apply orb_true_iff. right. apply str_in_In. unfold table_of; cbn. apply in_map_iff in S. destruct S as [k [<- Hk]].
        apply in_map. apply in_flat_map. eauto.
    + destruct (mirrors_inheritance M c) as [_ [_ [_ [_ PT]]]]. rewrite PT.
      destruct (parent_of M c) as [p|] eqn:P; [|reflexivity]. apply orb_true_iff. right.
      apply str_in_In. apply pk_in. apply T1. now destruct (parent_in _ _ _ P).
  - apply forallb_forall. intros a Ha. cbn in Ha. apply in_flat_map in Ha. destruct Ha as [c [Hc Ha]].
    pose proof (proj1 (T1 c) Hc) as HcM. destruct (wfM_class M c W HcM) as [_ [G _]]. rewrite forallb_forall in G.
    rewrite (table_items_own M c W HcM) in Ha. apply in_flat_map in Ha. destruct Ha as [it [Hit Ha]].
    apply in_map_iff in Hit. destruct Hit as [f [<- Hf]].
    destruct (item_targets M c f (G f (own_public_in M c f Hf))) as [_ [_ A]]. destruct (A a Ha) as [L [tc [Htc R]]].
    rewrite L, R. apply andb_true_iff. split; apply str_in_In; apply pk_in; auto. now apply T1.
Qed.

(* ---------------------------------------------------------------- determinism: the tables do not depend on the emission order *)
Theorem tables_order_independent M o1 o2 : Permutation o1 o2 ->
  Permutation (s_tables (gen M o1)) (s_tables (gen M o2)).
Proof. intros P. unfold gen; cbn. now apply Permutation_map. Qed.

(* generation is a function of the class model and the emission order: no hidden state, nothing depends on what was
   generated before (the implementation is compared against this by regenerating in the same interpreter) *)
Theorem generation_is_a_function M order s1 s2 : s1 = gen M order -> s2 = gen M order -> s1 = s2.
Proof. congruence. Qed.

(* ---------------------------------------------------------------- refutation witnesses (defect classes outside F) *)
Definition fld (n : string) (sh : shape) (ep : endpoint) : field := {| f_name := n; f_shape := sh; f_ep := ep; f_default := true |}.
Definition kls (n : string) (bases : list string) (fs : list field) : cls :=
  {| c_name := n; c_module := "m"; c_bases := bases; c_fields := fs |}.

Lemma topo_self M : str_nodup (map c_name M) = true -> parents_first M [] M = true -> topo M M.
Proof. intros A B. split; [tauto|]. split; auto. now apply str_nodup_NoDup. Qed.

Definition M_selfcoll : cmodel := [kls "Node" [] [fld "v" SPlain (EB BInt); fld "kids" SList (ECls "Node")]].
Definition M_nobuiltin : cmodel :=
  [kls "Ev" [] [fld "at" SPlain (EB BDatetime); fld "c" SPlain (EEnum "me" "Col"); fld "nxt" SOpt (ECls "Ev")]].
Definition M_fkalias : cmodel :=
  [kls "Tgt" [] [fld "v" SPlain (EB BInt)]; kls "Src" [] [fld "x" SOpt (ECls "Tgt"); fld "x_id" SPlain (EB BInt)]].
Definition M_reserved : cmodel := [kls "Doc" [] [fld "v" SPlain (EB BInt); fld "metadata" SPlain (EB BStr)]].
Definition M_pkname : cmodel := [kls "Doc" [] [fld "v" SPlain (EB BInt); fld "database_id" SPlain (EB BInt)]].
Definition M_discname : cmodel :=
  [kls "Doc" [] [fld "v" SPlain (EB BInt); fld "polymorphic_type" SPlain (EB BInt)]; kls "Sub" ["Doc"] [fld "w" SPlain (EB BInt)]].
Definition M_casefold : cmodel := [kls "Ab" [] [fld "v" SPlain (EB BInt)]; kls "AB" [] [fld "w" SPlain (EB BInt)]].
Definition M_assocname : cmodel :=
  [kls "A" [] [fld "v" SPlain (EB BInt); fld "bdao_c" SList (ECls "T")]; kls "Adao_b" [] [fld "c" SList (ECls "T")]; kls "T" [] []].

Ltac refute M := exists M, M; split; [vm_compute; reflexivity|]; split; [apply topo_self; vm_compute; reflexivity|]; vm_compute; auto.

(* still open: C06-g *)
Lemma refuted_casefold : exists M order, wfM M = true /\ topo M order /\ wf_table_names_unique (gen M order) = false.
Proof. refute M_casefold. Qed.

(* regression examples.  C06-a (c757abc): the collection of the own class now has two distinct association columns *)
Lemma fixed_selfcoll : wfM M_selfcoll = true /\ inF M_selfcoll = true /\ wf_assoc_columns (gen M_selfcoll M_selfcoll) = true
  /\ schema_wf (gen M_selfcoll M_selfcoll) = true /\ model_obs (gen M_selfcoll M_selfcoll) = spec_obs M_selfcoll.
Proof. repeat split; vm_compute; reflexivity. Qed.
(* C06-c/d/e/f/h (bd9b8e0): the clashing shapes are refused, as the Spec now says *)
Definition refused_as_specified (M : cmodel) : Prop :=
  wfM M = true /\ refused (gen M M) = true /\ model_obs (gen M M) = SL [SZ 2] /\ case_spec M = SL [SZ 2].
Lemma refused_fkalias : refused_as_specified M_fkalias. Proof. repeat split; vm_compute; reflexivity. Qed.
Lemma refused_reserved : refused_as_specified M_reserved. Proof. repeat split; vm_compute; reflexivity. Qed.
Lemma refused_pkname : refused_as_specified M_pkname. Proof. repeat split; vm_compute; reflexivity. Qed.
Lemma refused_discname : refused_as_specified M_discname. Proof. repeat split; vm_compute; reflexivity. Qed.
Lemma refused_assocname : refused_as_specified M_assocname. Proof. repeat split; vm_compute; reflexivity. Qed.
(* C06-n (5e556b1): a subclass field x_id beside an inherited reference x *)
Definition M_inhfkalias : cmodel :=
  [kls "Tgt" [] [fld "v" SPlain (EB BInt)]; kls "Pa" [] [fld "x" SOpt (ECls "Tgt")]; kls "Ch" ["Pa"] [fld "x_id" SPlain (EB BInt)]].
Lemma refused_inhfkalias : refused_as_specified M_inhfkalias. Proof. repeat split; vm_compute; reflexivity. Qed.
(* C06-p (84214c3): the foreign-key column of a reference g beside an inherited reference named g_id *)
Definition M_inhrelalias : cmodel :=
  [kls "Tgt" [] [fld "v" SPlain (EB BInt)]; kls "Pa" [] [fld "g_id" SOpt (ECls "Tgt")]; kls "Ch" ["Pa"] [fld "g" SOpt (ECls "Tgt")]].
Lemma refused_inhrelalias : refused_as_specified M_inhrelalias. Proof. repeat split; vm_compute; reflexivity. Qed.

(* regression example for the repaired C06-b: a model without any builtin-typed public field is now well-formed *)
Lemma fixed_nobuiltin : wfM M_nobuiltin = true /\ inF M_nobuiltin = true /\ wf_imports (gen M_nobuiltin M_nobuiltin) = true
  /\ schema_wf (gen M_nobuiltin M_nobuiltin) = true /\ model_obs (gen M_nobuiltin M_nobuiltin) = spec_obs M_nobuiltin.
Proof. repeat split; vm_compute; reflexivity. Qed.

(* C06-i (repaired by 280300b): ORMatic now also orders a class after the first mapped class of its MRO, so every
   topological order of its inheritance graph is parents-first along parent_table *)
Lemma graph_parents_first_parents_first M : forall order seen,
  graph_parents_first M seen order = true -> parents_first M seen order = true.
Proof.
  induction order as [|c r IH]; intros seen H; simpl in *; auto.
  apply andb_true_iff in H. destruct H as [H H2]. apply andb_true_iff in H. destruct H as [_ H1].
  apply andb_true_iff. split; auto.
Qed.

Theorem impl_order_topo M order : impl_order M order -> topo M order.
Proof. intros [A [B C]]. split; auto. split; auto. now apply graph_parents_first_parents_first. Qed.

Theorem emission_parents_first M order : impl_order M order -> wf_bases_first [] (s_tables (gen M order)) = true.
Proof. intros H. apply bases_first. now apply impl_order_topo. Qed.

Definition M_unmapped : cmodel :=
  [kls "Animal" [] [fld "n" SPlain (EB BInt)]; kls "Dog" ["MixDog"; "Animal"] [fld "g" SPlain (EB BBool)]].
(* regression example: the order that used to be admissible (it respects the direct-base edges: Dog's direct base is
   unmapped) and puts DogDAO before AnimalDAO is no longer a topological order of the graph *)
Lemma fixed_unmappedorder : wfM M_unmapped = true /\ inF M_unmapped = true
  /\ direct_parents_first M_unmapped [] (rev M_unmapped) = true
  /\ wf_bases_first [] (s_tables (gen M_unmapped (rev M_unmapped))) = false
  /\ graph_parents_first M_unmapped [] (rev M_unmapped) = false
  /\ graph_parents_first M_unmapped [] M_unmapped = true.
Proof. repeat split; vm_compute; reflexivity. Qed.
(* with a parents-first order the same model is fine: the parent is found past the unmapped class and the root is polymorphic *)
Lemma unmapped_ok : topo M_unmapped M_unmapped /\ parent_of M_unmapped (kls "Dog" ["MixDog"; "Animal"] [fld "g" SPlain (EB BBool)]) <> None
  /\ schema_wf (gen M_unmapped M_unmapped) = true /\ model_obs (gen M_unmapped M_unmapped) = spec_obs M_unmapped.
Proof. split; [apply topo_self; vm_compute; reflexivity|]. split; [vm_compute; discriminate|]. split; vm_compute; reflexivity. Qed.

(* a model of the grammar, inside F, with inheritance, a reference, collections and a private field: everything holds *)
Definition M_example : cmodel :=
  [kls "Aa" [] [fld "x" SPlain (EB BInt); fld "s" SOpt (EB BStr); fld "e" SOpt (EEnum "me" "Col"); fld "l" SList (EB BInt);
                fld "_p" SPlain (EB BInt); fld "r" SOpt (ECls "Bb"); fld "rs" SList (ECls "Cc")];
   kls "Bb" ["Aa"] [fld "y" SPlain (EB BFloat); fld "x" SPlain (EB BInt); fld "me" SPlain (ECls "Bb")];
   kls "Cc" [] [fld "bs" SSet (ECls "Aa"); fld "bs2" SList (ECls "Aa")]].
Lemma example_ok : wfM M_example = true /\ inF M_example = true /\ topo M_example M_example
  /\ schema_wf (gen M_example M_example) = true /\ model_obs (gen M_example M_example) = spec_obs M_example.
Proof. split; [vm_compute; reflexivity|]. split; [vm_compute; reflexivity|]. split; [apply topo_self; vm_compute; reflexivity|].
  split; vm_compute; reflexivity. Qed.
