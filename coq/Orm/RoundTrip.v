(* RoundTrip: from_dao (to_dao g) is isomorphic to g for every closed heap, alternatively mapped classes and DAOs below an
   alternatively mapped DAO included, UNLESS a memo hit of from_dao handed out a mapping object that was still in progress
   (a cycle first entered at an alternatively mapped object: finding C04-a, refutation witness below).
   User code is a pair of Section variables [enc] / [dec] (create_instance / create_from_dao on the column values) with the
   round-trip hypothesis the property text grants: dec c (enc c s) = s. *)
From Coq Require Import List ZArith Bool Lia Arith PeanoNat.
From Krrood Require Import Base.Sx Orm.ObjGraph Orm.Iso Orm.ObjGraphWalk Orm.ObjGraphWalkProofs Orm.IsoCanon Orm.ToDao Orm.FromDao.
Import ListNotations.
Local Open Scope nat_scope.

Definition round_trip (enc dec : Z -> list Z -> list Z) (alts : list (Z * Z)) (ab : list Z) (l : lheap) (r : addr)
  : option (addr * st) :=
  match to_dao enc alts l r with
  | None => None
  | Some (d, s1) => from_dao dec alts ab (dst s1) (nxt s1) d st0
  end.

(* class of the final object after both directions *)
Definition rt_cls (alts : list (Z * Z)) (c : Z) : Z :=
  match zassoc_inv (cm alts c) alts with Some c' => c' | None => cm alts c end.
(* the class model is coherent on the heap: every class comes back as itself (an alternatively mapped class is listed with
   its mapping class, no plain class is somebody's mapping class) *)
Definition alts_ok (alts : list (Z * Z)) (l : lheap) : bool :=
  forallb (fun p : addr * obj => Z.eqb (rt_cls alts (ocls (snd p))) (ocls (snd p))) l.

Fixpoint zl_eqb (a b : list Z) : bool :=
  match a, b with
  | [], [] => true
  | x :: a', y :: b' => Z.eqb x y && zl_eqb a' b'
  | _, _ => false
  end.
Lemma zl_eqb_eq a : forall b, zl_eqb a b = true -> a = b.
Proof.
  induction a as [|x a IH]; intros [|y b]; simpl; intros H; try discriminate; auto.
  apply andb_true_iff in H. destruct H as [H1 H2]. apply Z.eqb_eq in H1. subst. f_equal. auto.
Qed.

(* what happens to the column values on the way there and back ([enc]: create_instance resp. the copying of parent columns;
   [dec]: create_from_dao resp. from_dao's collection of constructor arguments) is the identity on the objects of the heap:
   the round-trip condition the property text puts on user code -- and also where krrood's own handling of the columns of a
   class two levels below an alternatively mapped class fails (finding C04-d) *)
Definition codec_ok (enc dec : Z -> list Z -> list Z) (l : lheap) : bool :=
  forallb (fun p : addr * obj => zl_eqb (dec (ocls (snd p)) (enc (ocls (snd p)) (oscal (snd p)))) (oscal (snd p))) l.

(* the fragment: coherent class model, columns round-trip, and no memo hit on a mapping object in progress ([bad], decided by
   running the model) *)
Definition F04w (enc dec : Z -> list Z -> list Z) (alts : list (Z * Z)) (ab : list Z) (l : lheap) (r : addr) : bool :=
  alts_ok alts l && codec_ok enc dec l &&
  match round_trip enc dec alts ab l r with Some (_, s2) => negb (bad s2) | None => false end.

(* the strict fragment of the first version: no object of an alternatively mapped class or of a mapping class at all *)
Definition plain_cls (alts : list (Z * Z)) (c : Z) : bool :=
  negb (zmem c (map fst alts)) && negb (zmem c (map snd alts)).
Definition F04 (alts : list (Z * Z)) (l : lheap) : bool :=
  forallb (fun p : addr * obj => plain_cls alts (ocls (snd p))) l.

Lemma F04_cls alts l a o : F04 alts l = true -> heap_of l a = Some o ->
  zassoc (ocls o) alts = None /\ zassoc_inv (ocls o) alts = None.
Proof.
  unfold F04. rewrite forallb_forall. intros H Ho. apply assoc_Some_In in Ho. specialize (H _ Ho). simpl in H.
  unfold plain_cls in H. apply andb_true_iff in H. destruct H as [H1 H2].
  apply negb_true_iff in H1, H2. split; [now apply zassoc_none|now apply zassoc_inv_none].
Qed.

Lemma F04_alts_ok alts l : F04 alts l = true -> alts_ok alts l = true.
Proof.
  intros HF. unfold alts_ok. apply forallb_forall. intros [a o] Hin. simpl.
  unfold F04 in HF. rewrite forallb_forall in HF. specialize (HF _ Hin). simpl in HF.
  unfold plain_cls in HF. apply andb_true_iff in HF. destruct HF as [H1 H2]. apply negb_true_iff in H1, H2.
  unfold rt_cls, cm. rewrite (zassoc_none _ _ H1), (zassoc_inv_none _ _ H2). apply Z.eqb_refl.
Qed.

Section Codec.
  Variables enc dec : Z -> list Z -> list Z.

  Lemma todao_plain alts h Q : plain (P_todao enc alts) h Q.
  Proof. split; intros x o _ _; reflexivity. Qed.

  (* what to_dao establishes, for every class model *)
  Lemma todao_facts alts l r : wf_heap l r = true ->
    exists d s1, to_dao enc alts l r = Some (d, s1) /\
      Inv (P_todao enc alts) (heap_of l) (reach (heap_of l) r) s1 /\ mlook r s1 = Some d /\ bad s1 = false /\
      (forall x y, mlook x s1 = Some y -> done (P_todao enc alts) (heap_of l) s1 x y) /\
      bisim_g (fobj (P_todao enc alts)) (krel s1) (heap_of l) (dst s1) /\ functional (krel s1) /\ injective (krel s1).
  Proof.
    intros Hwf. destruct (wf_heap_closed l r Hwf) as [Hr Hcl].
    assert (HQ : forall a, reach (heap_of l) r a -> exists o, heap_of l a = Some o /\
               forall t ks k, In (t, ks) (oflds o) -> In k ks -> reach (heap_of l) r k).
    { intros a Ha. destruct (Hcl a (reach_in_keys l r a Hwf Ha)) as [o [Ho _]]. exists o. split; auto.
      intros t ks k Hf Hk. eapply reach_step; eauto. }
    destruct (walk_total (P_todao enc alts) (heap_of l) (keys l) (reach (heap_of l) r) HQ
                (fun a Ha => reach_in_keys l r a Hwf Ha) r (reach_root _ _)) as [d [s1 [E [HI [_ [Hnb Hd]]]]]].
    unfold keys in E. rewrite map_length in E.
    pose proof (Hnb (proj1 (todao_plain alts _ _))) as Hb. destruct (Hd Hb) as [M D].
    destruct (walk_bisim_g _ _ _ s1 HI D) as [B [Hf Hi]].
    exists d, s1. unfold to_dao. repeat (split; auto).
  Qed.

  Lemma rt_obj alts l a o : alts_ok alts l = true -> codec_ok enc dec l = true -> heap_of l a = Some o ->
    fobj (P_fromdao dec alts []) (fst (fobj (P_todao enc alts) (ocls o) (oscal o))) (snd (fobj (P_todao enc alts) (ocls o) (oscal o)))
    = (ocls o, oscal o).
  Proof.
    intros Hok Hco Ho. unfold alts_ok in Hok. rewrite forallb_forall in Hok.
    specialize (Hok _ (assoc_Some_In _ _ _ Ho)). simpl in Hok. apply Z.eqb_eq in Hok.
    unfold codec_ok in Hco. rewrite forallb_forall in Hco. specialize (Hco _ (assoc_Some_In _ _ _ Ho)). simpl in Hco.
    apply zl_eqb_eq in Hco.
    unfold fobj. simpl. unfold rt_cls in Hok.
    destruct (zassoc_inv (cm alts (ocls o)) alts) as [c'|] eqn:E; simpl; rewrite Hok, Hco; reflexivity.
  Qed.

  (* the second direction, run on any heap [L] that agrees with the DAO graph of to_dao on its addresses (the DAO graph
     itself for C04; the rows read back in a fresh session for C05) *)
  Lemma second_stage alts ab l r d s1 (L : heap) :
    wf_heap l r = true -> alts_ok alts l = true -> codec_ok enc dec l = true -> to_dao enc alts l r = Some (d, s1) ->
    (forall a, a < nxt s1 -> L a = dst s1 a) ->
    exists r' s2, from_dao dec alts ab L (nxt s1) d st0 = Some (r', s2) /\
      (bad s2 = false -> iso (dst s2) r' (heap_of l) r) /\
      ((forall y o, y < nxt s1 -> L y = Some o -> zassoc_inv (ocls o) alts = None) -> bad s2 = false).
  Proof.
    intros Hwf Hok Hco Hto HL.
    destruct (todao_facts alts l r Hwf) as [d' [s1' [E1 [I1 [M1 [_ [D1 [B1 [F1 J1]]]]]]]]].
    rewrite Hto in E1. inversion E1; subst d' s1'. clear E1.
    pose proof (result_closed _ _ _ s1 (todao_plain alts _ _) I1 D1) as Hcl.
    assert (Hcl2 : forall a, In a (seq 0 (nxt s1)) -> exists o, L a = Some o /\
              forall t ks k, In (t, ks) (oflds o) -> In k ks -> In k (seq 0 (nxt s1))).
    { intros a Ha. destruct (Hcl a Ha) as [o [Ho Hk]]. exists o. split; auto. rewrite HL; auto. apply in_seq in Ha. lia. }
    assert (Hd : In d (seq 0 (nxt s1))).
    { apply in_seq. destruct I1 as [K1 _]. specialize (K1 _ _ M1). lia. }
    destruct (walk_total (P_fromdao dec alts ab) L (seq 0 (nxt s1)) (fun a => In a (seq 0 (nxt s1))) Hcl2 (fun a H => H) d Hd)
      as [r' [s2 [E2 [I2 [_ [Hnb Hd2]]]]]].
    rewrite seq_length in E2. exists r', s2. unfold from_dao. split; [exact E2|]. split.
    - intros Hb. destruct (Hd2 Hb) as [M2 D2].
      destruct (walk_bisim_g _ _ _ s2 I2 D2) as [B2 [F2 J2]].
      assert (B1' : bisim_g (fobj (P_todao enc alts)) (krel s1) (heap_of l) L).
      { eapply bisim_g_agree; [exact B1|]. intros a b Hab. apply HL. destruct I1 as [K1 _]. eapply K1; eauto. }
      pose proof (bisim_g_comp _ _ _ _ _ _ _ B1' B2) as B.
      apply iso_sym. exists (fun a c => exists b, krel s1 a b /\ krel s2 b c). split; [eauto|]. split; [|split].
      + eapply bisim_g_id; [exact B|]. intros a c o _ Ho.
        assert (E : fobj (P_fromdao dec alts ab) = fobj (P_fromdao dec alts [])) by reflexivity.
        rewrite E. eapply rt_obj; eauto.
      + intros a c c' [b [H1 H2]] [b' [H1' H2']]. assert (b = b') by (eapply F1; eauto). subst. eapply F2; eauto.
      + intros a a' c [b [H1 H2]] [b' [H1' H2']]. assert (b = b') by (eapply J2; eauto). subst. eapply J1; eauto.
    - intros Hnl. apply Hnb. intros x o Hx Ho. apply in_seq in Hx. unfold is_late. simpl.
      rewrite (Hnl x o) by (auto; lia). reflexivity.
  Qed.

  (* C04 on the widened fragment *)
  Theorem round_trip_iso_w alts ab l r : wf_heap l r = true -> F04w enc dec alts ab l r = true ->
    exists r' s2, round_trip enc dec alts ab l r = Some (r', s2) /\ bad s2 = false /\ iso (dst s2) r' (heap_of l) r.
  Proof.
    intros Hwf HF. unfold F04w in HF. apply andb_true_iff in HF. destruct HF as [HF Hb].
    apply andb_true_iff in HF. destruct HF as [Hok Hco].
    destruct (todao_facts alts l r Hwf) as [d [s1 [E1 _]]].
    destruct (second_stage alts ab l r d s1 (dst s1) Hwf Hok Hco E1 (fun _ _ => eq_refl)) as [r' [s2 [E2 [Hiso _]]]].
    unfold round_trip in *. rewrite E1 in *. rewrite E2 in Hb. apply negb_true_iff in Hb.
    exists r', s2. auto.
  Qed.

  (* the strict fragment (no alternatively mapped object at all) lies inside the widened one *)
  Theorem round_trip_iso alts ab l r : wf_heap l r = true -> F04 alts l = true -> codec_ok enc dec l = true ->
    exists r' s2, round_trip enc dec alts ab l r = Some (r', s2) /\ bad s2 = false /\ iso (dst s2) r' (heap_of l) r.
  Proof.
    intros Hwf HF Hco. pose proof (F04_alts_ok alts l HF) as Hok.
    destruct (todao_facts alts l r Hwf) as [d [s1 [E1 [I1 [M1 [_ [D1 _]]]]]]].
    destruct (second_stage alts ab l r d s1 (dst s1) Hwf Hok Hco E1 (fun _ _ => eq_refl)) as [r' [s2 [E2 [Hiso Hnb]]]].
    assert (Hb : bad s2 = false).
    { apply Hnb. intros y ob Hy Hyo. destruct I1 as [_ [_ [K3 _]]].
      destruct (K3 (todao_plain alts _ _) y Hy) as [x Hx]. destruct (D1 _ _ Hx) as [o [fl' [Ho [Hd _]]]].
      rewrite Hd in Hyo. inversion Hyo; subst ob. simpl. unfold fobj. simpl.
      destruct (F04_cls alts l x o HF Ho) as [Z1 Z2]. unfold cm. rewrite Z1. exact Z2. }
    unfold round_trip. rewrite E1. exists r', s2. auto.
  Qed.

  (* over histories: a FromDAOState reused for a second conversion over the DAOs the runtime keeps alive (one heap, distinct
     addresses) converts the second root correctly, leaves the first result valid, and pins every memoised DAO *)
  Theorem state_reuse_safe alts ab l r1 r2 :
    wf_heap l r1 = true -> wf_heap l r2 = true -> F04 alts l = true ->
    (forall a o, heap_of l a = Some o -> dec (ocls o) (oscal o) = oscal o) ->
    exists d1 s1 d2 s2,
      from_dao dec alts ab (heap_of l) (length l) r1 st0 = Some (d1, s1) /\
      from_dao dec alts ab (heap_of l) (length l) r2 s1 = Some (d2, s2) /\
      iso (heap_of l) r1 (dst s2) d1 /\ iso (heap_of l) r2 (dst s2) d2 /\
      (forall x y, mlook x s2 = Some y -> In x (keep s2)).
  Proof.
    intros W1 W2 HF Hdec. destruct (wf_heap_closed l r1 W1) as [Hr1 Hcl]. destruct (wf_heap_closed l r2 W2) as [Hr2 _].
    destruct (walk_twice (P_fromdao dec alts ab) (heap_of l) (keys l) (fun a => In a (keys l)) Hcl (fun a H => H) r1 r2 Hr1 Hr2)
      as [d1 [s1 [d2 [s2 [E1 [E2 [HI [Hgood Hnb]]]]]]]].
    unfold keys in E1, E2. rewrite map_length in E1, E2.
    assert (Hb : bad s2 = false).
    { apply Hnb. intros x o _ Ho. unfold is_late. simpl. now rewrite (proj2 (F04_cls alts l x o HF Ho)). }
    destruct (Hgood Hb) as [B [Hf [Hi [K1 K2]]]].
    assert (B' : bisim (krel s2) (heap_of l) (dst s2)).
    { eapply bisim_g_id; [exact B|]. intros a b o _ Ho. unfold fobj. simpl.
      rewrite (proj2 (F04_cls alts l a o HF Ho)). now rewrite (Hdec _ _ Ho). }
    exists d1, s1, d2, s2. unfold from_dao. repeat split; auto.
    - exists (krel s2). repeat split; auto.
    - exists (krel s2). repeat split; auto.
    - destruct HI as [_ [_ [_ [_ [J6 _]]]]]. exact (J6 eq_refl).
  Qed.
End Codec.

Lemma codec_ok_id l : codec_ok idc idc l = true.
Proof.
  unfold codec_ok, idc. apply forallb_forall. intros [a o] _. simpl.
  induction (oscal o) as [|x t IH]; simpl; auto. now rewrite Z.eqb_refl.
Qed.

(* ---------------------------------------------------------------- what the correspondence evaluates.  The harness interns column
   values so that create_instance / create_from_dao of the mappings are the identity on them ([idc]); the columns krrood itself
   loses are given by [gc]: for a class TWO OR MORE levels below an alternatively mapped class from_dao asks only the
   immediate base DAO (self.__class__.__bases__[0]) for an alternative parent, so constructor arguments that only the
   alternative parent provides (columns the mapping renamed) are not passed and come back as the class's defaults:
   gc = [(class, [(position, default value)])]  (finding C04-d; FIXED by repo commit 96f6440: from_dao scans the MRO now, the
   harness passes gc = [], the table only serves the regression example). *)
Fixpoint set_nth (n : nat) (v : Z) (l : list Z) : list Z :=
  match l, n with
  | [], _ => []
  | _ :: t, O => v :: t
  | x :: t, S n' => x :: set_nth n' v t
  end.
Definition gcmodel := list (Z * list (nat * Z)).
Definition decg (gc : gcmodel) : Z -> list Z -> list Z :=
  fun c s => match zlookg c gc with Some ov => fold_left (fun acc pv => set_nth (fst pv) (snd pv) acc) ov s | None => s end.

Definition model_canon (alts : list (Z * Z)) (ab : list Z) (gc : gcmodel) (l : lheap) (r : addr) : sx :=
  match round_trip idc (decg gc) alts ab l r with
  | None => SL [SZ (-2)%Z]
  | Some (r', s2) => sx_canon (canon (dst s2) (nxt s2) r')
  end.
(* second component: 1 = inside the fragment F04w (the theorem applies), third: both heaps closed *)
Definition case_code (alts : list (Z * Z)) (ab : list Z) (gc : gcmodel) (l : lheap) (r : addr) (l' : lheap) (r' : addr) : sx :=
  SL [SZ (classify (spec_canon l' r') (model_canon alts ab gc l r) (spec_canon l r));
      SZ (if F04w idc (decg gc) alts ab l r then 1 else 0); SZ (if wf_heap l r && wf_heap l' r' then 1 else 0)].

(* several top-level conversions sharing ONE ToDAOState and ONE FromDAOState (a graph with several roots converted root by
   root): the roots are the elements of the single collection field of a harness-side holder object at address [h];
   the holder itself is not converted, it only carries the roots (repetitions allowed: the same DAO converted twice).
   Correctness of the shared FromDAOState for two roots is C04_state_reuse_safe; the general list is compared. *)
Definition round_trip_multi (alts : list (Z * Z)) (ab : list Z) (gc : gcmodel) (l : lheap) (h : addr) : option (heap * addr * nat * bool) :=
  match heap_of l h with
  | Some (mkObj c sc [(t, rs)]) =>
      match walk_list (walk (P_todao idc alts) (heap_of l) (S (length l))) rs st0 with
      | Some (ds, s1) =>
          match walk_list (walk (P_fromdao (decg gc) alts ab) (dst s1) (S (nxt s1))) ds st0 with
          | Some (bs, s2) => Some (upd (dst s2) (nxt s2) (mkObj c sc [(t, bs)]), nxt s2, S (nxt s2), bad s2)
          | None => None
          end
      | None => None
      end
  | _ => None
  end.
Definition model_canon_multi (alts : list (Z * Z)) (ab : list Z) (gc : gcmodel) (l : lheap) (h : addr) : sx :=
  match round_trip_multi alts ab gc l h with
  | None => SL [SZ (-2)%Z]
  | Some (hp, r, n, _) => sx_canon (canon hp n r)
  end.
Definition case_code_multi (alts : list (Z * Z)) (ab : list Z) (gc : gcmodel) (l : lheap) (h : addr) (l' : lheap) (h' : addr) : sx :=
  SL [SZ (classify (spec_canon l' h') (model_canon_multi alts ab gc l h) (spec_canon l h));
      SZ (if alts_ok alts l && codec_ok idc (decg gc) l && match round_trip_multi alts ab gc l h with Some (_, _, _, b) => negb b | None => false end then 1 else 0);
      SZ (if wf_heap l h && wf_heap l' h' then 1 else 0)].

Example multi_root_example :
  let l := [(0, mkObj 1 [7%Z] [(1%Z, [1])]); (1, mkObj 2 [] [(3%Z, [1])]); (2, mkObj 1 [8%Z] [(1%Z, [1])]);
            (3, mkObj 99 [] [(0%Z, [0; 2; 0])])] in
  model_canon_multi [] [] [] l 3 = spec_canon l 3.
Proof. vm_compute. reflexivity. Qed.

(* ---------------------------------------------------------------- refutation witnesses *)
(* C04-a: Backreference (class 10, alternatively mapped by class 11) <-> Reference (class 20), conversion
   started at the alternatively mapped object: the Reference of the result points to the mapping object. *)
Definition altcycle_alts : list (Z * Z) := [(10, 11)%Z].
Definition altcycle_heap : lheap :=
  [(0, mkObj 10 [1%Z] [(1%Z, [1])]); (1, mkObj 20 [5%Z] [(2%Z, [0])])].

Theorem refuted_altcycle :
  wf_heap altcycle_heap 0 = true /\ alts_ok altcycle_alts altcycle_heap = true /\
  exists r' s2, round_trip idc idc altcycle_alts [] altcycle_heap 0 = Some (r', s2) /\ bad s2 = true /\
    ~ iso (dst s2) r' (heap_of altcycle_heap) 0.
Proof.
  split; [reflexivity|]. split; [reflexivity|].
  destruct (round_trip idc idc altcycle_alts [] altcycle_heap 0) as [[r' s2]|] eqn:E; [|vm_compute in E; discriminate].
  exists r', s2. split; auto. vm_compute in E. inversion E; subst. split; [reflexivity|]. intros Hiso.
  pose proof (iso_path_obs _ _ _ _ Hiso [(0, 0); (0, 0)]) as H.
  vm_compute in H. discriminate.
Qed.

(* the same graph entered at the Reference lies inside the fragment and converts correctly: the defect depends on the entry point *)
Example altcycle_other_root_ok :
  F04w idc idc altcycle_alts [] altcycle_heap 1 = true /\
  model_canon altcycle_alts [] [] altcycle_heap 1 = spec_canon altcycle_heap 1.
Proof. split; vm_compute; reflexivity. Qed.

(* C04-d (FIXED by 96f6440; regression example about the previous code): class 13 derives from 12, which derives from the alternatively mapped class 10; the mapping renames column 0.
   from_dao of a 13-object asks only its immediate base DAO (12, not alternatively mapped) for an alternative parent: the
   constructor argument behind column 0 is not passed and comes back as the default (0). *)
Definition altgc_heap : lheap := [(0, mkObj 13 [7; 3]%Z [])].
Definition altgc_gc : gcmodel := [(13%Z, [(0, 0%Z)])].

Theorem refuted_altgrandchild :
  wf_heap altgc_heap 0 = true /\ alts_ok altcycle_alts altgc_heap = true /\ codec_ok idc (decg altgc_gc) altgc_heap = false /\
  exists r' s2, round_trip idc (decg altgc_gc) altcycle_alts [12; 13]%Z altgc_heap 0 = Some (r', s2) /\ bad s2 = false /\
    ~ iso (dst s2) r' (heap_of altgc_heap) 0.
Proof.
  split; [reflexivity|]. split; [reflexivity|]. split; [reflexivity|].
  destruct (round_trip idc (decg altgc_gc) altcycle_alts [12; 13]%Z altgc_heap 0) as [[r' s2]|] eqn:E; [|vm_compute in E; discriminate].
  exists r', s2. split; auto. vm_compute in E. inversion E; subst. split; [reflexivity|]. intros Hiso.
  pose proof (iso_path_obs _ _ _ _ Hiso []) as H. vm_compute in H. discriminate.
Qed.

(* C04-b (FIXED by repo commit 32013a0): one FromDAOState used for two loads.
   OLD code ([from_dao_old], no keep_alive): the DAO of the first load has been released and the DAO of the second load
   sits at the same address (id() reuse); the second from_dao returns the first row's object.  Kept as a regression
   example about the old behaviour. *)
Definition reuse_dao1 : heap := heap_of [(0, mkObj 30 [4%Z] [])].
Definition reuse_dao2 : heap := heap_of [(0, mkObj 30 [5%Z] [])].

(* which later heaps the runtime may present to a reused state: pinned objects are still there, unchanged *)
Definition admissible_next (s : st) (h1 h2 : heap) : Prop := forall x, In x (keep s) -> h2 x = h1 x.

Theorem old_state_reuse_regression :
  exists r1 s1 r2 s2,
    from_dao_old idc [] [] reuse_dao1 1 0 st0 = Some (r1, s1) /\
    keep s1 = [] /\ admissible_next s1 reuse_dao1 reuse_dao2 /\
    from_dao_old idc [] [] reuse_dao2 1 0 s1 = Some (r2, s2) /\
    ~ iso (dst s2) r2 reuse_dao2 0.
Proof.
  destruct (from_dao_old idc [] [] reuse_dao1 1 0 st0) as [[r1 s1]|] eqn:E1; [|vm_compute in E1; discriminate].
  destruct (from_dao_old idc [] [] reuse_dao2 1 0 s1) as [[r2 s2]|] eqn:E2;
    [|vm_compute in E1; inversion E1; subst; vm_compute in E2; discriminate].
  exists r1, s1, r2, s2.
  vm_compute in E1. inversion E1; subst. split; auto. split; [reflexivity|]. split; [intros x []|]. split; auto.
  intros Hiso. pose proof (iso_path_obs _ _ _ _ Hiso []) as H.
  vm_compute in E2. inversion E2; subst. vm_compute in H. discriminate.
Qed.

(* CURRENT code: the first load pins its DAO, so a second heap with a different DAO at that address is not a state the
   runtime can produce *)
Theorem state_reuse_scenario_excluded :
  exists r1 s1, from_dao idc [] [] reuse_dao1 1 0 st0 = Some (r1, s1) /\ In 0 (keep s1) /\
    ~ admissible_next s1 reuse_dao1 reuse_dao2.
Proof.
  destruct (from_dao idc [] [] reuse_dao1 1 0 st0) as [[r1 s1]|] eqn:E1; [|vm_compute in E1; discriminate].
  exists r1, s1. vm_compute in E1. inversion E1; subst. split; auto. split; [simpl; auto|].
  intros H. specialize (H 0 (or_introl eq_refl)). vm_compute in H. discriminate.
Qed.

(* with a fresh state per load (the default of from_dao) the second load is correct *)
Example fresh_state_ok : exists r2 s2, from_dao idc [] [] reuse_dao2 1 0 st0 = Some (r2, s2) /\ path_obs (dst s2) r2 [] = Some (30%Z, [5%Z]).
Proof. eexists. eexists. split; vm_compute; reflexivity. Qed.

(* non-vacuity of the widened fragment: an alternatively mapped object (class 10) shared by two references and lying on a
   cycle that is entered at a plain object, a DAO below an alternatively mapped DAO (class 12, listed in [ab]) *)
Example widened_fragment_example :
  let l := [(0, mkObj 20 [5%Z] [(2%Z, [1]); (3%Z, [1])]); (1, mkObj 10 [1%Z] [(1%Z, [0]); (4%Z, [2])]); (2, mkObj 12 [3%Z; 4%Z] [])] in
  wf_heap l 0 = true /\ F04 altcycle_alts l = false /\ F04w idc idc altcycle_alts [12%Z] l 0 = true /\
  model_canon altcycle_alts [12%Z] [] l 0 = spec_canon l 0.
Proof. repeat split; vm_compute; reflexivity. Qed.
