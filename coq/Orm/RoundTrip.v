(* RoundTrip: from_dao (to_dao g) is isomorphic to g, for every closed heap without alternatively mapped classes:
   any size, depth, sharing, cycles (self loops included), None, empty collections, any concrete classes in any field.
   Outside the fragment: the two refutation witnesses (C04-a, C04-b). *)
From Coq Require Import List ZArith Bool Lia Arith PeanoNat.
From Krrood Require Import Base.Sx Orm.ObjGraph Orm.Iso Orm.ObjGraphWalk Orm.ObjGraphWalkProofs Orm.IsoCanon Orm.ToDao Orm.FromDao.
Import ListNotations.
Local Open Scope nat_scope.

Definition round_trip (alts : list (Z * Z)) (l : lheap) (r : addr) : option (addr * st) :=
  match to_dao alts l r with
  | None => None
  | Some (d, s1) => from_dao alts (dst s1) (nxt s1) d st0
  end.

(* the fragment: no object of an alternatively mapped class (and no instance of a mapping class) in the heap *)
Definition plain_cls (alts : list (Z * Z)) (c : Z) : bool :=
  negb (zmem c (map fst alts)) && negb (zmem c (map snd alts)).
Definition F04 (alts : list (Z * Z)) (l : lheap) : bool :=
  forallb (fun p : addr * obj => plain_cls alts (ocls (snd p))) l.

Lemma F04_cls alts l a o : F04 alts l = true -> heap_of l a = Some o ->
  zassoc (ocls o) alts = None /\ zassoc_inv (ocls o) alts = None.
Proof.
  unfold F04. rewrite forallb_forall. intros H Ho. apply assoc_Some_In in Ho. specialize (H _ Ho). simpl in H.
  unfold plain_cls in H. apply andb_true_iff in H. destruct H as [H1 H2].
  apply negb_true_iff in H1, H2. split; [now apply zassoc_none|now apply zassoc_inv_none].
Qed.

Theorem round_trip_iso alts l r : wf_heap l r = true -> F04 alts l = true ->
  exists r' s2, round_trip alts l r = Some (r', s2) /\ iso (dst s2) r' (heap_of l) r.
Proof.
  intros Hwf HF. unfold round_trip, to_dao.
  assert (Hc1 : forall a o, heap_of l a = Some o -> p_cmap (P_todao alts) (ocls o) = ocls o).
  { intros a o Ho. simpl. now rewrite (proj1 (F04_cls alts l a o HF Ho)). }
  destruct (wf_walk_iso (P_todao alts) l r (fun _ _ _ => eq_refl) Hc1 Hwf) as [d [s1 [E1 [I1 [M1 [D1 Iso1]]]]]].
  rewrite E1. unfold from_dao.
  pose proof (result_closed (P_todao alts) (heap_of l) _ s1 I1 D1) as Hcl2.
  assert (Hl2 : forall y ob, dst s1 y = Some ob -> p_late (P_fromdao alts) (p_cmap (P_fromdao alts) (ocls ob)) = None).
  { intros y ob Hy. simpl. destruct I1 as [_ [_ [_ [J4 _]]]]. destruct (J4 _ _ Hy) as [x [o [Ho Hcls]]].
    rewrite Hcls, (Hc1 _ _ Ho). exact (proj2 (F04_cls alts l x o HF Ho)). }
  assert (Hd : In d (seq 0 (nxt s1))).
  { apply in_seq. destruct I1 as [J1 _]. specialize (J1 _ _ M1). lia. }
  destruct (walk_iso (P_fromdao alts) (dst s1) (seq 0 (nxt s1)) (fun a => In a (seq 0 (nxt s1))) Hcl2 (fun a H => H) Hl2 (fun _ _ _ => eq_refl) d Hd)
    as [r' [s2 [E2 [I2 [M2 [D2 Iso2]]]]]].
  rewrite seq_length in E2. exists r', s2. split; [exact E2|].
  apply iso_sym. eapply iso_trans; eauto.
Qed.

(* what the correspondence evaluates *)
Definition model_canon (alts : list (Z * Z)) (l : lheap) (r : addr) : sx :=
  match round_trip alts l r with
  | None => SL [SZ (-2)%Z]
  | Some (r', s2) => sx_canon (canon (dst s2) (nxt s2) r')
  end.
Definition case_code (alts : list (Z * Z)) (l : lheap) (r : addr) (l' : lheap) (r' : addr) : sx :=
  SL [SZ (classify (spec_canon l' r') (model_canon alts l r) (spec_canon l r));
      SZ (if F04 alts l then 1 else 0); SZ (if wf_heap l r && wf_heap l' r' then 1 else 0)].

(* several top-level conversions sharing ONE ToDAOState and ONE FromDAOState (a graph with several roots converted root by
   root): the roots are the elements of the single collection field of a harness-side holder object at address [h];
   the holder itself is not converted, it only carries the roots (repetitions allowed: the same DAO converted twice).
   Correctness of the shared FromDAOState for two roots is C04_state_reuse_safe; the general list is compared. *)
Definition round_trip_multi (alts : list (Z * Z)) (l : lheap) (h : addr) : option (heap * addr * nat) :=
  match heap_of l h with
  | Some (mkObj c sc [(t, rs)]) =>
      match walk_list (walk (P_todao alts) (heap_of l) (S (length l))) rs st0 with
      | Some (ds, s1) =>
          match walk_list (walk (P_fromdao alts) (dst s1) (S (nxt s1))) ds st0 with
          | Some (bs, s2) => Some (upd (dst s2) (nxt s2) (mkObj c sc [(t, bs)]), nxt s2, S (nxt s2))
          | None => None
          end
      | None => None
      end
  | _ => None
  end.
Definition model_canon_multi (alts : list (Z * Z)) (l : lheap) (h : addr) : sx :=
  match round_trip_multi alts l h with
  | None => SL [SZ (-2)%Z]
  | Some (hp, r, n) => sx_canon (canon hp n r)
  end.
Definition case_code_multi (alts : list (Z * Z)) (l : lheap) (h : addr) (l' : lheap) (h' : addr) : sx :=
  SL [SZ (classify (spec_canon l' h') (model_canon_multi alts l h) (spec_canon l h));
      SZ (if F04 alts l then 1 else 0); SZ (if wf_heap l h && wf_heap l' h' then 1 else 0)].

Example multi_root_example :
  let l := [(0, mkObj 1 [7%Z] [(1%Z, [1])]); (1, mkObj 2 [] [(3%Z, [1])]); (2, mkObj 1 [8%Z] [(1%Z, [1])]);
            (3, mkObj 99 [] [(0%Z, [0; 2; 0])])] in
  model_canon_multi [] l 3 = spec_canon l 3.
Proof. vm_compute. reflexivity. Qed.

(* ---------------------------------------------------------------- refutation witnesses *)
(* C04-a: Backreference (class 10, alternatively mapped by class 11) <-> Reference (class 20), conversion
   started at the alternatively mapped object: the Reference of the result points to the mapping object. *)
Definition altcycle_alts : list (Z * Z) := [(10, 11)%Z].
Definition altcycle_heap : lheap :=
  [(0, mkObj 10 [1%Z] [(1%Z, [1])]); (1, mkObj 20 [5%Z] [(2%Z, [0])])].

Theorem refuted_altcycle :
  wf_heap altcycle_heap 0 = true /\
  exists r' s2, round_trip altcycle_alts altcycle_heap 0 = Some (r', s2) /\
    ~ iso (dst s2) r' (heap_of altcycle_heap) 0.
Proof.
  split; [reflexivity|].
  destruct (round_trip altcycle_alts altcycle_heap 0) as [[r' s2]|] eqn:E; [|vm_compute in E; discriminate].
  exists r', s2. split; auto. intros Hiso.
  pose proof (iso_path_obs _ _ _ _ Hiso [(0, 0); (0, 0)]) as H.
  vm_compute in E. inversion E; subst. vm_compute in H. discriminate.
Qed.

(* the same graph entered at the Reference converts correctly: the defect depends on the entry point *)
Example altcycle_other_root_ok :
  model_canon altcycle_alts altcycle_heap 1 = spec_canon altcycle_heap 1.
Proof. vm_compute. reflexivity. Qed.

(* C04-b (FIXED by repo commit 32013a0): one FromDAOState used for two loads.
   OLD code ([from_dao_old], no keep_alive): the DAO of the first load has been released and the DAO of the second load
   sits at the same address (id() reuse); the second from_dao returns the first row's object.  Kept as a regression
   example about the old behaviour. *)
Definition reuse_dao1 : heap := heap_of [(0, mkObj 30 [4%Z] [])].
Definition reuse_dao2 : heap := heap_of [(0, mkObj 30 [5%Z] [])].

(* which later heaps the runtime may present to a reused state: pinned objects are still there, unchanged *)
Definition admissible_next (s : st) (h1 h2 : heap) : Prop := forall x, In x (keep s) -> h2 x = h1 x.

Theorem old_state_reuse_regression :
  exists r1 s1 r2 s2,
    from_dao_old [] reuse_dao1 1 0 st0 = Some (r1, s1) /\
    keep s1 = [] /\ admissible_next s1 reuse_dao1 reuse_dao2 /\
    from_dao_old [] reuse_dao2 1 0 s1 = Some (r2, s2) /\
    ~ iso (dst s2) r2 reuse_dao2 0.
Proof.
  destruct (from_dao_old [] reuse_dao1 1 0 st0) as [[r1 s1]|] eqn:E1; [|vm_compute in E1; discriminate].
  destruct (from_dao_old [] reuse_dao2 1 0 s1) as [[r2 s2]|] eqn:E2;
    [|vm_compute in E1; inversion E1; subst; vm_compute in E2; discriminate].
  exists r1, s1, r2, s2.
  vm_compute in E1. inversion E1; subst. split; auto. split; [reflexivity|]. split; [intros x []|]. split; auto.
  intros Hiso. pose proof (iso_path_obs _ _ _ _ Hiso []) as H.
  vm_compute in E2. inversion E2; subst. vm_compute in H. discriminate.
Qed.

(* CURRENT code: the first load pins its DAO, so a second heap with a different DAO at that address is not a state the
   runtime can produce *)
Theorem state_reuse_scenario_excluded :
  exists r1 s1, from_dao [] reuse_dao1 1 0 st0 = Some (r1, s1) /\ In 0 (keep s1) /\
    ~ admissible_next s1 reuse_dao1 reuse_dao2.
Proof.
  destruct (from_dao [] reuse_dao1 1 0 st0) as [[r1 s1]|] eqn:E1; [|vm_compute in E1; discriminate].
  exists r1, s1. vm_compute in E1. inversion E1; subst. split; auto. split; [simpl; auto|].
  intros H. specialize (H 0 (or_introl eq_refl)). vm_compute in H. discriminate.
Qed.

(* and in general: a FromDAOState reused for a second conversion over the DAOs the runtime keeps alive (one heap, distinct
   addresses) converts the second root correctly, leaves the first result valid, and pins every memoised DAO *)
Theorem state_reuse_safe alts l r1 r2 :
  wf_heap l r1 = true -> wf_heap l r2 = true -> F04 alts l = true ->
  exists d1 s1 d2 s2,
    from_dao alts (heap_of l) (length l) r1 st0 = Some (d1, s1) /\
    from_dao alts (heap_of l) (length l) r2 s1 = Some (d2, s2) /\
    iso (heap_of l) r1 (dst s2) d1 /\ iso (heap_of l) r2 (dst s2) d2 /\
    (forall x y, mlook x s2 = Some y -> In x (keep s2)).
Proof.
  intros W1 W2 HF. destruct (wf_heap_closed l r1 W1) as [Hr1 Hcl]. destruct (wf_heap_closed l r2 W2) as [Hr2 _].
  assert (Hl : forall a o, heap_of l a = Some o -> p_late (P_fromdao alts) (p_cmap (P_fromdao alts) (ocls o)) = None).
  { intros a o Ho. simpl. exact (proj2 (F04_cls alts l a o HF Ho)). }
  destruct (walk_twice (P_fromdao alts) (heap_of l) (keys l) (fun a => In a (keys l)) Hcl (fun a H => H) Hl
              (fun _ _ _ => eq_refl) r1 r2 Hr1 Hr2) as [d1 [s1 [d2 [s2 [E1 [E2 [HI [I1 I2]]]]]]]].
  unfold keys in E1, E2. rewrite map_length in E1, E2.
  exists d1, s1, d2, s2. unfold from_dao. repeat split; auto.
  destruct HI as [_ [_ [_ [_ [_ J6]]]]]. exact (J6 eq_refl).
Qed.

(* with a fresh state per load (the default of from_dao) the second load is correct *)
Example fresh_state_ok : exists r2 s2, from_dao [] reuse_dao2 1 0 st0 = Some (r2, s2) /\ path_obs (dst s2) r2 [] = Some (30%Z, [5%Z]).
Proof. eexists. eexists. split; vm_compute; reflexivity. Qed.
