(* Iso: the Spec of C04 / C05 -- rooted heap isomorphism.
   [iso h1 r1 h2 r2]: there is a relation R between addresses that relates the roots, is a bisimulation
   (related objects have the same concrete class, equal scalars, the same fields with pointwise related
   targets: None stays None, collections keep length and order), and is one-to-one in both directions
   (so a shared object / a cycle is one object on the other side, and distinct objects stay distinct).
   [iso_reach] shows that R restricted to the reachable addresses is a bijection between the reachable sets.
   Independent of every model. *)
From Coq Require Import List ZArith Bool Lia Arith PeanoNat.
From Krrood Require Import Orm.ObjGraph.
Import ListNotations.

Definition fld_rel (R : addr -> addr -> Prop) (f1 f2 : fld) : Prop :=
  fst f1 = fst f2 /\ Forall2 R (snd f1) (snd f2).
Definition obj_rel (R : addr -> addr -> Prop) (o1 o2 : obj) : Prop :=
  ocls o1 = ocls o2 /\ oscal o1 = oscal o2 /\ Forall2 (fld_rel R) (oflds o1) (oflds o2).
Definition bisim (R : addr -> addr -> Prop) (h1 h2 : heap) : Prop :=
  forall a b, R a b -> exists o1 o2, h1 a = Some o1 /\ h2 b = Some o2 /\ obj_rel R o1 o2.
Definition functional (R : addr -> addr -> Prop) := forall a b b', R a b -> R a b' -> b = b'.
Definition injective (R : addr -> addr -> Prop) := forall a a' b, R a b -> R a' b -> a = a'.

Definition iso (h1 : heap) (r1 : addr) (h2 : heap) (r2 : addr) : Prop :=
  exists R, R r1 r2 /\ bisim R h1 h2 /\ functional R /\ injective R.

(* --- Forall2 helpers --- *)
Lemma Forall2_flip {A B} (P : A -> B -> Prop) l1 l2 : Forall2 P l1 l2 -> Forall2 (fun b a => P a b) l2 l1.
Proof. induction 1; constructor; auto. Qed.

Lemma Forall2_comp {A B C} (P : A -> B -> Prop) (Q : B -> C -> Prop) l1 l2 l3 :
  Forall2 P l1 l2 -> Forall2 Q l2 l3 -> Forall2 (fun a c => exists b, P a b /\ Q b c) l1 l3.
Proof.
  intros H. revert l3. induction H; intros l3 H3; inversion H3; subst; constructor; eauto.
Qed.

Lemma Forall2_impl {A B} (P Q : A -> B -> Prop) l1 l2 :
  (forall a b, P a b -> Q a b) -> Forall2 P l1 l2 -> Forall2 Q l1 l2.
Proof. intros HPQ H. induction H; constructor; auto. Qed.

Lemma Forall2_In_l {A B} (P : A -> B -> Prop) l1 l2 a : Forall2 P l1 l2 -> In a l1 -> exists b, In b l2 /\ P a b.
Proof.
  induction 1; simpl; intros Hin; [tauto|]. destruct Hin as [->|Hin]; eauto.
  destruct (IHForall2 Hin) as [b [H1 H2]]. eauto.
Qed.

Lemma Forall2_In_r {A B} (P : A -> B -> Prop) l1 l2 b : Forall2 P l1 l2 -> In b l2 -> exists a, In a l1 /\ P a b.
Proof.
  induction 1; simpl; intros Hin; [tauto|]. destruct Hin as [->|Hin]; eauto.
  destruct (IHForall2 Hin) as [a [H1 H2]]. eauto.
Qed.

(* --- equivalence --- *)
Lemma obj_rel_flip (R : addr -> addr -> Prop) o1 o2 : obj_rel R o1 o2 -> obj_rel (fun b a => R a b) o2 o1.
Proof.
  intros [H1 [H2 H3]]. repeat split; auto.
  apply Forall2_flip in H3. eapply Forall2_impl; [|exact H3].
  intros f2 f1 [Ht Hk]. split; auto. now apply Forall2_flip in Hk.
Qed.

Lemma iso_sym h1 r1 h2 r2 : iso h1 r1 h2 r2 -> iso h2 r2 h1 r1.
Proof.
  intros [R [Hr [Hb [Hf Hi]]]]. exists (fun b a => R a b). repeat split.
  - exact Hr.
  - intros b a Hab. destruct (Hb _ _ Hab) as [o1 [o2 [E1 [E2 Ho]]]].
    exists o2, o1. repeat split; auto; apply obj_rel_flip in Ho; apply Ho.
  - intros b a a' H1 H2. eapply Hi; eauto.
  - intros b b' a H1 H2. eapply Hf; eauto.
Qed.

Lemma obj_rel_comp (R1 R2 : addr -> addr -> Prop) o1 o2 o3 : obj_rel R1 o1 o2 -> obj_rel R2 o2 o3 ->
  obj_rel (fun a c => exists b, R1 a b /\ R2 b c) o1 o3.
Proof.
  intros [A1 [A2 A3]] [B1 [B2 B3]]. repeat split; try congruence.
  pose proof (Forall2_comp _ _ _ _ _ A3 B3) as H.
  eapply Forall2_impl; [|exact H]. intros f1 f3 [f2 [[T1 K1] [T2 K2]]]. split; [congruence|].
  eapply Forall2_comp; eauto.
Qed.

Lemma iso_trans h1 r1 h2 r2 h3 r3 : iso h1 r1 h2 r2 -> iso h2 r2 h3 r3 -> iso h1 r1 h3 r3.
Proof.
  intros [R1 [Hr1 [Hb1 [Hf1 Hi1]]]] [R2 [Hr2 [Hb2 [Hf2 Hi2]]]].
  exists (fun a c => exists b, R1 a b /\ R2 b c). repeat split.
  - eauto.
  - intros a c [b [H1 H2]].
    destruct (Hb1 _ _ H1) as [o1 [o2 [E1 [E2 Ho]]]].
    destruct (Hb2 _ _ H2) as [o2' [o3 [E2' [E3 Ho']]]].
    rewrite E2 in E2'. inversion E2'; subst o2'.
    exists o1, o3. repeat split; auto; pose proof (obj_rel_comp _ _ _ _ _ Ho Ho') as H; apply H.
  - intros a c c' [b [H1 H2]] [b' [H1' H2']]. assert (b = b') by (eapply Hf1; eauto). subst. eapply Hf2; eauto.
  - intros a a' c [b [H1 H2]] [b' [H1' H2']]. assert (b = b') by (eapply Hi2; eauto). subst. eapply Hi1; eauto.
Qed.

(* the second heap may be replaced by one that agrees with it on the range of R *)
Lemma bisim_agree (R : addr -> addr -> Prop) h1 h2 h2' : bisim R h1 h2 -> (forall a b, R a b -> h2' b = h2 b) -> bisim R h1 h2'.
Proof.
  intros Hb Hag a b Hab. destruct (Hb _ _ Hab) as [o1 [o2 [E1 [E2 Ho]]]].
  exists o1, o2. repeat split; try apply Ho; auto. rewrite (Hag _ _ Hab). exact E2.
Qed.

(* R is total on the reachable part and maps it onto the reachable part: a bijection of reachable sets *)
Lemma bisim_reach (R : addr -> addr -> Prop) h1 h2 r1 r2 : R r1 r2 -> bisim R h1 h2 ->
  forall a, reach h1 r1 a -> exists b, R a b /\ reach h2 r2 b.
Proof.
  intros Hr Hb a Ha. induction Ha as [|a o t l b Ha IH Ho Hf Hk].
  - exists r2. split; auto. constructor.
  - destruct IH as [a' [Raa' Hra']].
    destruct (Hb _ _ Raa') as [o1 [o2 [E1 [E2 [_ [_ Hfl]]]]]].
    rewrite Ho in E1. inversion E1; subst o1.
    destruct (Forall2_In_l _ _ _ _ Hfl Hf) as [[t' l'] [Hf' [Ht Hkk]]]. simpl in *.
    destruct (Forall2_In_l _ _ _ _ Hkk Hk) as [b' [Hb' Rbb']].
    exists b'. split; auto. eapply reach_step; eauto.
Qed.

Theorem iso_reach h1 r1 h2 r2 : iso h1 r1 h2 r2 ->
  exists R, functional R /\ injective R /\
    (forall a, reach h1 r1 a -> exists b, R a b /\ reach h2 r2 b) /\
    (forall b, reach h2 r2 b -> exists a, R a b /\ reach h1 r1 a).
Proof.
  intros H. pose proof (iso_sym _ _ _ _ H) as Hs.
  destruct H as [R [Hr [Hb [Hf Hi]]]]. exists R. repeat split; auto.
  - eapply bisim_reach; eauto.
  - intros b Hb2.
    assert (Hb' : bisim (fun b a => R a b) h2 h1).
    { intros x y Hxy. destruct (Hb _ _ Hxy) as [o1 [o2 [E1 [E2 Ho]]]].
      exists o2, o1. repeat split; auto; apply obj_rel_flip in Ho; apply Ho. }
    destruct (bisim_reach (fun b a => R a b) h2 h1 r2 r1 Hr Hb' b Hb2) as [a [H1 H2]]. eauto.
Qed.

(* --- a necessary condition used by the refutation witnesses: isomorphic graphs show the same class and
       scalars at the end of every access path (field index, element index) --- *)
Fixpoint follow (h : heap) (a : addr) (p : list (nat * nat)) : option addr :=
  match p with
  | [] => Some a
  | (i, j) :: p' =>
      match h a with
      | None => None
      | Some o =>
          match nth_error (oflds o) i with
          | None => None
          | Some f => match nth_error (snd f) j with None => None | Some b => follow h b p' end
          end
      end
  end.

Definition path_obs (h : heap) (r : addr) (p : list (nat * nat)) : option (Z * list Z) :=
  match follow h r p with
  | None => None
  | Some a => match h a with None => None | Some o => Some (ocls o, oscal o) end
  end.

Lemma Forall2_nth {A B} (P : A -> B -> Prop) l1 l2 i : Forall2 P l1 l2 ->
  match nth_error l1 i, nth_error l2 i with
  | Some x, Some y => P x y
  | None, None => True
  | _, _ => False
  end.
Proof.
  intros H. revert i. induction H; intros [|i]; simpl; auto. apply IHForall2.
Qed.

Lemma bisim_follow (R : addr -> addr -> Prop) h1 h2 : bisim R h1 h2 -> forall p a b, R a b ->
  match follow h1 a p, follow h2 b p with
  | Some a', Some b' => R a' b'
  | None, None => True
  | _, _ => False
  end.
Proof.
  intros Hb. induction p as [|[i j] p IH]; intros a b Hab; simpl; auto.
  destruct (Hb _ _ Hab) as [o1 [o2 [E1 [E2 [_ [_ Hf]]]]]]. rewrite E1, E2.
  pose proof (Forall2_nth _ _ _ i Hf) as Hn.
  destruct (nth_error (oflds o1) i) as [f1|], (nth_error (oflds o2) i) as [f2|]; try contradiction; auto.
  destruct Hn as [_ Hk]. pose proof (Forall2_nth _ _ _ j Hk) as Hn2.
  destruct (nth_error (snd f1) j) as [x|], (nth_error (snd f2) j) as [y|]; try contradiction; auto.
  apply IH. exact Hn2.
Qed.

Theorem iso_path_obs h1 r1 h2 r2 : iso h1 r1 h2 r2 -> forall p, path_obs h1 r1 p = path_obs h2 r2 p.
Proof.
  intros [R [Hr [Hb _]]] p. unfold path_obs. pose proof (bisim_follow R h1 h2 Hb p r1 r2 Hr) as H.
  destruct (follow h1 r1 p) as [a|], (follow h2 r2 p) as [b|]; try contradiction; auto.
  destruct (Hb _ _ H) as [o1 [o2 [E1 [E2 [Hc [Hs _]]]]]]. rewrite E1, E2. congruence.
Qed.

(* --- bisimulation up to a transformation of (class, scalars): used only inside proofs, to pass through the DAO level,
       where classes are DAO / mapping classes and scalars are what user code (create_instance) made of them.  The
       composition of the two directions must be the identity on the objects of the heap; then [bisim] is recovered. --- *)
Definition obj_rel_g (F : Z -> list Z -> Z * list Z) (R : addr -> addr -> Prop) (o1 o2 : obj) : Prop :=
  (ocls o2, oscal o2) = F (ocls o1) (oscal o1) /\ Forall2 (fld_rel R) (oflds o1) (oflds o2).
Definition bisim_g (F : Z -> list Z -> Z * list Z) (R : addr -> addr -> Prop) (h1 h2 : heap) : Prop :=
  forall a b, R a b -> exists o1 o2, h1 a = Some o1 /\ h2 b = Some o2 /\ obj_rel_g F R o1 o2.

Lemma bisim_g_comp F G (R1 R2 : addr -> addr -> Prop) h1 h2 h3 :
  bisim_g F R1 h1 h2 -> bisim_g G R2 h2 h3 ->
  bisim_g (fun c s => G (fst (F c s)) (snd (F c s))) (fun a c => exists b, R1 a b /\ R2 b c) h1 h3.
Proof.
  intros H1 H2 a c [b [Hab Hbc]].
  destruct (H1 _ _ Hab) as [o1 [o2 [E1 [E2 [Hc Hf]]]]].
  destruct (H2 _ _ Hbc) as [o2' [o3 [E2' [E3 [Hc' Hf']]]]].
  rewrite E2 in E2'. inversion E2'; subst o2'.
  exists o1, o3. split; auto. split; auto. split.
  - rewrite <- Hc. simpl. exact Hc'.
  - pose proof (Forall2_comp _ _ _ _ _ Hf Hf') as H. eapply Forall2_impl; [|exact H].
    intros f1 f3 [f2 [[T1 K1] [T2 K2]]]. split; [congruence|]. eapply Forall2_comp; eauto.
Qed.

Lemma bisim_g_id F (R : addr -> addr -> Prop) h1 h2 :
  bisim_g F R h1 h2 -> (forall a b o, R a b -> h1 a = Some o -> F (ocls o) (oscal o) = (ocls o, oscal o)) ->
  bisim R h1 h2.
Proof.
  intros H Hid a b Hab. destruct (H _ _ Hab) as [o1 [o2 [E1 [E2 [Hc Hf]]]]].
  exists o1, o2. split; auto. split; auto. rewrite (Hid _ _ _ Hab E1) in Hc. inversion Hc.
  repeat split; auto.
Qed.

Lemma bisim_g_agree F (R : addr -> addr -> Prop) h1 h2 h2' :
  bisim_g F R h1 h2 -> (forall a b, R a b -> h2' b = h2 b) -> bisim_g F R h1 h2'.
Proof.
  intros Hb Hag a b Hab. destruct (Hb _ _ Hab) as [o1 [o2 [E1 [E2 Ho]]]].
  exists o1, o2. split; auto. split; auto. rewrite (Hag _ _ Hab). exact E2.
Qed.

Lemma bisim_g_reach F (R : addr -> addr -> Prop) h1 h2 r1 r2 : R r1 r2 -> bisim_g F R h1 h2 ->
  forall a, reach h1 r1 a -> exists b, R a b /\ reach h2 r2 b.
Proof.
  intros Hr Hb a Ha. induction Ha as [|a o t l b Ha IH Ho Hf Hk].
  - exists r2. split; auto. constructor.
  - destruct IH as [a' [Raa' Hra']].
    destruct (Hb _ _ Raa') as [o1 [o2 [E1 [E2 [_ Hfl]]]]].
    rewrite Ho in E1. inversion E1; subst o1.
    destruct (Forall2_In_l _ _ _ _ Hfl Hf) as [[t' l'] [Hf' [Ht Hkk]]]. simpl in *.
    destruct (Forall2_In_l _ _ _ _ Hkk Hk) as [b' [Hb' Rbb']].
    exists b'. split; auto. eapply reach_step; eauto.
Qed.
