(* The few Python string operations the ORMatic name builders use, as total functions on Coq strings
   (ASCII identifiers; class and field names of the supported grammar are ASCII identifiers). *)
From Coq Require Import List String Ascii Bool Arith Lia.
Import ListNotations.
Open Scope string_scope.

(* str.lower() on ASCII *)
Definition lower_ascii (c : ascii) : ascii :=
  let n := nat_of_ascii c in
  if ((65 <=? n) && (n <=? 90))%nat then ascii_of_nat (n + 32)%nat else c.

Fixpoint py_lower (s : string) : string :=
  match s with
  | EmptyString => EmptyString
  | String c r => String (lower_ascii c) (py_lower r)
  end.

(* s.startswith(p) *)
Definition py_startswith (s p : string) : bool := prefix p s.

Definition str_in (x : string) (l : list string) : bool := existsb (String.eqb x) l.

Fixpoint str_nodup (l : list string) : bool :=
  match l with
  | [] => true
  | x :: r => negb (str_in x r) && str_nodup r
  end.

Definition str_subset (a b : list string) : bool := forallb (fun x => str_in x b) a.

Fixpoint contains_char (c : ascii) (s : string) : bool :=
  match s with
  | EmptyString => false
  | String d r => Ascii.eqb c d || contains_char c r
  end.

Lemma str_in_In x l : str_in x l = true <-> In x l.
Proof.
  unfold str_in. rewrite existsb_exists. split.
  - intros [y [Hy He]]. apply String.eqb_eq in He. now subst.
  - intros H. exists x. split; auto. apply String.eqb_refl.
Qed.

Lemma str_in_false x l : str_in x l = false <-> ~ In x l.
Proof.
  rewrite <- str_in_In. destruct (str_in x l); split; intros H; congruence.
Qed.

Lemma str_nodup_NoDup l : str_nodup l = true <-> NoDup l.
Proof.
  induction l as [|x r IH]; simpl.
  - split; auto. constructor.
  - rewrite andb_true_iff, negb_true_iff, str_in_false, IH. split.
    + intros [A B]. now constructor.
    + intros H. inversion H; auto.
Qed.

Lemma str_subset_incl a b : str_subset a b = true <-> incl a b.
Proof.
  unfold str_subset, incl. rewrite forallb_forall. split; intros H x Hx; specialize (H x Hx); now apply str_in_In.
Qed.

(* appending a fixed suffix is injective *)
Lemma append_nil_r s : s ++ "" = s.
Proof. induction s; simpl; congruence. Qed.

Lemma append_assoc (a b c : string) : (a ++ b) ++ c = a ++ (b ++ c).
Proof. induction a; simpl; congruence. Qed.

Lemma length_append a b : String.length (a ++ b) = (String.length a + String.length b)%nat.
Proof. induction a; simpl; auto. Qed.

Lemma append_inj_l a : forall b s, a ++ s = b ++ s -> a = b.
Proof.
  induction a as [|c a IH]; intros [|d b] s H; simpl in *; auto.
  - exfalso. assert (L := f_equal String.length H). simpl in L. rewrite length_append in L. lia.
  - exfalso. assert (L := f_equal String.length H). simpl in L. rewrite length_append in L. lia.
  - injection H as -> H. f_equal. eauto.
Qed.

Lemma append_inj_r a : forall b c, a ++ b = a ++ c -> b = c.
Proof. induction a; simpl; intros; auto. injection H. auto. Qed.

Lemma py_lower_append a b : py_lower (a ++ b) = py_lower a ++ py_lower b.
Proof. induction a; simpl; congruence. Qed.

Lemma py_lower_length a : String.length (py_lower a) = String.length a.
Proof. induction a; simpl; congruence. Qed.
