(* C07 -- code-faithful model of krrood/ormatic/eql_interface.py (EQLTranslator) over the relational
   algebra of SqlAlg.v, the encoding of a world of objects into tables, and the fragment F07.
   Mirrors: translate / translate_query / translate_and / translate_or / _collect_logical_parts /
   _combine_logical_parts / translate_comparator / _check_relationship_operands / _is_relationship_valued /
   _is_attribute_equality_join / _handle_attribute_equality_join / _translate_comparator_operand /
   _handle_contains_operator / OperatorMapper / DomainValueExtractor / translate_attribute /
   _walk_attribute_chain / _apply_relationship_join / translate_truth_value / JoinManager
   (tree at dc46254: after all C07 fix: commits; pinned by pins/eqlsql.json).
   Kept behaviours outside the property: an ordering comparison or a relationship hop that meets None follows SQL
   (row dropped) where Python raises (C07-b2); related entities are compared by foreign key, i.e. by identity,
   not by the classes' __eq__ (C07-j). *)
From Coq Require Import List ZArith Bool Lia.
From Krrood Require Import Base.Sx Orm.EqlToSqlSpec Orm.SqlAlg.
Import ListNotations.
Open Scope Z_scope.

(* ---------- persisted objects as rows (what to_dao + session.add + commit store) ---------- *)
Definition enc_val (v : val) : val := match v with VRef k => VInt k | _ => v end.
Definition row_of (o : obj) : row :=
  {| r_id := o_key o; r_cols := map (fun p => (fst p, enc_val (snd p))) (o_fields o) |}.
Definition encode (sc : schema) (w : world) : db := fun c => map row_of (instances sc w c).

(* ---------- JoinManager + the statement under construction ---------- *)
Record jm := {
  j_paths : list ((nat * Z) * nat);   (* aliases_by_path: (FROM element, relationship name) -> alias *)
  j_inst : list (Z * nat);            (* joined_tables: targets of equality joins, with their table instance *)
  j_tvar : list (Z * Z);              (* joined_variables: the variable each joined table stands for *)
  j_joins : list join;
  j_io : bool                         (* or_depth > 0 *)
}.
Definition jm0 : jm := Build_jm [] [] [] [] false.
Definition set_io (b : bool) (st : jm) : jm :=
  {| j_paths := j_paths st; j_inst := j_inst st; j_tvar := j_tvar st; j_joins := j_joins st; j_io := b |}.

Inductive tr (A : Type) :=
| ROk (a : A) (st : jm)
| RReject            (* EQLTranslationError *)
| RCrash             (* another exception escapes eql_to_sql (no such path is known on the current tree) *)
| RUnmod.            (* construct outside this model *)
Arguments ROk {A}. Arguments RReject {A}. Arguments RCrash {A}. Arguments RUnmod {A}.

Fixpoint lookup_path (l : list ((nat * Z) * nat)) (src : nat) (a : Z) : option nat :=
  match l with
  | [] => None
  | ((s, b), i) :: l' => if Nat.eqb s src && (a =? b) then Some i else lookup_path l' src a
  end.
Definition memz (x : Z) (l : list Z) : bool := existsb (Z.eqb x) l.

(* _apply_relationship_join *)
Definition alias_for (st : jm) (src : nat) (a tgt : Z) : nat * jm :=
  match lookup_path (j_paths st) src a with
  | Some i => (i, st)
  | None =>
      let i := S (length (j_joins st)) in
      (* a join made inside an or_ is an outer join: another alternative may hold for a row whose relationship is None *)
      (i, {| j_paths := ((src, a), i) :: j_paths st; j_inst := j_inst st; j_tvar := j_tvar st;
             j_joins := j_joins st ++ [JRel (j_io st) src a tgt]; j_io := j_io st |})
  end.

(* _walk_attribute_chain *)
Fixpoint twalk (sc : schema) (st : jm) (cur : nat) (ccls : Z) (chain : list Z) : tr sexpr :=
  match chain with
  | [] => RReject                                        (* "Attribute chain processing error." *)
  | a :: rest =>
      match field_kind sc ccls a with
      | Some (FRel tgt) =>
          match rest with
          | [] => ROk (SCol cur a) st                    (* last hop is a relationship: its local (foreign key) column *)
          | _ :: _ => let '(i, st') := alias_for st cur a tgt in twalk sc st' i tgt rest
          end
      | Some FScalar =>
          match rest with
          | [] => ROk (SCol cur a) st
          | _ :: _ => RReject                            (* "... is not a relationship but chain continues." *)
          end
      | None => RReject                                  (* "Column ... not found" *)
      end
  end.

(* issubclass(target_dao, anchor_dao) or issubclass(anchor_dao, target_dao) *)
Definition related (sc : schema) (c d : Z) : bool := (c =? d) || subclass sc c d || subclass sc d c.

(* what the end of a chain is according to the mapped classes (every hop but the last a relationship) *)
Fixpoint chain_kind (sc : schema) (c : Z) (chain : list Z) : option fkind :=
  match chain with
  | [] => None
  | a :: rest => match field_kind sc c a, rest with
                 | Some k, [] => Some k
                 | Some (FRel t), _ :: _ => chain_kind sc t rest
                 | _, _ => None
                 end
  end.

Definition eqne (op : cmpop) : bool := match op with OEq | ONe => true | _ => false end.
(* the (class, attribute) a chain ends on, and whether that column is Enum-typed *)
Fixpoint chain_end (sc : schema) (c : Z) (chain : list Z) : option (Z * Z) :=
  match chain with
  | [] => None
  | [a] => Some (c, a)
  | a :: rest => match field_kind sc c a with Some (FRel t) => chain_end sc t rest | _ => None end
  end.
Definition enum_end (sc : schema) (c : Z) (chain : list Z) : bool :=
  match chain_end sc c chain with
  | Some (c', a) => existsb (fun p => (fst p =? c') && (snd p =? a)) (sc_enums sc)
  | None => false
  end.
Definition col_in (l : list (Z * Z)) (e : option (Z * Z)) : bool :=
  match e with Some (c, a) => existsb (fun p => (fst p =? c) && (snd p =? a)) l | None => false end.
(* mismatched(column, value): text against a numeric column, a number against a text column (an Enum member is no text) *)
Definition mismatch_lit (sc : schema) (c : Z) (chain : list Z) (v : val) : bool :=
  match v with
  | VStr s => negb (is_enum s) && col_in (sc_nums sc) (chain_end sc c chain)
  | VInt _ => col_in (sc_texts sc) (chain_end sc c chain)
  | _ => false
  end.
(* two columns of different kinds (text against number) *)
Definition kinds_differ (sc : schema) (c1 : Z) (ch1 : list Z) (c2 : Z) (ch2 : list Z) : bool :=
  (col_in (sc_nums sc) (chain_end sc c1 ch1) && col_in (sc_texts sc) (chain_end sc c2 ch2)) ||
  (col_in (sc_texts sc) (chain_end sc c1 ch1) && col_in (sc_nums sc) (chain_end sc c2 ch2)).
Definition attr_name : Z := 1.      (* harness: "name" *)
Definition attr_id_ : Z := 2.       (* harness: "id_" *)

Section Translate.
  Variable sc : schema.
  Variable vars : list (Z * Z).
  Variable sel : Z.                  (* the selected variable *)
  Variable root : Z.                 (* its type *)

  (* translate_attribute: only chains of the selected variable; they start at the root table *)
  Definition tattr (st : jm) (v : Z) (chain : list Z) : tr sexpr :=
    if v =? sel then twalk sc st 0%nat root chain else RReject.   (* UnsupportedQueryTypeError *)

  (* _translate_comparator_operand *)
  Definition toperand (st : jm) (x : operand) : tr sexpr :=
    match x with
    | OAttr v chain => tattr st v chain
    | OLit c => ROk (SConst c) st
    | OList _ => RUnmod
    | OVar _ => RReject                                  (* DomainExtractionError: a variable stands for its whole domain *)
    end.

  (* _is_relationship_valued *)
  Definition is_rel (x : operand) : bool :=
    match x with
    | OAttr v ch => match assoc v vars with
                    | Some c => match chain_kind sc c ch with Some (FRel _) => true | _ => false end
                    | None => false
                    end
    | _ => false
    end.
  Definition is_var (x : operand) : bool := match x with OVar _ => true | _ => false end.
  (* isinstance(getattr(side, "type", None), sqlalchemy.Enum): only a column has a type *)
  Definition enum_col (x : operand) : bool :=
    match x with
    | OAttr v ch => match assoc v vars with Some c => enum_end sc c ch | None => false end
    | _ => false
    end.
  (* mismatched(column, value) for a literal operand / element against a column operand *)
  Definition operand_mismatch (x : operand) (v : val) : bool :=
    match x with
    | OAttr vv ch => match assoc vv vars with Some c => mismatch_lit sc c ch v | None => false end
    | _ => false
    end.
  Definition lit_mismatch (x y : operand) : bool :=
    match y with OLit v => operand_mismatch x v | _ => false end.
  Definition col_mismatch (x y : operand) : bool :=
    match x, y with
    | OAttr v1 ch1, OAttr v2 ch2 =>
        match assoc v1 vars, assoc v2 vars with Some c1, Some c2 => kinds_differ sc c1 ch1 c2 ch2 | _, _ => false end
    | _, _ => false
    end.
  (* mismatched(left, right) or mismatched(right, left) *)
  Definition cmp_mismatch (l r : operand) : bool := lit_mismatch l r || lit_mismatch r l || col_mismatch l r.
  (* membership(column, values): a None element is searched with IS NULL *)
  Definition is_null (c : val) : bool := match c with VNull => true | _ => false end.
  Definition mk_in (a : sexpr) (cs : list val) : spred :=
    if existsb is_null cs then SOr (SIsNull false a) (SIn a (filter (fun c => negb (is_null c)) cs)) else SIn a cs.
  (* a bare variable whose class has a name (and no id_): DomainValueExtractor finds its first domain element's row by name *)
  Definition named_var (x : operand) : bool :=
    match x with
    | OVar v => match assoc v vars with
                | Some c => match field_kind sc c attr_name, field_kind sc c attr_id_ with Some _, None => true | _, _ => false end
                | None => false
                end
    | _ => false
    end.
  (* _check_relationship_operands: true = passes *)
  Definition rel_check (eqne : bool) (l r : operand) : bool :=
    (negb (is_rel l) || ((is_rel r || is_var r) && eqne)) &&
    (negb (is_rel r) || ((is_rel l || is_var l) && eqne)).

  (* OperatorMapper.map_comparison_operator: != is NULL-safe (IS NOT), == between two columns is NULL-safe (IS),
     == None is IS NULL; None: an ordering against None -> ArgumentError, re-raised as UnsupportedOperatorError *)
  Definition is_col (e : sexpr) : bool := match e with SCol _ _ => true | _ => false end.
  Definition mk_cmp (op : cmpop) (l r : sexpr) : option spred :=
    match op with
    | ONe => Some (SNullSafe true l r)
    | OEq => if is_col l && is_col r then Some (SNullSafe false l r)
             else match r with SConst VNull => Some (SIsNull false l) | _ => Some (SCmp OEq l r) end
    | _ => match r with SConst VNull => None | _ => Some (SCmp op l r) end
    end.

  Fixpoint last_of (l : list Z) : option Z :=
    match l with [] => None | [a] => Some a | _ :: l' => last_of l' end.

  (* _is_attribute_equality_join + _handle_attribute_equality_join: Some tr = handled there.  [io]: inside an or_.
     The first join at conjunctive level carries the equality in its ON clause and contributes no condition; inside
     an or_ the target is joined ON true, and whenever the target is joined already, the equality is an ordinary condition *)
  Definition teqjoin (io : bool) (st : jm) (op : cmpop) (l r : operand) : option (tr (option spred)) :=
    match op, l, r with
    | OEq, OAttr v1 [a1], OAttr v2 [a2] =>               (* one hop on each side: the foreign keys of the variables' own tables *)
        if v1 =? v2 then None else
        match assoc v1 vars, assoc v2 vars with
        | Some c1, Some c2 =>
            match field_kind sc c1 a1, field_kind sc c2 a2 with
            | Some (FRel _), Some (FRel _) =>
                if (v1 =? sel) || (v2 =? sel) then
                  let '(target, tv, tfk, afk) := if v1 =? sel then (c2, v2, a2, a1) else (c1, v1, a1, a2) in
                  if related sc target root then Some RReject       (* self joins are not supported *)
                  else match assoc target (j_inst st) with
                       | Some ti =>
                           match assoc target (j_tvar st) with
                           | Some tv' => if tv' =? tv then Some (ROk (Some (SCmp OEq (SCol ti tfk) (SCol 0%nat afk))) st)
                                         else Some RReject          (* two variables of one type joined to the selected one *)
                           | None => Some RReject
                           end
                       | None =>
                           let ti := S (length (j_joins st)) in
                           Some (ROk (if io then Some (SCmp OEq (SCol ti tfk) (SCol 0%nat afk)) else None)
                                     {| j_paths := j_paths st; j_inst := (target, ti) :: j_inst st;
                                        j_tvar := (target, tv) :: j_tvar st;
                                        j_joins := j_joins st ++ [if io then JCross true target else JEq target tfk 0%nat afk];
                                        j_io := j_io st |})
                       end
                else Some RReject                                   (* needs the selected variable on one side *)
            | _, _ => None
            end
        | _, _ => None
        end
    | _, _, _ => None
    end.

  (* translate_comparator for the six comparison operators *)
  Definition tcmp (io : bool) (st : jm) (op : cmpop) (l r : operand) : tr (option spred) :=
    match teqjoin io st op l r with
    | Some res => res
    | None =>
        if negb (rel_check (eqne op) l r) then RReject else
        match toperand st l with
        | ROk a st1 =>
            match toperand st1 r with
            | ROk b st2 =>
                if cmp_mismatch l r then RReject                                 (* text against number, literal or column *)
                else if negb (eqne op) && (enum_col l || enum_col r) then RReject     (* Enum members have no order *)
                else match mk_cmp op a b with Some p => ROk (Some p) st2 | None => RReject end
            | RReject => RReject | RCrash => RCrash | RUnmod => RUnmod
            end
        | RReject => RReject | RCrash => RCrash | RUnmod => RUnmod
        end
    end.

  (* translate_comparator for operator.contains + _handle_contains_operator + map_contains_operator *)
  Definition tcontains (st : jm) (ct it : operand) : tr (option spred) :=
    if is_rel ct || is_rel it then RReject else          (* contains is neither == nor != *)
    match ct, it with
    | OList cs, OAttr v chain =>
        match tattr st v chain with
        | ROk a st1 => if existsb (operand_mismatch (OAttr v chain)) cs then RReject else ROk (Some (mk_in a cs)) st1
        | RReject => RReject | RCrash => RCrash | RUnmod => RUnmod
        end
    | OLit c, OAttr v chain =>
        match tattr st v chain with
        | ROk a st1 =>
            match c with
            | VStr s => ROk (Some (SInstr s a)) st1
            | _ => if operand_mismatch (OAttr v chain) c then RReject else ROk (Some (mk_in a [c])) st1
            end
        | RReject => RReject | RCrash => RCrash | RUnmod => RUnmod
        end
    | OAttr v chain, OLit (VStr s) =>
        match tattr st v chain with
        | ROk a st1 => ROk (Some (SInstrCol a s)) st1     (* instr(col, :s) > 0 *)
        | RReject => RReject | RCrash => RCrash | RUnmod => RUnmod
        end
    | OAttr v chain, _ =>
        match tattr st v chain with
        | ROk _ _ => RUnmod | RReject => RReject | RCrash => RCrash | RUnmod => RUnmod
        end
    | _, _ => RUnmod
    end.

  (* _combine_logical_parts *)
  Definition combine (f : spred -> spred -> spred) (a b : option spred) : option spred :=
    match a, b with
    | Some p, Some q => Some (f p q)
    | Some p, None => Some p
    | None, b => b
    end.

  (* translate_query; [io] = or_depth > 0 *)
  Fixpoint tcond (io : bool) (st : jm) (c : cond) : tr (option spred) :=
    match c with
    | CCmp op l r => tcmp io (set_io io st) op l r
    | CContains ct it => tcontains (set_io io st) ct it
    | CAnd p q =>
        match tcond io st p with
        | ROk a st1 => match tcond io st1 q with
                       | ROk b st2 => ROk (combine SAnd a b) st2
                       | RReject => RReject | RCrash => RCrash | RUnmod => RUnmod
                       end
        | RReject => RReject | RCrash => RCrash | RUnmod => RUnmod
        end
    | COr p q =>
        match tcond true st p with
        | ROk a st1 => match tcond true st1 q with
                       | ROk b st2 => ROk (combine SOr a b) st2
                       | RReject => RReject | RCrash => RCrash | RUnmod => RUnmod
                       end
        | RReject => RReject | RCrash => RCrash | RUnmod => RUnmod
        end
    | CNot _ => RReject                                   (* UnsupportedQueryTypeError *)
    | CTruth (OAttr v chain) =>                           (* translate_truth_value *)
        match tattr (set_io io st) v chain with
        | ROk a st1 => ROk (Some (STruth a)) st1
        | RReject => RReject | RCrash => RCrash | RUnmod => RUnmod
        end
    | CTruth _ => RReject
    | CInSet cs it => tcontains (set_io io st) (OList cs) it   (* any non-text iterable container is unwrapped like a list *)
    | COther => RReject                                   (* UnsupportedQueryTypeError: unknown operand type *)
    end.
End Translate.

Inductive tres := TOk (s : sql) | TReject | TCrash | TUnmod.

(* EQLTranslator.translate *)
Definition translate (sc : schema) (q : query) : tres :=
  if q_setof q then TReject else         (* not an entity(...) query: UnsupportedQueryTypeError *)
  match assoc (q_sel q) (q_vars q) with
  | None => TReject
  | Some root =>
      match q_cond q with
      | None => TReject                     (* translate_query(None): UnsupportedQueryTypeError *)
      | Some c =>
          match tcond sc (q_vars q) (q_sel q) root false jm0 c with
          | ROk p st => TOk {| s_root := root; s_joins := j_joins st; s_where := p; s_invalid := false |}
          | RReject => TReject | RCrash => TCrash | RUnmod => TUnmod
          end
      end
  end.

(* ---------- what eql_to_sql(q, session).evaluate() shows ---------- *)
Definition sem_res (s : sql) (d : db) : res (list Z) :=
  match sem s d with Some l => Ok l | None => Err TypeErr end.

(* [1] rejected with EQLTranslationError | [2] another exception while translating | [9] outside the model |
   otherwise as the memory side: [0; keys] / [5] / [6] / [7] execution failed *)
Definition model_out (sc : schema) (q : query) (w : world) : sx :=
  match translate sc q with
  | TReject => SL [SL [SZ 1]; SL [SZ 1]]
  | TCrash => SL [SL [SZ 2]; SL [SZ 2]]
  | TUnmod => SL [SL [SZ 9]; SL [SZ 9]]
  | TOk s => show_both (q_the q) (sem_res s (encode sc w))
  end.

(* ---------- the fragment F07 ---------- *)
Definition scalar_val (v : val) : bool := match v with VInt _ | VStr _ => true | _ => false end.
Definition nscalar (v : val) : bool := match v with VNull | VInt _ | VStr _ => true | _ => false end.   (* a column value *)
Definition same_kind (a b : val) : bool :=
  match a, b with VInt _, VInt _ | VStr _, VStr _ => true | _, _ => false end.
(* two column values that Python's == and SQL's = / IS treat alike: None against anything, or two values of one kind *)
Definition compat (a b : val) : bool :=
  match a, b with
  | VNull, _ => nscalar b
  | _, VNull => nscalar a
  | _, _ => same_kind a b
  end.
(* two values Python can order: two ints, or two strings that are not Enum members *)
Definition ord_kind (a b : val) : bool :=
  match a, b with
  | VInt _, VInt _ => true
  | VStr x, VStr y => negb (is_enum x || is_enum y)
  | _, _ => false
  end.
Definition cmp_data (eqne : bool) (a b : val) : bool := if eqne then compat a b else ord_kind a b.

(* the chain can be followed on object o as the schema promises: every hop is a to-one relationship holding an
   object of the target type (never None), the end is a scalar column whose value may be None *)
Fixpoint twalk_data (sc : schema) (w : world) (o : obj) (ccls : Z) (chain : list Z) : option val :=
  match chain with
  | [] => None
  | a :: rest =>
      match field_kind sc ccls a, assoc a (o_fields o) with
      | Some FScalar, Some v => match rest with [] => if nscalar v then Some v else None | _ :: _ => None end
      | Some (FRel tgt), Some (VRef k) =>
          match rest with
          | [] => None
          | _ :: _ => match find_obj w k with
                      | Some o' => if inst_of sc tgt o' then twalk_data sc w o' tgt rest else None
                      | None => None
                      end
          end
      | _, _ => None
      end
  end.

Definition operand_data (sc : schema) (w : world) (sel root : Z) (o : obj) (x : operand) : option val :=
  match x with
  | OAttr v chain => if v =? sel then twalk_data sc w o root chain else None
  | OLit c => if nscalar c then Some c else None
  | _ => None
  end.

(* data part, per object of the selected type: ==, != (also against None) between compatible values; <, <=, >, >= between
   two non-None values of one kind; membership of a possibly-None value in a list of scalars of its kind; a possibly-None
   column as condition *)
Fixpoint cond_ok (sc : schema) (w : world) (sel root : Z) (o : obj) (c : cond) : bool :=
  match c with
  | CCmp op (OAttr v ch) r =>
      match operand_data sc w sel root o (OAttr v ch), operand_data sc w sel root o r with
      | Some a, Some b => cmp_data (eqne op) a b
      | _, _ => false
      end
  | CContains (OList cs) (OAttr v ch) | CInSet cs (OAttr v ch) =>
      match operand_data sc w sel root o (OAttr v ch) with
      | Some a => forallb (compat a) cs
      | None => false
      end
  | CTruth (OAttr v ch) =>
      match operand_data sc w sel root o (OAttr v ch) with Some _ => true | None => false end
  | CAnd p q | COr p q => cond_ok sc w sel root o p && cond_ok sc w sel root o q
  | _ => false
  end.

(* syntactic part: comparisons of a scalar-ended chain of the selected variable with a literal (None only under ==, !=)
   or another such chain, membership of such a chain in a literal list of scalars, such a chain as condition, and_/or_ *)
Definition operand_shape (sc : schema) (sel root : Z) (x : operand) : bool :=
  match x with
  | OAttr v ch => (v =? sel) && match chain_kind sc root ch with Some FScalar => true | _ => false end
  | OLit c => nscalar c
  | _ => false
  end.
Definition none_lit (x : operand) : bool := match x with OLit VNull => true | _ => false end.
Definition mismatch_op (sc : schema) (root : Z) (l r : operand) : bool :=
  match l, r with
  | OAttr _ ch, OLit v => mismatch_lit sc root ch v
  | OAttr _ ch1, OAttr _ ch2 => kinds_differ sc root ch1 root ch2
  | _, _ => false
  end.
Definition enum_op (sc : schema) (root : Z) (x : operand) : bool :=
  match x with OAttr _ ch => enum_end sc root ch | _ => false end.
Fixpoint cond_shape (sc : schema) (sel root : Z) (c : cond) : bool :=
  match c with
  | CCmp op (OAttr v ch) r =>
      operand_shape sc sel root (OAttr v ch) && operand_shape sc sel root r && (eqne op || negb (none_lit r)) &&
      (eqne op || negb (enum_op sc root (OAttr v ch) || enum_op sc root r)) &&
      negb (mismatch_op sc root (OAttr v ch) r)
  | CContains (OList cs) (OAttr v ch) | CInSet cs (OAttr v ch) =>
      operand_shape sc sel root (OAttr v ch) && forallb scalar_val cs && negb (existsb (mismatch_lit sc root ch) cs)
  | CTruth (OAttr v ch) => operand_shape sc sel root (OAttr v ch)
  | CAnd p q | COr p q => cond_shape sc sel root p && cond_shape sc sel root q
  | _ => false
  end.

Fixpoint nodup_z (l : list Z) : bool :=
  match l with [] => true | x :: l' => negb (memz x l') && nodup_z l' end.

Definition f07 (sc : schema) (q : query) (w : world) : bool :=
  match q_vars q, q_cond q with
  | [(v, root)], Some c =>
      negb (q_setof q) && (v =? q_sel q) && cond_shape sc v root c && nodup_z (map o_key w) && forallb (fun o => cond_ok sc w v root o c) (instances sc w root)
  | _, _ => false
  end.

(* ---------- the fragment F07J: two variables connected by equality joins ---------- *)
(* the selected variable sel : root and one other variable v2 : c2 (a class that shares no table with root); the condition is
   an and_/or_ tree whose leaves are F07 atoms over sel or equality joins  sel.r1 == v2.r2 / v2.r2 == sel.r1  between
   to-one relationships.  Data: on every pair (o, t) the atoms over sel are as in F07, and on the two related entities
   Python's == coincides with equality of the foreign keys (excludes None == None and distinct entities equal by __eq__) *)
Definition refnull (v : val) : bool := match v with VRef _ | VNull => true | _ => false end.
Definition is_frel (k : option fkind) : bool := match k with Some (FRel _) => true | _ => false end.
(* (attribute on sel, attribute on v2, written with v2 on the left) *)
Definition join_atom (sel v2 : Z) (l r : operand) : option (Z * Z * bool) :=
  match l, r with
  | OAttr a [x], OAttr b [y] =>
      if (a =? sel) && (b =? v2) then Some (x, y, false)
      else if (a =? v2) && (b =? sel) then Some (y, x, true) else None
  | _, _ => None
  end.
Fixpoint cond_shape2 (sc : schema) (sel root v2 c2 : Z) (c : cond) : bool :=
  match c with
  | CCmp OEq l r =>
      match join_atom sel v2 l r with
      | Some (r1, r2, _) => is_frel (field_kind sc root r1) && is_frel (field_kind sc c2 r2)
      | None => cond_shape sc sel root c
      end
  | CAnd p q | COr p q => cond_shape2 sc sel root v2 c2 p && cond_shape2 sc sel root v2 c2 q
  | CNot _ => false
  | _ => cond_shape sc sel root c
  end.
Fixpoint cond_ok2 (sc : schema) (w : world) (sel root v2 : Z) (o t : obj) (c : cond) : bool :=
  match c with
  | CCmp OEq l r =>
      match join_atom sel v2 l r with
      | Some (r1, r2, sw) =>
          match assoc r1 (o_fields o), assoc r2 (o_fields t) with
          | Some a, Some b =>
              refnull a && refnull b &&
              Bool.eqb (if sw then val_eq eq_fuel w b a else val_eq eq_fuel w a b) (tv_true (sql_eq (enc_val b) (enc_val a)))
          | _, _ => false
          end
      | None => cond_ok sc w sel root o c
      end
  | CAnd p q | COr p q => cond_ok2 sc w sel root v2 o t p && cond_ok2 sc w sel root v2 o t q
  | CNot _ => false
  | _ => cond_ok sc w sel root o c
  end.
Fixpoint has_join (sel v2 : Z) (c : cond) : bool :=
  match c with
  | CCmp OEq l r => match join_atom sel v2 l r with Some _ => true | None => false end
  | CAnd p q | COr p q => has_join sel v2 p || has_join sel v2 q
  | _ => false
  end.
Definition f07j (sc : schema) (q : query) (w : world) : bool :=
  match q_vars q, q_cond q with
  | [(v, root); (v2, c2)], Some c =>
      negb (q_setof q) && (v =? q_sel q) && negb (v2 =? v) && negb (related sc c2 root) && cond_shape2 sc v root v2 c2 c && has_join v v2 c &&
      nodup_z (map o_key w) && negb (match instances sc w c2 with [] => true | _ => false end) &&
      forallb (fun o => forallb (fun t => cond_ok2 sc w v root v2 o t c) (instances sc w c2)) (instances sc w root)
  | _, _ => false
  end.

(* ---------- reporting classes for inputs outside F07 (bit mask) ---------- *)
Definition operand_vars (x : operand) : list Z :=
  match x with OAttr v _ | OVar v => [v] | _ => [] end.
Fixpoint cond_operands (c : cond) : list operand :=
  match c with
  | CCmp _ l r | CContains l r => [l; r]
  | CAnd p q | COr p q => cond_operands p ++ cond_operands q
  | CNot p => cond_operands p
  | CTruth o => [o]
  | CInSet _ it => [it]
  | COther => []
  end.
Fixpoint has_not (c : cond) : bool :=
  match c with CNot _ => true | CAnd p q | COr p q => has_not p || has_not q | _ => false end.
Fixpoint has_strop (c : cond) : bool :=      (* instr / truth value of a column *)
  match c with
  | CContains (OList _) _ => false
  | CContains _ _ | CTruth _ => true
  | CAnd p q | COr p q => has_strop p || has_strop q
  | CNot p => has_strop p
  | _ => false
  end.
Definition operand_rel (sc : schema) (vars : list (Z * Z)) (x : operand) : bool :=
  match x with
  | OAttr v ch => match assoc v vars with
                  | Some c => match chain_kind sc c ch with Some (FRel _) => true | _ => false end
                  | None => false
                  end
  | _ => false
  end.
(* some object of the variable's type has None on the way or at the end of the chain, or a literal is None *)
Definition operand_null (sc : schema) (vars : list (Z * Z)) (w : world) (x : operand) : bool :=
  match x with
  | OAttr v ch => match assoc v vars with
                  | Some c => existsb (fun o => match walk w o ch with Ok VNull => true | Err _ => true | _ => false end)
                                      (instances sc w c)
                  | None => false
                  end
  | OLit VNull => true
  | OList cs => existsb (fun c => match c with VNull => true | _ => false end) cs
  | _ => false
  end.
Fixpoint has_none_order (c : cond) : bool :=   (* <, <=, >, >= against a None literal *)
  match c with
  | CCmp op _ (OLit VNull) => match op with OEq | ONe => false | _ => true end
  | CAnd p q | COr p q => has_none_order p || has_none_order q
  | CNot p => has_none_order p
  | _ => false
  end.
(* open classes *)
Definition operand_str (sc : schema) (vars : list (Z * Z)) (w : world) (x : operand) : bool :=
  match x with
  | OAttr v ch => match assoc v vars with
                  | Some c => existsb (fun o => match walk w o ch with Ok (VStr _) => true | _ => false end) (instances sc w c)
                  | None => false
                  end
  | _ => false
  end.
Fixpoint has_strtruth (sc : schema) (vars : list (Z * Z)) (w : world) (c : cond) : bool :=   (* a str column as condition *)
  match c with
  | CTruth x => operand_str sc vars w x
  | CAnd p q | COr p q => has_strtruth sc vars w p || has_strtruth sc vars w q
  | CNot p => has_strtruth sc vars w p
  | _ => false
  end.
Fixpoint eqjoin_atoms (c : cond) : nat :=          (* == between attribute chains of two different variables *)
  match c with
  | CCmp OEq (OAttr v1 _) (OAttr v2 _) => if v1 =? v2 then 0 else 1
  | CAnd p q | COr p q => eqjoin_atoms p + eqjoin_atoms q
  | CNot p => eqjoin_atoms p
  | _ => 0
  end.
Definition long_chain (x : operand) : bool := match x with OAttr _ (_ :: _ :: _) => true | _ => false end.
Fixpoint has_relrel (sc : schema) (vars : list (Z * Z)) (c : cond) : bool :=   (* two related entities compared *)
  match c with
  | CCmp _ l r => operand_rel sc vars l && operand_rel sc vars r
  | CAnd p q | COr p q => has_relrel sc vars p || has_relrel sc vars q
  | CNot p => has_relrel sc vars p
  | _ => false
  end.
Fixpoint has_or_join (c : cond) : bool :=      (* an equality join below an or_: multiplicities in memory are the evaluator's own *)
  match c with
  | COr p q => (1 <=? Z.of_nat (eqjoin_atoms p + eqjoin_atoms q)) || has_or_join p || has_or_join q
  | CAnd p q => has_or_join p || has_or_join q
  | CNot p => has_or_join p
  | _ => false
  end.
Fixpoint has_inset (c : cond) : bool :=
  match c with
  | CInSet _ _ => true
  | CAnd p q | COr p q => has_inset p || has_inset q
  | CNot p => has_inset p
  | _ => false
  end.
(* an ordering comparison one of whose operands is (on some object) an Enum member *)
Definition operand_enum (sc : schema) (vars : list (Z * Z)) (w : world) (x : operand) : bool :=
  match x with
  | OAttr v ch => match assoc v vars with
                  | Some c => existsb (fun o => match walk w o ch with Ok (VStr s) => is_enum s | _ => false end) (instances sc w c)
                  | None => false
                  end
  | OLit (VStr s) => is_enum s
  | _ => false
  end.
Fixpoint has_enum_order (sc : schema) (vars : list (Z * Z)) (w : world) (c : cond) : bool :=
  match c with
  | CCmp op l r => negb (eqne op) && (operand_enum sc vars w l || operand_enum sc vars w r)
  | CAnd p q | COr p q => has_enum_order sc vars w p || has_enum_order sc vars w q
  | CNot p => has_enum_order sc vars w p
  | _ => false
  end.
Definition b2z (b : bool) (k : Z) : Z := if b then k else 0.
Definition classes (sc : schema) (q : query) (w : world) : Z :=
  match q_cond q with
  | None => 0
  | Some c =>
      let ops := cond_operands c in
      b2z (existsb (fun x => existsb (fun v => negb (v =? q_sel q)) (operand_vars x)) ops) 1
      + b2z (existsb (operand_null sc (q_vars q) w) ops) 2
      + b2z (existsb (operand_rel sc (q_vars q)) ops) 4
      + b2z (has_not c) 8
      + b2z (has_strop c) 16
      + b2z (existsb (fun x => match x with OVar _ => true | _ => false end) ops) 32
      + b2z (has_none_order c) 64
      + b2z (has_strtruth sc (q_vars q) w c) 128
      + b2z ((1 <=? Z.of_nat (eqjoin_atoms c)) && ((2 <=? Z.of_nat (eqjoin_atoms c)) || existsb long_chain ops)) 256
      + b2z (has_relrel sc (q_vars q) c) 512
      + b2z (has_or_join c) 1024
      + b2z (q_setof q) 2048
      + b2z (has_inset c) 4096
      + b2z (existsb (named_var sc (q_vars q)) ops) 8192
      + b2z (has_enum_order sc (q_vars q) w c) 16384
  end.

(* what the harness asks per case: [model; spec; [f07; classes]] *)
Definition case_out (sc : schema) (q : query) (w : world) : sx :=
  SL [model_out sc q w; spec_out sc q w; SL [SB (f07 sc q w || f07j sc q w); SZ (classes sc q w); SB (f07j sc q w)]].
