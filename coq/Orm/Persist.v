(* Persist: load (flush d) = d on every DAO graph that fits the schema and lies in the fragment F05,
   for ANY primary-key assignment that is injective per hierarchy; hence persisting and reloading yields a graph
   isomorphic to the original (composition with C04's round trip), with exactly one root row per converted object. *)
From Coq Require Import List ZArith Bool Lia Arith PeanoNat.
From Krrood Require Import Base.Sx Orm.ObjGraph Orm.Iso Orm.ObjGraphWalk Orm.ObjGraphWalkProofs Orm.IsoCanon
  Orm.ToDao Orm.FromDao Orm.RoundTrip Orm.Rows.
Import ListNotations.
Local Open Scope nat_scope.

(* ---------------------------------------------------------------- list lemmas *)
Lemma filter_flat_map {X Y} (p : Y -> bool) (h : X -> list Y) l :
  filter p (flat_map h l) = flat_map (fun x => filter p (h x)) l.
Proof. induction l as [|x l IH]; simpl; auto. now rewrite filter_app, IH. Qed.

Lemma flat_map_nil {X Y} (h : X -> list Y) l : (forall x, In x l -> h x = []) -> flat_map h l = [].
Proof. induction l as [|x l IH]; simpl; intros H; auto. rewrite H, IH; auto. Qed.

Lemma flat_map_only {X Y} (h : X -> list Y) l a :
  NoDup l -> In a l -> (forall x, In x l -> x <> a -> h x = []) -> flat_map h l = h a.
Proof.
  induction l as [|x l IH]; simpl; intros Hnd Hin H; [tauto|]. inversion Hnd; subst.
  destruct Hin as [->|Hin].
  - rewrite (flat_map_nil h l); [apply app_nil_r|]. intros x Hx. apply H; auto. intros ->. contradiction.
  - rewrite (H x); [|auto|intros ->; contradiction]. simpl. apply IH; auto.
Qed.

Lemma flat_map_only_key {X Y} (key : X -> Z) (h : X -> list Y) l f :
  NoDup (map key l) -> In f l -> (forall x, In x l -> key x <> key f -> h x = []) -> flat_map h l = h f.
Proof.
  induction l as [|x l IH]; simpl; intros Hnd Hin H; [tauto|]. inversion Hnd; subst.
  destruct Hin as [->|Hin].
  - rewrite (flat_map_nil h l); [apply app_nil_r|]. intros x Hx. apply H; auto.
    intros E. apply H2. rewrite <- E. now apply in_map.
  - rewrite (H x); [|auto|]. { simpl. apply IH; auto. }
    intros E. apply H2. rewrite E. now apply in_map.
Qed.

Lemma filter_none {X} (p : X -> bool) l : (forall x, In x l -> p x = false) -> filter p l = [].
Proof. induction l as [|x l IH]; simpl; intros H; auto. rewrite H; auto. Qed.

Lemma filter_all {X} (p : X -> bool) l : (forall x, In x l -> p x = true) -> filter p l = l.
Proof. induction l as [|x l IH]; simpl; intros H; auto. rewrite H, IH; auto. Qed.

Lemma find_filter {X} (p : X -> bool) l : find p l = hd_error (filter p l).
Proof. induction l as [|x l IH]; simpl; auto. destruct (p x); auto. Qed.

Lemma znodupb_NoDup l : znodupb l = true -> NoDup l.
Proof.
  induction l as [|x l IH]; simpl; intros H; constructor; apply andb_true_iff in H; destruct H as [H1 H2]; auto.
  intros Hin. apply negb_true_iff in H1. assert (existsb (Z.eqb x) l = true); [|congruence].
  apply existsb_exists. exists x. split; auto. apply Z.eqb_refl.
Qed.

Lemma nodupb_NoDup l : nodupb l = true -> NoDup l.
Proof.
  induction l as [|x l IH]; simpl; intros H; constructor; apply andb_true_iff in H; destruct H as [H1 H2]; auto.
  intros Hin. apply negb_true_iff in H1. apply memb_In in Hin. congruence.
Qed.

Lemma zlist_eqb_eq a : forall b, zlist_eqb a b = true -> a = b.
Proof.
  induction a as [|x a IH]; intros [|y b]; simpl; intros H; try discriminate; auto.
  apply andb_true_iff in H. destruct H as [H1 H2]. apply Z.eqb_eq in H1. subst. f_equal. auto.
Qed.

Lemma dedup_NoDup l : NoDup l -> dedup l = l.
Proof.
  induction 1 as [|x l Hx Hnd IH]; simpl; auto. rewrite IH. f_equal. apply filter_all.
  intros y Hy. apply negb_true_iff. apply Nat.eqb_neq. intros ->. contradiction.
Qed.

Lemma nth_error_map_seq {X} (f : nat -> X) n a : a < n -> nth_error (map f (seq 0 n)) a = Some (f a).
Proof.
  intros H. apply map_nth_error. rewrite (nth_error_nth' _ 0); [|now rewrite seq_length].
  rewrite seq_nth; auto.
Qed.

Lemma find_index_map_seq {X} (p : X -> bool) (f : nat -> X) b : forall m s, s <= b < s + m ->
  (forall i, s <= i < s + m -> (p (f i) = true <-> i = b)) ->
  find_index p (map f (seq s m)) = Some (b - s).
Proof.
  induction m as [|m IH]; intros s Hb H; [lia|]. simpl.
  destruct (p (f s)) eqn:E.
  - apply H in E; [|lia]. subst. f_equal. lia.
  - assert (s <> b). { intros ->. assert (p (f b) = true) by (apply H; auto; lia). congruence. }
    rewrite (IH (Datatypes.S s)); [simpl; f_equal; lia|lia|]. intros i Hi. apply H. lia.
Qed.

Lemma split_join S : forall ch scal, NoDup ch -> length scal = sum_ncols S ch ->
  concat (map (fun ci => match find (fun p : Z * list Z => Z.eqb (fst p) ci) (split_cols S ch scal) with
                         | Some p => snd p | None => [] end) ch) = scal.
Proof.
  induction ch as [|ci r IH]; intros scal Hnd Hlen; simpl in *.
  - destruct scal; simpl in *; auto; discriminate.
  - rewrite Z.eqb_refl. simpl. inversion Hnd; subst.
    transitivity (firstn (ncols S ci) scal ++ skipn (ncols S ci) scal); [|apply firstn_skipn]. f_equal.
    etransitivity; [|apply (IH (skipn (ncols S ci) scal)); auto; rewrite skipn_length; lia].
    f_equal. apply map_ext_in. intros cj Hcj. destruct (Z.eqb ci cj) eqn:E; auto.
    apply Z.eqb_eq in E. subst. contradiction.
Qed.

Lemma find_map {X Y} (p : Y -> bool) (F : X -> Y) l : find p (map F l) = option_map F (find (fun x => p (F x)) l).
Proof. induction l as [|x l IH]; simpl; auto. destruct (p (F x)); auto. Qed.

Lemma find_ext {X} (p q : X -> bool) l : (forall x, p x = q x) -> find p l = find q l.
Proof. intros H. induction l as [|x l IH]; simpl; auto. rewrite H, IH. auto. Qed.

(* ---------------------------------------------------------------- load o flush = id *)
Section LoadFlush.
  Variable S : schema.
  Variable d : heap.
  Variable n : nat.
  Variable pk : addr -> nat.
  Hypothesis Hwf : wf_dao S d n = true.
  Hypothesis HF : F05 S d n = true.
  Hypothesis Hinj : forall a b, a < n -> b < n -> K S d pk a = K S d pk b -> a = b.

  Let D := flush S d n pk.
  Let Kk := K S d pk.

  Lemma wf_at a : a < n -> exists o, d a = Some o /\ wf_dao_obj S n o = true /\ F05_obj S o = true.
  Proof.
    intros Ha. unfold wf_dao in Hwf. unfold F05 in HF. rewrite forallb_forall in Hwf, HF.
    assert (Hin : In a (seq 0 n)) by (apply in_seq; lia).
    specialize (Hwf a Hin). specialize (HF a Hin). destruct (d a) as [o|]; [|discriminate]. eauto.
  Qed.

  Lemma root_nth a o : a < n -> d a = Some o -> nth_error (t_root D) a = Some (Kk a, ocls o).
  Proof. intros Ha Ho. unfold D, flush. simpl. rewrite nth_error_map_seq; auto. now rewrite Ho. Qed.

  Lemma root_len : length (t_root D) = n.
  Proof. unfold D, flush. simpl. now rewrite map_length, seq_length. Qed.

  Lemma idx_K b : b < n -> idx_of D (Kk b) = Some b.
  Proof.
    intros Hb. unfold idx_of, D, flush. simpl.
    rewrite (find_index_map_seq _ _ b n 0); [f_equal; lia|lia|].
    intros i Hi. simpl. rewrite key_eqb_eq. split; [intros E; apply Hinj; auto; lia|intros ->; auto].
  Qed.

  Lemma idxs_K l : (forall b, In b l -> b < n) -> idxs D (map Kk l) = l.
  Proof.
    induction l as [|b l IH]; simpl; intros H; auto. rewrite idx_K by auto. simpl. f_equal. auto.
  Qed.

  Lemma gather_filter {X} (g : addr -> obj -> list X) (p : X -> bool) a o : a < n -> d a = Some o ->
    (forall a' o', a' < n -> a' <> a -> d a' = Some o' -> forall x, In x (g a' o') -> p x = false) ->
    filter p (gather d n g) = filter p (g a o).
  Proof.
    intros Ha Ho H. unfold gather. rewrite filter_flat_map.
    rewrite (flat_map_only _ _ a); [now rewrite Ho|apply seq_NoDup|apply in_seq; lia|].
    intros x Hx Hne. apply in_seq in Hx. destruct (d x) as [o'|] eqn:E; auto.
    apply filter_none. intros y Hy. eapply (H x o'); eauto. lia.
  Qed.

  Lemma K_neq a a' : a < n -> a' < n -> a' <> a -> key_eqb (Kk a') (Kk a) = false.
  Proof. intros H1 H2 H3. apply key_eqb_neq. intros E. apply H3. apply Hinj; auto. Qed.

  (* shape of the foreign-key cells written for one DAO: its own row, never a self-referential or collection column *)
  Lemma fk_shape a o x : F05_obj S o = true -> In x (fk_of S d pk a o) ->
    fst (fst x) = Kk a /\ is_selfref S (snd (fst x)) = false.
  Proof.
    intros HFo Hin. unfold fk_of in Hin. apply in_flat_map in Hin. destruct Hin as [f [Hf Hx]].
    unfold F05_obj in HFo. rewrite forallb_forall in HFo. specialize (HFo f Hf).
    unfold fk_of_fld in Hx. destruct (is_coll (fst f)); [contradiction|].
    destruct (snd f) as [|b t]; [contradiction|].
    destruct (is_selfref S (fst f)) eqn:E; [discriminate|].
    destruct Hx as [<-|[]]. simpl. auto.
  Qed.

  Lemma fk_no_selfref c : In c (t_fk D) -> is_selfref S (snd (fst c)) = false.
  Proof.
    unfold D, flush. simpl. unfold gather. intros Hin. apply in_flat_map in Hin. destruct Hin as [a [Ha Hc]].
    apply in_seq in Ha. destruct (wf_at a) as [o [Ho [_ HFo]]]; [lia|]. rewrite Ho in Hc.
    eapply fk_shape; eauto.
  Qed.

  Lemma assoc_shape a o x : In x (assoc_of S d pk a o) -> fst (fst x) = Kk a.
  Proof.
    intros Hin. unfold assoc_of in Hin. apply in_flat_map in Hin. destruct Hin as [f [Hf Hx]].
    unfold assoc_of_fld in Hx. destruct (is_coll (fst f)); [|contradiction].
    apply in_map_iff in Hx. destruct Hx as [b [<- _]]. reflexivity.
  Qed.

  Lemma fld_ok a o f : a < n -> d a = Some o -> wf_dao_obj S n o = true -> F05_obj S o = true ->
    In f (oflds o) -> load_fld S D (Kk a) (fst f) = f.
  Proof.
    intros Ha Ho Hw HFo Hf. destruct f as [t l]. simpl. unfold load_fld. f_equal.
    unfold wf_dao_obj in Hw. repeat (apply andb_true_iff in Hw; destruct Hw as [Hw ?]).
    assert (Htags : NoDup (map fst (oflds o))).
    { apply zlist_eqb_eq in H1. rewrite H1. now apply znodupb_NoDup. }
    rewrite forallb_forall in H. pose proof (H _ Hf) as Hfl. simpl in Hfl.
    apply andb_true_iff in Hfl. destruct Hfl as [Hlen Hkids]. rewrite forallb_forall in Hkids.
    assert (Hk : forall b, In b l -> b < n) by (intros b Hb; apply Nat.ltb_lt; auto).
    unfold F05_obj in HFo. rewrite forallb_forall in HFo. pose proof (HFo _ Hf) as HFf. simpl in HFf.
    destruct (is_coll t) eqn:Ec.
    - (* collection *)
      assert (E : children D (Kk a) t = map Kk l).
      { unfold children, D, flush. simpl.
        rewrite (gather_filter _ _ a o Ha Ho).
        2:{ intros a' o' Ha' Hne Ho' x Hx. unfold cell_sel. rewrite (assoc_shape _ _ _ Hx).
            fold Kk. rewrite K_neq; auto. }
        unfold assoc_of. rewrite filter_flat_map.
        rewrite (flat_map_only_key fst _ _ (t, l) Htags Hf).
        2:{ intros f' Hf' Hne. apply filter_none. intros x Hx. unfold assoc_of_fld in Hx.
            destruct (is_coll (fst f')); [|contradiction]. apply in_map_iff in Hx. destruct Hx as [b [<- _]].
            unfold cell_sel. simpl. destruct (Z.eqb (fst f') t) eqn:E; [apply Z.eqb_eq in E; contradiction|].
            apply andb_false_r. }
        unfold assoc_of_fld. simpl. rewrite Ec.
        rewrite filter_all.
        2:{ intros x Hx. apply in_map_iff in Hx. destruct Hx as [b [<- _]]. unfold cell_sel. simpl.
            fold Kk. now rewrite key_eqb_refl, Z.eqb_refl. }
        rewrite map_map. reflexivity. }
      rewrite E, idxs_K by auto. apply dedup_NoDup. now apply nodupb_NoDup.
    - destruct (is_selfref S t) eqn:Es.
      + (* self-referential single reference: empty in the fragment *)
        destruct l; [|discriminate].
        assert (E : selfref_sources D (Kk a) t = []).
        { unfold selfref_sources. rewrite filter_none; auto. intros x _.
          unfold cell_val. rewrite filter_none; auto. intros c Hc. unfold cell_sel.
          pose proof (fk_no_selfref c Hc) as Hns.
          destruct (Z.eqb (snd (fst c)) t) eqn:E; [|apply andb_false_r].
          apply Z.eqb_eq in E. rewrite E in Hns. congruence. }
        rewrite E. reflexivity.
      + (* ordinary single reference *)
        assert (E : filter (cell_sel (Kk a) t) (t_fk D) = filter (cell_sel (Kk a) t) (fk_of_fld S d pk a (t, l))).
        { unfold D, flush. simpl.
          rewrite (gather_filter _ _ a o Ha Ho).
          2:{ intros a' o' Ha' Hne Ho' x Hx. destruct (wf_at a' Ha') as [o'' [Ho'' [_ HFo'']]].
              rewrite Ho' in Ho''. inversion Ho''; subst o''.
              destruct (fk_shape _ _ _ HFo'' Hx) as [Hrow _]. unfold cell_sel. rewrite Hrow. fold Kk.
              rewrite K_neq; auto. }
          unfold fk_of. rewrite filter_flat_map.
          rewrite (flat_map_only_key fst _ _ (t, l) Htags Hf); auto.
          intros f' Hf' Hne. apply filter_none. intros x Hx. unfold fk_of_fld in Hx.
          destruct (is_coll (fst f')); [contradiction|]. destruct (snd f') as [|b' t']; [contradiction|].
          unfold cell_sel.
          destruct (is_selfref S (fst f')); destruct Hx as [<-|[]]; simpl;
            (destruct (Z.eqb (fst f') t) eqn:E; [apply Z.eqb_eq in E; contradiction|apply andb_false_r]). }
        unfold cell_val. rewrite E. unfold fk_of_fld. simpl. rewrite Ec, Es.
        destruct l as [|b l']; [reflexivity|].
        destruct l'; [|simpl in Hlen; discriminate].
        simpl. unfold cell_sel. simpl. fold Kk. rewrite key_eqb_refl, Z.eqb_refl. simpl.
        rewrite idx_K; [reflexivity|]. apply Hk. now left.
  Qed.

  Lemma cols_ok a o : a < n -> d a = Some o -> wf_dao_obj S n o = true ->
    concat (map (cols_of D (Kk a)) (chain S (ocls o))) = oscal o.
  Proof.
    intros Ha Ho Hw. unfold wf_dao_obj in Hw. repeat (apply andb_true_iff in Hw; destruct Hw as [Hw ?]).
    apply znodupb_NoDup in Hw. apply Nat.eqb_eq in H2.
    etransitivity; [|apply (split_join S (chain S (ocls o)) (oscal o) Hw H2)].
    f_equal. apply map_ext. intros ci. unfold cols_of, D, flush. simpl.
    rewrite find_filter. rewrite (gather_filter _ _ a o Ha Ho).
    2:{ intros a' o' Ha' Hne Ho' x Hx. unfold rows_of in Hx. apply in_map_iff in Hx. destruct Hx as [p [<- _]].
        simpl. fold Kk. rewrite K_neq; auto. }
    rewrite <- find_filter. unfold rows_of. rewrite find_map.
    rewrite (find_ext _ (fun p : Z * list Z => Z.eqb (fst p) ci)).
    2:{ intros p. simpl. fold Kk. now rewrite key_eqb_refl. }
    destruct (find _ _); reflexivity.
  Qed.

  Theorem load_flush a : a < n -> load S D a = d a.
  Proof.
    intros Ha. destruct (wf_at a Ha) as [o [Ho [Hw HFo]]]. unfold load. rewrite (root_nth a o Ha Ho). rewrite Ho.
    f_equal. unfold load_obj. destruct o as [c scal fl]. cbn [ocls]. f_equal.
    - apply (cols_ok a (mkObj c scal fl)); auto.
    - assert (Hfields : fields S c = map fst fl).
      { unfold wf_dao_obj in Hw. repeat (apply andb_true_iff in Hw; destruct Hw as [Hw ?]).
        simpl in *. symmetry. now apply zlist_eqb_eq. }
      rewrite Hfields, map_map. etransitivity; [|apply map_id]. apply map_ext_in. intros f Hf.
      apply (fld_ok a (mkObj c scal fl)); auto.
  Qed.

  Theorem load_beyond a : n <= a -> load S D a = None.
  Proof.
    intros Ha. unfold load. assert (E : nth_error (t_root D) a = None) by (apply nth_error_None; rewrite root_len; lia).
    now rewrite E.
  Qed.
End LoadFlush.

(* ---------------------------------------------------------------- persist and reload *)
Definition reload (S : schema) (enc dec : Z -> list Z -> list Z) (alts : list (Z * Z)) (ab : list Z) (pk : addr -> nat)
  (l : lheap) (r : addr) : option (addr * st) :=
  match to_dao enc alts l r with
  | None => None
  | Some (dr, s1) => from_dao dec alts ab (load S (flush S (dst s1) (nxt s1) pk)) (nxt s1) dr st0
  end.

Section Codec5.
  Variables enc dec : Z -> list Z -> list Z.

  (* to_dao; flush; load; from_dao -- alternatively mapped classes and DAOs below an alternatively mapped DAO included, unless
     from_dao hands out a mapping object in progress (C04-a).  The side conditions are about the DAO graph that is persisted. *)
  Theorem reload_iso S alts ab pk l r dr s1 :
    wf_heap l r = true -> alts_ok alts l = true -> codec_ok enc dec l = true -> to_dao enc alts l r = Some (dr, s1) ->
    wf_dao S (dst s1) (nxt s1) = true -> F05 S (dst s1) (nxt s1) = true ->
    (forall a b, a < nxt s1 -> b < nxt s1 -> K S (dst s1) pk a = K S (dst s1) pk b -> a = b) ->
    exists r' s2, reload S enc dec alts ab pk l r = Some (r', s2) /\
      (bad s2 = false -> iso (dst s2) r' (heap_of l) r) /\
      ((forall y o, y < nxt s1 -> dst s1 y = Some o -> zassoc_inv (ocls o) alts = None) -> bad s2 = false).
  Proof.
    intros Hwf Hok Hco Hto Hwd HF5 Hinj. unfold reload. rewrite Hto.
    set (L := load S (flush S (dst s1) (nxt s1) pk)).
    assert (HL : forall a, a < nxt s1 -> L a = dst s1 a) by (intros a Ha; apply load_flush; auto).
    destruct (second_stage enc dec alts ab l r dr s1 L Hwf Hok Hco Hto HL) as [r' [s2 [E2 [Hiso Hnb]]]].
    exists r', s2. split; [exact E2|]. split; [exact Hiso|].
    intros H. apply Hnb. intros y o Hy Ho. rewrite HL in Ho by auto. eauto.
  Qed.

  (* exactly one root row per reachable object: root row i <-> the object x with memo x = i; the memo of to_dao is
     defined exactly on the objects reachable from the root, is injective, and its values are exactly 0 .. nxt-1 *)
  Theorem one_root_row_per_object S alts pk l r dr s1 :
    wf_heap l r = true -> to_dao enc alts l r = Some (dr, s1) ->
    length (t_root (flush S (dst s1) (nxt s1) pk)) = nxt s1 /\
    (forall x, reach (heap_of l) r x <-> exists i, mlook x s1 = Some i) /\
    (forall i, i < nxt s1 -> exists x, mlook x s1 = Some i) /\
    (forall x x' i, mlook x s1 = Some i -> mlook x' s1 = Some i -> x = x') /\
    (forall x i, mlook x s1 = Some i -> i < nxt s1).
  Proof.
    intros Hwf Hto.
    destruct (todao_facts enc alts l r Hwf) as [d' [s1' [E1 [I1 [M1 [_ [D1 [B1 _]]]]]]]].
    rewrite Hto in E1. inversion E1; subst d' s1'.
    destruct I1 as [J1 [J2 [J3 [J5 _]]]].
    split; [simpl; now rewrite map_length, seq_length|].
    split; [|split; [exact (J3 (todao_plain enc alts _ _))|split; auto]].
    intros x. split.
    - intros Hx. destruct (bisim_g_reach _ (krel s1) _ _ r dr M1 B1 x Hx) as [b [Hxb _]]. eauto.
    - intros [i Hi]. eauto.
  Qed.
End Codec5.

(* ---------------------------------------------------------------- the side conditions, stated on the object graph *)
Definition wf_src_obj (S : schema) (o : obj) : bool :=
  znodupb (chain S (ocls o)) &&
  Nat.eqb (length (oscal o)) (sum_ncols S (chain S (ocls o))) &&
  zlist_eqb (map fst (oflds o)) (fields S (ocls o)) &&
  znodupb (fields S (ocls o)) &&
  forallb (fun f : fld => is_coll (fst f) || Nat.leb (length (snd f)) 1) (oflds o).
(* the object graph fits the schema: classes have NoDup table chains, scalars fill the chain's data columns, the
   reference fields are the mapper's relationships, single references hold at most one target *)
Definition wf_src (S : schema) (l : lheap) : bool := forallb (fun p : addr * obj => wf_src_obj S (snd p)) l.
(* the fragment on the object graph: no collection with a repeated element, no value in a self-referential single reference *)
Definition F05_src (S : schema) (l : lheap) : bool := forallb (fun p : addr * obj => F05_obj S (snd p)) l.

Lemma Forall2_fst_eq (R : addr -> addr -> Prop) fl fl' : Forall2 (fld_rel R) fl fl' -> map fst fl = map fst fl'.
Proof. induction 1 as [|f f' r r' [Ht _] _ IH]; simpl; congruence. Qed.

Lemma Forall2_len {A B} (R : A -> B -> Prop) l l' : Forall2 R l l' -> length l = length l'.
Proof. induction 1; simpl; congruence. Qed.

Lemma NoDup_nodupb l : NoDup l -> nodupb l = true.
Proof.
  induction 1 as [|x l Hx _ IH]; simpl; auto. rewrite IH, andb_true_r. apply negb_true_iff.
  destruct (memb x l) eqn:E; auto. apply memb_In in E. contradiction.
Qed.

Lemma NoDup_Forall2 (R : addr -> addr -> Prop) l l' :
  (forall a a' b, R a b -> R a' b -> a = a') -> Forall2 R l l' -> NoDup l -> NoDup l'.
Proof.
  intros Hinj H. induction H as [|x y l l' Hxy Hl IH]; intros Hnd; constructor; inversion Hnd; subst; auto.
  intros Hin. destruct (Forall2_In_r _ _ _ _ Hl Hin) as [x' [Hx' Hr]].
  assert (x' = x) by (eapply Hinj; eauto). subst. contradiction.
Qed.

(* strict fragment (no alternatively mapped object), identity codecs: the conditions on the object graph carry over to the
   DAO graph *)
Lemma conditions_transfer S alts l r dr s1 :
  wf_heap l r = true -> F04 alts l = true -> to_dao idc alts l r = Some (dr, s1) ->
  wf_src S l = true -> F05_src S l = true ->
  wf_dao S (dst s1) (nxt s1) = true /\ F05 S (dst s1) (nxt s1) = true.
Proof.
  intros Hwf HF Hto Hws HFs.
  destruct (todao_facts idc alts l r Hwf) as [d' [s1' [E1 [I1 [M1 [_ [D1 [_ [_ Hinj]]]]]]]]].
  rewrite Hto in E1. inversion E1; subst d' s1'. clear E1.
  destruct I1 as [J1 [J2 [J3 _]]]. pose proof (J3 (todao_plain idc alts _ _)) as J3'.
  unfold wf_src in Hws. unfold F05_src in HFs. rewrite forallb_forall in Hws, HFs.
  assert (Hy : forall y, In y (seq 0 (nxt s1)) -> exists o fl', In o (map snd l) /\
             dst s1 y = Some (mkObj (ocls o) (oscal o) fl') /\ Forall2 (fld_rel (krel s1)) (oflds o) fl').
  { intros y Hy. apply in_seq in Hy. destruct (J3' y) as [x Hx]; [lia|].
    destruct (D1 _ _ Hx) as [o [fl' [Ho [Hd Hf]]]]. exists o, fl'. split; [|split].
    - apply assoc_Some_In in Ho. apply in_map_iff. exists (x, o). auto.
    - rewrite Hd. unfold fobj. simpl. unfold cm, idc. now rewrite (proj1 (F04_cls alts l x o HF Ho)).
    - eapply Forall2_impl; [|exact Hf]. intros g g' [Ht Hks]. split; auto.
      eapply Forall2_impl; [|exact Hks]. intros k d [H _]. exact H. }
  split; unfold wf_dao, F05; apply forallb_forall; intros y Hyin;
    destruct (Hy y Hyin) as [o [fl' [Hin [Hd Hf]]]]; rewrite Hd;
    apply in_map_iff in Hin; destruct Hin as [[x o'] [Eo Hin]]; simpl in Eo; subst o'.
  - specialize (Hws _ Hin). simpl in Hws. unfold wf_src_obj in Hws. unfold wf_dao_obj. simpl.
    repeat (apply andb_true_iff in Hws; destruct Hws as [Hws ?]).
    rewrite <- (Forall2_fst_eq _ _ _ Hf). rewrite Hws, H2, H1, H0. simpl.
    apply forallb_forall. intros f' Hf'. destruct (Forall2_In_r _ _ _ _ Hf Hf') as [f [Hfin [Ht Hk]]].
    rewrite forallb_forall in H. specialize (H _ Hfin). rewrite <- Ht, <- (Forall2_len _ _ _ Hk), H. simpl.
    apply forallb_forall. intros k Hkin. destruct (Forall2_In_r _ _ _ _ Hk Hkin) as [k0 [_ Hk0]].
    apply Nat.ltb_lt. eapply J1; eauto.
  - specialize (HFs _ Hin). simpl in HFs. unfold F05_obj in *. simpl. rewrite forallb_forall in HFs.
    apply forallb_forall. intros f' Hf'. destruct (Forall2_In_r _ _ _ _ Hf Hf') as [f [Hfin [Ht Hk]]].
    specialize (HFs _ Hfin). rewrite <- Ht. destruct (is_coll (fst f)).
    + apply NoDup_nodupb. eapply NoDup_Forall2; [|exact Hk|now apply nodupb_NoDup].
      intros a a' b H1 H2. unfold krel in *. eauto.
    + destruct (is_selfref S (fst f)); auto. destruct (snd f); [|discriminate]. inversion Hk. reflexivity.
Qed.

(* C05 with every hypothesis about the input: graph g over the schema, in the strict F04 and in F05; any key assignment
   that is injective on the DAOs of a hierarchy *)
Theorem reload_iso_src S alts ab pk l r :
  wf_heap l r = true -> F04 alts l = true -> wf_src S l = true -> F05_src S l = true ->
  exists dr s1, to_dao idc alts l r = Some (dr, s1) /\
    ((forall a b, a < nxt s1 -> b < nxt s1 -> K S (dst s1) pk a = K S (dst s1) pk b -> a = b) ->
     exists r' s2, reload S idc idc alts ab pk l r = Some (r', s2) /\ iso (dst s2) r' (heap_of l) r).
Proof.
  intros Hwf HF Hws HFs.
  destruct (todao_facts idc alts l r Hwf) as [dr [s1 [E1 [I1 [M1 [_ [D1 _]]]]]]].
  exists dr, s1. split; [exact E1|]. intros Hinj.
  destruct (conditions_transfer S alts l r dr s1 Hwf HF E1 Hws HFs) as [Hwd HF5].
  destruct (reload_iso idc idc S alts ab pk l r dr s1 Hwf (F04_alts_ok alts l HF) (codec_ok_id l) E1 Hwd HF5 Hinj)
    as [r' [s2 [E2 [Hiso Hnb]]]].
  exists r', s2. split; [exact E2|]. apply Hiso. apply Hnb.
  intros y ob Hy Hyo. destruct I1 as [_ [_ [K3 _]]].
  destruct (K3 (todao_plain idc alts _ _) y Hy) as [x Hx]. destruct (D1 _ _ Hx) as [o [fl' [Ho [Hd _]]]].
  rewrite Hd in Hyo. inversion Hyo; subst ob. simpl. unfold fobj. simpl.
  destruct (F04_cls alts l x o HF Ho) as [Z1 Z2]. unfold cm. rewrite Z1. exact Z2.
Qed.

(* ---------------------------------------------------------------- what the correspondence evaluates *)
Definition pk_id (base : nat) (a : addr) : nat := base + a.

Lemma pk_id_inj S d base a b : K S d (pk_id base) a = K S d (pk_id base) b -> a = b.
Proof.
  unfold K, pk_id. destruct (d a), (d b); intros H; inversion H; lia.
Qed.

Definition model_reload (S : schema) (alts : list (Z * Z)) (ab : list Z) (gc : gcmodel) (l : lheap) (r : addr) : sx :=
  match reload S idc (decg gc) alts ab (pk_id 1) l r with
  | None => SL [SZ (-2)%Z]
  | Some (r', s2) => sx_canon (canon (dst s2) (nxt s2) r')
  end.

(* rows per table and per association table predicted by flush *)
Definition count_z (c : Z) (l : list Z) : nat := length (filter (Z.eqb c) l).
Definition model_counts (S : schema) (alts : list (Z * Z)) (l : lheap) (r : addr) (tables tags : list Z) : sx :=
  match to_dao idc alts l r with
  | None => SL [SZ (-2)%Z]
  | Some (dr, s1) =>
      let D := flush S (dst s1) (nxt s1) (pk_id 1) in
      SL [SL (map (fun t => SZ (Z.of_nat (count_z t (map (fun x : key * Z * list Z => snd (fst x)) (t_rows D))))) tables);
          SL (map (fun t => SZ (Z.of_nat (count_z t (map (fun x : key * Z * key => snd (fst x)) (t_assoc D))))) tags)]
  end.

(* 1: coherent class model and no mapping object handed out in progress (C05_reload applies as far as C04 goes);
   2: the DAO graph fits the schema; 4: F05.  7 = inside the fragment. *)
Definition frag_code (S : schema) (alts : list (Z * Z)) (ab : list Z) (gc : gcmodel) (l : lheap) (r : addr) : Z :=
  match to_dao idc alts l r with
  | None => (-1)%Z
  | Some (dr, s1) =>
      ((if alts_ok alts l && codec_ok idc (decg gc) l &&
           match reload S idc (decg gc) alts ab (pk_id 1) l r with Some (_, s2) => negb (bad s2) | None => false end
        then 1 else 0)
       + (if wf_dao S (dst s1) (nxt s1) then 2 else 0)
       + (if F05 S (dst s1) (nxt s1) then 4 else 0))%Z
  end.

Definition case_code5 (S : schema) (alts : list (Z * Z)) (ab : list Z) (gc : gcmodel) (tables tags : list Z) (l : lheap) (r : addr)
  (l' : lheap) (r' : addr) (counts : sx) : sx :=
  SL [SZ (classify (spec_canon l' r') (model_reload S alts ab gc l r) (spec_canon l r));
      SZ (frag_code S alts ab gc l r);
      SZ (if wf_heap l r && wf_heap l' r' then 1 else 0)%Z;
      SZ (if sx_eqb counts (model_counts S alts l r tables tags) then 1 else 0)%Z].

(* ---------------------------------------------------------------- refutation witnesses *)
(* C05-a (fixed in the generator by 22a99b9): Node (class 1, single reference tag 2 read as ONETOMANY): two children of one parent *)
(* a holder (class 5, collection tag 7) of two Nodes that share their parent *)
Definition selfref_heap2 : lheap :=
  [(0, mkObj 5 [] [(7%Z, [1; 2])]); (1, mkObj 1 [] [(2%Z, [3])]); (2, mkObj 1 [] [(2%Z, [3])]); (3, mkObj 1 [] [(2%Z, [])])].
Definition selfref_schema2 : schema := mkSchema [] [] [(1%Z, [2%Z]); (5%Z, [7%Z])] [2%Z].

Theorem refuted_selfref :
  wf_heap selfref_heap2 0 = true /\
  exists r' s2, reload selfref_schema2 idc idc [] [] (pk_id 1) selfref_heap2 0 = Some (r', s2) /\
    ~ iso (dst s2) r' (heap_of selfref_heap2) 0.
Proof.
  split; [reflexivity|].
  destruct (reload selfref_schema2 idc idc [] [] (pk_id 1) selfref_heap2 0) as [[r' s2]|] eqn:E; [|vm_compute in E; discriminate].
  exists r', s2. split; auto. intros Hiso.
  pose proof (iso_path_obs _ _ _ _ Hiso [(0, 0); (0, 0)]) as H.
  vm_compute in E. inversion E; subst. vm_compute in H. discriminate.
Qed.

(* C05-b: a collection that holds the same element twice, [k1; t2; k1], reloads as [k1; t2] *)
Definition repeated_schema : schema := mkSchema [] [] [(5%Z, [7%Z]); (1%Z, [])] [].
Definition repeated_heap : lheap :=
  [(0, mkObj 5 [] [(7%Z, [1; 2; 1])]); (1, mkObj 1 [] []); (2, mkObj 1 [] [])].

Theorem refuted_repeated_element :
  wf_heap repeated_heap 0 = true /\
  exists r' s2, reload repeated_schema idc idc [] [] (pk_id 1) repeated_heap 0 = Some (r', s2) /\
    ~ iso (dst s2) r' (heap_of repeated_heap) 0.
Proof.
  split; [reflexivity|].
  destruct (reload repeated_schema idc idc [] [] (pk_id 1) repeated_heap 0) as [[r' s2]|] eqn:E; [|vm_compute in E; discriminate].
  exists r', s2. split; auto. intros Hiso.
  pose proof (iso_path_obs _ _ _ _ Hiso [(0, 2)]) as H.
  vm_compute in E. inversion E; subst. vm_compute in H. discriminate.
Qed.

(* ---------------------------------------------------------------- several roots, one shared state per direction, through the database:
   the roots (elements of the holder's single collection field; the holder is not persisted) are converted with ONE ToDAOState,
   flushed, read back in a fresh session and converted with ONE explicitly created FromDAOState.  Executable companion for the
   correspondence; the shared FromDAOState is covered by C04_state_reuse_safe for two roots. *)
Definition reload_multi (S : schema) (alts : list (Z * Z)) (ab : list Z) (gc : gcmodel) (l : lheap) (h : addr)
  : option (heap * addr * nat * bool * st) :=
  match heap_of l h with
  | Some (mkObj c sc [(t, rs)]) =>
      match walk_list (walk (P_todao idc alts) (heap_of l) (Datatypes.S (length l))) rs st0 with
      | Some (ds, s1) =>
          let L := load S (flush S (dst s1) (nxt s1) (pk_id 1)) in
          match walk_list (walk (P_fromdao (decg gc) alts ab) L (Datatypes.S (nxt s1))) ds st0 with
          | Some (bs, s2) => Some (upd (dst s2) (nxt s2) (mkObj c sc [(t, bs)]), nxt s2, Datatypes.S (nxt s2), bad s2, s1)
          | None => None
          end
      | None => None
      end
  | _ => None
  end.

Definition case_code5_multi (S : schema) (alts : list (Z * Z)) (ab : list Z) (gc : gcmodel) (tables tags : list Z) (l : lheap) (h : addr)
  (l' : lheap) (h' : addr) (counts : sx) : sx :=
  match reload_multi S alts ab gc l h with
  | None => SL [SZ 3%Z; SZ (-1)%Z; SZ 0%Z; SZ 0%Z]
  | Some (hp, r, n, b, s1) =>
      let D := flush S (dst s1) (nxt s1) (pk_id 1) in
      let mc := SL [SL (map (fun t => SZ (Z.of_nat (count_z t (map (fun x : key * Z * list Z => snd (fst x)) (t_rows D))))) tables);
                    SL (map (fun t => SZ (Z.of_nat (count_z t (map (fun x : key * Z * key => snd (fst x)) (t_assoc D))))) tags)] in
      SL [SZ (classify (spec_canon l' h') (sx_canon (canon hp n r)) (spec_canon l h));
          SZ ((if alts_ok alts l && codec_ok idc (decg gc) l && negb b then 1 else 0) + (if wf_dao S (dst s1) (nxt s1) then 2 else 0)
              + (if F05 S (dst s1) (nxt s1) then 4 else 0))%Z;
          SZ (if wf_heap l h && wf_heap l' h' then 1 else 0)%Z;
          SZ (if sx_eqb counts mc then 1 else 0)%Z]
  end.

Example reload_multi_example :
  let S := mkSchema [] [(1%Z, 1); (2%Z, 0)] [(1%Z, [3%Z]); (2%Z, [])] [] in
  let l := [(0, mkObj 1 [7%Z] [(3%Z, [1; 1])]); (1, mkObj 2 [] []); (2, mkObj 1 [8%Z] [(3%Z, [1])]); (3, mkObj 99 [] [(0%Z, [0; 2; 0])])] in
  case_code5_multi S [] [] [] [1; 2]%Z [3%Z] l 3 l 3 (SL [SL [SZ 2; SZ 1]; SL [SZ 3]])%Z = SL [SZ 1; SZ 3; SZ 1; SZ 1]%Z.
Proof. vm_compute. reflexivity. Qed.
