(* ObjGraphWalkProofs: the memoised walk terminates on fuel |U|+1 and produces an isomorphic copy.
   Invariant of the DFS (over the whole recursion, cycles and sharing included):
     - memo values are below the allocation counter, the memo is injective, every allocated address is a memo value;
     - on return of [walk a], every entry registered during the call is DONE: its destination object has been
       written and is the image of the source object under the memo;
     - destination addresses below the counter at call time are not touched by the call. *)
From Coq Require Import List ZArith Bool Lia Arith PeanoNat.
From Krrood Require Import Orm.ObjGraph Orm.Iso Orm.ObjGraphWalk.
Import ListNotations.

Lemma filter_len_le {A} (p p' : A -> bool) l :
  (forall x, p' x = true -> p x = true) -> length (filter p' l) <= length (filter p l).
Proof.
  intros H. induction l as [|x l IH]; simpl; auto.
  destruct (p' x) eqn:E'.
  - rewrite (H _ E'). simpl. lia.
  - destruct (p x); simpl; lia.
Qed.

Lemma filter_len_lt {A} (p p' : A -> bool) l a :
  (forall x, p' x = true -> p x = true) -> In a l -> p a = true -> p' a = false ->
  length (filter p' l) < length (filter p l).
Proof.
  intros H. induction l as [|x l IH]; simpl; intros Hin Hp Hp'; [tauto|].
  destruct Hin as [->|Hin].
  - rewrite Hp, Hp'. simpl. pose proof (filter_len_le p p' l H). lia.
  - specialize (IH Hin Hp Hp'). destruct (p' x) eqn:E'.
    + rewrite (H _ E'). simpl. lia.
    + destruct (p x); simpl; lia.
Qed.

Lemma filter_len_all {A} (p : A -> bool) l : length (filter p l) <= length l.
Proof. induction l as [|x l IH]; simpl; auto. destruct (p x); simpl; lia. Qed.

Section Proofs.
  Variable P : params.
  Variable src : heap.
  Variable U : list addr.
  (* Q: the addresses the walk may be started on -- closed under references and inside the finite universe U
     (instances: membership in U; reachability from the root) *)
  Variable Q : addr -> Prop.
  Hypothesis HQ : forall a, Q a -> exists o, src a = Some o /\
    forall t ks k, In (t, ks) (oflds o) -> In k ks -> Q k.
  Hypothesis HQU : forall a, Q a -> In a U.
  Hypothesis Hnolate : forall a o, src a = Some o -> p_late P (p_cmap P (ocls o)) = None.

  Definition unmemo (s : st) : list addr :=
    filter (fun x => match mlook x s with None => true | Some _ => false end) U.

  Definition Inv (s : st) : Prop :=
    (forall x y, mlook x s = Some y -> y < nxt s) /\
    (forall x x' y, mlook x s = Some y -> mlook x' s = Some y -> x = x') /\
    (forall y, y < nxt s -> exists x, mlook x s = Some y) /\
    (forall y ob, dst s y = Some ob -> exists x o, src x = Some o /\ ocls ob = p_cmap P (ocls o)) /\
    (forall x y, mlook x s = Some y -> Q x) /\
    (p_keep P = true -> forall x y, mlook x s = Some y -> In x (keep s)).   (* keep-alive: every memo key is pinned *)

  Definition krel (s : st) (k d : addr) : Prop := mlook k s = Some d.

  Definition done (s : st) (x y : addr) : Prop :=
    exists o fl', src x = Some o /\
      dst s y = Some (mkObj (p_cmap P (ocls o)) (oscal o) fl') /\
      Forall2 (fld_rel (krel s)) (oflds o) fl'.

  Definition ext (s s' : st) : Prop :=
    nxt s <= nxt s' /\
    (forall x y, mlook x s = Some y -> mlook x s' = Some y) /\
    (forall x y, mlook x s' = Some y -> mlook x s = None -> nxt s <= y) /\
    (forall y, y < nxt s -> dst s' y = dst s y) /\
    (forall x y, mlook x s' = Some y -> mlook x s = None -> done s' x y).

  Lemma done_mono s s' x y :
    done s x y -> y < nxt s ->
    (forall a b, mlook a s = Some b -> mlook a s' = Some b) ->
    (forall z, z < nxt s -> dst s' z = dst s z) -> done s' x y.
  Proof.
    intros [o [fl' [Ho [Hd Hf]]]] Hy Hm Hfr. exists o, fl'. repeat split; auto.
    - rewrite Hfr; auto.
    - eapply Forall2_impl; [|exact Hf]. intros f f' [Ht Hk]. split; auto.
      eapply Forall2_impl; [|exact Hk]. unfold krel. auto.
  Qed.

  Lemma ext_refl s : ext s s.
  Proof.
    repeat split; auto.
    - intros x y H1 H2. congruence.
    - intros x y H1 H2. congruence.
  Qed.

  Lemma ext_trans s s1 s2 : Inv s1 -> ext s s1 -> ext s1 s2 -> ext s s2.
  Proof.
    intros [I1 _] [A1 [A2 [A3 [A4 A5]]]] [B1 [B2 [B3 [B4 B5]]]]. repeat split.
    - lia.
    - auto.
    - intros x y H2 H0. destruct (mlook x s1) as [y1|] eqn:E1.
      + rewrite (B2 _ _ E1) in H2. inversion H2; subst. eauto.
      + specialize (B3 _ _ H2 E1). lia.
    - intros y Hy. rewrite B4 by lia. auto.
    - intros x y H2 H0. destruct (mlook x s1) as [y1|] eqn:E1.
      + pose proof (B2 _ _ E1) as H2'. rewrite H2' in H2. inversion H2; subst y1.
        eapply done_mono; eauto.
      + eauto.
  Qed.

  Lemma unmemo_le s s' : (forall x y, mlook x s = Some y -> mlook x s' = Some y) ->
    length (unmemo s') <= length (unmemo s).
  Proof.
    intros H. unfold unmemo. apply filter_len_le. intros x Hx.
    destruct (mlook x s) as [y|] eqn:E; auto. rewrite (H _ _ E) in Hx. discriminate.
  Qed.

  (* what a successful call establishes *)
  Definition post (a : addr) (s : st) (r : option (addr * st)) : Prop :=
    exists d s', r = Some (d, s') /\ ext s s' /\ Inv s' /\ mlook a s' = Some d.

  Section Lists.
    Variable rec : addr -> st -> option (addr * st).
    Variable n : nat.
    Hypothesis Hrec : forall a s, Inv s -> Q a -> length (unmemo s) < n -> post a s (rec a s).

    Lemma walk_list_ok l : forall s, Inv s -> (forall k, In k l -> Q k) -> length (unmemo s) < n ->
      exists ds s', walk_list rec l s = Some (ds, s') /\ ext s s' /\ Inv s' /\ Forall2 (krel s') l ds.
    Proof.
      induction l as [|k t IH]; intros s HI HU Hn; simpl.
      - exists [], s. split; auto. split; [apply ext_refl|]. split; auto.
      - destruct (Hrec k s HI (HU k (or_introl eq_refl)) Hn) as [d [s1 [E [X1 [I1 M1]]]]].
        rewrite E.
        assert (Hn1 : length (unmemo s1) < n).
        { pose proof (unmemo_le s s1 (proj1 (proj2 X1))). lia. }
        destruct (IH s1 I1 (fun k' Hk' => HU k' (or_intror Hk')) Hn1) as [ds [s2 [E2 [X2 [I2 F2]]]]].
        rewrite E2. exists (d :: ds), s2. split; auto. split; [apply (ext_trans s s1 s2 I1 X1 X2)|]. split; auto.
        constructor; auto. unfold krel. apply (proj1 (proj2 X2)). exact M1.
    Qed.

    Lemma walk_flds_ok fl : forall s, Inv s -> (forall t ks k, In (t, ks) fl -> In k ks -> Q k) ->
      length (unmemo s) < n ->
      exists fl' s', walk_flds rec fl s = Some (fl', s') /\ ext s s' /\ Inv s' /\ Forall2 (fld_rel (krel s')) fl fl'.
    Proof.
      induction fl as [|[t l] rest IH]; intros s HI HU Hn; simpl.
      - exists [], s. split; auto. split; [apply ext_refl|]. split; auto.
      - destruct (walk_list_ok l s HI (fun k Hk => HU t l k (or_introl eq_refl) Hk) Hn) as [ds [s1 [E [X1 [I1 F1]]]]].
        rewrite E.
        assert (Hn1 : length (unmemo s1) < n).
        { pose proof (unmemo_le s s1 (proj1 (proj2 X1))). lia. }
        destruct (IH s1 I1 (fun t' ks k Hf Hk => HU t' ks k (or_intror Hf) Hk) Hn1) as [fs [s2 [E2 [X2 [I2 F2]]]]].
        rewrite E2. exists ((t, ds) :: fs), s2. split; auto. split; [apply (ext_trans s s1 s2 I1 X1 X2)|]. split; auto.
        constructor; auto. split; auto. simpl.
        eapply Forall2_impl; [|exact F1]. unfold krel. intros a b. apply (proj1 (proj2 X2)).
    Qed.
  End Lists.

  Lemma refix_list_id s l l' : Forall2 (krel s) l l' -> refix_list s l l' = l'.
  Proof. induction 1; simpl; auto. unfold krel in H. rewrite H. congruence. Qed.

  Lemma refix_flds_id s fl fl' : Forall2 (fld_rel (krel s)) fl fl' -> refix_flds s fl fl' = fl'.
  Proof.
    induction 1 as [|[t l] [t' l'] r r' [Ht Hk] _ IH]; simpl; auto. simpl in *.
    rewrite (refix_list_id _ _ _ Hk). rewrite IH. reflexivity.
  Qed.

  Lemma assoc_cons_ne (a x d : addr) (m : list (addr * addr)) : x <> a -> assoc x ((a, d) :: m) = assoc x m.
  Proof. intros H. simpl. destruct (Nat.eqb x a) eqn:E; auto. apply Nat.eqb_eq in E. contradiction. Qed.

  Theorem walk_ok : forall fuel a s, Inv s -> Q a -> length (unmemo s) < fuel -> post a s (walk P src fuel a s).
  Proof.
    induction fuel as [|f IH]; intros a s HI Ha Hn; [lia|].
    simpl. destruct (mlook a s) as [d|] eqn:Em.
    - exists d, s. split; auto. split; [apply ext_refl|]. split; auto.
    - destruct (HQ a Ha) as [o [Ho Hk]]. rewrite Ho.
      set (d := nxt s). set (s1 := mkSt ((a, d) :: memo s) (dst s) (S d) (if p_keep P then a :: keep s else keep s)).
      destruct HI as [I1 [I2 [I3 [I4 [I5 I6]]]]].
      assert (M1 : forall x, x <> a -> mlook x s1 = mlook x s).
      { intros x Hx. unfold mlook, s1. simpl memo. apply assoc_cons_ne. exact Hx. }
      assert (M1a : mlook a s1 = Some d).
      { unfold mlook, s1. simpl. now rewrite Nat.eqb_refl. }
      assert (HI1 : Inv s1).
      { repeat split.
        - intros x y H. destruct (Nat.eq_dec x a) as [->|Hx].
          + rewrite M1a in H. inversion H; subst. simpl. lia.
          + rewrite M1 in H by auto. apply I1 in H. simpl. unfold d. lia.
        - intros x x' y H H'. destruct (Nat.eq_dec x a) as [->|Hx]; destruct (Nat.eq_dec x' a) as [->|Hx']; auto.
          + rewrite M1a in H. inversion H; subst y. rewrite M1 in H' by auto. apply I1 in H'. unfold d in H'. lia.
          + rewrite M1a in H'. inversion H'; subst y. rewrite M1 in H by auto. apply I1 in H. unfold d in H. lia.
          + rewrite M1 in H, H' by auto. eauto.
        - intros y Hy. simpl in Hy. destruct (Nat.eq_dec y d) as [->|Hyd].
          + exists a. exact M1a.
          + destruct (I3 y) as [x Hx]; [unfold d in *; lia|]. exists x. rewrite M1; auto.
            intros ->. congruence.
        - intros y ob Hy. simpl in Hy. eauto.
        - intros x y H. destruct (Nat.eq_dec x a) as [->|Hx]; auto. rewrite M1 in H by auto. eauto.
        - intros Hk' x y H. unfold s1. simpl. rewrite Hk'. destruct (Nat.eq_dec x a) as [->|Hx]; [now left|].
          right. rewrite M1 in H by auto. eapply I6; eauto. }
      assert (Hn1 : length (unmemo s1) < f).
      { assert (length (unmemo s1) < length (unmemo s)); [|lia].
        unfold unmemo. apply filter_len_lt with (a := a).
        - intros x Hx. destruct (Nat.eq_dec x a) as [->|Hxa]; [now rewrite Em|]. rewrite <- M1; auto.
        - now apply HQU.
        - now rewrite Em.
        - now rewrite M1a. }
      destruct (walk_flds_ok (walk P src f) f IH (oflds o) s1 HI1 Hk Hn1) as [fl [s2 [E2 [X2 [HI2 F2]]]]].
      rewrite E2.
      assert (Efix : (if p_refix P then refix_flds s2 (oflds o) fl else fl) = fl).
      { destruct (p_refix P); auto. now apply refix_flds_id. }
      rewrite Efix. rewrite (Hnolate a o Ho).
      set (ob := mkObj (p_cmap P (ocls o)) (oscal o) fl).
      set (s3 := mkSt (memo s2) (upd (dst s2) d ob) (nxt s2) (keep s2)).
      destruct X2 as [B1 [B2 [B3 [B4 B5]]]].
      assert (M2a : mlook a s2 = Some d) by (apply B2; exact M1a).
      exists d, s3. split; auto. split; [|split].
      + (* ext s s3 *)
        repeat split.
        * simpl in *. unfold d in *. lia.
        * intros x y H. change (mlook x s2 = Some y). apply B2. rewrite M1; auto. intros ->. congruence.
        * intros x y H H0. change (mlook x s2 = Some y) in H. destruct (Nat.eq_dec x a) as [->|Hx].
          -- rewrite M2a in H. inversion H; subst. unfold d. lia.
          -- assert (nxt s1 <= y) by (apply (B3 x); auto; rewrite M1; auto). simpl in *. unfold d in *. lia.
        * intros y Hy. unfold s3. simpl. unfold upd. destruct (Nat.eqb y d) eqn:E.
          -- apply Nat.eqb_eq in E. unfold d in E. lia.
          -- rewrite B4; auto. simpl. lia.
        * intros x y H H0. change (mlook x s2 = Some y) in H. destruct (Nat.eq_dec x a) as [->|Hx].
          -- rewrite M2a in H. inversion H; subst y. exists o, fl. split; auto. split.
             ++ unfold s3. simpl. unfold upd. now rewrite Nat.eqb_refl.
             ++ exact F2.
          -- assert (Hn1' : mlook x s1 = None) by (rewrite M1; auto).
             pose proof (B3 _ _ H Hn1') as Hge. pose proof (B5 _ _ H Hn1') as [o' [fl' [Ho' [Hd' Hf']]]].
             exists o', fl'. split; auto. split; auto.
             unfold s3. simpl. unfold upd. destruct (Nat.eqb y d) eqn:E; auto.
             apply Nat.eqb_eq in E. simpl in Hge. lia.
      + destruct HI2 as [J1 [J2 [J3 [J4 J5]]]]. split; [exact J1|]. split; [exact J2|]. split; [exact J3|].
        split; [|exact J5].
        intros y ob' Hy. unfold s3 in Hy. simpl in Hy. unfold upd in Hy. destruct (Nat.eqb y d).
        * inversion Hy; subst ob'. exists a, o. split; auto.
        * eauto.
      + exact M2a.
  Qed.

  Lemma Inv_st0 : Inv st0.
  Proof.
    repeat split; unfold mlook; simpl; intros; try discriminate; lia.
  Qed.

  Theorem walk_total r : Q r ->
    exists d s', walk P src (S (length U)) r st0 = Some (d, s') /\ Inv s' /\ mlook r s' = Some d /\
      (forall x y, mlook x s' = Some y -> done s' x y).
  Proof.
    intros Hr.
    assert (Hn : length (unmemo st0) < S (length U)).
    { unfold unmemo. pose proof (filter_len_all (fun x => match mlook x st0 with None => true | Some _ => false end) U). lia. }
    destruct (walk_ok (S (length U)) r st0 Inv_st0 Hr Hn) as [d [s' [E [X [HI M]]]]].
    exists d, s'. split; auto. split; auto. split; auto.
    intros x y H. apply X; auto.
  Qed.

  (* the destination heap is closed on [0, nxt) *)
  Lemma result_closed s' : Inv s' -> (forall x y, mlook x s' = Some y -> done s' x y) ->
    forall y, In y (seq 0 (nxt s')) -> exists ob, dst s' y = Some ob /\
      forall t ks k, In (t, ks) (oflds ob) -> In k ks -> In k (seq 0 (nxt s')).
  Proof.
    intros [I1 [I2 [I3 [I4 I5]]]] Hd y Hy. apply in_seq in Hy.
    destruct (I3 y) as [x Hx]; [lia|]. destruct (Hd _ _ Hx) as [o [fl' [Ho [Hdst Hf]]]].
    eexists. split; [exact Hdst|]. simpl. intros t ks k Hin Hk.
    destruct (Forall2_In_r _ _ _ _ Hf Hin) as [[t0 l0] [_ [_ Hl]]]. simpl in Hl.
    destruct (Forall2_In_r _ _ _ _ Hl Hk) as [k0 [_ Hk0]]. unfold krel in Hk0.
    apply I1 in Hk0. apply in_seq. lia.
  Qed.

  (* every class is mapped to itself (no alternative mapping applies to the objects of src) *)
  Hypothesis Hcmap : forall a o, src a = Some o -> p_cmap P (ocls o) = ocls o.

  Theorem walk_bisim s' : Inv s' -> (forall x y, mlook x s' = Some y -> done s' x y) ->
    bisim (krel s') src (dst s') /\ functional (krel s') /\ injective (krel s').
  Proof.
    intros [I1 [I2 [I3 [I4 I5]]]] Hd. repeat split.
    - intros x y Hxy. destruct (Hd _ _ Hxy) as [o [fl' [Ho [Hdst Hf]]]].
      exists o, (mkObj (p_cmap P (ocls o)) (oscal o) fl'). split; auto. split; auto.
      repeat split; simpl; auto. symmetry. eapply Hcmap; eauto.
    - intros a b b' H1 H2. unfold krel in *. congruence.
    - intros a a' b H1 H2. unfold krel in *. eauto.
  Qed.

  Theorem walk_iso r : Q r ->
    exists d s', walk P src (S (length U)) r st0 = Some (d, s') /\ Inv s' /\ mlook r s' = Some d /\
      (forall x y, mlook x s' = Some y -> done s' x y) /\ iso src r (dst s') d.
  Proof.
    intros Hr. destruct (walk_total r Hr) as [d [s' [E [HI [M Hd]]]]].
    exists d, s'. split; auto. split; auto. split; auto. split; auto.
    destruct (walk_bisim s' HI Hd) as [Hb [Hf Hi]]. exists (krel s'). split; [exact M|]. split; auto.
  Qed.
  (* A state reused for a second conversion.  With keep-alive every source object converted so far stays allocated,
     so the objects of the whole history live in ONE heap [src] with pairwise distinct addresses (this is what
     [keep_memo_keys] below provides to the allocator).  Then the second conversion is as correct as the first, and the
     first result is still valid. *)
  Theorem walk_twice r1 r2 : Q r1 -> Q r2 ->
    exists d1 s1 d2 s2,
      walk P src (S (length U)) r1 st0 = Some (d1, s1) /\
      walk P src (S (length U)) r2 s1 = Some (d2, s2) /\ Inv s2 /\
      iso src r1 (dst s2) d1 /\ iso src r2 (dst s2) d2.
  Proof.
    intros H1 H2. destruct (walk_total r1 H1) as [d1 [s1 [E1 [HI1 [M1 D1]]]]].
    assert (Hn : length (unmemo s1) < S (length U)).
    { unfold unmemo. pose proof (filter_len_all (fun x => match mlook x s1 with None => true | Some _ => false end) U). lia. }
    destruct (walk_ok (S (length U)) r2 s1 HI1 H2 Hn) as [d2 [s2 [E2 [X [HI2 M2]]]]].
    exists d1, s1, d2, s2. split; auto. split; auto. split; auto.
    assert (D2 : forall x y, mlook x s2 = Some y -> done s2 x y).
    { destruct X as [B1 [B2 [B3 [B4 B5]]]]. intros x y H. destruct (mlook x s1) as [y1|] eqn:E.
      - pose proof (B2 _ _ E) as H'. rewrite H' in H. inversion H; subst y1.
        eapply done_mono; eauto. destruct HI1 as [J1 _]. eapply J1; eauto.
      - eauto. }
    destruct (walk_bisim s2 HI2 D2) as [Hb [Hf Hi]].
    split; exists (krel s2); (split; [|split; auto]).
    - unfold krel. destruct X as [_ [B2 _]]. auto.
    - exact M2.
  Qed.

  (* the keep-alive invariant, extracted: with p_keep every key of the memo is pinned by the state *)
  Theorem keep_memo_keys fuel a s d s' : p_keep P = true -> Inv s -> Q a -> length (unmemo s) < fuel ->
    walk P src fuel a s = Some (d, s') -> forall x y, mlook x s' = Some y -> In x (keep s').
  Proof.
    intros Hk HI Ha Hn E. destruct (walk_ok fuel a s HI Ha Hn) as [d' [s'' [E' [_ [HI' _]]]]].
    rewrite E in E'. inversion E'; subst. destruct HI' as [_ [_ [_ [_ [_ J6]]]]]. exact (J6 Hk).
  Qed.
End Proofs.
