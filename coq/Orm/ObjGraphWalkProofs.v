(* ObjGraphWalkProofs: the memoised walk terminates on fuel |U|+1 and, unless a memo hit handed out a mapping object that was
   still in progress ([bad]), produces a copy that is isomorphic up to the (class, scalars) transformation of the direction.
   Invariant of the DFS (over the whole recursion, cycles, sharing, late replacement of memo entries included):
     - memo values are below the allocation counter and the memo is injective; keys are pinned (keep-alive) and lie in Q;
       keys in progress are memo keys;
     - on return of [walk a] the memo entries that existed at call time are unchanged (the only entry ever overwritten is
       the one of the object being finished), in-progress set and older destination objects are untouched;
     - if no bad hit happened, every entry registered during the call is DONE: its destination object is the image of the
       source object under the memo, and each of its references went through an entry that is FINAL (not an in-progress
       mapping object), so the later overwriting of such entries cannot invalidate it. *)
From Coq Require Import List ZArith Bool Lia Arith PeanoNat.
From Krrood Require Import Orm.ObjGraph Orm.Iso Orm.ObjGraphWalk.
Import ListNotations.

Lemma filter_len_le {A} (p p' : A -> bool) l :
  (forall x, p' x = true -> p x = true) -> length (filter p' l) <= length (filter p l).
Proof.
  intros H. induction l as [|x l IH]; simpl; auto.
  destruct (p' x) eqn:E'.
  - rewrite (H _ E'). simpl. lia.
  - destruct (p x); simpl; lia.
Qed.

Lemma filter_len_lt {A} (p p' : A -> bool) l a :
  (forall x, p' x = true -> p x = true) -> In a l -> p a = true -> p' a = false ->
  length (filter p' l) < length (filter p l).
Proof.
  intros H. induction l as [|x l IH]; simpl; intros Hin Hp Hp'; [tauto|].
  destruct Hin as [->|Hin].
  - rewrite Hp, Hp'. simpl. pose proof (filter_len_le p p' l H). lia.
  - specialize (IH Hin Hp Hp'). destruct (p' x) eqn:E'.
    + rewrite (H _ E'). simpl. lia.
    + destruct (p x); simpl; lia.
Qed.

Lemma filter_len_all {A} (p : A -> bool) l : length (filter p l) <= length l.
Proof. induction l as [|x l IH]; simpl; auto. destruct (p x); simpl; lia. Qed.

Lemma remove_addr_notin a l : ~ In a l -> remove_addr a l = l.
Proof.
  induction l as [|x l IH]; simpl; intros H; auto.
  destruct (Nat.eqb x a) eqn:E.
  - apply Nat.eqb_eq in E. subst. exfalso. apply H. now left.
  - f_equal. apply IH. intros Hin. apply H. now right.
Qed.

Lemma remove_addr_head a l : ~ In a l -> remove_addr a (a :: l) = l.
Proof. intros H. simpl. rewrite Nat.eqb_refl. now apply remove_addr_notin. Qed.

Section Proofs.
  Variable P : params.
  Variable src : heap.
  Variable U : list addr.
  (* Q: the addresses the walk may be started on -- closed under references and inside the finite universe U
     (instances: membership in U; reachability from the root) *)
  Variable Q : addr -> Prop.
  Hypothesis HQ : forall a, Q a -> exists o, src a = Some o /\
    forall t ks k, In (t, ks) (oflds o) -> In k ks -> Q k.
  Hypothesis HQU : forall a, Q a -> In a U.

  Definition unmemo (s : st) : list addr :=
    filter (fun x => match mlook x s with None => true | Some _ => false end) U.

  (* no object of the source heap is a mapping object (no late replacement ever happens) *)
  Definition nolate_src : Prop := forall x o, Q x -> src x = Some o -> is_late P o = false.
  (* ... and no temporary allocations either: every allocated address is the memo value of its object *)
  Definition plain : Prop := nolate_src /\ forall x o, Q x -> src x = Some o -> p_extra P (ocls o) = 0.

  Definition Inv (s : st) : Prop :=
    (forall x y, mlook x s = Some y -> y < nxt s) /\
    (forall x x' y, mlook x s = Some y -> mlook x' s = Some y -> x = x') /\
    (plain -> forall y, y < nxt s -> exists x, mlook x s = Some y) /\
    (forall x y, mlook x s = Some y -> Q x) /\
    (p_keep P = true -> forall x y, mlook x s = Some y -> In x (keep s)) /\   (* keep-alive: every memo key is pinned *)
    (forall x, In x (prog s) -> mlook x s <> None).

  (* the entry of k is final: k is not a mapping object still in progress *)
  Definition fin (s : st) (k : addr) : Prop := memb k (prog s) && lateb P src k = false.
  Definition krel (s : st) (k d : addr) : Prop := mlook k s = Some d.
  Definition krelf (s : st) (k d : addr) : Prop := mlook k s = Some d /\ fin s k.

  (* class and scalars of the finished object *)
  Definition fobj (c : Z) (sc : list Z) : Z * list Z :=
    match p_late P c sc with Some cs => cs | None => p_obj P c sc end.

  Definition done (s : st) (x y : addr) : Prop :=
    exists o fl', src x = Some o /\
      dst s y = Some (mkObj (fst (fobj (ocls o) (oscal o))) (snd (fobj (ocls o) (oscal o))) fl') /\
      Forall2 (fld_rel (krelf s)) (oflds o) fl'.

  Definition ext (s s' : st) : Prop :=
    nxt s <= nxt s' /\
    (forall x y, mlook x s = Some y -> mlook x s' = Some y) /\
    (forall x y, mlook x s' = Some y -> mlook x s = None -> nxt s <= y) /\
    (forall y, y < nxt s -> dst s' y = dst s y) /\
    prog s' = prog s /\
    (bad s = true -> bad s' = true) /\
    (nolate_src -> bad s' = bad s) /\
    (bad s' = false -> forall x y, mlook x s' = Some y -> mlook x s = None -> done s' x y).

  Lemma krelf_mono s s' k d : (forall a b, mlook a s = Some b -> mlook a s' = Some b) -> prog s' = prog s ->
    krelf s k d -> krelf s' k d.
  Proof. intros Hm Hp [H1 H2]. split; auto. unfold fin in *. now rewrite Hp. Qed.

  Lemma done_mono s s' x y :
    done s x y -> y < nxt s ->
    (forall k d, krelf s k d -> krelf s' k d) ->
    (forall z, z < nxt s -> dst s' z = dst s z) -> done s' x y.
  Proof.
    intros [o [fl' [Ho [Hd Hf]]]] Hy Hm Hfr. exists o, fl'. repeat split; auto.
    - rewrite Hfr; auto.
    - eapply Forall2_impl; [|exact Hf]. intros f f' [Ht Hk]. split; auto.
      eapply Forall2_impl; [|exact Hk]. auto.
  Qed.

  Lemma ext_refl s : ext s s.
  Proof.
    repeat split; auto.
    - intros x y H1 H2. congruence.
    - intros _ x y H1 H2. congruence.
  Qed.

  Lemma ext_bad_false s s' : ext s s' -> bad s' = false -> bad s = false.
  Proof.
    intros [_ [_ [_ [_ [_ [B _]]]]]] H. destruct (bad s); auto. specialize (B eq_refl). congruence.
  Qed.

  Lemma ext_trans s s1 s2 : Inv s1 -> ext s s1 -> ext s1 s2 -> ext s s2.
  Proof.
    intros [I1 _] X1 X2. pose proof (ext_bad_false _ _ X2) as Hb12.
    destruct X1 as [A1 [A2 [A3 [A4 [A5 [A6 [A7 A8]]]]]]]. destruct X2 as [B1 [B2 [B3 [B4 [B5 [B6 [B7 B8]]]]]]].
    split; [lia|]. split; [auto|]. split; [|split; [|split; [congruence|split; [auto|split]]]].
    - intros x y H2 H0. destruct (mlook x s1) as [y1|] eqn:E1.
      + rewrite (B2 _ _ E1) in H2. inversion H2; subst. eauto.
      + specialize (B3 _ _ H2 E1). lia.
    - intros y Hy. rewrite B4 by lia. auto.
    - intros Hn. rewrite B7, A7; auto.
    - intros Hbad x y H2 H0. destruct (mlook x s1) as [y1|] eqn:E1.
      + pose proof (B2 _ _ E1) as H2'. rewrite H2' in H2. inversion H2; subst y1.
        eapply done_mono; [apply A8; auto| eapply I1; eauto | | exact B4].
        intros k d. apply krelf_mono; auto.
      + eauto.
  Qed.

  Lemma unmemo_le s s' : (forall x y, mlook x s = Some y -> mlook x s' = Some y) ->
    length (unmemo s') <= length (unmemo s).
  Proof.
    intros H. unfold unmemo. apply filter_len_le. intros x Hx.
    destruct (mlook x s) as [y|] eqn:E; auto. rewrite (H _ _ E) in Hx. discriminate.
  Qed.

  (* what a call establishes *)
  Definition post (a : addr) (s : st) (r : option (addr * st)) : Prop :=
    exists d s', r = Some (d, s') /\ ext s s' /\ Inv s' /\ (bad s' = false -> krelf s' a d).

  Section Lists.
    Variable rec : addr -> st -> option (addr * st).
    Variable n : nat.
    Hypothesis Hrec : forall a s, Inv s -> Q a -> length (unmemo s) < n -> post a s (rec a s).

    Lemma walk_list_ok l : forall s, Inv s -> (forall k, In k l -> Q k) -> length (unmemo s) < n ->
      exists ds s', walk_list rec l s = Some (ds, s') /\ ext s s' /\ Inv s' /\
        (bad s' = false -> Forall2 (krelf s') l ds).
    Proof.
      induction l as [|k t IH]; intros s HI HU Hn; simpl.
      - exists [], s. split; auto. split; [apply ext_refl|]. split; auto.
      - destruct (Hrec k s HI (HU k (or_introl eq_refl)) Hn) as [d [s1 [E [X1 [I1 M1]]]]].
        rewrite E.
        assert (Hn1 : length (unmemo s1) < n).
        { pose proof (unmemo_le s s1 (proj1 (proj2 X1))). lia. }
        destruct (IH s1 I1 (fun k' Hk' => HU k' (or_intror Hk')) Hn1) as [ds [s2 [E2 [X2 [I2 F2]]]]].
        rewrite E2. exists (d :: ds), s2. split; auto. split; [apply (ext_trans s s1 s2 I1 X1 X2)|]. split; auto.
        intros Hb. constructor; auto.
        apply (krelf_mono s1 s2); [apply X2|apply X2|]. apply M1. eapply ext_bad_false; eauto.
    Qed.

    Lemma walk_flds_ok fl : forall s, Inv s -> (forall t ks k, In (t, ks) fl -> In k ks -> Q k) ->
      length (unmemo s) < n ->
      exists fl' s', walk_flds rec fl s = Some (fl', s') /\ ext s s' /\ Inv s' /\
        (bad s' = false -> Forall2 (fld_rel (krelf s')) fl fl').
    Proof.
      induction fl as [|[t l] rest IH]; intros s HI HU Hn; simpl.
      - exists [], s. split; auto. split; [apply ext_refl|]. split; auto.
      - destruct (walk_list_ok l s HI (fun k Hk => HU t l k (or_introl eq_refl) Hk) Hn) as [ds [s1 [E [X1 [I1 F1]]]]].
        rewrite E.
        assert (Hn1 : length (unmemo s1) < n).
        { pose proof (unmemo_le s s1 (proj1 (proj2 X1))). lia. }
        destruct (IH s1 I1 (fun t' ks k Hf Hk => HU t' ks k (or_intror Hf) Hk) Hn1) as [fs [s2 [E2 [X2 [I2 F2]]]]].
        rewrite E2. exists ((t, ds) :: fs), s2. split; auto. split; [apply (ext_trans s s1 s2 I1 X1 X2)|]. split; auto.
        intros Hb. constructor; auto. split; auto. simpl.
        eapply Forall2_impl; [|apply F1; eapply ext_bad_false; eauto].
        intros a b. apply krelf_mono; apply X2.
    Qed.
  End Lists.

  Lemma refix_list_id s l l' : Forall2 (krelf s) l l' -> refix_list s l l' = l'.
  Proof. induction 1 as [|k d l l' [H _] _ IH]; simpl; auto. rewrite H. congruence. Qed.

  Lemma refix_flds_id s fl fl' : Forall2 (fld_rel (krelf s)) fl fl' -> refix_flds s fl fl' = fl'.
  Proof.
    induction 1 as [|[t l] [t' l'] r r' [Ht Hk] _ IH]; simpl; auto. simpl in *.
    rewrite (refix_list_id _ _ _ Hk). rewrite IH. reflexivity.
  Qed.

  Lemma assoc_cons_ne (a x d : addr) (m : list (addr * addr)) : x <> a -> assoc x ((a, d) :: m) = assoc x m.
  Proof. intros H. simpl. destruct (Nat.eqb x a) eqn:E; auto. apply Nat.eqb_eq in E. contradiction. Qed.

  Theorem walk_ok : forall fuel a s, Inv s -> Q a -> length (unmemo s) < fuel -> post a s (walk P src fuel a s).
  Proof.
    induction fuel as [|f IH]; intros a s HI Ha Hn; [lia|].
    simpl. destruct (mlook a s) as [d|] eqn:Em.
    - (* memo hit *)
      eexists. eexists. split; [reflexivity|]. split; [|split].
      + split; [simpl; lia|]. split; [auto|]. split; [intros x y H1 H2; unfold mlook in *; simpl in *; congruence|].
        split; [auto|]. split; [reflexivity|]. split; [simpl; intros ->; reflexivity|]. split.
        * intros Hnl. simpl. unfold lateb. destruct (HQ a Ha) as [o [Ho _]]. rewrite Ho, (Hnl _ _ Ha Ho).
          now rewrite andb_false_r, orb_false_r.
        * intros _ x y H1 H2. unfold mlook in *. simpl in *. congruence.
      + exact HI.
      + simpl. intros Hb. apply orb_false_iff in Hb. destruct Hb as [_ Hb]. split; [exact Em|exact Hb].
    - destruct (HQ a Ha) as [o [Ho Hk]]. rewrite Ho.
      set (d := nxt s).
      set (s1 := mkSt ((a, d) :: memo s) (dst s) (S d) (if p_keep P then a :: keep s else keep s) (a :: prog s) (bad s)).
      destruct HI as [I1 [I2 [I3 [I5 [I6 I7]]]]].
      assert (M1 : forall x, x <> a -> mlook x s1 = mlook x s).
      { intros x Hx. unfold mlook, s1. simpl memo. apply assoc_cons_ne. exact Hx. }
      assert (M1a : mlook a s1 = Some d).
      { unfold mlook, s1. simpl. now rewrite Nat.eqb_refl. }
      assert (Hnp : ~ In a (prog s)).
      { intros Hin. apply (I7 _ Hin). exact Em. }
      assert (HI1 : Inv s1).
      { split; [|split; [|split; [|split; [|split]]]].
        - intros x y H. destruct (Nat.eq_dec x a) as [->|Hx].
          + rewrite M1a in H. inversion H; subst. simpl. lia.
          + rewrite M1 in H by auto. apply I1 in H. simpl. unfold d. lia.
        - intros x x' y H H'. destruct (Nat.eq_dec x a) as [->|Hx]; destruct (Nat.eq_dec x' a) as [->|Hx']; auto.
          + rewrite M1a in H. inversion H; subst y. rewrite M1 in H' by auto. apply I1 in H'. unfold d in H'. lia.
          + rewrite M1a in H'. inversion H'; subst y. rewrite M1 in H by auto. apply I1 in H. unfold d in H. lia.
          + rewrite M1 in H, H' by auto. eauto.
        - intros Hpl y Hy. simpl in Hy. destruct (Nat.eq_dec y d) as [->|Hyd].
          + exists a. exact M1a.
          + destruct (I3 Hpl y) as [x Hx]; [unfold d in *; lia|]. exists x. rewrite M1; auto.
            intros ->. congruence.
        - intros x y H. destruct (Nat.eq_dec x a) as [->|Hx]; auto. rewrite M1 in H by auto. eauto.
        - intros Hk' x y H. unfold s1. simpl. rewrite Hk'. destruct (Nat.eq_dec x a) as [->|Hx]; [now left|].
          right. rewrite M1 in H by auto. eapply I6; eauto.
        - intros x Hx. simpl in Hx. destruct Hx as [<-|Hx]; [rewrite M1a; discriminate|].
          destruct (Nat.eq_dec x a) as [->|Hxa]; [rewrite M1a; discriminate|]. rewrite M1; auto. }
      assert (Hn1 : length (unmemo s1) < f).
      { assert (length (unmemo s1) < length (unmemo s)); [|lia].
        unfold unmemo. apply filter_len_lt with (a := a).
        - intros x Hx. destruct (Nat.eq_dec x a) as [->|Hxa]; [now rewrite Em|]. rewrite <- M1; auto.
        - now apply HQU.
        - now rewrite Em.
        - now rewrite M1a. }
      destruct (walk_flds_ok (walk P src f) f IH (oflds o) s1 HI1 Hk Hn1) as [fl [s2 [E2 [X2 [HI2 F2]]]]].
      rewrite E2.
      set (fl' := if p_refix P then refix_flds s2 (oflds o) fl else fl).
      assert (Efix : bad s2 = false -> fl' = fl).
      { intros Hb. unfold fl'. destruct (p_refix P); auto. apply refix_flds_id. auto. }
      set (cs := p_obj P (ocls o) (oscal o)).
      set (n3 := nxt s2 + p_extra P (ocls o)).
      destruct X2 as [B1 [B2 [B3 [B4 [B5 [B6 [B7 B8]]]]]]].
      destruct HI2 as [J1 [J2 [J3 [J5 [J6 J7]]]]].
      assert (M2a : mlook a s2 = Some d) by (apply B2; exact M1a).
      assert (Epr : remove_addr a (prog s2) = prog s).
      { rewrite B5. unfold s1. simpl. now apply remove_addr_head. }
      assert (Hd1 : d < nxt s2) by (simpl in B1; lia).
      (* kids of entries that are done in s2 are not the object being finished, when that object is a mapping object *)
      assert (Hfin_a : lateb P src a = true -> forall k dk, krelf s2 k dk -> k <> a).
      { intros Hl k dk [_ Hf] ->. unfold fin in Hf. rewrite B5 in Hf. unfold s1 in Hf. simpl in Hf.
        rewrite Nat.eqb_refl, Hl in Hf. discriminate. }
      assert (Hfin_mono : forall k, fin s2 k -> memb k (prog s) && lateb P src k = false).
      { intros k Hf. unfold fin in Hf. rewrite B5 in Hf. unfold s1 in Hf. simpl in Hf.
        destruct (lateb P src k); [|apply andb_false_r]. rewrite andb_true_r in *.
        apply orb_false_iff in Hf. apply Hf. }
      destruct (p_late P (ocls o) (oscal o)) as [cs'|] eqn:El.
      + (* the allocated object is a mapping object: create_from_dao builds a new one, the memo entry is overwritten *)
        assert (Hlate : lateb P src a = true) by (unfold lateb, is_late; now rewrite Ho, El).
        set (s' := mkSt ((a, n3) :: memo s2)
                        (upd (upd (dst s2) d (mkObj (fst cs) (snd cs) fl')) n3 (mkObj (fst cs') (snd cs') fl'))
                        (S n3) (keep s2) (remove_addr a (prog s2)) (bad s2)).
        assert (M3 : forall x, x <> a -> mlook x s' = mlook x s2).
        { intros x Hx. unfold mlook, s'. simpl memo. apply assoc_cons_ne. exact Hx. }
        assert (M3a : mlook a s' = Some n3) by (unfold mlook, s'; simpl; now rewrite Nat.eqb_refl).
        assert (Hkf : forall k dk, krelf s2 k dk -> krelf s' k dk).
        { intros k dk Hkd. pose proof (Hfin_a Hlate _ _ Hkd) as Hne. destruct Hkd as [H1 H2]. split.
          - rewrite M3; auto.
          - unfold fin, s'. simpl prog. rewrite Epr. now apply Hfin_mono. }
        exists n3, s'. split; auto. split; [|split].
        * (* ext s s' *)
          split; [simpl in *; unfold n3, d in *; lia|]. split; [|split; [|split; [|split; [|split; [|split]]]]].
          -- intros x y H. assert (x <> a) by (intros ->; congruence). rewrite M3; auto. apply B2. rewrite M1; auto.
          -- intros x y H H0. destruct (Nat.eq_dec x a) as [->|Hx].
             ++ rewrite M3a in H. inversion H; subst. unfold n3, d in *. simpl in B1. lia.
             ++ rewrite M3 in H by auto. assert (nxt s1 <= y) by (apply (B3 x); auto; rewrite M1; auto).
                simpl in *. unfold d in *. lia.
          -- intros y Hy. unfold s'. simpl. unfold upd.
             destruct (Nat.eqb y n3) eqn:E; [apply Nat.eqb_eq in E; unfold n3 in E; unfold d in Hd1; lia|].
             destruct (Nat.eqb y d) eqn:E'; [apply Nat.eqb_eq in E'; unfold d in E'; lia|].
             rewrite B4; auto. simpl. lia.
          -- unfold s'. simpl. exact Epr.
          -- unfold s'. simpl. intros H. apply B6. exact H.
          -- intros Hnl. exfalso. pose proof (Hnl _ _ Ha Ho) as H. unfold is_late in H. rewrite El in H. discriminate.
          -- unfold s' at 1. simpl bad. intros Hb x y H H0. destruct (Nat.eq_dec x a) as [->|Hx].
             ++ rewrite M3a in H. inversion H; subst y. exists o, fl'. split; auto. split.
                ** unfold s'. simpl. unfold upd. rewrite Nat.eqb_refl. unfold fobj. now rewrite El.
                ** rewrite (Efix Hb). eapply Forall2_impl; [|apply F2; exact Hb].
                   intros g g' [Ht Hks]. split; auto. eapply Forall2_impl; [|exact Hks]. exact Hkf.
             ++ rewrite M3 in H by auto. assert (Hn1' : mlook x s1 = None) by (rewrite M1; auto).
                pose proof (B3 _ _ H Hn1') as Hge. pose proof (J1 _ _ H) as Hlt.
                destruct (B8 Hb _ _ H Hn1') as [o' [fl0 [Ho' [Hd' Hf']]]].
                exists o', fl0. split; auto. split.
                ** unfold s'. simpl. unfold upd.
                   destruct (Nat.eqb y n3) eqn:E; [apply Nat.eqb_eq in E; unfold n3 in E; lia|].
                   destruct (Nat.eqb y d) eqn:E'; [apply Nat.eqb_eq in E'; simpl in Hge; lia|]. exact Hd'.
                ** eapply Forall2_impl; [|exact Hf']. intros g g' [Ht Hks]. split; auto.
                   eapply Forall2_impl; [|exact Hks]. exact Hkf.
        * (* Inv s' *)
          split; [|split; [|split; [|split; [|split]]]].
          -- intros x y H. destruct (Nat.eq_dec x a) as [->|Hx].
             ++ rewrite M3a in H. inversion H; subst. simpl. lia.
             ++ rewrite M3 in H by auto. apply J1 in H. simpl. unfold n3. lia.
          -- intros x x' y H H'. destruct (Nat.eq_dec x a) as [->|Hx]; destruct (Nat.eq_dec x' a) as [->|Hx']; auto.
             ++ rewrite M3a in H. inversion H; subst y. rewrite M3 in H' by auto. apply J1 in H'. unfold n3 in H'. lia.
             ++ rewrite M3a in H'. inversion H'; subst y. rewrite M3 in H by auto. apply J1 in H. unfold n3 in H. lia.
             ++ rewrite M3 in H, H' by auto. eauto.
          -- intros [Hnl _]. exfalso. pose proof (Hnl _ _ Ha Ho) as H. unfold is_late in H. rewrite El in H. discriminate.
          -- intros x y H. destruct (Nat.eq_dec x a) as [->|Hx]; auto. rewrite M3 in H by auto. eauto.
          -- intros Hk' x y H. unfold s'. simpl keep. destruct (Nat.eq_dec x a) as [->|Hx].
             ++ eapply J6; eauto.
             ++ rewrite M3 in H by auto. eapply J6; eauto.
          -- intros x Hx. unfold s' in Hx. simpl in Hx. rewrite Epr in Hx.
             assert (x <> a) by (intros ->; contradiction). rewrite M3; auto.
             pose proof (I7 _ Hx) as Hm. destruct (mlook x s) as [y|] eqn:E; [|congruence].
             assert (mlook x s2 = Some y) by (apply B2; rewrite M1; auto). congruence.
        * intros _. split; [exact M3a|]. unfold fin, s'. simpl prog. rewrite Epr.
          destruct (memb a (prog s)) eqn:E; auto. apply memb_In in E. contradiction.
      + (* the allocated object is the result *)
        set (s' := mkSt (memo s2) (upd (dst s2) d (mkObj (fst cs) (snd cs) fl')) n3 (keep s2) (remove_addr a (prog s2)) (bad s2)).
        assert (Hkf : forall k dk, krelf s2 k dk -> krelf s' k dk).
        { intros k dk [H1 H2]. split; [exact H1|]. unfold fin, s'. simpl prog. rewrite Epr. now apply Hfin_mono. }
        exists d, s'. split; auto. split; [|split].
        * split; [simpl in *; unfold n3, d in *; lia|]. split; [|split; [|split; [|split; [|split; [|split]]]]].
          -- intros x y H. change (mlook x s2 = Some y). apply B2. rewrite M1; auto. intros ->. congruence.
          -- intros x y H H0. change (mlook x s2 = Some y) in H. destruct (Nat.eq_dec x a) as [->|Hx].
             ++ rewrite M2a in H. inversion H; subst. unfold d. lia.
             ++ assert (nxt s1 <= y) by (apply (B3 x); auto; rewrite M1; auto). simpl in *. unfold d in *. lia.
          -- intros y Hy. unfold s'. simpl. unfold upd. destruct (Nat.eqb y d) eqn:E.
             ++ apply Nat.eqb_eq in E. unfold d in E. lia.
             ++ rewrite B4; auto. simpl. lia.
          -- unfold s'. simpl. exact Epr.
          -- unfold s'. simpl. intros H. apply B6. exact H.
          -- unfold s'. simpl. intros Hnl. apply (B7 Hnl).
          -- unfold s' at 1. simpl bad. intros Hb x y H H0. change (mlook x s2 = Some y) in H.
             destruct (Nat.eq_dec x a) as [->|Hx].
             ++ rewrite M2a in H. inversion H; subst y. exists o, fl'. split; auto. split.
                ** unfold s'. simpl. unfold upd. rewrite Nat.eqb_refl. unfold fobj. now rewrite El.
                ** rewrite (Efix Hb). eapply Forall2_impl; [|apply F2; exact Hb].
                   intros g g' [Ht Hks]. split; auto. eapply Forall2_impl; [|exact Hks]. exact Hkf.
             ++ assert (Hn1' : mlook x s1 = None) by (rewrite M1; auto).
                pose proof (B3 _ _ H Hn1') as Hge.
                destruct (B8 Hb _ _ H Hn1') as [o' [fl0 [Ho' [Hd' Hf']]]].
                exists o', fl0. split; auto. split.
                ** unfold s'. simpl. unfold upd. destruct (Nat.eqb y d) eqn:E; auto.
                   apply Nat.eqb_eq in E. simpl in Hge. lia.
                ** eapply Forall2_impl; [|exact Hf']. intros g g' [Ht Hks]. split; auto.
                   eapply Forall2_impl; [|exact Hks]. exact Hkf.
        * split; [|split; [|split; [|split; [|split]]]].
          -- intros x y H. change (mlook x s2 = Some y) in H. apply J1 in H. simpl. unfold n3. lia.
          -- exact J2.
          -- intros Hpl y Hy. change (exists x, mlook x s2 = Some y). apply (J3 Hpl). simpl in Hy. unfold n3 in Hy.
             rewrite (proj2 Hpl _ _ Ha Ho) in Hy. lia.
          -- exact J5.
          -- exact J6.
          -- intros x Hx. unfold s' in Hx. simpl in Hx. rewrite Epr in Hx. change (mlook x s2 <> None).
             assert (x <> a) by (intros ->; contradiction).
             pose proof (I7 _ Hx) as Hm. destruct (mlook x s) as [y|] eqn:E; [|congruence].
             assert (mlook x s2 = Some y) by (apply B2; rewrite M1; auto). congruence.
        * intros _. split; [exact M2a|]. unfold fin, s'. simpl prog. rewrite Epr.
          destruct (memb a (prog s)) eqn:E; auto. apply memb_In in E. contradiction.
  Qed.

  Lemma Inv_st0 : Inv st0.
  Proof.
    repeat split; unfold mlook; simpl; intros; try discriminate; try lia; try contradiction.
  Qed.

  Theorem walk_total r : Q r ->
    exists d s', walk P src (S (length U)) r st0 = Some (d, s') /\ Inv s' /\ prog s' = [] /\
      (nolate_src -> bad s' = false) /\
      (bad s' = false -> mlook r s' = Some d /\ forall x y, mlook x s' = Some y -> done s' x y).
  Proof.
    intros Hr.
    assert (Hn : length (unmemo st0) < S (length U)).
    { unfold unmemo. pose proof (filter_len_all (fun x => match mlook x st0 with None => true | Some _ => false end) U). lia. }
    destruct (walk_ok (S (length U)) r st0 Inv_st0 Hr Hn) as [d [s' [E [X [HI M]]]]].
    exists d, s'. split; auto. split; auto. destruct X as [_ [_ [_ [_ [B5 [_ [B7 B8]]]]]]].
    split; [exact B5|]. split; [intros Hnl; rewrite (B7 Hnl); reflexivity|].
    intros Hb. split; [apply M; auto|]. intros x y H. apply B8; auto.
  Qed.

  (* the destination heap is closed on [0, nxt) (direction without late replacement and temporaries) *)
  Lemma result_closed s' : plain -> Inv s' -> (forall x y, mlook x s' = Some y -> done s' x y) ->
    forall y, In y (seq 0 (nxt s')) -> exists ob, dst s' y = Some ob /\
      forall t ks k, In (t, ks) (oflds ob) -> In k ks -> In k (seq 0 (nxt s')).
  Proof.
    intros Hpl [I1 [I2 [I3 _]]] Hd y Hy. apply in_seq in Hy.
    destruct (I3 Hpl y) as [x Hx]; [lia|]. destruct (Hd _ _ Hx) as [o [fl' [Ho [Hdst Hf]]]].
    eexists. split; [exact Hdst|]. simpl. intros t ks k Hin Hk.
    destruct (Forall2_In_r _ _ _ _ Hf Hin) as [[t0 l0] [_ [_ Hl]]]. simpl in Hl.
    destruct (Forall2_In_r _ _ _ _ Hl Hk) as [k0 [_ [Hk0 _]]].
    apply I1 in Hk0. apply in_seq. lia.
  Qed.

  Theorem walk_bisim_g s' : Inv s' -> (forall x y, mlook x s' = Some y -> done s' x y) ->
    bisim_g fobj (krel s') src (dst s') /\ functional (krel s') /\ injective (krel s').
  Proof.
    intros [I1 [I2 _]] Hd. repeat split.
    - intros x y Hxy. destruct (Hd _ _ Hxy) as [o [fl' [Ho [Hdst Hf]]]].
      eexists. eexists. split; [exact Ho|]. split; [exact Hdst|]. split.
      + simpl. now destruct (fobj (ocls o) (oscal o)).
      + simpl. eapply Forall2_impl; [|exact Hf]. intros g g' [Ht Hks]. split; auto.
        eapply Forall2_impl; [|exact Hks]. intros k d [H _]. exact H.
    - intros a b b' H1 H2. unfold krel in *. congruence.
    - intros a a' b H1 H2. unfold krel in *. eauto.
  Qed.

  (* A state reused for a second conversion.  With keep-alive every source object converted so far stays allocated,
     so the objects of the whole history live in ONE heap [src] with pairwise distinct addresses.  Then the second
     conversion is as correct as the first, and the first result is still valid. *)
  Theorem walk_twice r1 r2 : Q r1 -> Q r2 ->
    exists d1 s1 d2 s2,
      walk P src (S (length U)) r1 st0 = Some (d1, s1) /\
      walk P src (S (length U)) r2 s1 = Some (d2, s2) /\ Inv s2 /\
      (bad s2 = false ->
         bisim_g fobj (krel s2) src (dst s2) /\ functional (krel s2) /\ injective (krel s2) /\
         krel s2 r1 d1 /\ krel s2 r2 d2) /\
      (nolate_src -> bad s2 = false).
  Proof.
    intros H1 H2. destruct (walk_total r1 H1) as [d1 [s1 [E1 [HI1 [P1 [N1 D1]]]]]].
    assert (Hn : length (unmemo s1) < S (length U)).
    { unfold unmemo. pose proof (filter_len_all (fun x => match mlook x s1 with None => true | Some _ => false end) U). lia. }
    destruct (walk_ok (S (length U)) r2 s1 HI1 H2 Hn) as [d2 [s2 [E2 [X [HI2 M2]]]]].
    exists d1, s1, d2, s2. split; auto. split; auto. split; auto.
    pose proof (ext_bad_false _ _ X) as Hb1.
    destruct X as [B1 [B2 [B3 [B4 [B5 [B6 [B7 B8]]]]]]].
    split.
    - intros Hb. destruct (D1 (Hb1 Hb)) as [M1 D1'].
      assert (D2 : forall x y, mlook x s2 = Some y -> done s2 x y).
      { intros x y H. destruct (mlook x s1) as [y1|] eqn:E.
        - pose proof (B2 _ _ E) as H'. rewrite H' in H. inversion H; subst y1.
          eapply done_mono; [apply D1'; exact E| |intros k d; apply krelf_mono; auto|exact B4].
          destruct HI1 as [J1 _]. eapply J1; eauto.
        - apply B8; auto. }
      destruct (walk_bisim_g s2 HI2 D2) as [Hb' [Hf Hi]].
      split; auto. split; auto. split; auto. split; [apply B2; exact M1|apply (M2 Hb)].
    - intros Hnl. rewrite (B7 Hnl). apply N1. exact Hnl.
  Qed.

  (* the keep-alive invariant, extracted: with p_keep every key of the memo is pinned by the state *)
  Theorem keep_memo_keys fuel a s d s' : p_keep P = true -> Inv s -> Q a -> length (unmemo s) < fuel ->
    walk P src fuel a s = Some (d, s') -> forall x y, mlook x s' = Some y -> In x (keep s').
  Proof.
    intros Hk HI Ha Hn E. destruct (walk_ok fuel a s HI Ha Hn) as [d' [s'' [E' [_ [HI' _]]]]].
    rewrite E in E'. inversion E'; subst. destruct HI' as [_ [_ [_ [_ [J6 _]]]]]. exact (J6 Hk).
  Qed.
End Proofs.
