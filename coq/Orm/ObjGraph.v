(* ObjGraph: heaps of objects over a class model, shared by C04 / C05.
   An object has a concrete class, a tuple of scalar (column) values and a list of reference fields;
   a reference field carries a tag (field name and kind, interned by the harness) and the list of
   referenced addresses: [] for None / an empty collection, [a] for a single reference, the elements in
   order for a collection.  The same shape is used for domain objects and for DAOs. *)
From Coq Require Import List ZArith Bool Lia Arith PeanoNat.
Import ListNotations.

Definition addr := nat.
Definition fld := (Z * list addr)%type.
Record obj := mkObj { ocls : Z; oscal : list Z; oflds : list fld }.
Definition heap := addr -> option obj.

(* finite heaps as written by the harness *)
Definition lheap := list (addr * obj).

Fixpoint assoc {B : Type} (a : addr) (l : list (addr * B)) : option B :=
  match l with
  | [] => None
  | (k, v) :: t => if Nat.eqb a k then Some v else assoc a t
  end.

Definition heap_of (l : lheap) : heap := fun a => assoc a l.
Definition keys (l : lheap) : list addr := map fst l.
Definition empty_heap : heap := fun _ => None.
Definition upd (h : heap) (d : addr) (o : obj) : heap := fun x => if Nat.eqb x d then Some o else h x.

Definition memb (a : addr) (l : list addr) : bool := existsb (Nat.eqb a) l.

Lemma memb_In a l : memb a l = true <-> In a l.
Proof.
  unfold memb. rewrite existsb_exists. split.
  - intros [x [H1 H2]]. apply Nat.eqb_eq in H2. now subst.
  - intros H. exists a. split; auto. apply Nat.eqb_refl.
Qed.

(* reachability *)
Inductive reach (h : heap) (r : addr) : addr -> Prop :=
| reach_root : reach h r r
| reach_step : forall a o t l b, reach h r a -> h a = Some o -> In (t, l) (oflds o) -> In b l -> reach h r b.

(* closed finite heap: the root and every referenced address is present *)
Definition kids_in (ks : list addr) (o : obj) : bool :=
  forallb (fun f : fld => forallb (fun k => memb k ks) (snd f)) (oflds o).
Definition wf_heap (l : lheap) (r : addr) : bool :=
  memb r (keys l) && forallb (fun p : addr * obj => kids_in (keys l) (snd p)) l.

Lemma assoc_In_keys {B} a (l : list (addr * B)) : In a (map fst l) -> exists v, assoc a l = Some v /\ In (a, v) l.
Proof.
  induction l as [|[k v] t IH]; simpl; intros H; [tauto|].
  destruct (Nat.eqb a k) eqn:E.
  - apply Nat.eqb_eq in E. subst. eauto.
  - destruct H as [H|H]; [subst; rewrite Nat.eqb_refl in E; discriminate|].
    destruct (IH H) as [v' [H1 H2]]. eauto.
Qed.

Lemma assoc_Some_In {B} a (l : list (addr * B)) v : assoc a l = Some v -> In (a, v) l.
Proof.
  induction l as [|[k w] t IH]; simpl; intros H; [discriminate|].
  destruct (Nat.eqb a k) eqn:E.
  - apply Nat.eqb_eq in E. inversion H; subst. auto.
  - auto.
Qed.

Lemma wf_heap_closed l r : wf_heap l r = true ->
  In r (keys l) /\
  forall a, In a (keys l) -> exists o, heap_of l a = Some o /\
    forall t ks k, In (t, ks) (oflds o) -> In k ks -> In k (keys l).
Proof.
  unfold wf_heap. rewrite andb_true_iff, forallb_forall. intros [H1 H2]. split.
  - now apply memb_In.
  - intros a Ha. destruct (assoc_In_keys a l Ha) as [o [Ho Hin]]. exists o. split; [exact Ho|].
    intros t ks k Hf Hk. specialize (H2 _ Hin). unfold kids_in in H2. simpl in H2.
    rewrite forallb_forall in H2. specialize (H2 _ Hf). simpl in H2.
    rewrite forallb_forall in H2. apply memb_In. auto.
Qed.

Lemma reach_in_keys l r a : wf_heap l r = true -> reach (heap_of l) r a -> In a (keys l).
Proof.
  intros Hwf. destruct (wf_heap_closed l r Hwf) as [Hr Hcl]. induction 1 as [|a o t ks b Ha IH Ho Hf Hk]; auto.
  destruct (Hcl a IH) as [o' [Ho' Hk']]. rewrite Ho in Ho'. inversion Ho'; subst o'. eauto.
Qed.
