(* C07 -- the relational algebra the EQL->SQL translator emits, with bag semantics and SQL's three-valued
   logic.  This is the MODEL of what SQLite does with the statement (compared with SQLite, not proved).
   A statement is: SELECT <root table> FROM root [joins...] WHERE pred.  Every join is an inner join, so
   the meaning is the filtered nested-loop product of the table instances in the order they were added.
   Table instance 0 is the root; instance i>0 is introduced by the i-th join. *)
From Coq Require Import List ZArith Bool Lia.
From Krrood Require Import Base.Sx Orm.EqlToSqlSpec.
Import ListNotations.
Open Scope Z_scope.

Inductive tv := TT | TF | TU.
Definition tv_and (a b : tv) : tv :=
  match a, b with TF, _ | _, TF => TF | TT, TT => TT | _, _ => TU end.
Definition tv_or (a b : tv) : tv :=
  match a, b with TT, _ | _, TT => TT | TF, TF => TF | _, _ => TU end.
Definition tv_not (a : tv) : tv := match a with TT => TF | TF => TT | TU => TU end.
Definition tv_of_bool (b : bool) : tv := if b then TT else TF.
Definition tv_true (a : tv) : bool := match a with TT => true | _ => false end.

Record row := { r_id : Z; r_cols : list (Z * val) }.   (* r_id: database_id; a relationship's column is its foreign key *)
Definition db := Z -> list row.                         (* table of a mapped class (joined-table inheritance: also the rows of its subclasses) *)

Inductive sexpr := SCol (i : nat) (a : Z) | SConst (v : val).
Inductive spred :=
| SCmp (op : cmpop) (a b : sexpr)
| SIsNull (neg : bool) (a : sexpr)           (* IS NULL / IS NOT NULL : what SQLAlchemy emits for == None *)
| SNullSafe (neg : bool) (a b : sexpr)       (* a IS b / a IS NOT b : is_not_distinct_from / is_distinct_from, two-valued *)
| SIn (a : sexpr) (vs : list val)
| SInstr (hay : list Z) (a : sexpr)          (* instr(:hay, col) > 0 *)
| SInstrCol (a : sexpr) (needle : list Z)    (* instr(col, :needle) > 0 *)
| STruth (a : sexpr)                         (* WHERE col *)
| SFalse                                     (* WHERE false *)
| SAnd (p q : spred) | SOr (p q : spred).
Inductive join :=
| JRel (o : bool) (src : nat) (a : Z) (tgt : Z)   (* [LEFT OUTER] JOIN <alias of tgt> ON alias.database_id = src.a *)
| JCross (o : bool) (c : Z)                  (* [LEFT OUTER] JOIN c ON true *)
| JEq (tgt : Z) (tfk : Z) (anchor : nat) (afk : Z).   (* JOIN tgt ON tgt.tfk = anchor.afk *)
Record sql := { s_root : Z; s_joins : list join; s_where : option spred; s_invalid : bool }.

Definition col (r : row) (a : Z) : val := match assoc a (r_cols r) with Some v => v | None => VNull end.
Definition ecol (env : list row) (i : nat) (a : Z) : val :=
  match nth_error env i with Some r => col r a | None => VNull end.
Definition eval_sx (env : list row) (e : sexpr) : val :=
  match e with SCol i a => ecol env i a | SConst v => v end.

(* SQLite comparison: NULL -> unknown; numbers before text *)
Definition sql_lt (a b : val) : tv :=
  match a, b with
  | VInt x, VInt y => tv_of_bool (x <? y)
  | VStr x, VStr y => tv_of_bool (zlist_ltb x y)
  | VInt _, VStr _ => TT
  | VStr _, VInt _ => TF
  | _, _ => TU
  end.
Definition sql_eq (a b : val) : tv :=
  match a, b with
  | VInt x, VInt y => tv_of_bool (x =? y)
  | VStr x, VStr y => tv_of_bool (zlist_eqb x y)
  | VInt _, VStr _ | VStr _, VInt _ => TF
  | _, _ => TU
  end.
Definition sql_cmp (op : cmpop) (a b : val) : tv :=
  match op with
  | OEq => sql_eq a b
  | ONe => tv_not (sql_eq a b)
  | OLt => sql_lt a b
  | OGt => sql_lt b a
  | OLe => tv_not (sql_lt b a)
  | OGe => tv_not (sql_lt a b)
  end.
Fixpoint sql_in (v : val) (vs : list val) : tv :=
  match vs with [] => TF | x :: vs' => tv_or (sql_eq v x) (sql_in v vs') end.

(* NULL-safe equality: NULL IS NULL holds, NULL IS 1 does not *)
Definition nullsafe_eq (a b : val) : bool :=
  match a, b with
  | VNull, VNull => true
  | VNull, _ | _, VNull => false
  | _, _ => tv_true (sql_eq a b)
  end.

Fixpoint eval_pred (env : list row) (p : spred) : tv :=
  match p with
  | SCmp op a b => sql_cmp op (eval_sx env a) (eval_sx env b)
  | SIsNull neg a => match eval_sx env a with VNull => tv_of_bool (negb neg) | _ => tv_of_bool neg end
  | SNullSafe neg a b => tv_of_bool (xorb neg (nullsafe_eq (eval_sx env a) (eval_sx env b)))
  | SIn a vs => sql_in (eval_sx env a) vs
  | SInstr hay a => match eval_sx env a with VStr n => tv_of_bool (is_infix n hay) | VNull => TU | _ => TF end
  | SInstrCol a n => match eval_sx env a with VStr h => tv_of_bool (is_infix n h) | VNull => TU | _ => TF end
  | STruth a => match eval_sx env a with             (* WHERE col; a text column is rendered as col != '' *)
                | VInt z => tv_of_bool (negb (z =? 0))
                | VStr s => tv_of_bool (negb (zlist_eqb s []))
                | VNull => TU
                | _ => TF
                end
  | SFalse => TF
  | SAnd p q => tv_and (eval_pred env p) (eval_pred env q)
  | SOr p q => tv_or (eval_pred env p) (eval_pred env q)
  end.

(* LEFT OUTER JOIN: a row without partner is kept once, with NULL in every column of the joined table *)
Definition null_row : row := {| r_id := 0; r_cols := [] |}.
Definition outer_rows (o : bool) (m : list row) : list row :=
  if o then match m with [] => [null_row] | _ :: _ => m end else m.
Definition join_rows (d : db) (env : list row) (j : join) : list row :=
  match j with
  | JRel o src a tgt => outer_rows o (filter (fun r => tv_true (sql_eq (VInt (r_id r)) (ecol env src a))) (d tgt))
  | JCross o c => outer_rows o (d c)
  | JEq tgt tfk anchor afk => filter (fun r => tv_true (sql_eq (col r tfk) (ecol env anchor afk))) (d tgt)
  end.
Fixpoint envs_of (d : db) (js : list join) (envs : list (list row)) : list (list row) :=
  match js with
  | [] => envs
  | j :: js' => envs_of d js' (flat_map (fun env => map (fun r => env ++ [r]) (join_rows d env j)) envs)
  end.
Definition root_id (env : list row) : Z := match env with r :: _ => r_id r | [] => 0 end.

(* a parameter that the DB-API cannot bind (a Python object) makes the execution fail whatever the rows *)
Definition unbindable (v : val) : bool := match v with VRef _ | VObjLit => true | _ => false end.
Definition sx_bad (e : sexpr) : bool := match e with SConst v => unbindable v | _ => false end.
Fixpoint pred_bad (p : spred) : bool :=
  match p with
  | SCmp _ a b | SNullSafe _ a b => sx_bad a || sx_bad b
  | SIsNull _ a | SInstr _ a | SInstrCol a _ | STruth a => sx_bad a
  | SIn a vs => sx_bad a || existsb unbindable vs
  | SFalse => false
  | SAnd p q | SOr p q => pred_bad p || pred_bad q
  end.

Definition where_true (s : sql) (env : list row) : bool :=
  match s_where s with None => true | Some p => tv_true (eval_pred env p) end.

(* None: the statement does not execute (invalid FROM clause or unbindable parameter) *)
Definition sem (s : sql) (d : db) : option (list Z) :=
  if s_invalid s || match s_where s with Some p => pred_bad p | None => false end then None
  else Some (map root_id (filter (where_true s) (envs_of d (s_joins s) (map (fun r => [r]) (d (s_root s)))))).
