(* C07 -- proofs for the two-variable fragment F07J: the selected variable and one other variable connected by
   equality joins (first join at conjunctive level: JEq with the equality in ON; inside an or_: JCross + condition;
   target joined already: the equality alone as condition). *)
From Coq Require Import List ZArith Bool Lia Arith.
From Krrood Require Import Base.Sx Orm.EqlToSqlSpec Orm.SqlAlg Orm.EqlToSql Orm.EqlToSqlProofs.
Import ListNotations.
Open Scope Z_scope.

(* ---------- translating an atom over the selected variable only appends to-one joins ---------- *)
Definition ext (st st' : jm) : Prop :=
  j_inst st' = j_inst st /\ j_tvar st' = j_tvar st /\
  exists extra, j_joins st' = j_joins st ++ extra /\ forallb is_jrel extra = true.
Lemma ext_refl st : ext st st.
Proof. split; auto. split; auto. exists []. now rewrite app_nil_r. Qed.
Lemma ext_trans a b c : ext a b -> ext b c -> ext a c.
Proof.
  intros [I1 [V1 [e1 [J1 R1]]]] [I2 [V2 [e2 [J2 R2]]]]. split; [congruence|]. split; [congruence|].
  exists (e1 ++ e2). rewrite J2, J1, <- app_assoc, forallb_app, R1, R2. auto.
Qed.
Lemma ext_set_io b st : ext st (set_io b st).
Proof. split; auto. split; auto. exists []. cbn [set_io j_joins]. now rewrite app_nil_r. Qed.

Section SynExt.
  Variable sc : schema.
  Variables sel root : Z.
  Variable vars : list (Z * Z).

  Lemma alias_for_ext st cur a tgt i st' : alias_for st cur a tgt = (i, st') -> ext st st'.
  Proof.
    unfold alias_for. destruct (lookup_path (j_paths st) cur a); intros E; injection E as <- <-.
    - apply ext_refl.
    - split; auto. split; auto. exists [JRel (j_io st) cur a tgt]. auto.
  Qed.
  Lemma twalk_ext chain : forall st cur ccls e st', twalk sc st cur ccls chain = ROk e st' -> ext st st'.
  Proof.
    induction chain as [|a rest IH]; intros st cur ccls e st' H; simpl in H; try discriminate.
    destruct (field_kind sc ccls a) as [[|tgt]|]; try discriminate.
    - destruct rest; try discriminate. injection H as <- <-. apply ext_refl.
    - destruct rest as [|b rest'].
      + injection H as <- <-. apply ext_refl.
      + destruct (alias_for st cur a tgt) as [i st1] eqn:E.
        eapply ext_trans; [eapply alias_for_ext; eauto|eapply IH; eauto].
  Qed.
  Lemma toperand_ext x st e st' :
    operand_shape sc sel root x = true -> toperand sc sel root st x = ROk e st' -> ext st st'.
  Proof.
    intros Hx H. destruct x as [v ch|c| |]; try discriminate.
    - unfold toperand, tattr in H. destruct (v =? sel); try discriminate. eapply twalk_ext; eauto.
    - simpl in H. injection H as <- <-. apply ext_refl.
  Qed.
  Lemma tcond_ext c : forall io st p st',
    cond_shape sc sel root c = true -> tcond sc vars sel root io st c = ROk p st' -> ext st st'.
  Proof.
    induction c as [op l r|ct it|p1 IH1 q1 IH2|p1 IH1 q1 IH2|p1 _|x|cs0 it0|]; intros io st p st' Hc H;
      cbn [cond_shape] in Hc; try discriminate.
    - destruct l as [v ch| | |]; try discriminate. apply andb_true_iff in Hc. destruct Hc as [Hc _].
      apply andb_true_iff in Hc. destruct Hc as [Hc _].
      apply andb_true_iff in Hc. destruct Hc as [Hc _].
      apply andb_true_iff in Hc. destruct Hc as [Hc1 Hc2].
      cbn [tcond] in H. unfold tcmp in H. rewrite (teqjoin_none sc sel root vars io (set_io io st) op v ch r Hc1 Hc2) in H.
      destruct (negb (rel_check sc vars (eqne op) (OAttr v ch) r)); try discriminate.
      destruct (toperand sc sel root (set_io io st) (OAttr v ch)) as [a st1| | |] eqn:E1; try discriminate.
      destruct (toperand sc sel root st1 r) as [b st2| | |] eqn:E2; try discriminate.
      destruct (cmp_mismatch sc vars (OAttr v ch) r); try discriminate.
      destruct (negb (eqne op) && (enum_col sc vars (OAttr v ch) || enum_col sc vars r)); try discriminate.
      destruct (mk_cmp op a b); try discriminate. injection H as _ <-.
      eapply ext_trans; [apply (ext_set_io io)|].
      eapply ext_trans; [eapply (toperand_ext (OAttr v ch)); eauto | eapply (toperand_ext r); eauto].
    - destruct ct as [| |cs|]; try discriminate. destruct it as [v ch| | |]; try discriminate.
      apply andb_true_iff in Hc. destruct Hc as [Hc _]. apply andb_true_iff in Hc. destruct Hc as [Hc1 Hc2].
      cbn [tcond] in H. unfold tcontains in H.
      destruct (is_rel sc vars (OList cs) || is_rel sc vars (OAttr v ch)); try discriminate.
      destruct (tattr sc sel root (set_io io st) v ch) as [a st1| | |] eqn:E1; try discriminate.
      destruct (existsb (operand_mismatch sc vars (OAttr v ch)) cs); try discriminate.
      injection H as _ <-. eapply ext_trans; [apply (ext_set_io io)|]. eapply (toperand_ext (OAttr v ch)); eauto.
    - apply andb_true_iff in Hc. destruct Hc as [Hc1 Hc2]. cbn [tcond] in H.
      destruct (tcond sc vars sel root io st p1) as [a st1| | |] eqn:E1; try discriminate.
      destruct (tcond sc vars sel root io st1 q1) as [b st2| | |] eqn:E2; try discriminate.
      injection H as _ <-. eapply ext_trans; eauto.
    - apply andb_true_iff in Hc. destruct Hc as [Hc1 Hc2]. cbn [tcond] in H.
      destruct (tcond sc vars sel root true st p1) as [a st1| | |] eqn:E1; try discriminate.
      destruct (tcond sc vars sel root true st1 q1) as [b st2| | |] eqn:E2; try discriminate.
      injection H as _ <-. eapply ext_trans; eauto.
    - destruct x as [v ch| | |]; try discriminate. cbn [tcond] in H.
      destruct (tattr sc sel root (set_io io st) v ch) as [a st1| | |] eqn:E1; try discriminate. injection H as _ <-.
      eapply ext_trans; [apply (ext_set_io io)|]. eapply (toperand_ext (OAttr v ch)); eauto.
    - destruct it0 as [v ch| | |]; try discriminate.
      apply andb_true_iff in Hc. destruct Hc as [Hc _]. apply andb_true_iff in Hc. destruct Hc as [Hc1 Hc2].
      cbn [tcond] in H. unfold tcontains in H.
      destruct (is_rel sc vars (OList cs0) || is_rel sc vars (OAttr v ch)); try discriminate.
      destruct (tattr sc sel root (set_io io st) v ch) as [a st1| | |] eqn:E1; try discriminate.
      destruct (existsb (operand_mismatch sc vars (OAttr v ch)) cs0); try discriminate.
      injection H as _ <-. eapply ext_trans; [apply (ext_set_io io)|]. eapply (toperand_ext (OAttr v ch)); eauto.
  Qed.
End SynExt.

(* ---------- the shape of the statement for a two-variable query ---------- *)
Section Syn2.
  Variable sc : schema.
  Variables sel root v2 c2 : Z.
  Hypothesis Hne : (v2 =? sel) = false.
  Hypothesis Hrel : related sc c2 root = false.
  Let vars : list (Z * Z) := [(sel, root); (v2, c2)].

  Lemma c2_not_root : (c2 =? root) = false.
  Proof. unfold related in Hrel. destruct (c2 =? root); auto. Qed.
  Lemma vars_sel : assoc sel vars = Some root.
  Proof. unfold vars. simpl. now rewrite Z.eqb_refl. Qed.
  Lemma vars_v2 : assoc v2 vars = Some c2.
  Proof. unfold vars. simpl. now rewrite Hne, Z.eqb_refl. Qed.

  Definition is_target (j : join) : bool :=
    match j with
    | JCross _ c => c =? c2
    | JEq c _ a _ => (c =? c2) && Nat.eqb a 0
    | _ => false
    end.
  (* no table joined for v2 yet: only to-one joins; joined: exactly one join brings in c2's table, at instance ti, for v2 *)
  Definition tstruct (st : jm) : Prop :=
    match j_inst st with
    | [] => j_tvar st = [] /\ forallb is_jrel (j_joins st) = true
    | [(c, ti)] => c = c2 /\ j_tvar st = [(c2, v2)] /\
                   exists js1 jT js2, j_joins st = js1 ++ jT :: js2 /\ ti = S (length js1) /\
                            forallb is_jrel js1 = true /\ forallb is_jrel js2 = true /\ is_target jT = true
    | _ => False
    end.
  Lemma tstruct_ext st st' : tstruct st -> ext st st' -> tstruct st'.
  Proof.
    unfold tstruct. intros H [I [V [extra [J R]]]]. rewrite I, V. destruct (j_inst st) as [|[c ti] [|]]; auto.
    - destruct H as [Hv H]. split; auto. rewrite J, forallb_app, H, R. auto.
    - destruct H as [-> [Hv [js1 [jT [js2 [J0 [T [R1 [R2 RT]]]]]]]]]. split; auto. split; auto.
      exists js1, jT, (js2 ++ extra). rewrite J, J0, <- app_assoc. simpl. rewrite forallb_app, R2, R. auto.
  Qed.
  Lemma tstruct_set_io b st : tstruct st -> tstruct (set_io b st).
  Proof. intros H. exact H. Qed.

  Definition eqc (ti : nat) (tfk afk : Z) : spred := SCmp OEq (SCol ti tfk) (SCol 0%nat afk).
  Definition st_join (io : bool) (st : jm) (tfk afk : Z) : jm :=
    {| j_paths := j_paths st; j_inst := (c2, S (length (j_joins st))) :: j_inst st;
       j_tvar := (c2, v2) :: j_tvar st;
       j_joins := j_joins st ++ [if io then JCross true c2 else JEq c2 tfk 0%nat afk]; j_io := j_io st |}.

  Lemma tstruct_lookup st : tstruct st ->
    match assoc c2 (j_inst st) with
    | Some ti => j_inst st = [(c2, ti)] /\ j_tvar st = [(c2, v2)]
    | None => j_inst st = []
    end.
  Proof.
    unfold tstruct. destruct (j_inst st) as [|[c ti] [|]]; simpl; auto; try tauto.
    intros [-> [Hv _]]. now rewrite Z.eqb_refl.
  Qed.

  (* what _handle_attribute_equality_join does with an equality join atom *)
  Lemma teqjoin_atom io st l r r1 r2 sw :
    tstruct st -> join_atom sel v2 l r = Some (r1, r2, sw) ->
    is_frel (field_kind sc root r1) = true -> is_frel (field_kind sc c2 r2) = true ->
    teqjoin sc vars sel root io st OEq l r =
      Some (match assoc c2 (j_inst st) with
            | Some ti => ROk (Some (eqc ti r2 r1)) st
            | None => ROk (if io then Some (eqc (S (length (j_joins st))) r2 r1) else None) (st_join io st r2 r1)
            end).
  Proof.
    intros Hs Hj K1 K2. unfold join_atom in Hj. assert (L := tstruct_lookup st Hs).
    destruct l as [a [|x [|]]| | |]; try discriminate. destruct r as [b [|y [|]]| | |]; try discriminate.
    assert (Cr := c2_not_root).
    assert (TV : forall ti, assoc c2 (j_inst st) = Some ti -> assoc c2 (j_tvar st) = Some v2).
    { intros ti E. rewrite E in L. destruct L as [_ ->]. simpl. now rewrite Z.eqb_refl. }
    destruct ((a =? sel) && (b =? v2)) eqn:E1.
    - injection Hj as <- <- <-. apply andb_true_iff in E1. destruct E1 as [Ea Eb].
      apply Z.eqb_eq in Ea, Eb. subst a b.
      unfold teqjoin. rewrite Z.eqb_sym, Hne, vars_sel, vars_v2.
      destruct (field_kind sc root x) as [[|t1]|]; try discriminate.
      destruct (field_kind sc c2 y) as [[|t2]|]; try discriminate.
      rewrite Z.eqb_refl. cbn [orb]. rewrite Hrel.
      destruct (assoc c2 (j_inst st)) as [ti|] eqn:Ei; [rewrite (TV ti eq_refl), Z.eqb_refl|]; reflexivity.
    - destruct ((a =? v2) && (b =? sel)) eqn:E2; try discriminate.
      injection Hj as <- <- <-. apply andb_true_iff in E2. destruct E2 as [Ea Eb].
      apply Z.eqb_eq in Ea, Eb. subst a b.
      unfold teqjoin. rewrite Hne, vars_sel, vars_v2.
      destruct (field_kind sc c2 x) as [[|t2]|]; try discriminate.
      destruct (field_kind sc root y) as [[|t1]|]; try discriminate.
      rewrite Z.eqb_refl. cbn [orb]. rewrite Hrel.
      destruct (assoc c2 (j_inst st)) as [ti|] eqn:Ei; [rewrite (TV ti eq_refl), Z.eqb_refl|]; reflexivity.
  Qed.

  Lemma tstruct_join io st tfk afk : j_inst st = [] -> tstruct st -> tstruct (st_join io st tfk afk).
  Proof.
    unfold tstruct. intros E H. rewrite E in H. destruct H as [Hv H]. unfold st_join. cbn [j_inst j_joins j_tvar]. rewrite E, Hv.
    split; auto. split; auto.
    exists (j_joins st), (if io then JCross true c2 else JEq c2 tfk 0%nat afk), []. repeat split; auto.
    destruct io; simpl; now rewrite Z.eqb_refl.
  Qed.

  Lemma tcond2_struct c : forall io st p st',
    cond_shape2 sc sel root v2 c2 c = true -> tstruct st -> tcond sc vars sel root io st c = ROk p st' ->
    tstruct st' /\ (has_join sel v2 c = true -> j_inst st' <> []) /\ (j_inst st <> [] -> j_inst st' <> []) /\
    forall p0, p = Some p0 -> pred_bad p0 = false.
  Proof.
    assert (ATOM : forall c0 io st p st', cond_shape sc sel root c0 = true -> tstruct st ->
              tcond sc vars sel root io st c0 = ROk p st' ->
              tstruct st' /\ (j_inst st <> [] -> j_inst st' <> []) /\ forall p0, p = Some p0 -> pred_bad p0 = false).
    { intros c0 io st p st' Hc Hs H. assert (E := tcond_ext sc sel root vars c0 io st p st' Hc H).
      split; [eapply tstruct_ext; eauto|]. split; [destruct E as [I _]; now rewrite I|].
      eapply tcond_safe; eauto. }
    induction c as [op l r|ct it|p1 IH1 q1 IH2|p1 IH1 q1 IH2|p1 _|x|cs0 it0|]; intros io st p st' Hc Hs H;
      cbn [cond_shape2] in Hc; try discriminate.
    - assert (NJ : join_atom sel v2 l r = None \/ op <> OEq -> 
                   tstruct st' /\ (has_join sel v2 (CCmp op l r) = true -> j_inst st' <> []) /\ (j_inst st <> [] -> j_inst st' <> []) /\
                   forall p0, p = Some p0 -> pred_bad p0 = false).
      { intros Hn. assert (Hc' : cond_shape sc sel root (CCmp op l r) = true).
        { destruct Hn as [Hn|Hn]; destruct op; try (exact Hc); try (now rewrite Hn in Hc); now destruct Hn. }
        destruct (ATOM _ _ _ _ _ Hc' Hs H) as [A1 [A2 A3]]. repeat split; auto.
        simpl. destruct Hn as [Hn|Hn]; destruct op; try discriminate; try (now rewrite Hn); now destruct Hn. }
      destruct op; try (apply NJ; right; discriminate).
      destruct (join_atom sel v2 l r) as [[[r1 r2] sw]|] eqn:Ej; [|apply NJ; now left].
      apply andb_true_iff in Hc. destruct Hc as [K1 K2].
      cbn [tcond] in H. unfold tcmp in H.
      rewrite (teqjoin_atom io (set_io io st) l r r1 r2 sw (tstruct_set_io io st Hs) Ej K1 K2) in H.
      assert (L := tstruct_lookup st Hs). cbn [set_io j_inst] in H. destruct (assoc c2 (j_inst st)) as [ti|].
      + injection H as <- <-. destruct L as [L _]. repeat split; auto; try (cbn [set_io j_inst]; rewrite L; discriminate).
        intros p0 Hp. injection Hp as <-. reflexivity.
      + injection H as <- <-. split; [apply tstruct_join; auto|]. repeat split; try (simpl; discriminate).
        intros p0 Hp. destruct io; try discriminate. injection Hp as <-. reflexivity.
    - destruct (ATOM _ _ _ _ _ Hc Hs H) as [A1 [A2 A3]]. repeat split; auto. simpl. discriminate.
    - apply andb_true_iff in Hc. destruct Hc as [Hc1 Hc2]. cbn [tcond] in H.
      destruct (tcond sc vars sel root io st p1) as [a st1| | |] eqn:E1; try discriminate.
      destruct (tcond sc vars sel root io st1 q1) as [b st2| | |] eqn:E2; try discriminate.
      injection H as <- <-. destruct (IH1 _ _ _ _ Hc1 Hs E1) as [S1 [J1 [P1 B1]]].
      destruct (IH2 _ _ _ _ Hc2 S1 E2) as [S2 [J2 [P2 B2]]].
      split; auto. split; [|split; auto].
      + simpl. intros Hh. apply orb_true_iff in Hh. destruct Hh; auto.
      + intros p0 Hp. destruct a, b; simpl in Hp; try discriminate; injection Hp as <-; simpl;
          rewrite ?(B1 _ eq_refl), ?(B2 _ eq_refl); auto.
    - apply andb_true_iff in Hc. destruct Hc as [Hc1 Hc2]. cbn [tcond] in H.
      destruct (tcond sc vars sel root true st p1) as [a st1| | |] eqn:E1; try discriminate.
      destruct (tcond sc vars sel root true st1 q1) as [b st2| | |] eqn:E2; try discriminate.
      injection H as <- <-. destruct (IH1 _ _ _ _ Hc1 Hs E1) as [S1 [J1 [P1 B1]]].
      destruct (IH2 _ _ _ _ Hc2 S1 E2) as [S2 [J2 [P2 B2]]].
      split; auto. split; [|split; auto].
      + simpl. intros Hh. apply orb_true_iff in Hh. destruct Hh; auto.
      + intros p0 Hp. destruct a, b; simpl in Hp; try discriminate; injection Hp as <-; simpl;
          rewrite ?(B1 _ eq_refl), ?(B2 _ eq_refl); auto.
    - destruct (ATOM _ _ _ _ _ Hc Hs H) as [A1 [A2 A3]]. repeat split; auto. simpl. discriminate.
    - destruct (ATOM _ _ _ _ _ Hc Hs H) as [A1 [A2 A3]]. repeat split; auto. simpl. discriminate.
  Qed.
End Syn2.

(* ---------- one pair (o, t): the statement's ON / WHERE against the in-memory condition ---------- *)
Section Data2.
  Variable sc : schema.
  Variable w : world.
  Variables o t : obj.               (* the objects bound to the selected and to the other variable *)
  Variables sel root v2 c2 : Z.
  Hypothesis Hne : (v2 =? sel) = false.
  Hypothesis Hrel : related sc c2 root = false.
  Let vars : list (Z * Z) := [(sel, root); (v2, c2)].
  Let bnd : binding := [(sel, o); (v2, t)].
  Let Hvars : assoc sel vars = Some root := vars_sel sel root v2 c2.
  Lemma Hbnd : assoc sel bnd = Some o.
  Proof. unfold bnd. simpl. now rewrite Z.eqb_refl. Qed.
  Lemma Hbnd2 : assoc v2 bnd = Some t.
  Proof. unfold bnd. simpl. now rewrite Hne, Z.eqb_refl. Qed.

  Notation renv := (renv sc w t o).
  Notation tstruct := (tstruct v2 c2).

  Definition on1 (j : join) : bool :=
    match j with
    | JEq _ tfk _ afk => tv_true (sql_eq (col (row_of t) tfk) (col (row_of o) afk))
    | _ => true
    end.
  Definition ons (st : jm) : bool := forallb on1 (j_joins st).
  Definition part_true (env : list row) (p : option spred) : bool :=
    match p with Some p0 => tv_true (eval_pred env p0) | None => true end.

  Lemma on1_jrel l : forallb is_jrel l = true -> forallb on1 l = true.
  Proof. induction l as [|j l IH]; simpl; auto. rewrite andb_true_iff. intros [H1 H2]. destruct j; try discriminate. simpl; auto. Qed.
  Lemma ons_ext st st' : ext st st' -> ons st' = ons st.
  Proof. intros [_ [_ [extra [J R]]]]. unfold ons. rewrite J, forallb_app, (on1_jrel _ R). apply andb_true_r. Qed.

  Lemma inv_join io st tfk afk : inv st -> inv (st_join v2 c2 io st tfk afk).
  Proof.
    intros H src a i Hl. cbn [st_join j_paths j_joins] in *. destruct (H _ _ _ Hl) as [Hge [oo [tg Hn]]]. split; auto.
    exists oo, tg. rewrite nth_error_app1; auto. eapply nth_some_lt; eauto.
  Qed.

  (* the row of t sits at the instance recorded for c2 *)
  Lemma target_row st env ti : tstruct st -> assoc c2 (j_inst st) = Some ti -> renv st = Some env ->
    nth_error env ti = Some (row_of t).
  Proof.
    intros Hs Ha He. assert (L := tstruct_lookup v2 c2 st Hs). rewrite Ha in L. destruct L as [L _].
    unfold EqlToSqlJoinProofs.tstruct in Hs. rewrite L in Hs.
    destruct Hs as [_ [_ [js1 [jT [js2 [J [T [R1 [R2 RT]]]]]]]]].
    unfold EqlToSqlProofs.renv in He. rewrite J, build_env_app in He.
    destruct (build_env sc w t [row_of o] js1) as [e1|] eqn:E1; try discriminate.
    destruct (build_env_prefix _ _ _ _ _ _ E1) as [m1 [Em L1]].
    cbn [build_env] in He. assert (Hst : step_env sc w t e1 jT = Some (e1 ++ [row_of t])).
    { destruct jT; try discriminate; reflexivity. }
    rewrite Hst in He. destruct (build_env_prefix _ _ _ _ _ _ He) as [m2 [-> _]].
    subst ti e1. rewrite <- !app_assoc. rewrite nth_error_app2 by (simpl; lia).
    replace (S (length js1) - length [row_of o])%nat with (length m1) by (simpl; lia).
    rewrite nth_error_app2 by lia. rewrite Nat.sub_diag. reflexivity.
  Qed.

  Lemma renv_root2 st env : renv st = Some env -> nth_error env 0 = Some (row_of o).
  Proof. intros H. destruct (build_env_prefix _ _ _ _ _ _ H) as [more [-> _]]. reflexivity. Qed.

  Lemma tcond_ok2 c : forall io st env,
    inv st -> tstruct st -> renv st = Some env ->
    cond_shape2 sc sel root v2 c2 c = true -> cond_ok2 sc w sel root v2 o t c = true ->
    exists p st' more b d,
      tcond sc vars sel root io st c = ROk p st' /\ inv st' /\ renv st' = Some (env ++ more) /\
      eval_cond w bnd c = Ok b /\ ons st' = ons st && d /\
      (forall more', b = d && part_true ((env ++ more) ++ more') p) /\
      (io = true -> d = true /\ p <> None).
  Proof.
    assert (ATOM : forall c0 io st env, inv st -> renv st = Some env ->
              cond_shape sc sel root c0 = true -> cond_ok sc w sel root o c0 = true ->
              exists p st' more b d,
                tcond sc vars sel root io st c0 = ROk p st' /\ inv st' /\ renv st' = Some (env ++ more) /\
                eval_cond w bnd c0 = Ok b /\ ons st' = ons st && d /\
                (forall more', b = d && part_true ((env ++ more) ++ more') p) /\
                (io = true -> d = true /\ p <> None)).
    { intros c0 io st env Hi He Hs Hd.
      destruct (tcond_ok sc w t o sel root vars Hvars bnd Hbnd c0 io st env Hi He Hs Hd)
        as [p [st' [more [b [T [I [R [E [V B]]]]]]]]].
      exists (Some p), st', more, b, true. split; [exact T|]. split; [exact I|]. split; [exact R|]. split; [exact E|].
      split; [rewrite (ons_ext st st' (tcond_ext sc sel root vars c0 io st (Some p) st' Hs T)); now rewrite andb_true_r|].
      split; [intros more'; simpl; now rewrite V|]. intros _. split; [reflexivity|discriminate]. }
    induction c as [op l r|ct it|p1 IH1 q1 IH2|p1 IH1 q1 IH2|p1 _|x|cs0 it0|]; intros io st env Hi Hs He Hc Hd;
      cbn [cond_shape2 cond_ok2] in Hc, Hd; try discriminate.
    - (* comparison: an equality join, or an atom over the selected variable *)
      assert (NJ : (join_atom sel v2 l r = None \/ op <> OEq) ->
                   exists p st' more b d,
                     tcond sc vars sel root io st (CCmp op l r) = ROk p st' /\ inv st' /\ renv st' = Some (env ++ more) /\
                     eval_cond w bnd (CCmp op l r) = Ok b /\ ons st' = ons st && d /\
                     (forall more', b = d && part_true ((env ++ more) ++ more') p) /\
                     (io = true -> d = true /\ p <> None)).
      { intros Hn. apply ATOM; auto.
        - destruct Hn as [Hn|Hn]; destruct op; try (exact Hc); try (now rewrite Hn in Hc); now destruct Hn.
        - destruct Hn as [Hn|Hn]; destruct op; try (exact Hd); try (now rewrite Hn in Hd); now destruct Hn. }
      destruct op; try (apply NJ; right; discriminate).
      destruct (join_atom sel v2 l r) as [[[r1 r2] sw]|] eqn:Ej; [|apply NJ; now left].
      apply andb_true_iff in Hc. destruct Hc as [K1 K2].
      destruct (assoc r1 (o_fields o)) as [a|] eqn:Ea; try discriminate.
      destruct (assoc r2 (o_fields t)) as [b|] eqn:Eb; try discriminate.
      apply andb_true_iff in Hd. destruct Hd as [Hd Hv]. apply andb_true_iff in Hd. destruct Hd as [Ra Rb].
      apply eqb_prop in Hv.
      (* in memory *)
      assert (EV : eval_cond w bnd (CCmp OEq l r) = Ok (tv_true (sql_eq (enc_val b) (enc_val a)))).
      { unfold join_atom in Ej.
        destruct l as [la [|x [|]]| | |]; try discriminate. destruct r as [rb [|y [|]]| | |]; try discriminate.
        destruct ((la =? sel) && (rb =? v2)) eqn:E1.
        - injection Ej as <- <- <-. apply andb_true_iff in E1. destruct E1 as [E1 E2].
          apply Z.eqb_eq in E1, E2. subst la rb.
          cbn [eval_cond eval_operand]. rewrite Hbnd, Hbnd2. cbn [walk]. rewrite Ea, Eb. cbn [py_cmp]. cbn iota in Hv. now rewrite Hv.
        - destruct ((la =? v2) && (rb =? sel)) eqn:E2; try discriminate.
          injection Ej as <- <- <-. apply andb_true_iff in E2. destruct E2 as [E2 E3].
          apply Z.eqb_eq in E2, E3. subst la rb.
          cbn [eval_cond eval_operand]. rewrite Hbnd, Hbnd2. cbn [walk]. rewrite Ea, Eb. cbn [py_cmp]. cbn iota in Hv. now rewrite Hv. }
      assert (COL : col (row_of t) r2 = enc_val b /\ col (row_of o) r1 = enc_val a).
      { rewrite !col_row_of, Ea, Eb. auto. }
      destruct COL as [Ct Co].
      cbn [tcond]. unfold tcmp, vars.
      assert (ONS0 : ons (set_io io st) = ons st) by reflexivity. rewrite <- ONS0.
      assert (Hi0 : inv (set_io io st)) by exact Hi. assert (Hs0 : tstruct (set_io io st)) by exact Hs.
      assert (He0 : renv (set_io io st) = Some env) by exact He.
      clear ONS0 NJ. generalize dependent (set_io io st). clear Hi Hs He st. intros st Hi Hs He.
      rewrite (teqjoin_atom sc sel root v2 c2 Hne Hrel io st l r r1 r2 sw Hs Ej K1 K2).
      destruct (assoc c2 (j_inst st)) as [ti|] eqn:Et.
      + (* the table is joined already: the equality is an ordinary condition *)
        exists (Some (eqc ti r2 r1)), st, [], (tv_true (sql_eq (enc_val b) (enc_val a))), true.
        rewrite app_nil_r. split; [reflexivity|]. split; [assumption|]. split; [assumption|]. split; [exact EV|].
        split; [now rewrite andb_true_r|]. split; [|intros _; split; [reflexivity|discriminate]].
        intros more'. simpl. unfold ecol.
        rewrite (nth_error_app1 env more' (nth_some_lt _ _ _ (target_row st env ti Hs Et He))), (target_row st env ti Hs Et He).
        rewrite (nth_error_app1 env more' (nth_some_lt _ _ _ (renv_root2 st env He))), (renv_root2 st env He).
        now rewrite Ct, Co.
      + (* first equality join: JEq (conjunctive level) or JCross + condition (inside an or_) *)
        assert (Hlen : length env = S (length (j_joins st))).
        { destruct (build_env_prefix _ _ _ _ _ _ He) as [m [-> Hm]]. simpl. now rewrite Hm. }
        assert (He' : renv (st_join v2 c2 io st r2 r1) = Some (env ++ [row_of t])).
        { unfold EqlToSqlProofs.renv in *. cbn [st_join j_joins]. rewrite build_env_app, He. destruct io; reflexivity. }
        destruct io.
        * exists (Some (eqc (S (length (j_joins st))) r2 r1)), (st_join v2 c2 true st r2 r1), [row_of t],
            (tv_true (sql_eq (enc_val b) (enc_val a))), true.
          split; [reflexivity|]. split; [now apply inv_join|]. split; [exact He'|]. split; [exact EV|].
          split; [unfold ons; cbn [st_join j_joins]; rewrite forallb_app; simpl; now rewrite !andb_true_r|].
          split; [|intros _; split; [reflexivity|discriminate]].
          intros more'. simpl. unfold ecol. rewrite <- Hlen.
          rewrite <- app_assoc. rewrite nth_error_app2 by lia. rewrite Nat.sub_diag. simpl nth_error.
          assert (R0 := renv_root2 st env He). destruct env as [|r0 env']; try discriminate. simpl in R0. injection R0 as ->.
          simpl. now rewrite Ct, Co.
        * exists None, (st_join v2 c2 false st r2 r1), [row_of t],
            (tv_true (sql_eq (enc_val b) (enc_val a))), (tv_true (sql_eq (enc_val b) (enc_val a))).
          split; [reflexivity|]. split; [now apply inv_join|]. split; [exact He'|]. split; [exact EV|].
          split; [unfold ons; cbn [st_join j_joins]; rewrite forallb_app; simpl; now rewrite Ct, Co, andb_true_r|].
          split; [intros more'; simpl; now rewrite andb_true_r|discriminate].
    - (* membership *)
      apply ATOM; auto.
    - (* and *)
      apply andb_true_iff in Hc, Hd. destruct Hc as [Hc1 Hc2]. destruct Hd as [Hd1 Hd2].
      destruct (IH1 io _ _ Hi Hs He Hc1 Hd1) as [a [st1 [m1 [b1 [d1 [T1 [I1 [R1 [E1 [O1 [V1 X1]]]]]]]]]]].
      destruct (tcond2_struct sc sel root v2 c2 Hne Hrel p1 io st a st1 Hc1 Hs T1) as [S1 _].
      destruct (IH2 io _ _ I1 S1 R1 Hc2 Hd2) as [b [st2 [m2 [b2 [d2 [T2 [I2 [R2 [E2 [O2 [V2 X2]]]]]]]]]]].
      exists (combine SAnd a b), st2, (m1 ++ m2), (b1 && b2), (d1 && d2). cbn [tcond]. rewrite T1, T2. rewrite app_assoc.
      split; [reflexivity|]. split; [assumption|]. split; [assumption|].
      split; [cbn [eval_cond]; rewrite E1; destruct b1; simpl; auto|].
      split; [rewrite O2, O1; now rewrite andb_assoc|].
      split.
      + intros more'. rewrite (V2 more'). rewrite (V1 (m2 ++ more')). rewrite <- (app_assoc (env ++ m1) m2 more').
        destruct a, b; simpl; rewrite ?tv_true_and; destruct d1, d2; simpl; rewrite ?andb_true_r; auto;
          try (now rewrite andb_comm); now rewrite andb_false_r.
      + intros Hio. destruct (X1 Hio) as [-> N1]. destruct (X2 Hio) as [-> N2]. split; auto.
        destruct a, b; try discriminate; now try destruct N1; try destruct N2.
    - (* or: everything below is translated with or_depth > 0 *)
      apply andb_true_iff in Hc, Hd. destruct Hc as [Hc1 Hc2]. destruct Hd as [Hd1 Hd2].
      destruct (IH1 true _ _ Hi Hs He Hc1 Hd1) as [a [st1 [m1 [b1 [d1 [T1 [I1 [R1 [E1 [O1 [V1 X1]]]]]]]]]]].
      destruct (tcond2_struct sc sel root v2 c2 Hne Hrel p1 true st a st1 Hc1 Hs T1) as [S1 _].
      destruct (IH2 true _ _ I1 S1 R1 Hc2 Hd2) as [b [st2 [m2 [b2 [d2 [T2 [I2 [R2 [E2 [O2 [V2 X2]]]]]]]]]]].
      destruct (X1 eq_refl) as [-> N1]. destruct (X2 eq_refl) as [-> N2].
      destruct a as [pa|]; [|now destruct N1]. destruct b as [pb|]; [|now destruct N2].
      exists (Some (SOr pa pb)), st2, (m1 ++ m2), (b1 || b2), true. cbn [tcond]. rewrite T1, T2. rewrite app_assoc.
      split; [reflexivity|]. split; [assumption|]. split; [assumption|].
      split; [cbn [eval_cond]; rewrite E1; destruct b1; simpl; auto|].
      split; [rewrite O2, O1; now rewrite !andb_true_r|].
      split; [|intros _; split; [reflexivity|discriminate]].
      intros more'. rewrite (V2 more'). rewrite (V1 (m2 ++ more')). rewrite <- (app_assoc (env ++ m1) m2 more').
      simpl. now rewrite tv_true_or.
    - (* a column as condition *)
      apply ATOM; auto.
    - (* membership in a literal set *)
      apply ATOM; auto.
  Qed.
End Data2.

(* ---------- the rows of the statement: one per pair (o, t) that passes ON and WHERE ---------- *)
Lemma envs_of_app d js1 : forall js2 envs, envs_of d (js1 ++ js2) envs = envs_of d js2 (envs_of d js1 envs).
Proof. induction js1 as [|j js1 IH]; simpl; intros; auto. Qed.
Lemma envs_of_cat d js : forall a b, envs_of d js (a ++ b) = envs_of d js a ++ envs_of d js b.
Proof. induction js as [|j js IH]; simpl; intros; auto. now rewrite flat_map_app, IH. Qed.
Lemma envs_of_flat d js (rows : list row) :
  envs_of d js (map (fun r => [r]) rows) = flat_map (fun r => envs_of d js [[r]]) rows.
Proof.
  induction rows as [|r rows IH]; simpl; [apply envs_of_nil|].
  change ([r] :: map (fun r0 => [r0]) rows) with ([[r]] ++ map (fun r0 => [r0]) rows). now rewrite envs_of_cat, IH.
Qed.
Lemma filter_map_comm {A B} (f : B -> bool) (g : A -> B) (l : list A) :
  filter f (map g l) = map g (filter (fun x => f (g x)) l).
Proof. induction l as [|x l IH]; simpl; auto. destruct (f (g x)); simpl; now rewrite IH. Qed.

Lemma filter_true {A} (l : list A) : filter (fun _ => true) l = l.
Proof. induction l; simpl; congruence. Qed.

Section Final2.
  Variable sc : schema.
  Variable w : world.
  Hypothesis Hnd : nodup_z (map o_key w) = true.
  Variables sel root v2 c2 : Z.
  Hypothesis Hne : (v2 =? sel) = false.
  Hypothesis Hrel : related sc c2 root = false.

  Lemma build_env_irrel t1 t2 js : forallb is_jrel js = true -> forall env,
    build_env sc w t1 env js = build_env sc w t2 env js.
  Proof.
    induction js as [|j js IH]; simpl; auto. rewrite andb_true_iff. intros [H1 H2] env.
    destruct j as [oo src a tgt|oo c|c tfk an afk]; try discriminate. simpl. destruct (ecol env src a); auto.
    destruct (find_obj w z) as [ob|]; auto. destruct (inst_of sc tgt ob); auto.
  Qed.

  (* the ON condition of the join that brings in c2's table, for the pair (o, t) *)
  Definition onj (o t : obj) (j : join) : bool := on1 o t j.

  Lemma target_rows o e1 m jT : e1 = [row_of o] ++ m -> is_target c2 jT = true -> instances sc w c2 <> [] ->
    join_rows (encode sc w) e1 jT = map row_of (filter (fun t => onj o t jT) (instances sc w c2)).
  Proof.
    intros -> HT Hne2. destruct jT as [| oo c | c tfk an afk]; try discriminate; simpl in HT.
    - apply Z.eqb_eq in HT. subst c. simpl. unfold encode. rewrite filter_true.
      destruct (instances sc w c2); [now destruct Hne2|]. now destruct oo.
    - apply andb_true_iff in HT. destruct HT as [Hc Ha]. apply Z.eqb_eq in Hc. apply Nat.eqb_eq in Ha. subst c an.
      simpl. unfold encode. rewrite filter_map_comm. reflexivity.
  Qed.

  Lemma pair_envs o js1 jT js2 (envf : obj -> list row) :
    forallb is_jrel js1 = true -> forallb is_jrel js2 = true -> is_target c2 jT = true -> instances sc w c2 <> [] ->
    (forall t, In t (instances sc w c2) -> build_env sc w t [row_of o] (js1 ++ jT :: js2) = Some (envf t)) ->
    envs_of (encode sc w) (js1 ++ jT :: js2) [[row_of o]] =
      map envf (filter (fun t => onj o t jT) (instances sc w c2)).
  Proof.
    intros R1 R2 HT Hne2 Hb. rewrite envs_of_app.
    destruct (instances sc w c2) as [|t0 ts] eqn:Ei; [now destruct Hne2|].
    rewrite <- Ei in *.
    assert (H0 := Hb t0). rewrite Ei in H0. specialize (H0 (or_introl eq_refl)).
    rewrite build_env_app in H0. destruct (build_env sc w t0 [row_of o] js1) as [e1|] eqn:E1; try discriminate.
    destruct (build_env_prefix _ _ _ _ _ _ E1) as [m1 [Em _]].
    rewrite (envs_of_build sc w Hnd t0 js1 R1 [[row_of o]] [e1]) by (constructor; auto).
    simpl envs_of at 1. rewrite app_nil_r. rewrite (target_rows o e1 m1 jT Em HT Hne2), map_map.
    apply (envs_of_build sc w Hnd t0 js2 R2).
    assert (HF : forall l, (forall t, In t l -> In t (instances sc w c2)) ->
              Forall2 (fun env out => build_env sc w t0 env js2 = Some out)
                      (map (fun x => e1 ++ [row_of x]) l) (map envf l)).
    { induction l as [|t l IH]; intros Hl; simpl; constructor.
      - assert (Ht := Hb t (Hl t (or_introl eq_refl))). rewrite build_env_app in Ht.
        rewrite (build_env_irrel t t0 js1 R1), E1 in Ht. cbn [build_env] in Ht.
        assert (Hst : step_env sc w t e1 jT = Some (e1 ++ [row_of t])) by (destruct jT; try discriminate; reflexivity).
        rewrite Hst in Ht. now rewrite (build_env_irrel t0 t js2 R2).
      - apply IH. intros; apply Hl; now right. }
    apply HF. intros t Ht. apply filter_In in Ht. tauto.
  Qed.

  Lemma rows_of_pairs (wt : list row -> bool) (ef : obj -> list row) (on g : obj -> bool) (k : Z) (ts : list obj) :
    (forall t, In t ts -> on t = true -> root_id (ef t) = k) ->
    (forall t, In t ts -> on t && wt (ef t) = g t) ->
    map root_id (filter wt (map ef (filter on ts))) = map (fun _ => k) (filter g ts).
  Proof.
    induction ts as [|t ts IH]; intros H1 H2; simpl; auto.
    assert (IH' := IH (fun t' Ht' => H1 t' (or_intror Ht')) (fun t' Ht' => H2 t' (or_intror Ht'))).
    assert (E := H2 t (or_introl eq_refl)). destruct (on t) eqn:Eo; simpl in *.
    - rewrite E. destruct (g t); simpl; rewrite IH'; auto. now rewrite (H1 t (or_introl eq_refl) Eo).
    - rewrite <- E. exact IH'.
  Qed.

  Lemma collect_app f v l1 l2 a b :
    collect f v l1 = Ok a -> collect f v l2 = Ok b -> collect f v (l1 ++ l2) = Ok (a ++ b).
  Proof.
    revert a. induction l1 as [|x l1 IH]; simpl; intros a H1 H2.
    - injection H1 as <-. exact H2.
    - destruct (f x) as [tx|]; try discriminate. destruct (collect f v l1) as [a1|]; try discriminate.
      injection H1 as <-. rewrite (IH a1 eq_refl H2). destruct tx; auto. destruct (assoc v x); auto.
  Qed.
  Lemma collect_pairs (f : binding -> res bool) (g : obj -> obj -> bool) (os ts : list obj) :
    (forall o t, In o os -> In t ts -> f [(sel, o); (v2, t)] = Ok (g o t)) ->
    collect f sel (flat_map (fun o => map (fun b => (sel, o) :: b) (flat_map (fun t => map (fun b => (v2, t) :: b) [[]]) ts)) os)
      = Ok (flat_map (fun o => map (fun _ => o_key o) (filter (g o) ts)) os).
  Proof.
    intros H. induction os as [|o os IH]; simpl; auto.
    apply collect_app; [|apply IH; intros; apply H; auto; now right].
    assert (Ho : forall t, In t ts -> f [(sel, o); (v2, t)] = Ok (g o t)) by (intros; apply H; auto; now left).
    clear IH H. induction ts as [|t ts IHt]; simpl; auto.
    rewrite (Ho t (or_introl eq_refl)). rewrite IHt by (intros; apply Ho; now right).
    rewrite Z.eqb_refl. now destruct (g o t).
  Qed.
End Final2.

Lemma forallb_on1_target o t js1 jT js2 :
  forallb is_jrel js1 = true -> forallb is_jrel js2 = true ->
  forallb (on1 o t) (js1 ++ jT :: js2) = on1 o t jT.
Proof.
  intros R1 R2. rewrite forallb_app. simpl. rewrite (on1_jrel o t _ R1), (on1_jrel o t _ R2). now rewrite andb_true_r.
Qed.

(* F07J: same rows, same multiplicities (one row per satisfying pair), same order as [answers] *)
Theorem agree_join sc q w s :
  translate sc q = TOk s -> f07j sc q w = true -> sem_res s (encode sc w) = answers sc q w.
Proof.
  intros Ht Hf. unfold f07j in Hf.
  destruct (q_vars q) as [|[v root] [|[v2 c2] [|]]] eqn:Ev; try discriminate.
  destruct (q_cond q) as [c|] eqn:Ec; try discriminate.
  repeat (apply andb_true_iff in Hf; destruct Hf as [Hf ?]).
  rename H into Hall, H0 into Hne2, H1 into Hnd, H2 into Hj, H3 into Hshape, H4 into Hrel, H5 into Hne, H6 into Hf0.
  assert (Hne2' : instances sc w c2 <> []) by (destruct (instances sc w c2); [discriminate|discriminate]).
  apply negb_true_iff in Hf. unfold translate in Ht. rewrite Hf in Ht. clear Hf. rename Hf0 into Hf.
  apply Z.eqb_eq in Hf. apply negb_true_iff in Hrel, Hne.
  rewrite Ev, Ec, <- Hf in Ht. simpl assoc in Ht. rewrite Z.eqb_refl in Ht.
  destruct (tcond sc [(v, root); (v2, c2)] v root false jm0 c) as [p st| | |] eqn:Et; try discriminate.
  injection Ht as <-.
  (* shape of the statement *)
  destruct (tcond2_struct sc v root v2 c2 Hne Hrel c false jm0 p st Hshape (conj eq_refl eq_refl) Et) as [Hs [Hj' [_ Hbad]]].
  specialize (Hj' Hj). unfold tstruct in Hs.
  destruct (j_inst st) as [|[cc ti] [|]] eqn:Ei; try tauto.
  destruct Hs as [-> [_ [js1 [jT [js2 [J [Hti [R1 [R2 HT]]]]]]]]].
  assert (Hb : match p with Some p0 => pred_bad p0 | None => false end = false) by (destruct p; auto).
  unfold sem_res, sem. cbn [s_invalid s_where s_joins s_root]. rewrite Hb. cbn [orb].
  unfold answers. rewrite Ev, Ec. cbn [bindings]. rewrite <- Hf.
  rewrite forallb_forall in Hall.
  (* every pair *)
  set (g := fun o t => match eval_cond w [(v, o); (v2, t)] c with Ok b => b | Err _ => false end).
  set (ef := fun o t => match build_env sc w t [row_of o] (j_joins st) with Some e => e | None => [] end).
  assert (Hpair : forall o t, In o (instances sc w root) -> In t (instances sc w c2) ->
            build_env sc w t [row_of o] (j_joins st) = Some (ef o t) /\
            eval_cond w [(v, o); (v2, t)] c = Ok (g o t) /\ root_id (ef o t) = o_key o /\
            onj o t jT && where_true {| s_root := root; s_joins := j_joins st; s_where := p; s_invalid := false |} (ef o t) = g o t).
  { intros o t Ho Hto. assert (Hd := Hall o Ho). rewrite forallb_forall in Hd. specialize (Hd t Hto).
    destruct (tcond_ok2 sc w o t v root v2 c2 Hne Hrel c false jm0 [row_of o] inv_jm0 (conj eq_refl eq_refl) eq_refl Hshape Hd)
      as [p' [st' [more [b [d [T [I [R [E [O [V _]]]]]]]]]]].
    rewrite Et in T. injection T as <- <-. unfold renv in R. unfold ef, g. rewrite R, E.
    split; auto. split; auto. split; [reflexivity|].
    unfold ons in O. rewrite J in O. rewrite (forallb_on1_target o t js1 jT js2 R1 R2) in O. simpl in O.
    specialize (V []). rewrite app_nil_r in V. unfold onj. rewrite O, V. unfold where_true, part_true. cbn [s_where].
    destruct p; reflexivity. }
  rewrite (collect_pairs v v2 _ g).
  - f_equal. rewrite envs_of_flat. unfold encode at 2. rewrite flat_map_concat_map, map_map, <- flat_map_concat_map.
    assert (HL : forall os, (forall o, In o os -> In o (instances sc w root)) ->
              map root_id (filter (where_true {| s_root := root; s_joins := j_joins st; s_where := p; s_invalid := false |})
                             (flat_map (fun o => envs_of (encode sc w) (j_joins st) [[row_of o]]) os))
              = flat_map (fun o => map (fun _ => o_key o) (filter (g o) (instances sc w c2))) os).
    { induction os as [|o os IH]; intros Hos; simpl; auto.
      rewrite filter_app, map_app, IH by (intros; apply Hos; now right). f_equal.
      assert (Ho := Hos o (or_introl eq_refl)).
      rewrite J, (pair_envs sc w Hnd c2 o js1 jT js2 (ef o) R1 R2 HT Hne2').
      - apply rows_of_pairs.
        + intros t Ht _. apply (Hpair o t Ho Ht).
        + intros t Ht. apply (Hpair o t Ho Ht).
      - intros t Ht. rewrite <- J. apply (Hpair o t Ho Ht). }
    apply HL. auto.
  - intros o t Ho Hto. apply (Hpair o t Ho Hto).
Qed.

Theorem the_agree_join sc q w s :
  translate sc q = TOk s -> f07j sc q w = true -> one_of (sem_res s (encode sc w)) = one_of (answers sc q w).
Proof. intros H1 H2. now rewrite (agree_join sc q w s H1 H2). Qed.

(* as sets (what is claimed when an equality join stands below an or_, where the evaluator's multiplicities are its own) *)
Theorem agree_join_set sc q w s l l' :
  translate sc q = TOk s -> f07j sc q w = true -> sem_res s (encode sc w) = Ok l -> answers sc q w = Ok l' ->
  forall k, In k l <-> In k l'.
Proof. intros H1 H2 E1 E2 k. rewrite (agree_join sc q w s H1 H2) in E1. rewrite E1 in E2. injection E2 as ->. tauto. Qed.

(* ---------- every F07J query is accepted (syntactic) ---------- *)
Lemma tcond2_total sc sel root v2 c2 (Hne : (v2 =? sel) = false) (Hrel : related sc c2 root = false) c :
  cond_shape2 sc sel root v2 c2 c = true ->
  forall io st, tstruct v2 c2 st -> exists p st', tcond sc [(sel, root); (v2, c2)] sel root io st c = ROk p st'.
Proof.
  assert (Hv := vars_sel sel root v2 c2).
  induction c as [op l r|ct it|p1 IH1 q1 IH2|p1 IH1 q1 IH2|p1 _|x|cs0 it0|]; intros Hc io st Hs; cbn [cond_shape2] in Hc; try discriminate.
  - assert (NJ : cond_shape sc sel root (CCmp op l r) = true ->
                 exists p st', tcond sc [(sel, root); (v2, c2)] sel root io st (CCmp op l r) = ROk p st').
    { intros Hc'. destruct (tcond_total sc sel root _ Hv _ Hc' io st) as [p [st' T]]. eauto. }
    destruct op; try (now apply NJ).
    destruct (join_atom sel v2 l r) as [[[r1 r2] sw]|] eqn:Ej; [|now apply NJ].
    apply andb_true_iff in Hc. destruct Hc as [K1 K2].
    cbn [tcond]. unfold tcmp. rewrite (teqjoin_atom sc sel root v2 c2 Hne Hrel io (set_io io st) l r r1 r2 sw Hs Ej K1 K2).
    cbn [set_io j_inst]. destruct (assoc c2 (j_inst st)); eauto.
  - destruct (tcond_total sc sel root _ Hv _ Hc io st) as [p [st' T]]. eauto.
  - apply andb_true_iff in Hc. destruct Hc as [Hc1 Hc2]. cbn [tcond].
    destruct (IH1 Hc1 io st Hs) as [a [st1 T1]]. rewrite T1.
    destruct (tcond2_struct sc sel root v2 c2 Hne Hrel p1 io st a st1 Hc1 Hs T1) as [S1 _].
    destruct (IH2 Hc2 io st1 S1) as [b [st2 T2]]. rewrite T2. eauto.
  - apply andb_true_iff in Hc. destruct Hc as [Hc1 Hc2]. cbn [tcond].
    destruct (IH1 Hc1 true st Hs) as [a [st1 T1]]. rewrite T1.
    destruct (tcond2_struct sc sel root v2 c2 Hne Hrel p1 true st a st1 Hc1 Hs T1) as [S1 _].
    destruct (IH2 Hc2 true st1 S1) as [b [st2 T2]]. rewrite T2. eauto.
  - destruct (tcond_total sc sel root _ Hv _ Hc io st) as [p [st' T]]. eauto.
  - destruct (tcond_total sc sel root _ Hv _ Hc io st) as [p [st' T]]. eauto.
Qed.
Theorem f07j_accepted sc q w : f07j sc q w = true -> exists s, translate sc q = TOk s.
Proof.
  intros Hf. unfold f07j in Hf.
  destruct (q_vars q) as [|[v root] [|[v2 c2] [|]]] eqn:Ev; try discriminate.
  destruct (q_cond q) as [c|] eqn:Ec; try discriminate.
  repeat (apply andb_true_iff in Hf; destruct Hf as [Hf ?]).
  rename H3 into Hshape, H4 into Hrel, H5 into Hne, H6 into Hf0. apply negb_true_iff in Hf. apply Z.eqb_eq in Hf0.
  apply negb_true_iff in Hrel, Hne.
  destruct (tcond2_total sc v root v2 c2 Hne Hrel c Hshape false jm0 (conj eq_refl eq_refl)) as [p [st T]].
  unfold translate. rewrite Hf, Ev, Ec, <- Hf0. simpl assoc. rewrite Z.eqb_refl, T. eauto.
Qed.

(* ---------- a to-one chain through a None reference: the inner join drops the row, whatever the WHERE clause ---------- *)
(* the rows a statement returns are the concatenation of what each root row contributes *)
Definition contribution (s : sql) (d : db) (r : row) : list Z :=
  map root_id (filter (where_true s) (envs_of d (s_joins s) [[r]])).
Lemma sem_by_root s d l : sem s d = Some l -> l = flat_map (contribution s d) (d (s_root s)).
Proof.
  unfold sem. destruct (s_invalid s || match s_where s with Some p => pred_bad p | None => false end); try discriminate.
  intros H. injection H as <-. rewrite envs_of_flat. unfold contribution.
  induction (d (s_root s)) as [|r rows IH]; simpl; auto. now rewrite filter_app, map_app, IH.
Qed.
(* a root row whose foreign key for the first hop of a joined path is NULL contributes nothing *)
Theorem noneref_drops s d r js1 a tgt js2 :
  s_joins s = js1 ++ JRel false 0%nat a tgt :: js2 -> col r a = VNull -> contribution s d r = [].
Proof.
  intros J Hn. unfold contribution. rewrite J, envs_of_app.
  assert (Hz : forall envs, (forall env, In env envs -> nth_error env 0 = Some r) ->
            envs_of d (JRel false 0%nat a tgt :: js2) envs = []).
  { intros envs He. cbn [envs_of].
    assert (Hf : flat_map (fun env => map (fun r0 => env ++ [r0]) (join_rows d env (JRel false 0%nat a tgt))) envs = []).
    { induction envs as [|e envs IH]; cbn [flat_map]; auto. rewrite IH by (intros; apply He; now right).
      assert (Hj : join_rows d e (JRel false 0%nat a tgt) = []).
      { cbn [join_rows]. unfold ecol. rewrite (He e (or_introl eq_refl)), Hn. induction (d tgt); simpl; auto. }
      now rewrite Hj. }
    rewrite Hf. apply envs_of_nil. }
  rewrite Hz; auto.
  (* every environment still starts with r *)
  assert (Hp : forall js envs, (forall env, In env envs -> nth_error env 0 = Some r) ->
            forall env, In env (envs_of d js envs) -> nth_error env 0 = Some r).
  { induction js as [|j js IH]; simpl; intros envs He env Hi; auto.
    refine (IH _ _ env Hi). intros e Hin.
    apply in_flat_map in Hin. destruct Hin as [e0 [H0 H1]]. apply in_map_iff in H1. destruct H1 as [r0 [<- _]].
    assert (H2 := He e0 H0). destruct e0; try discriminate. exact H2. }
  apply Hp. intros env [<-|[]]. reflexivity.
Qed.

(* ---------- witnesses for the two-variable fragment and for None references ---------- *)
Module WitJ.
  (* over Wit.sc: fixed connections 10 (7 -> 8), 11 (7 -> 9), prismatic connection 12 (9 -> 7); bodies 7 and 8 are equal by value *)
  (* entity(f, f.parent == pc.child), and next to / below or_ with a comparison over f, and as the(...) *)
  Definition q_join := Wit.q_eqjoin_once.
  Definition q_join_and := Wit.mk false [(1, 8); (2, 9)]
    (CAnd (CCmp OEq (OAttr 2 [11]) (OAttr 1 [10])) (CCmp OEq (OAttr 1 [11; 9]) (OLit (VInt 2)))).
  Definition q_join_or := Wit.mk false [(1, 8); (2, 9)]
    (COr (CCmp OEq (OAttr 1 [11]) (OAttr 2 [10])) (CCmp OEq (OAttr 1 [11; 9]) (OLit (VInt 1)))).
  Definition q_join_the := Wit.mk true [(1, 8); (2, 9)] (CCmp OEq (OAttr 1 [10]) (OAttr 2 [11])).
  (* outside: f.child == pc.child compares body 8 with body 7 -- equal by value, different rows *)
  Definition q_join_valueeq := Wit.mk false [(1, 8); (2, 9)] (CCmp OEq (OAttr 1 [11]) (OAttr 2 [11])).
  (* a second prismatic connection ending in body 7: every fixed connection starting there has two partners *)
  Definition w2 : world := Wit.w ++ [ {| o_key := 13; o_cls := 9; o_fields := [(10, VRef 8); (11, VRef 7)] |} ].
  (* poses: 5 has no position (None), 6 has one *)
  Definition wn : world :=
    [ {| o_key := 2; o_cls := 1; o_fields := [(3, VInt 1); (4, VInt 3)] |};
      {| o_key := 4; o_cls := 3; o_fields := [(6, VInt 1)] |};
      {| o_key := 5; o_cls := 4; o_fields := [(7, VNull); (8, VRef 4)] |};
      {| o_key := 6; o_cls := 4; o_fields := [(7, VRef 2); (8, VRef 4)] |} ].
  (* entity(s, or_(s.orientation.w == 1, s.position.x == 1)) and entity(s, s.position.x == 1) *)
  Definition q_noneref_or := Wit.mk false [(1, 4)]
    (COr (CCmp OEq (OAttr 1 [8; 6]) (OLit (VInt 1))) (CCmp OEq (OAttr 1 [7; 3]) (OLit (VInt 1)))).
  Definition q_noneref := Wit.mk false [(1, 4)] (CCmp OEq (OAttr 1 [7; 3]) (OLit (VInt 1))).
  Definition q_setof := {| q_the := false; q_setof := true; q_sel := 1; q_vars := [(1, 1)];
                           q_cond := Some (CCmp OGe (OAttr 1 [3]) (OLit (VInt 1))) |}.
  (* entity(p, in_(p.x, {1, 2})) *)
  Definition q_inset := Wit.mk false [(1, 1)] (CInSet [VInt 1; VInt 2] (OAttr 1 [3])).
  (* entity(f, b == f.parent) and entity(f, f.parent == b), b : Body *)
  Definition q_namedvar := Wit.mk false [(1, 8); (2, 5)] (CCmp OEq (OVar 2) (OAttr 1 [10])).
  Definition q_namedvar_right := Wit.mk false [(1, 8); (2, 5)] (CCmp OEq (OAttr 1 [10]) (OVar 2)).
  (* class 13 Atom(element = 14 : Enum, type = 15): atoms 1 (C, 1), 2 (H, 0), 3 (C, 2); an Enum member is VStr (0 :: name) *)
  Definition sce : schema := {| sc_fields := [(13, [(14, FScalar); (15, FScalar)])]; sc_sub := [(13, 13)]; sc_enums := [(13, 14)]; sc_nums := [(13, 15)]; sc_texts := [] |}.
  Definition eC : val := VStr [0; 67].
  Definition eH : val := VStr [0; 72].
  Definition we : world :=
    [ {| o_key := 1; o_cls := 13; o_fields := [(14, eC); (15, VInt 1)] |};
      {| o_key := 2; o_cls := 13; o_fields := [(14, eH); (15, VInt 0)] |};
      {| o_key := 3; o_cls := 13; o_fields := [(14, eC); (15, VInt 2)] |} ].
  (* entity(a, and_(a.element, or_(a.element == Element.C, in_(a.element, [Element.H])), a.type)) and entity(a, a.element < Element.H) *)
  Definition q_enum := Wit.mk false [(1, 13)]
    (CAnd (CAnd (CTruth (OAttr 1 [14])) (COr (CCmp OEq (OAttr 1 [14]) (OLit eC)) (CContains (OList [eH]) (OAttr 1 [14]))))
          (CTruth (OAttr 1 [15]))).
  Definition q_enum_lt := Wit.mk false [(1, 13)] (CCmp OLt (OAttr 1 [14]) (OLit eH)).
  (* round 7 *)
  (* two prismatic variables joined to f: and_(f.parent == pc.child, f.child == pc2.parent) *)
  Definition q_two_vars := Wit.mk false [(1, 8); (2, 9); (3, 9)]
    (CAnd (CCmp OEq (OAttr 1 [10]) (OAttr 2 [11])) (CCmp OEq (OAttr 1 [11]) (OAttr 3 [10]))).
  (* a chain longer than one hop in a join equality: f.parent.name-like prefix, here f.parent.parent == pc.child *)
  Definition q_long_join := Wit.mk false [(1, 8); (2, 9)] (CCmp OEq (OAttr 1 [10; 10]) (OAttr 2 [11])).
  Definition q_other := Wit.mk false [(1, 5)] COther.                                   (* b.name.upper() == "A" *)
  Definition q_text_number := Wit.mk false [(1, 5)] (CCmp OEq (OAttr 1 [9]) (OLit (VStr [49]))).   (* b.size == "1" *)
  Definition q_text_number_in := Wit.mk false [(1, 5)] (CContains (OList [VStr [49]; VInt 7]) (OAttr 1 [9])).
  Definition q_none_in := Wit.mk false [(1, 3)] (CContains (OList [VNull; VInt 2]) (OAttr 1 [6])).   (* in_(o.w, [None, 2]) *)
  Definition q_plain_var := Wit.mk false [(1, 5); (2, 100)] (CCmp OEq (OAttr 1 [9]) (OVar 2)).     (* b.size == let(int, ...) *)
  (* or_(f.parent == pc.child, f.child.size == 2) in a world without any prismatic connection *)
  Definition w_nopc : world := filter (fun o => negb (o_cls o =? 9)) Wit.w.
End WitJ.

Lemma nonvacuous_join :
  f07j Wit.sc WitJ.q_join Wit.w = true /\ model_res Wit.sc WitJ.q_join Wit.w = Some (Ok [10; 11]) /\
  f07j Wit.sc WitJ.q_join_and Wit.w = true /\ model_res Wit.sc WitJ.q_join_and Wit.w = Some (Ok [11]) /\
  answers Wit.sc WitJ.q_join_and Wit.w = Ok [11] /\
  f07j Wit.sc WitJ.q_join_or Wit.w = true /\ model_res Wit.sc WitJ.q_join_or Wit.w = Some (Ok [10; 11]) /\
  answers Wit.sc WitJ.q_join_or Wit.w = Ok [10; 11] /\
  f07j Wit.sc Wit.q_eqjoin_twice Wit.w = true /\
  (* two partners: the entity twice, the(...) fails on both sides *)
  f07j Wit.sc WitJ.q_join WitJ.w2 = true /\ model_res Wit.sc WitJ.q_join WitJ.w2 = Some (Ok [10; 10; 11; 11]) /\
  answers Wit.sc WitJ.q_join WitJ.w2 = Ok [10; 10; 11; 11] /\
  option_map one_of (model_res Wit.sc WitJ.q_join_the WitJ.w2) = Some MultipleFound /\
  one_of (answers Wit.sc WitJ.q_join_the WitJ.w2) = MultipleFound /\
  (* excluded: entities equal by value but distinct *)
  f07j Wit.sc WitJ.q_join_valueeq Wit.w = false /\
  model_res Wit.sc WitJ.q_join_valueeq Wit.w = Some (Ok []) /\ answers Wit.sc WitJ.q_join_valueeq Wit.w = Ok [10].
Proof. repeat split; vm_compute; reflexivity. Qed.

Lemma refuted_noneref :
  (* a None reference in a conjunctive chain: memory raises AttributeError, the inner join drops the row and SQL answers *)
  model_res Wit.sc WitJ.q_noneref WitJ.wn = Some (Ok [6]) /\ answers Wit.sc WitJ.q_noneref WitJ.wn = Err AttrErr /\
  f07 Wit.sc WitJ.q_noneref WitJ.wn = false.
Proof. repeat split; vm_compute; reflexivity. Qed.
(* repaired (873189c): joins made below an or_ are outer joins: the pose without position is kept, as in memory *)
Lemma fixed_noneref_or :
  model_res Wit.sc WitJ.q_noneref_or WitJ.wn = Some (Ok [5; 6]) /\ answers Wit.sc WitJ.q_noneref_or WitJ.wn = Ok [5; 6].
Proof. split; vm_compute; reflexivity. Qed.
(* round 7 repairs: rejections, None inside in_, an or-join over an empty other table *)
Lemma fixed_round7 :
  translate Wit.sc WitJ.q_two_vars = TReject /\ translate Wit.sc WitJ.q_long_join = TReject /\
  translate Wit.sc WitJ.q_other = TReject /\ translate Wit.sc WitJ.q_text_number = TReject /\
  translate Wit.sc WitJ.q_text_number_in = TReject /\ translate Wit.sc WitJ.q_plain_var = TReject /\
  (model_res Wit.sc WitJ.q_none_in Wit.w = Some (Ok [3]) /\ answers Wit.sc WitJ.q_none_in Wit.w = Ok [3]) /\
  (* no prismatic connection at all: the statement keeps every fixed connection once (LEFT JOIN ... ON true) and the
     comparison decides; [answers], which ranges over assignments of BOTH variables, is empty: outside F07J *)
  (model_res Wit.sc WitJ.q_join_or WitJ.w_nopc = Some (Ok [10]) /\ answers Wit.sc WitJ.q_join_or WitJ.w_nopc = Ok [] /\
   f07j Wit.sc WitJ.q_join_or WitJ.w_nopc = false).
Proof. repeat split; vm_compute; reflexivity. Qed.

(* repaired (cbfdb2e): a set_of query is rejected *)
Lemma fixed_setof : translate Wit.sc WitJ.q_setof = TReject.
Proof. vm_compute; reflexivity. Qed.
Theorem rejects_setof sc q : q_setof q = true -> translate sc q = TReject.
Proof. intros H. unfold translate. now rewrite H. Qed.

Lemma nonvacuous_enum :      (* a bare Enum attribute, == / in_ on it: inside F07 *)
  f07 WitJ.sce WitJ.q_enum WitJ.we = true /\ model_res WitJ.sce WitJ.q_enum WitJ.we = Some (Ok [1; 3]) /\
  answers WitJ.sce WitJ.q_enum WitJ.we = Ok [1; 3].
Proof. repeat split; vm_compute; reflexivity. Qed.
(* repaired (beaaa59): an ordering comparison on an Enum column is rejected.  Before, a.element < Element.H was answered by
   ordering the stored member names ([1; 3] here) while memory raises TypeError *)
Lemma fixed_enumorder :
  translate WitJ.sce WitJ.q_enum_lt = TReject /\ answers WitJ.sce WitJ.q_enum_lt WitJ.we = Err TypeErr /\
  f07 WitJ.sce WitJ.q_enum_lt WitJ.we = false.
Proof. repeat split; vm_compute; reflexivity. Qed.
Theorem rejects_enum_order sc q op l r :
  q_cond q = Some (CCmp op l r) -> eqne op = false ->
  (enum_col sc (q_vars q) l || enum_col sc (q_vars q) r) = true -> forall s, translate sc q <> TOk s.
Proof.
  intros Hc Ho He s. unfold translate. destruct (q_setof q); try discriminate. rewrite Hc.
  destruct (assoc (q_sel q) (q_vars q)) as [root|]; try discriminate.
  cbn [tcond]. unfold tcmp.
  assert (E : forall st, teqjoin sc (q_vars q) (q_sel q) root false st op l r = None) by (intros st; destruct op; try discriminate; reflexivity).
  rewrite E. destruct (negb (rel_check sc (q_vars q) (eqne op) l r)); try discriminate.
  destruct (toperand sc (q_sel q) root (set_io false jm0) l) as [a st1| | |]; try discriminate.
  destruct (toperand sc (q_sel q) root st1 r) as [b st2| | |]; try discriminate.
  destruct (cmp_mismatch sc (q_vars q) l r); try discriminate.
  rewrite Ho, He. discriminate.
Qed.

(* repaired (313603b): in_(p.x, {1, 2}) is IN (1, 2), inside F07 *)
Lemma fixed_setlit :
  f07 Wit.sc WitJ.q_inset Wit.w = true /\ model_res Wit.sc WitJ.q_inset Wit.w = Some (Ok [1]) /\ answers Wit.sc WitJ.q_inset Wit.w = Ok [1].
Proof. repeat split; vm_compute; reflexivity. Qed.
(* repaired (99b53a0): a variable over mapped entities as operand is rejected in either order *)
Lemma fixed_namedvar :
  translate Wit.sc WitJ.q_namedvar = TReject /\ translate Wit.sc WitJ.q_namedvar_right = TReject.
Proof. split; vm_compute; reflexivity. Qed.
Theorem rejects_var_operand sc q op l r v :
  q_cond q = Some (CCmp op l r) -> (l = OVar v \/ r = OVar v) -> forall s, translate sc q <> TOk s.
Proof.
  intros Hc Hv s. unfold translate. destruct (q_setof q); try discriminate. rewrite Hc.
  destruct (assoc (q_sel q) (q_vars q)) as [root|]; try discriminate.
  cbn [tcond]. unfold tcmp.
  assert (E : forall st, teqjoin sc (q_vars q) (q_sel q) root false st op l r = None).
  { intros st. destruct Hv as [-> | ->]; destruct op; try reflexivity; destruct l as [? [|? [|]]| | |]; reflexivity. }
  rewrite E. destruct (negb (rel_check sc (q_vars q) (eqne op) l r)); try discriminate.
  destruct Hv as [-> | ->]; try discriminate.
  destruct (toperand sc (q_sel q) root (set_io false jm0) l) as [a st1| | |]; discriminate.
Qed.

(* ---------- the rejections of round 7 ---------- *)
(* an operand the translator does not know (method call, index on an attribute) is never answered, at any depth *)
Fixpoint has_other (c : cond) : bool :=
  match c with COther => true | CAnd p q | COr p q => has_other p || has_other q | _ => false end.
Lemma tcond_other sc vars sel root c : has_other c = true -> forall io st p st', tcond sc vars sel root io st c <> ROk p st'.
Proof.
  induction c as [op l r|ct it|p1 IH1 q1 IH2|p1 IH1 q1 IH2|p1 _|x|cs0 it0|]; intros Hn io st p st'; simpl in Hn; try discriminate.
  - cbn [tcond]. destruct (tcond sc vars sel root io st p1) as [a st1| | |] eqn:E1; try discriminate.
    destruct (has_other p1) eqn:N1; [exfalso; eapply IH1; eauto|]. simpl in Hn.
    destruct (tcond sc vars sel root io st1 q1) as [b st2| | |] eqn:E2; try discriminate. exfalso; eapply IH2; eauto.
  - cbn [tcond]. destruct (tcond sc vars sel root true st p1) as [a st1| | |] eqn:E1; try discriminate.
    destruct (has_other p1) eqn:N1; [exfalso; eapply IH1; eauto|]. simpl in Hn.
    destruct (tcond sc vars sel root true st1 q1) as [b st2| | |] eqn:E2; try discriminate. exfalso; eapply IH2; eauto.
Qed.
Theorem rejects_other sc q c : q_cond q = Some c -> has_other c = true -> forall s, translate sc q <> TOk s.
Proof.
  intros Hc Hn s. unfold translate. destruct (q_setof q); try discriminate.
  rewrite Hc. destruct (assoc (q_sel q) (q_vars q)); try discriminate.
  destruct (tcond sc (q_vars q) (q_sel q) z false jm0 c) eqn:E; try discriminate. exfalso. eapply tcond_other; eauto.
Qed.
(* a text literal against a numeric column, a number against a text column *)
Theorem rejects_text_number sc q op v ch lit :
  q_cond q = Some (CCmp op (OAttr v ch) (OLit lit)) -> operand_mismatch sc (q_vars q) (OAttr v ch) lit = true ->
  forall s, translate sc q <> TOk s.
Proof.
  intros Hc Hm s. unfold translate. destruct (q_setof q); try discriminate. rewrite Hc.
  destruct (assoc (q_sel q) (q_vars q)) as [root|]; try discriminate.
  cbn [tcond]. unfold tcmp. rewrite teqjoin_lit_none.
  destruct (negb (rel_check sc (q_vars q) (eqne op) (OAttr v ch) (OLit lit))); try discriminate.
  destruct (toperand sc (q_sel q) root (set_io false jm0) (OAttr v ch)) as [a st1| | |]; try discriminate.
  cbn [toperand]. unfold cmp_mismatch. cbn [lit_mismatch]. rewrite Hm. discriminate.
Qed.
(* a join equality whose side is a chain of more than one hop is no join: the other variable's attribute is rejected *)
Theorem rejects_long_join sc q v1 a1 b1 ch1 v2 ch2 :
  q_cond q = Some (CCmp OEq (OAttr v1 (a1 :: b1 :: ch1)) (OAttr v2 ch2)) -> v2 <> q_sel q ->
  forall s, translate sc q <> TOk s.
Proof.
  intros Hc Hv s. unfold translate. destruct (q_setof q); try discriminate. rewrite Hc.
  destruct (assoc (q_sel q) (q_vars q)) as [root|]; try discriminate.
  cbn [tcond]. unfold tcmp. cbn [teqjoin].
  destruct (negb (rel_check sc (q_vars q) (eqne OEq) (OAttr v1 (a1 :: b1 :: ch1)) (OAttr v2 ch2))); try discriminate.
  destruct (toperand sc (q_sel q) root (set_io false jm0) (OAttr v1 (a1 :: b1 :: ch1))) as [a st1| | |]; try discriminate.
  unfold toperand, tattr. apply Z.eqb_neq in Hv. rewrite Hv. discriminate.
Qed.
(* a text attribute against a numeric attribute of the same variable (4f6a661) *)
Theorem rejects_text_number_columns sc q op v ch1 ch2 :
  q_cond q = Some (CCmp op (OAttr v ch1) (OAttr v ch2)) ->
  col_mismatch sc (q_vars q) (OAttr v ch1) (OAttr v ch2) = true -> forall s, translate sc q <> TOk s.
Proof.
  intros Hc Hm s. unfold translate. destruct (q_setof q); try discriminate. rewrite Hc.
  destruct (assoc (q_sel q) (q_vars q)) as [root|]; try discriminate.
  cbn [tcond]. unfold tcmp.
  assert (E : forall st, teqjoin sc (q_vars q) (q_sel q) root false st op (OAttr v ch1) (OAttr v ch2) = None).
  { intros st. destruct op; try reflexivity; destruct ch1 as [|a1 [|]]; try reflexivity; destruct ch2 as [|a2 [|]]; try reflexivity.
    cbn [teqjoin]. now rewrite Z.eqb_refl. }
  rewrite E. destruct (negb (rel_check sc (q_vars q) (eqne op) (OAttr v ch1) (OAttr v ch2))); try discriminate.
  destruct (toperand sc (q_sel q) root (set_io false jm0) (OAttr v ch1)) as [a st1| | |]; try discriminate.
  destruct (toperand sc (q_sel q) root st1 (OAttr v ch2)) as [b st2| | |]; try discriminate.
  unfold cmp_mismatch. rewrite Hm, !orb_true_r. discriminate.
Qed.
Lemma fixed_round8 :       (* b.name == b.size (text against number, two columns) is rejected; an iterator container is an unknown operand *)
  translate Wit.sc (Wit.mk false [(1, 5)] (CCmp OEq (OAttr 1 [1]) (OAttr 1 [9]))) = TReject /\
  translate Wit.sc (Wit.mk false [(1, 5)] (CCmp OLt (OAttr 1 [9]) (OAttr 1 [1]))) = TReject.
Proof. split; vm_compute; reflexivity. Qed.
