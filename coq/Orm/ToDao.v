(* ToDao: model of krrood.ormatic.dao.to_dao / DataAccessObject.to_dao (dao.py l.380-438, 450-466, 585-657).
   A DAO class is identified with the class it wraps (get_dao_class is a bijection on mapped classes); for a class
   with an AlternativeMapping the DAO is the DAO of the mapping class: [alts] lists (original class, mapping class).
   create_instance(obj) copies the mapped fields (user code; its round trip is the user's obligation and is only
   compared on the dataset, see RoundTrip.v).  ToDAOState.memo = [memo]; keep_alive pins every converted object, so
   within (and across) calls no source address is ever recycled -- in the model the source heap is fixed.
   Not modelled: to_dao_if_subclass_of_alternative_mapping (a DAO BELOW an alternatively mapped parent); such
   graphs are compared implementation-vs-Spec only. *)
From Coq Require Import List ZArith Bool Lia Arith PeanoNat.
From Krrood Require Import Orm.ObjGraph Orm.ObjGraphWalk.
Import ListNotations.

Fixpoint zassoc (c : Z) (l : list (Z * Z)) : option Z :=
  match l with
  | [] => None
  | (k, v) :: t => if Z.eqb c k then Some v else zassoc c t
  end.
Definition zmem (c : Z) (l : list Z) : bool := existsb (Z.eqb c) l.

Definition P_todao (alts : list (Z * Z)) : params :=
  mkParams (fun c => match zassoc c alts with Some m => m | None => c end) (fun _ => None) false true.

Definition to_dao (alts : list (Z * Z)) (l : lheap) (r : addr) : option (addr * st) :=
  walk (P_todao alts) (heap_of l) (S (length l)) r st0.

Lemma zassoc_none c l : zmem c (map fst l) = false -> zassoc c l = None.
Proof.
  induction l as [|[k v] t IH]; simpl; auto. intros H. apply orb_false_iff in H. destruct H as [H1 H2].
  rewrite H1. auto.
Qed.
