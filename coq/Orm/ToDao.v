(* ToDao: model of krrood.ormatic.dao.to_dao / DataAccessObject.to_dao (dao.py l.380-438, 450-466, 585-657).
   A DAO class is identified with the class it wraps (get_dao_class is a bijection on mapped classes); for a class
   with an AlternativeMapping the DAO is the DAO of the mapping class: [alts] lists (original class, mapping class).
   create_instance(obj) copies the mapped fields (user code; its round trip is the user's obligation and is only
   compared on the dataset, see RoundTrip.v).  ToDAOState.memo = [memo]; keep_alive pins every converted object, so
   within (and across) calls no source address is ever recycled -- in the model the source heap is fixed.
   A DAO BELOW an alternatively mapped DAO (to_dao_if_subclass_of_alternative_mapping): the parent's mapping object is built
   from the same object with the memo entry temporarily removed; parent columns come from it, own columns from the object,
   relationships of both from the same targets -- in the model: the class's own DAO class, user-transformed scalars ([enc]). *)
From Coq Require Import List ZArith Bool Lia Arith PeanoNat.
From Krrood Require Import Orm.ObjGraph Orm.ObjGraphWalk.
Import ListNotations.

Fixpoint zassoc (c : Z) (l : list (Z * Z)) : option Z :=
  match l with
  | [] => None
  | (k, v) :: t => if Z.eqb c k then Some v else zassoc c t
  end.
Definition zmem (c : Z) (l : list Z) : bool := existsb (Z.eqb c) l.

(* DAO class of an object class: the DAO of its mapping class if it has an alternative mapping *)
Definition cm (alts : list (Z * Z)) (c : Z) : Z := match zassoc c alts with Some m => m | None => c end.

(* [enc c]: what user code makes of the column values on the way to the DAO -- create_instance of the alternative mapping of
   class c, or of the alternatively mapped parent for a DAO below one (to_dao_if_subclass_of_alternative_mapping copies the
   parent columns from the parent's mapping object); the identity for every other class.  The reference fields are carried
   over one to one (same relationship keys, same targets): that is what "maps faithfully" means for the structure. *)
Definition P_todao (enc : Z -> list Z -> list Z) (alts : list (Z * Z)) : params :=
  mkParams (fun c s => (cm alts c, enc c s)) (fun _ _ => None) (fun _ => 0) false true.

Definition to_dao (enc : Z -> list Z -> list Z) (alts : list (Z * Z)) (l : lheap) (r : addr) : option (addr * st) :=
  walk (P_todao enc alts) (heap_of l) (S (length l)) r st0.

Definition idc : Z -> list Z -> list Z := fun _ s => s.

Fixpoint zlookg {B : Type} (c : Z) (l : list (Z * B)) : option B :=
  match l with
  | [] => None
  | (k, v) :: t => if Z.eqb c k then Some v else zlookg c t
  end.

Lemma zassoc_none c l : zmem c (map fst l) = false -> zassoc c l = None.
Proof.
  induction l as [|[k v] t IH]; simpl; auto. intros H. apply orb_false_iff in H. destruct H as [H1 H2].
  rewrite H1. auto.
Qed.
