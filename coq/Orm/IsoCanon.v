(* IsoCanon: executable companion of the Spec [iso].  [canon h n r] copies the part of [h] reachable from [r]
   into fresh addresses 0,1,2,... in depth-first discovery order (the memoised walk with the identity class map)
   and lists the copy.  [canon_eq_iso]: equal canonical forms imply isomorphism -- soundness is all the
   comparison in the harness needs.  Depends on the generic walk only, not on the to_dao / from_dao models. *)
From Coq Require Import List ZArith Bool Lia Arith PeanoNat.
From Krrood Require Import Base.Sx Orm.ObjGraph Orm.Iso Orm.ObjGraphWalk Orm.ObjGraphWalkProofs.
Import ListNotations.
Local Open Scope nat_scope.

Definition Pid : params := mkParams (fun c s => (c, s)) (fun _ _ => None) (fun _ => 0) false false.

Definition canon (h : heap) (n : nat) (r : addr) : option (addr * list (option obj)) :=
  match walk Pid h (S n) r st0 with
  | Some (d, s) => Some (d, listing s)
  | None => None
  end.
Definition canon_l (l : lheap) (r : addr) := canon (heap_of l) (length l) r.

(* printing into sx *)
Definition sx_nat (n : nat) : sx := SZ (Z.of_nat n).
Definition sx_fld (f : fld) : sx := SL [SZ (fst f); SL (map sx_nat (snd f))].
Definition sx_obj (o : option obj) : sx :=
  match o with
  | None => SL []
  | Some o => SL [SZ (ocls o); SL (map SZ (oscal o)); SL (map sx_fld (oflds o))]
  end.
Definition sx_canon (c : option (addr * list (option obj))) : sx :=
  match c with
  | None => SL [SZ (-1)%Z]
  | Some (d, os) => SL [sx_nat d; SL (map sx_obj os)]
  end.

Lemma map_eq_in {A B} (f g : A -> B) l : map f l = map g l -> forall x, In x l -> f x = g x.
Proof.
  induction l as [|a l IH]; simpl; intros H x Hin; [tauto|]. inversion H. destruct Hin as [->|Hin]; auto.
Qed.

Lemma listing_eq s1 s2 : listing s1 = listing s2 -> nxt s1 = nxt s2 /\ forall y, y < nxt s1 -> dst s1 y = dst s2 y.
Proof.
  unfold listing. intros H.
  assert (Hn : nxt s1 = nxt s2).
  { apply (f_equal (@length _)) in H. now rewrite !map_length, !seq_length in H. }
  split; auto. intros y Hy. rewrite <- Hn in H. apply (map_eq_in _ _ _ H). apply in_seq. lia.
Qed.

(* a direction without late replacement and temporaries whose (class, scalars) transformation is the identity on the heap *)
Lemma wf_walk_iso P l r :
  plain P (heap_of l) (reach (heap_of l) r) ->
  (forall a o, heap_of l a = Some o -> p_obj P (ocls o) (oscal o) = (ocls o, oscal o)) ->
  wf_heap l r = true ->
  exists d s', walk P (heap_of l) (S (length l)) r st0 = Some (d, s') /\
    Inv P (heap_of l) (reach (heap_of l) r) s' /\ mlook r s' = Some d /\
    (forall x y, mlook x s' = Some y -> done P (heap_of l) s' x y) /\
    bisim (krel s') (heap_of l) (dst s') /\ functional (krel s') /\ injective (krel s') /\
    iso (heap_of l) r (dst s') d.
Proof.
  intros Hpl Hc Hwf. destruct (wf_heap_closed l r Hwf) as [Hr Hcl].
  assert (HQ : forall a, reach (heap_of l) r a -> exists o, heap_of l a = Some o /\
             forall t ks k, In (t, ks) (oflds o) -> In k ks -> reach (heap_of l) r k).
  { intros a Ha. destruct (Hcl a (reach_in_keys l r a Hwf Ha)) as [o [Ho _]]. exists o. split; auto.
    intros t ks k Hf Hk. eapply reach_step; eauto. }
  destruct (walk_total P (heap_of l) (keys l) (reach (heap_of l) r) HQ (fun a Ha => reach_in_keys l r a Hwf Ha) r (reach_root _ _))
    as [d [s' [E [HI [_ [Hnb Hd]]]]]].
  unfold keys in E. rewrite map_length in E.
  destruct (Hd (Hnb (proj1 Hpl))) as [M D].
  destruct (walk_bisim_g P (heap_of l) _ s' HI D) as [Hb [Hf Hi]].
  assert (Hb' : bisim (krel s') (heap_of l) (dst s')).
  { eapply bisim_g_id; [exact Hb|]. intros a b o Hab Ho. unfold fobj.
    assert (Hqa : reach (heap_of l) r a) by (destruct HI as [_ [_ [_ [J5 _]]]]; eapply J5; exact Hab).
    pose proof (proj1 Hpl _ _ Hqa Ho) as Hl. unfold is_late in Hl.
    destruct (p_late P (ocls o) (oscal o)); [discriminate|]. eauto. }
  exists d, s'. repeat (split; auto). exists (krel s'). repeat (split; auto).
Qed.

Lemma Pid_plain h Q : plain Pid h Q.
Proof. split; intros x o _ _; reflexivity. Qed.

Theorem canon_total l r : wf_heap l r = true -> canon_l l r <> None.
Proof.
  intros Hwf. unfold canon_l, canon.
  destruct (wf_walk_iso Pid l r (Pid_plain _ _) (fun _ _ _ => eq_refl) Hwf) as [d [s [E _]]].
  rewrite E. discriminate.
Qed.

Theorem canon_eq_iso l1 r1 l2 r2 : wf_heap l1 r1 = true -> wf_heap l2 r2 = true ->
  canon_l l1 r1 = canon_l l2 r2 -> iso (heap_of l1) r1 (heap_of l2) r2.
Proof.
  intros W1 W2. unfold canon_l, canon.
  destruct (wf_walk_iso Pid l1 r1 (Pid_plain _ _) (fun _ _ _ => eq_refl) W1) as [d1 [s1 [E1 [I1 [M1 [D1 [Hb [Hf [Hi Iso1]]]]]]]]].
  destruct (wf_walk_iso Pid l2 r2 (Pid_plain _ _) (fun _ _ _ => eq_refl) W2) as [d2 [s2 [E2 [I2 [M2 [D2 [_ [_ [_ Iso2]]]]]]]]].
  rewrite E1, E2. intros H. inversion H as [[Hd Hl]]. subst d2.
  destruct (listing_eq _ _ Hl) as [Hn Hag].
  eapply iso_trans; [|apply iso_sym; exact Iso2].
  exists (krel s1). split; [exact M1|]. split; [|split; auto].
  eapply bisim_agree; [exact Hb|]. intros a b Hab. symmetry. apply Hag. destruct I1 as [J1 _]. eapply J1; eauto.
Qed.

(* what the harness evaluates when only the Spec is available: 0 = the two graphs have the same canonical form *)
Definition spec_canon (l : lheap) (r : addr) : sx := sx_canon (canon_l l r).
Definition case_code_spec (l : lheap) (r : addr) (l' : lheap) (r' : addr) : sx :=
  SL [SZ (if sx_eqb (spec_canon l' r') (spec_canon l r) then 0 else 3)%Z; SZ 0%Z;
      SZ (if wf_heap l r && wf_heap l' r' then 1 else 0)%Z].
