(* C06 model: ORMatic's generation of the SQLAlchemy layer, as a total function from class models to schemas.
   Follows ORMatic.__post_init__/_create_wrapped_tables (tables in the topological order handed in as [order]),
   WrappedTable.parent_table, WrappedTable.fields (inherited-field elimination), parse_fields / parse_field (the
   dispatch chain, the relationship predicates and all name builders come from Gen/ParseField.v, regenerated from
   /repo on every run), the create_* methods, create_mapper_args and the template's emission order.
   Hand-written parts (tied by the correspondence check): the wrapped-field facts of an annotation ([facts_of]),
   dataclass field inheritance ([dc_fields]), the contents of the column/relationship constructors. *)
From Coq Require Import List String Ascii Bool ZArith.
From Krrood Require Import Base.Sx Orm.SchemaStr Orm.SchemaSpec Gen.ParseField.
Import ListNotations.
Open Scope string_scope.

(* ---------------------------------------------------------------- wrapped-field facts of an annotation *)
Definition ep_module (e : endpoint) : string :=
  match e with EB BDatetime => "datetime" | EB _ => "builtins" | EEnum m _ => m | ECls _ => "" end.
Definition ep_name (e : endpoint) : string :=
  match e with
  | EB BInt => "int" | EB BFloat => "float" | EB BStr => "str" | EB BBool => "bool" | EB BDatetime => "datetime"
  | EEnum _ n => n | ECls n => n
  end.

Definition facts_of (M : cmodel) (f : field) : facts :=
  let cont := is_coll (f_shape f) in
  {| is_type_type := false;
     is_builtin_type := match f_ep f with EB _ => true | _ => false end;
     is_enum := negb cont && match f_ep f with EEnum _ _ => true | _ => false end;
     is_container := cont;
     is_optional := is_opt (f_shape f);
     endpoint_in_mapped_classes := match f_ep f with ECls t => is_mapped M t | _ => false end;
     endpoint_in_type_mappings := false;
     is_collection_of_builtins := cont && String.eqb (ep_module (f_ep f)) "builtins" |}.

(* ---------------------------------------------------------------- dataclass fields, WrappedTable.fields *)
(* dataclasses: base-class fields first, a redeclared name keeps its position, new names are appended *)
Definition merge_fields (base own : list field) : list field :=
  map (fun b => match find (fun f => String.eqb (f_name f) (f_name b)) own with Some f => f | None => b end) base
  ++ filter (fun f => negb (str_in (f_name f) (field_names base))) own.

Fixpoint dc_fields (fuel : nat) (M : cmodel) (c : cls) : list field :=
  match fuel with
  | O => c_fields c
  | S k => match parent_of M c with
           | Some p => merge_fields (dc_fields k M p) (c_fields c)
           | None => c_fields c
           end
  end.

(* WrappedClass.fields: DataclassOnlyIntrospector.discover drops names starting with "_" *)
Definition discover (M : cmodel) (c : cls) : list field :=
  filter (fun f => negb (skip_private (f_name f))) (dc_fields (List.length M) M c).

(* WrappedTable.fields: drop what any table up the parent chain already has, by name *)
Definition table_fields (M : cmodel) (c : cls) : list field :=
  let inh := flat_map (fun p => field_names (discover M p)) (ancestors (List.length M) M c) in
  filter (fun f => negb (str_in (f_name f) inh)) (discover M c).

(* ---------------------------------------------------------------- parse_field and the create_* methods *)
Definition target_of (M : cmodel) (f : field) : option cls :=
  match f_ep f with ECls t => find_cls M t | _ => None end.

Definition parse_one (M : cmodel) (self : cls) (f : field) : items :=
  let w := facts_of M f in
  let self_table := tablename (c_name self) in
  match parse_field w with
  | A_create_builtin_column =>
      {| i_builtin := [{| col_name := f_name f; col_opt := is_optional w; col_cont := "";
                          col_tymod := ep_module (f_ep f); col_tyname := ep_name (f_ep f);
                          col_sql := match f_ep f with EB BStr => 1 | _ => 0 end; col_nullable_arg := false |}];
         i_custom := []; i_fks := []; i_rels := []; i_assoc := []; i_imports := [ep_module (f_ep f)]; i_err := false |}
  | A_create_one_to_one_relationship =>
      match target_of M f with
      | Some tc =>
          let tt := tablename (c_name tc) in
          {| i_builtin := []; i_custom := [];
             i_fks := [{| fk_name := o2o_fk_name (f_name f); fk_target := full_primary_key_name tt primary_key_name;
                          fk_opt := is_optional w |}];
             i_rels := [{| rel_name := o2o_rel_name (f_name f); rel_target := tt; rel_uselist := false;
                           rel_fk := o2o_fk_name (f_name f); rel_secondary := ""; rel_joins := "";
                           (* remote_side when walking target.parent_table upwards reaches the own table *)
                           rel_remote := if existsb (fun a => String.eqb (c_name a) (c_name self))
                                                    (tc :: ancestors (List.length M) M tc)
                                         then full_primary_key_name tt primary_key_name else "" |}];
             i_assoc := []; i_imports := []; i_err := false |}
      | None => err_items
      end
  | A_create_json_column =>
      {| i_builtin := [];
         i_custom := [{| col_name := f_name f; col_opt := false;
                         col_cont := match f_shape f with SSet => "typing.Set" | _ => "typing.List" end;
                         col_tymod := ep_module (f_ep f); col_tyname := ep_name (f_ep f);
                         col_sql := 2; col_nullable_arg := is_optional w |}];
         i_fks := []; i_rels := []; i_assoc := []; i_imports := ["typing_extensions"; ep_module (f_ep f)] (* d7df295 *);
         i_err := false |}
  | A_create_one_to_many_relationship =>
      match target_of M f with
      | Some tc =>
          let tt := tablename (c_name tc) in
          let an := o2m_association_table_name self_table (f_name f) in
          let l0 := o2m_left_fk_name self_table in
          let r0 := o2m_right_fk_name tt in
          let clash := o2m_fk_names_clash l0 r0 in
          let l := if clash then o2m_left_fk_name_on_clash l0 else l0 in
          let r := if clash then o2m_right_fk_name_on_clash r0 else r0 in
          let spk := full_primary_key_name self_table primary_key_name in
          let tpk := full_primary_key_name tt primary_key_name in
          {| i_builtin := []; i_custom := []; i_fks := [];
             i_rels := [{| rel_name := o2m_rel_name (f_name f); rel_target := tt; rel_uselist := true;
                           rel_fk := ""; rel_secondary := an;
                           rel_joins := if clash then o2m_joins_on_clash spk an l tpk r else "";
                           rel_remote := "" |}];
             i_assoc := [{| a_name := an; a_lfk := l; a_lpk := spk; a_rfk := r; a_rpk := tpk;
                            a_ltable := self_table; a_rtable := tt |}];
             i_imports := []; i_err := false |}
      | None => err_items
      end
  | A_skip => no_items
  | A_create_type_type_column | A_create_custom_type => err_items   (* not reachable for annotations of the grammar *)
  end.

(* parse_fields: the fields of the table that do not start with "_" *)
Definition parsed_fields (M : cmodel) (c : cls) : list field :=
  filter (fun f => negb (skip_private (f_name f))) (table_fields M c).

Definition quote (s : string) : string := "'" ++ s ++ "'".

Definition disc_column : column :=
  {| col_name := polymorphic_on_name; col_opt := false; col_cont := ""; col_tymod := ""; col_tyname := "str";
     col_sql := 3; col_nullable_arg := false |}.

Definition table_items (M : cmodel) (c : cls) : list items := map (parse_one M c) (parsed_fields M c).

Definition table_of (M : cmodel) (c : cls) : table :=
  let its := table_items M c in
  let par := parent_of M c in
  let tn := tablename (c_name c) in
  let has_parent := match par with Some _ => true | None => false end in
  let root := is_polymorphic_root has_parent (has_children M c) in
  {| t_cls := c_name c; t_module := c_module c; t_name := tn;
     t_base := option_map (fun p => tablename (c_name p)) par;
     t_pk := primary_key_name;
     t_pk_target := match par with Some p => full_primary_key_name (tablename (c_name p)) primary_key_name | None => "" end;
     t_builtin := flat_map i_builtin its;
     t_custom := flat_map i_custom its ++ (if root then [disc_column] else []);
     t_fks := flat_map i_fks its;
     t_rels := flat_map i_rels its;
     t_mapper :=
       (if root then mapper_args_root tn else [])
       ++ (if is_derived has_parent
           then mapper_args_derived tn
                ++ mapper_args_joined (match par with
                                       | Some p => full_primary_key_name (tablename (c_name p)) primary_key_name
                                       | None => "" end)
           else []) |}.

(* ORMatic.__post_init__ + make_all_tables + the template: [order] is wrapped_classes_in_topological_order *)
Definition gen (M : cmodel) (order : list cls) : schema :=
  {| s_imports := ["typing"; "builtins"; "krrood.ormatic.custom_types"]   (* Type.__module__, int.__module__ (fix b804898), TypeType *)
                  ++ map c_module order
                  ++ flat_map (fun c => flat_map i_imports (table_items M c)) order;
     s_assoc := flat_map (fun c => flat_map i_assoc (table_items M c)) order;
     s_tables := map (table_of M) order;
     s_error := existsb (fun c => existsb i_err (table_items M c)) order |}.

(* ---------------------------------------------------------------- (A) canonical form of a schema, for comparison
   with ORMatic's own containers after make_all_tables *)
Definition strs_set (l : list string) : sx := SL (sx_set (map str_sx l)).
Definition col_text (c : column) : string :=
  let inner := if String.eqb (col_tymod c) "" then col_tyname c else col_tymod c ++ "." ++ col_tyname c in
  if String.eqb (col_cont c) "" then inner else col_cont c ++ "[" ++ inner ++ "]".
Definition col_sx (c : column) : sx :=
  SL [str_sx (col_name c); SB (col_opt c); str_sx (col_text c); SZ (col_sql c); SB (col_nullable_arg c); strs_set (col_mods c)].
Definition fk_sx (k : fkcol) : sx := SL [str_sx (fk_name k); str_sx (fk_target k); SB (fk_opt k); strs_set (fk_mods k)].
Definition rel_sx (r : rel) : sx :=
  SL [str_sx (rel_name r); str_sx (rel_target r); SB (rel_uselist r); str_sx (rel_fk r); str_sx (rel_secondary r);
      str_sx (rel_target r); strs_set (rel_mods r); str_sx (rel_remote r); str_sx (rel_joins r)].
Definition table_sx (t : table) : sx :=
  SL [str_sx (t_cls t); str_sx (t_module t); str_sx (t_name t);
      str_sx (match t_base t with Some b => b | None => "Base" end);
      SL [str_sx (t_pk t); str_sx (t_pk_target t); strs_set ["builtins"]];
      SL (map col_sx (t_builtin t)); SL (map col_sx (t_custom t)); SL (map fk_sx (t_fks t)); SL (map rel_sx (t_rels t));
      SL (map (fun kv => SL [str_sx (fst kv); str_sx (snd kv)]) (t_mapper t))].
Definition assoc_sx (a : assoc) : sx :=
  SL [str_sx (a_name a); str_sx (a_lfk a); str_sx (a_lpk a); str_sx (a_rfk a); str_sx (a_rpk a);
      str_sx (a_ltable a); str_sx (a_rtable a)].
Definition gen_sx (s : schema) : sx :=
  SL [SB (s_error s); strs_set (s_imports s); SL (map assoc_sx (s_assoc s)); SL (map table_sx (s_tables s))].

(* ---------------------------------------------------------------- (C) what SQLAlchemy makes of a schema (compared only) *)
(* column, foreign-key and relationship attribute names of the tables above t in the DAO hierarchy *)
Fixpoint inherited_attrs (fuel : nat) (s : schema) (t : table) : list string :=
  match fuel with
  | O => []
  | S k => match t_base t with
           | None => []
           | Some b => match find (fun u => String.eqb (t_name u) b) (s_tables s) with
                       | Some u => map col_name (t_builtin u ++ t_custom u) ++ map fk_name (t_fks u)
                                   ++ map rel_name (t_rels u) (* 84214c3 *) ++ inherited_attrs k s u
                       | None => []
                       end
           end
  end.

(* relationship names of the tables above t: SQLAlchemy refuses a column of t that is named like one of them *)
Fixpoint inherited_rels (fuel : nat) (s : schema) (t : table) : list string :=
  match fuel with
  | O => []
  | S k => match t_base t with
           | None => []
           | Some b => match find (fun u => String.eqb (t_name u) b) (s_tables s) with
                       | Some u => map rel_name (t_rels u) ++ inherited_rels k s u
                       | None => []
                       end
           end
  end.
Definition wf_no_inherited_rel_clash (s : schema) : bool :=
  forallb (fun t => negb (existsb (fun n => str_in n (inherited_rels (S (List.length (s_tables s))) s t))
                                  (map col_name (t_builtin t ++ t_custom t) ++ map fk_name (t_fks t)))) (s_tables s).

Inductive attr := AtPk | AtCol (c : column) | AtFk (k : fkcol) | AtRel (r : rel).
Definition attrs_of (t : table) : list (string * attr) :=
  [(t_pk t, AtPk)] ++ map (fun c => (col_name c, AtCol c)) (t_builtin t ++ t_custom t)
  ++ map (fun k => (fk_name k, AtFk k)) (t_fks t) ++ map (fun r => (rel_name r, AtRel r)) (t_rels t).
(* a class body: a later assignment to a name replaces the earlier one *)
Fixpoint last_wins (l : list (string * attr)) : list (string * attr) :=
  match l with
  | [] => []
  | (n, a) :: r => if str_in n (map fst r) then last_wins r else (n, a) :: last_wins r
  end.

Definition cls_of_table (s : schema) (tn : string) : string :=
  match find (fun t => String.eqb (t_name t) tn) (s_tables s) with Some t => t_cls t | None => "?" ++ tn end.

Fixpoint root_has_disc (fuel : nat) (s : schema) (t : table) : bool :=
  match fuel with
  | O => false
  | S k => match t_base t with
           | None => str_in "'polymorphic_on'" (map fst (t_mapper t))
           | Some b => match find (fun u => String.eqb (t_name u) b) (s_tables s) with
                       | Some u => root_has_disc k s u
                       | None => false
                       end
           end
  end.

Definition class_obs (s : schema) (t : table) : sx :=
  let at_ := last_wins (attrs_of t) in
  let fks := flat_map (fun na => match snd na with AtFk k => [k] | _ => [] end) at_ in
  let rels := flat_map (fun na => match snd na with AtRel r => [r] | _ => [] end) at_ in
  let is_root_disc := str_in "'polymorphic_on'" (map fst (t_mapper t)) in
  let cols := flat_map (fun na => match snd na with
                                  | AtCol c => if is_root_disc && String.eqb (col_name c) polymorphic_on_name then []
                                               else [SL [str_sx (col_name c); SZ (col_code c);
                                                         str_sx (if Z.eqb (col_code c) 6 then col_tyname c else "");
                                                         SB (col_nullable c)]]
                                  | _ => [] end) at_ in
  let refs := flat_map (fun r => if rel_uselist r then [] else
                 [SL [str_sx (rel_name r); str_sx (cls_of_table s (rel_target r));
                      SB (existsb (fun k => String.eqb (fk_name k) (rel_fk r)
                                            && String.eqb (fk_target k) (rel_target r ++ "." ++ t_pk t)) fks)]]) rels in
  let colls := flat_map (fun r => if rel_uselist r then
                 [SL [str_sx (rel_name r); str_sx (cls_of_table s (rel_target r));
                      SB (existsb (fun a => String.eqb (a_name a) (rel_secondary r)
                                            && String.eqb (a_lpk a) (t_name t ++ "." ++ t_pk t)
                                            && String.eqb (a_rpk a) (rel_target r ++ "." ++ t_pk t)
                                            && negb (String.eqb (a_lfk a) (a_rfk a))) (s_assoc s))]] else []) rels in
  let stray := flat_map (fun k => if existsb (fun r => negb (rel_uselist r) && String.eqb (rel_fk r) (fk_name k)) rels
                                  then [] else [str_sx (fk_name k)]) fks in
  SL [ str_sx (t_cls t);
       str_sx (match t_base t with Some b => cls_of_table s b | None => "" end);
       SB (root_has_disc (S (List.length (s_tables s))) s t);
       SZ (match find (fun kv => String.eqb (fst kv) "'polymorphic_identity'") (t_mapper t) with
           | Some kv => if String.eqb (snd kv) (quote (t_name t)) then 1 else 0
           | None => 2 end);
       SZ 1;
       SL (sx_sort cols); SL (sx_sort refs); SL (sx_sort colls);
       (* SQLAlchemy combines a column of this table with a like-named column of an ancestor's table under one attribute *)
       SL (sx_sort (stray ++ flat_map (fun na => match snd na with
                                                  | AtCol _ | AtFk _ =>
                                                      if str_in (fst na) (inherited_attrs (S (List.length (s_tables s))) s t)
                                                      then [str_sx ("&" ++ fst na)] else []
                                                  | _ => [] end) at_)) ].

Definition pk_survives (t : table) : bool :=
  match find (fun na => String.eqb (fst na) (t_pk t)) (last_wins (attrs_of t)) with
  | Some (_, AtPk) => true
  | _ => false
  end.

(* import / configure_mappers / create_all go through *)
Definition accepts (s : schema) : bool :=
  negb (s_error s) && wf_attrs_not_reserved s && wf_table_names_unique s && wf_fk_targets s
  && wf_assoc_columns s && wf_imports s && wf_bases_first [] (s_tables s) && forallb pk_survives (s_tables s)
  && wf_no_inherited_rel_clash s.

Definition unused_assoc (s : schema) : list sx :=
  flat_map (fun a => if existsb (fun t => existsb (fun na => match snd na with
                                                            | AtRel r => String.eqb (rel_secondary r) (a_name a)
                                                            | _ => false end) (last_wins (attrs_of t))) (s_tables s)
                     then [] else [str_sx (a_name a)]) (s_assoc s).

(* ORMatic._check_generated_names (bd9b8e0): the same table name twice, the same attribute of a DAO twice, or `metadata` *)
Definition refused (s : schema) : bool :=
  negb (str_nodup (table_names s ++ map a_name (s_assoc s)))
  || existsb (fun t => negb (str_nodup (attr_names t)) || str_in "metadata" (attr_names t)
                       (* 5e556b1: or named like a column of an ancestor's table *)
                       || existsb (fun n => str_in n (inherited_attrs (S (List.length (s_tables s))) s t)) (attr_names t))
             (s_tables s).

Definition model_obs (s : schema) : sx :=
  if refused s then SL [SZ 2] else
  if accepts s then SL [SZ 1; SL (sx_sort (map (class_obs s) (s_tables s))); SL (sx_sort (unused_assoc s))]
  else SL [SZ 0].

(* entry points of the correspondence check *)
Definition order_of (M : cmodel) (names : list string) : list cls :=
  flat_map (fun n => match find_cls M n with Some c => [c] | None => [] end) names.
Definition is_topo_b (M : cmodel) (order : list cls) : bool :=
  str_nodup (map c_name order) && parents_first M [] order && graph_parents_first M [] order
  && str_subset (map c_name order) (class_names M) && str_subset (class_names M) (map c_name order).

Definition case_gen (M : cmodel) (names : list string) : sx := gen_sx (gen M (order_of M names)).
Definition case_obs (M : cmodel) (names : list string) : sx := model_obs (gen M (order_of M names)).
Definition case_spec (M : cmodel) : sx := spec_obs_r tablename o2m_association_table_name M.
Definition case_info (M : cmodel) (names : list string) : sx :=
  SL [SB (wfM M); SB (is_topo_b M (order_of M names)); SB ((schema_wf (gen M (order_of M names)) && wf_no_inherited_rel_clash (gen M (order_of M names))) || refused (gen M (order_of M names)))].
