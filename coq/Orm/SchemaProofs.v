(* C06 proofs, part 1: inherited-field elimination, per-field coverage, one DAO per class, inheritance mirrored. *)
From Coq Require Import List String Ascii Bool ZArith Arith Lia Permutation.
From Krrood Require Import Base.Sx Orm.SchemaStr Orm.SchemaSpec Gen.ParseField Orm.Schema.
Import ListNotations.
Open Scope string_scope.
Open Scope nat_scope.
Open Scope list_scope.

(* ------------------------------------------------------------------ small list facts *)
Lemma filter_true {A} (l : list A) : filter (fun _ => true) l = l.
Proof. induction l; simpl; congruence. Qed.

Lemma filter_filter {A} (p q : A -> bool) l : filter p (filter q l) = filter (fun x => q x && p x) l.
Proof. induction l as [|a l IH]; simpl; auto. destruct (q a); simpl; [destruct (p a)|]; simpl; congruence. Qed.

Lemma filter_none {A} (p : A -> bool) l : (forall x, In x l -> p x = false) -> filter p l = [].
Proof.
  induction l as [|a l IH]; simpl; intros H; auto. rewrite (H a) by auto. apply IH. intros; apply H; auto.
Qed.

Lemma find_some_name (M : cmodel) n c : find_cls M n = Some c -> In c M /\ c_name c = n.
Proof. unfold find_cls. intros H. apply find_some in H. destruct H as [H1 H2]. apply String.eqb_eq in H2. auto. Qed.

Lemma parent_in M c p : parent_of M c = Some p -> In p M /\ In (c_name p) (c_bases c).
Proof.
  unfold parent_of. intros H.
  assert (In p (flat_map (fun b => match find_cls M b with Some p => [p] | None => [] end) (c_bases c))).
  { destruct (flat_map _ _); [discriminate|]. injection H as ->. left; auto. }
  apply in_flat_map in H0. destruct H0 as [b [Hb Hp]].
  destruct (find_cls M b) eqn:E; [|destruct Hp]. destruct Hp as [->|[]].
  apply find_some_name in E. destruct E as [E1 E2]. subst. auto.
Qed.

(* ------------------------------------------------------------------ fuel independence *)
Section Fuel.
  Variable M : cmodel.

  Lemma ancestors_fuel k : forall c, terminates k M c = true -> forall k', k <= k' -> ancestors k' M c = ancestors k M c.
  Proof.
    induction k as [|k IH]; intros c H k' Hk; simpl in H; [discriminate|].
    destruct k' as [|k']; [lia|]. simpl. destruct (parent_of M c) as [p|]; auto.
    f_equal. apply IH; auto. lia.
  Qed.

  Lemma dc_fields_fuel k : forall c, terminates k M c = true -> forall k', k <= k' -> dc_fields k' M c = dc_fields k M c.
  Proof.
    induction k as [|k IH]; intros c H k' Hk; simpl in H; [discriminate|].
    destruct k' as [|k']; [lia|]. simpl. destruct (parent_of M c) as [p|]; auto.
    f_equal. apply IH; auto. lia.
  Qed.

  Lemma terminates_mono k : forall c, terminates k M c = true -> forall k', k <= k' -> terminates k' M c = true.
  Proof.
    induction k as [|k IH]; intros c H k' Hk; simpl in H; [discriminate|].
    destruct k' as [|k']; [lia|]. simpl. destruct (parent_of M c) as [p|]; auto. apply IH; auto. lia.
  Qed.
End Fuel.

(* ------------------------------------------------------------------ names of merged dataclass fields *)
Definition pub (f : field) : bool := negb (skip_private (f_name f)).

Lemma pub_is_public f : pub f = is_public f.
Proof. reflexivity. Qed.

Definition upd (own : list field) (b : field) : field :=
  match find (fun f => String.eqb (f_name f) (f_name b)) own with Some f => f | None => b end.

Lemma upd_name own b : f_name (upd own b) = f_name b.
Proof.
  unfold upd. destruct (find _ own) eqn:E; auto. apply find_some in E. destruct E as [_ E]. now apply String.eqb_eq in E.
Qed.

Lemma merge_fields_eq base own :
  merge_fields base own = map (upd own) base ++ filter (fun f => negb (str_in (f_name f) (field_names base))) own.
Proof. reflexivity. Qed.

Lemma names_map_upd own base : field_names (map (upd own) base) = field_names base.
Proof. unfold field_names. rewrite map_map. apply map_ext. intros; apply upd_name. Qed.

Lemma pub_by_name f g : f_name f = f_name g -> pub f = pub g.
Proof. unfold pub. now intros ->. Qed.

Lemma names_filter_pub_map_upd own base :
  field_names (filter pub (map (upd own) base)) = field_names (filter pub base).
Proof.
  induction base as [|b base IH]; simpl; auto.
  rewrite (pub_by_name _ _ (upd_name own b)). destruct (pub b); simpl; rewrite ?upd_name; congruence.
Qed.

Lemma in_names_filter_pub x l : In x (field_names (filter pub l)) <-> In x (field_names l) /\ negb (skip_private x) = true.
Proof.
  unfold field_names. rewrite !in_map_iff. split.
  - intros [f [<- Hf]]. apply filter_In in Hf. destruct Hf. split; eauto.
  - intros [[f [<- Hf]] Hp]. exists f. split; auto. apply filter_In. auto.
Qed.

(* ------------------------------------------------------------------ inherited-field elimination *)
Section Elim.
  Variable M : cmodel.
  Variable n : nat.
  Hypothesis Hterm : forall c, In c M -> terminates n M c = true.

  Lemma ancestors_step c : In c M ->
    ancestors n M c = match parent_of M c with Some p => p :: ancestors n M p | None => [] end.
  Proof.
    intros Hc. pose proof (Hterm c Hc) as H. destruct n as [|k]; [discriminate|].
    change (ancestors (S k) M c) with (match parent_of M c with Some p => p :: ancestors k M p | None => [] end).
    simpl in H. destruct (parent_of M c) as [p|]; auto. f_equal. symmetry. apply ancestors_fuel; auto.
  Qed.

  Lemma dc_fields_step c : In c M ->
    dc_fields n M c = match parent_of M c with Some p => merge_fields (dc_fields n M p) (c_fields c) | None => c_fields c end.
  Proof.
    intros Hc. pose proof (Hterm c Hc) as H. destruct n as [|k]; [discriminate|].
    change (dc_fields (S k) M c) with (match parent_of M c with Some p => merge_fields (dc_fields k M p) (c_fields c) | None => c_fields c end).
    simpl in H. destruct (parent_of M c) as [p|]; auto. f_equal. symmetry. apply dc_fields_fuel; auto.
  Qed.

  Definition decl_inh (c : cls) : list string := flat_map (fun p => field_names (c_fields p)) (ancestors n M c).
  Definition decl_up (c : cls) : list string := field_names (c_fields c) ++ decl_inh c.

  Lemma decl_inh_step c : In c M ->
    decl_inh c = match parent_of M c with Some p => decl_up p | None => [] end.
  Proof.
    intros Hc. unfold decl_inh. rewrite (ancestors_step c Hc). destruct (parent_of M c); reflexivity.
  Qed.

  (* the names of the dataclass fields of c are the names declared by c or by one of its ancestors *)
  Lemma dc_names k : forall c x, In c M -> terminates k M c = true ->
    (In x (field_names (dc_fields n M c)) <-> In x (decl_up c)).
  Proof.
    induction k as [|k IH]; intros c x Hc H; simpl in H; [discriminate|].
    unfold decl_up. rewrite (decl_inh_step c Hc), (dc_fields_step c Hc).
    destruct (parent_of M c) as [p|] eqn:P.
    - destruct (parent_in _ _ _ P) as [Hp _].
      rewrite merge_fields_eq. unfold field_names at 1. rewrite map_app.
      fold (field_names (map (upd (c_fields c)) (dc_fields n M p))).
      rewrite names_map_upd. rewrite !in_app_iff. specialize (IH p x Hp H). split.
      + intros [A|A].
        * right. now apply IH.
        * left. apply in_map_iff in A. destruct A as [f [<- Hf]]. apply filter_In in Hf. apply in_map. tauto.
      + intros [A|A].
        * destruct (str_in x (field_names (dc_fields n M p))) eqn:E.
          -- left. now apply str_in_In.
          -- right. apply in_map_iff in A. destruct A as [f [<- Hf]]. apply in_map. apply filter_In. split; auto.
             now rewrite E.
        * left. now apply IH.
    - rewrite app_nil_r. tauto.
  Qed.

  (* what an ancestor declares or inherits is inherited *)
  Lemma decl_up_ancestor k : forall c a, In c M -> terminates k M c = true -> In a (ancestors n M c) ->
    In a M /\ incl (decl_up a) (decl_inh c).
  Proof.
    induction k as [|k IH]; intros c a Hc H Ha; simpl in H; [discriminate|].
    rewrite (ancestors_step c Hc) in Ha. rewrite (decl_inh_step c Hc).
    destruct (parent_of M c) as [p|] eqn:P; [|destruct Ha].
    destruct (parent_in _ _ _ P) as [Hp _]. destruct Ha as [<-|Ha].
    - split; auto. apply incl_refl.
    - destruct (IH p a Hp H Ha) as [Ha' I]. split; auto.
      intros x Hx. unfold decl_up. apply in_app_iff. right. now apply I.
  Qed.

  (* WrappedTable.fields followed by the private-field test = the public fields the class declares itself *)
  Lemma parsed_fields_own_gen c : In c M ->
    filter pub (filter (fun f => negb (str_in (f_name f) (flat_map (fun p => field_names (filter pub (dc_fields n M p))) (ancestors n M c))))
                       (filter pub (dc_fields n M c)))
    = filter is_public (filter (fun f => negb (str_in (f_name f) (decl_inh c))) (c_fields c)).
  Proof.
    intros Hc. pose proof (Hterm c Hc) as HT.
    rewrite (ancestors_step c Hc), (dc_fields_step c Hc), (decl_inh_step c Hc).
    destruct (parent_of M c) as [p|] eqn:P.
    - destruct (parent_in _ _ _ P) as [Hp _]. pose proof (Hterm p Hp) as HTp.
      simpl flat_map. rewrite merge_fields_eq, !filter_app.
      set (B := dc_fields n M p).
      set (INH := field_names (filter pub B) ++ flat_map (fun p0 => field_names (filter pub (dc_fields n M p0))) (ancestors n M p)).
      (* the inherited part disappears *)
      assert (E1 : filter (fun f => negb (str_in (f_name f) INH)) (filter pub (map (upd (c_fields c)) B)) = []).
      { apply filter_none. intros f Hf. apply negb_false_iff, str_in_In. unfold INH. apply in_app_iff. left.
        rewrite <- (names_filter_pub_map_upd (c_fields c) B). now apply in_map. }
      rewrite E1. simpl app.
      rewrite !filter_filter. apply filter_ext_in. intros f Hf.
      rewrite <- (pub_is_public f). destruct (pub f) eqn:PF; [|rewrite !andb_false_r; reflexivity].
      rewrite !andb_true_r, andb_true_l.
      (* for a public name: not in B's names, not inherited (model)  <->  not declared up the chain (spec) *)
      assert (K : str_in (f_name f) (field_names B) || str_in (f_name f) INH = str_in (f_name f) (decl_up p)).
      { apply eq_true_iff_eq. rewrite orb_true_iff, !str_in_In. unfold INH. rewrite in_app_iff.
        rewrite <- (dc_names n p (f_name f) Hp HTp). fold B. split.
        - intros [A|[A|A]]; auto.
          + apply in_names_filter_pub in A. tauto.
          + apply in_flat_map in A. destruct A as [a [Ha A]]. apply in_names_filter_pub in A. destruct A as [A _].
            destruct (decl_up_ancestor n p a Hp HTp Ha) as [Ha' I].
            apply (dc_names n a _ Ha' (Hterm a Ha')) in A. apply I in A.
            apply (dc_names n p _ Hp HTp). unfold decl_up. apply in_app_iff. auto.
        - intros A. auto. }
      rewrite <- K. destruct (str_in (f_name f) (field_names B)); destruct (str_in (f_name f) INH); reflexivity.
    - simpl flat_map. rewrite !filter_filter. apply filter_ext. intros f. rewrite <- (pub_is_public f).
      destruct (pub f); reflexivity.
  Qed.
End Elim.

Theorem parsed_fields_own M c : wfM M = true -> In c M -> parsed_fields M c = own_public_fields M c.
Proof.
  intros W Hc. unfold parsed_fields, table_fields, discover, own_public_fields, own_fields.
  apply (parsed_fields_own_gen M (List.length M)); auto.
  intros d Hd. unfold wfM in W. apply andb_true_iff in W. destruct W as [_ W].
  rewrite forallb_forall in W. specialize (W d Hd). unfold wf_class in W.
  repeat (apply andb_true_iff in W; destruct W as [W ?]). auto.
Qed.
