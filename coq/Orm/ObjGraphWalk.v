(* ObjGraphWalk: the memoised depth-first conversion that both directions of dao.py implement.

   dao.py, DataAccessObject.to_dao (l.380-438)            dao.py, DataAccessObject.from_dao (l.659-700)
     existing = state.get_existing(obj) -> return            if state.has(self): return state.get(self)
     dao_obj = alternative mapping's create_instance(obj)    result = allocate_and_memoize (memo[id(self)] = result,
     result = cls(); state.register(obj, result)                       keep_alive[id(self)] = self, in_progress[id(self)] = True)
     columns; for each relationship, in order:               scalar kwargs; for each relationship, in order:
       None | to_dao(value) | [to_dao(v) for v in value]       parse_single / parse_collection -> from_dao(v)
     (fields of result are written)                          _build_base_kwargs_for_alternative_parent (DAO below an alternatively
                                                                 mapped DAO: a temporary parent DAO is converted and dropped)
                                                             result.__init__ of kwargs; apply_circular_fixes (re-read memo)
                                                             if isinstance(result, AlternativeMapping):
                                                                 result = result.create_from_dao(); memo[id(self)] = result
                                                             del in_progress[id(self)]

   The walk is parameterised by what differs:
   [p_obj]   class and scalars of the allocated result (to_dao: DAO class of the class or of its mapping class, scalars as user
             code create_instance produced them; from_dao: the wrapped class / the mapping class, DAO columns);
   [p_late]  Some (c', sc'): the allocated result is a MAPPING object; create_from_dao() builds a NEW object of class c' with
             scalars sc' and the same references, and the memo entry is overwritten AFTER everything that looked it up ran;
   [p_extra] addresses allocated and dropped (the mapping object and the parent object of the temporary parent conversion);
   [p_refix] apply_circular_fixes re-reads every relationship value from the memo after initialisation;
   [p_keep]  the state pins every memoised source object (ToDAOState.keep_alive; FromDAOState.keep_alive since 32013a0).
   [prog] is FromDAOState.in_progress (for to_dao: the recursion stack); [bad] records that a memo hit handed out a mapping
   object that was still in progress -- "a cycle first entered at an alternatively mapped object" (finding C04-a).
   Memo tables are association lists keyed by address (id()); fresh addresses come from [nxt]; recursion is on fuel. *)
From Coq Require Import List ZArith Bool Lia Arith PeanoNat.
From Krrood Require Import Orm.ObjGraph.
Import ListNotations.

Record params := mkParams {
  p_obj : Z -> list Z -> Z * list Z;
  p_late : Z -> list Z -> option (Z * list Z);
  p_extra : Z -> nat;
  p_refix : bool;
  p_keep : bool
}.

Record st := mkSt { memo : list (addr * addr); dst : heap; nxt : addr; keep : list addr; prog : list addr; bad : bool }.
Definition st0 : st := mkSt [] empty_heap 0 [] [] false.
Definition mlook (a : addr) (s : st) : option addr := assoc a (memo s).

Definition is_late (P : params) (o : obj) : bool :=
  match p_late P (ocls o) (oscal o) with Some _ => true | None => false end.

(* del in_progress[id] *)
Fixpoint remove_addr (a : addr) (l : list addr) : list addr :=
  match l with
  | [] => []
  | x :: t => if Nat.eqb x a then remove_addr a t else x :: remove_addr a t
  end.

Section Walk.
  Variable P : params.
  Variable src : heap.

  Definition lateb (a : addr) : bool := match src a with Some o => is_late P o | None => false end.

  (* [to_dao(v) for v in value] / parse_collection: left to right, threading the state *)
  Fixpoint walk_list (rec : addr -> st -> option (addr * st)) (l : list addr) (s : st) : option (list addr * st) :=
    match l with
    | [] => Some ([], s)
    | k :: t =>
        match rec k s with
        | None => None
        | Some (d, s1) =>
            match walk_list rec t s1 with
            | None => None
            | Some (ds, s2) => Some (d :: ds, s2)
            end
        end
    end.

  (* for relationship in mapper.relationships: ... *)
  Fixpoint walk_flds (rec : addr -> st -> option (addr * st)) (fl : list fld) (s : st) : option (list fld * st) :=
    match fl with
    | [] => Some ([], s)
    | (t, l) :: rest =>
        match walk_list rec l s with
        | None => None
        | Some (ds, s1) =>
            match walk_flds rec rest s1 with
            | None => None
            | Some (fs, s2) => Some ((t, ds) :: fs, s2)
            end
        end
    end.

  (* apply_circular_fixes: setattr(result, key, memo.get(id(v))) for every value (every value counts as circular,
     because `parsed is self.memo.get(id(value))` holds whenever from_dao has returned) *)
  Fixpoint refix_list (s : st) (l l' : list addr) : list addr :=
    match l, l' with
    | k :: t, d :: t' => (match mlook k s with Some d2 => d2 | None => d end) :: refix_list s t t'
    | _, _ => []
    end.
  Fixpoint refix_flds (s : st) (fl fl' : list fld) : list fld :=
    match fl, fl' with
    | (_, l) :: r, (t', l') :: r' => (t', refix_list s l l') :: refix_flds s r r'
    | _, _ => []
    end.

  Fixpoint walk (fuel : nat) (a : addr) (s : st) : option (addr * st) :=
    match fuel with
    | O => None
    | S f =>
        match mlook a s with
        | Some d =>                                                (* memo hit: possibly an object still in progress *)
            Some (d, mkSt (memo s) (dst s) (nxt s) (keep s) (prog s) (bad s || (memb a (prog s) && lateb a)))
        | None =>
            match src a with
            | None => None
            | Some o =>
                let d := nxt s in                                  (* cls() / original_class.__new__ *)
                let s1 := mkSt ((a, d) :: memo s) (dst s) (S d)    (* register BEFORE descending; keep_alive[id] = obj *)
                               (if p_keep P then a :: keep s else keep s) (a :: prog s) (bad s) in
                match walk_flds (walk f) (oflds o) s1 with
                | None => None
                | Some (fl, s2) =>
                    let fl' := if p_refix P then refix_flds s2 (oflds o) fl else fl in
                    let cs := p_obj P (ocls o) (oscal o) in
                    let n3 := nxt s2 + p_extra P (ocls o) in       (* temporary parent conversion: allocated and dropped *)
                    let pr := remove_addr a (prog s2) in
                    match p_late P (ocls o) (oscal o) with
                    | None => Some (d, mkSt (memo s2) (upd (dst s2) d (mkObj (fst cs) (snd cs) fl')) n3 (keep s2) pr (bad s2))
                    | Some cs' =>                                  (* create_from_dao(): a NEW object; memo updated last *)
                        Some (n3, mkSt ((a, n3) :: memo s2)
                                       (upd (upd (dst s2) d (mkObj (fst cs) (snd cs) fl')) n3 (mkObj (fst cs') (snd cs') fl'))
                                       (S n3) (keep s2) pr (bad s2))
                    end
                end
            end
        end
    end.
End Walk.

(* the finite listing of a destination heap (addresses 0 .. nxt-1) *)
Definition listing (s : st) : list (option obj) := map (dst s) (seq 0 (nxt s)).
