(* ObjGraphWalk: the memoised depth-first conversion that both directions of dao.py implement.

   dao.py, DataAccessObject.to_dao (l.380-438)            dao.py, DataAccessObject.from_dao (l.659-700)
     existing = state.get_existing(obj) -> return            if state.has(self): return state.get(self)
     result = cls(); state.register(obj, result)             result = allocate_and_memoize (memo[id(self)] = result)
     columns; for each relationship, in order:               scalar kwargs; for each relationship, in order:
       None | to_dao(value) | [to_dao(v) for v in value]       parse_single / parse_collection -> from_dao(v)
     (fields of result are written)                          result.__init__ of kwargs; apply_circular_fixes (re-read memo)
                                                             if isinstance(result, AlternativeMapping):
                                                                 result = result.create_from_dao(); memo[id(self)] = result

   The walk is parameterised by what differs: the class map, whether the circular fix-up re-reads the memo
   after initialisation ([p_refix]), and the late replacement of a mapping object by the object its
   create_from_dao() builds ([p_late]; the memo entry is overwritten AFTER everything that looked it up ran).
   Memo tables are association lists keyed by address (id()); the destination heap is written when the
   object is initialised; fresh addresses come from the counter [nxt].  Recursion is on explicit fuel. *)
From Coq Require Import List ZArith Bool Lia Arith PeanoNat.
From Krrood Require Import Orm.ObjGraph.
Import ListNotations.

Record params := mkParams {
  p_cmap : Z -> Z;             (* class of the allocated result for a source object of this class *)
  p_late : Z -> option Z;      (* Some c: the allocated result is a mapping object, replaced at the end by a new object of class c *)
  p_refix : bool;              (* apply_circular_fixes: re-read every relationship value from the memo after initialisation *)
  p_keep : bool                (* the state pins every memoised source object (ToDAOState.keep_alive; FromDAOState.keep_alive
                                  since repo commit 32013a0): its address cannot be recycled while the memo refers to it *)
}.

Record st := mkSt { memo : list (addr * addr); dst : heap; nxt : addr; keep : list addr }.
Definition st0 : st := mkSt [] empty_heap 0 [].
Definition mlook (a : addr) (s : st) : option addr := assoc a (memo s).

Section Walk.
  Variable P : params.
  Variable src : heap.

  (* [to_dao(v) for v in value] / parse_collection: left to right, threading the state *)
  Fixpoint walk_list (rec : addr -> st -> option (addr * st)) (l : list addr) (s : st) : option (list addr * st) :=
    match l with
    | [] => Some ([], s)
    | k :: t =>
        match rec k s with
        | None => None
        | Some (d, s1) =>
            match walk_list rec t s1 with
            | None => None
            | Some (ds, s2) => Some (d :: ds, s2)
            end
        end
    end.

  (* for relationship in mapper.relationships: ... *)
  Fixpoint walk_flds (rec : addr -> st -> option (addr * st)) (fl : list fld) (s : st) : option (list fld * st) :=
    match fl with
    | [] => Some ([], s)
    | (t, l) :: rest =>
        match walk_list rec l s with
        | None => None
        | Some (ds, s1) =>
            match walk_flds rec rest s1 with
            | None => None
            | Some (fs, s2) => Some ((t, ds) :: fs, s2)
            end
        end
    end.

  (* apply_circular_fixes: setattr(result, key, memo.get(id(v))) for every value (every value counts as circular,
     because `parsed is self.memo.get(id(value))` holds whenever from_dao has returned) *)
  Fixpoint refix_list (s : st) (l l' : list addr) : list addr :=
    match l, l' with
    | k :: t, d :: t' => (match mlook k s with Some d2 => d2 | None => d end) :: refix_list s t t'
    | _, _ => []
    end.
  Fixpoint refix_flds (s : st) (fl fl' : list fld) : list fld :=
    match fl, fl' with
    | (_, l) :: r, (t', l') :: r' => (t', refix_list s l l') :: refix_flds s r r'
    | _, _ => []
    end.

  Fixpoint walk (fuel : nat) (a : addr) (s : st) : option (addr * st) :=
    match fuel with
    | O => None
    | S f =>
        match mlook a s with
        | Some d => Some (d, s)                                   (* memo hit: possibly an object still in progress *)
        | None =>
            match src a with
            | None => None
            | Some o =>
                let d := nxt s in                                  (* cls() / original_class.__new__ *)
                let s1 := mkSt ((a, d) :: memo s) (dst s) (S d)            (* register BEFORE descending; keep_alive[id] = obj *)
                               (if p_keep P then a :: keep s else keep s) in
                match walk_flds (walk f) (oflds o) s1 with
                | None => None
                | Some (fl, s2) =>
                    let fl' := if p_refix P then refix_flds s2 (oflds o) fl else fl in
                    let c := p_cmap P (ocls o) in
                    let s3 := mkSt (memo s2) (upd (dst s2) d (mkObj c (oscal o) fl')) (nxt s2) (keep s2) in
                    match p_late P c with
                    | None => Some (d, s3)
                    | Some c' =>                                   (* create_from_dao(): a NEW object; memo updated last *)
                        let d' := nxt s3 in
                        Some (d', mkSt ((a, d') :: memo s3) (upd (dst s3) d' (mkObj c' (oscal o) fl')) (S d') (keep s3))
                    end
                end
            end
        end
    end.
End Walk.

(* the finite listing of a destination heap (addresses 0 .. nxt-1) *)
Definition listing (s : st) : list (option obj) := map (dst s) (seq 0 (nxt s)).
