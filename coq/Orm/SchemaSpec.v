(* C06 Spec.  Vocabulary (class models, generated schemas), the reading of a class model that the property
   statement prescribes (what each annotation calls for), and the static well-formedness a generated layer needs so
   that it can be imported, its mappers configured and its tables created.
   Nothing here depends on the model of ORMatic (Orm/Schema.v) or on the translated code (Gen/ParseField.v). *)
From Coq Require Import List String Ascii Bool ZArith.
From Krrood Require Import Base.Sx Orm.SchemaStr.
Import ListNotations.
Open Scope string_scope.

(* ---------------------------------------------------------------- class models (the documented grammar) *)
Inductive bty := BInt | BFloat | BStr | BBool | BDatetime.
Inductive endpoint :=
| EB (b : bty)                          (* int float str bool datetime *)
| EEnum (module name : string)          (* an enum.Enum subclass *)
| ECls (name : string).                 (* a dataclass, by name *)
Inductive shape := SPlain | SOpt | SList | SSet.   (* T | Optional[T] | List[T] | Set[T] *)

Record field := { f_name : string; f_shape : shape; f_ep : endpoint; f_default : bool }.
(* c_bases: the names of the classes on the MRO after the class itself (linear in the supported grammar), nearest first;
   names that are not classes of the model are unmapped intermediate classes (which declare no fields) *)
Record cls := { c_name : string; c_module : string; c_bases : list string; c_fields : list field }.
Definition cmodel := list cls.

Definition find_cls (M : cmodel) (n : string) : option cls := find (fun c => String.eqb (c_name c) n) M.
Definition is_mapped (M : cmodel) (n : string) : bool := match find_cls M n with Some _ => true | None => false end.
Definition class_names (M : cmodel) : list string := map c_name M.
Definition field_names (fs : list field) : list string := map f_name fs.
Definition is_public (f : field) : bool := negb (prefix "_" (f_name f)).

(* the parent: the first class on the MRO that is itself part of the model (unmapped intermediate classes are skipped) *)
Definition parent_of (M : cmodel) (c : cls) : option cls :=
  match flat_map (fun b => match find_cls M b with Some p => [p] | None => [] end) (c_bases c) with
  | p :: _ => Some p
  | [] => None
  end.

Fixpoint ancestors (fuel : nat) (M : cmodel) (c : cls) : list cls :=
  match fuel with
  | O => []
  | S k => match parent_of M c with Some p => p :: ancestors k M p | None => [] end
  end.

(* walking up from c reaches a root within [fuel] steps (Python class hierarchies are acyclic) *)
Fixpoint terminates (fuel : nat) (M : cmodel) (c : cls) : bool :=
  match fuel with
  | O => false
  | S k => match parent_of M c with Some p => terminates k M p | None => true end
  end.

Definition has_children (M : cmodel) (c : cls) : bool :=
  existsb (fun d => match parent_of M d with Some p => String.eqb (c_name p) (c_name c) | None => false end) M.

(* fields a class declares itself and does not merely inherit / override *)
Definition own_fields (M : cmodel) (c : cls) : list field :=
  let inh := flat_map (fun p => field_names (c_fields p)) (ancestors (List.length M) M c) in
  filter (fun f => negb (str_in (f_name f) inh)) (c_fields c).
Definition own_public_fields (M : cmodel) (c : cls) : list field := filter is_public (own_fields M c).

(* ---------------------------------------------------------------- what an annotation calls for *)
Inductive kind :=
| KColumn (code : Z) (enum : string) (nullable : bool)   (* scalar / enum / datetime column; JSON list column *)
| KRef (target : string)                                 (* reference to a mapped class *)
| KColl (target : string)                                (* collection of a mapped class *)
| KNone.                                                 (* outside the supported grammar *)

Definition bcode (b : bty) : Z := match b with BInt => 1 | BFloat => 2 | BStr => 3 | BBool => 4 | BDatetime => 5 end.
Definition json_elem (b : bty) : bool := match b with BDatetime => false | _ => true end.
Definition is_coll (s : shape) : bool := match s with SList | SSet => true | _ => false end.
Definition is_opt (s : shape) : bool := match s with SOpt => true | _ => false end.

Definition kind_of (M : cmodel) (f : field) : kind :=
  match f_ep f, is_coll (f_shape f) with
  | EB b, false => KColumn (bcode b) "" (is_opt (f_shape f))
  | EEnum m n, false => if String.eqb m "builtins" || String.eqb m "datetime" then KNone   (* no user enum lives there *)
                        else KColumn 6 n (is_opt (f_shape f))
  | EB b, true => if json_elem b then KColumn 7 "" false else KNone
  | EEnum _ _, true => KNone
  | ECls t, false => if is_mapped M t then KRef t else KNone
  | ECls t, true => if is_mapped M t then KColl t else KNone
  end.

(* the supported grammar *)
Definition field_in_grammar (M : cmodel) (f : field) : bool :=
  match kind_of M f with KNone => false | _ => true end.

Definition wf_class (M : cmodel) (c : cls) : bool :=
  str_nodup (field_names (c_fields c))
  && forallb (field_in_grammar M) (c_fields c)
  && terminates (List.length M) M c.

Definition wfM (M : cmodel) : bool :=
  str_nodup (class_names M) && forallb (wf_class M) M.

(* an emission order: a listing of the classes of M in which every parent precedes its children *)
Fixpoint parents_first (M : cmodel) (seen : list string) (order : list cls) : bool :=
  match order with
  | [] => true
  | c :: r => match parent_of M c with Some p => str_in (c_name p) seen | None => true end
              && parents_first M (c_name c :: seen) r
  end.
(* what ORMatic's inheritance graph orders: only the edge from a class to its DIRECT base, when that base is mapped *)
Definition direct_parent (M : cmodel) (c : cls) : option cls :=
  match c_bases c with b :: _ => find_cls M b | [] => None end.
Fixpoint direct_parents_first (M : cmodel) (seen : list string) (order : list cls) : bool :=
  match order with
  | [] => true
  | c :: r => match direct_parent M c with Some p => str_in (c_name p) seen | None => true end
              && direct_parents_first M (c_name c :: seen) r
  end.
(* the inheritance graph ORMatic sorts (since 280300b): an edge from the direct base, when mapped, and an edge from the
   first mapped class of the MRO; [impl_order]: a listing of the classes that is a topological order of that graph,
   which is what rustworkx.topological_sort returns for whatever order the classes were handed over in *)
Fixpoint graph_parents_first (M : cmodel) (seen : list string) (order : list cls) : bool :=
  match order with
  | [] => true
  | c :: r => match direct_parent M c with Some p => str_in (c_name p) seen | None => true end
              && match parent_of M c with Some p => str_in (c_name p) seen | None => true end
              && graph_parents_first M (c_name c :: seen) r
  end.
Definition impl_order (M : cmodel) (order : list cls) : Prop :=
  (forall c, In c order <-> In c M) /\ NoDup (map c_name order) /\ graph_parents_first M [] order = true.

Definition topo (M : cmodel) (order : list cls) : Prop :=
  (forall c, In c order <-> In c M) /\ NoDup (map c_name order) /\ parents_first M [] order = true.

(* ---------------------------------------------------------------- observation of a mapped layer, per class *)
(* what one reads off the configured mappers: class, parent class, polymorphic discriminator present,
   identity state (1 = identity is the table name, 2 = none), columns (name, type code, enum name, nullable),
   references (name, target class, well-formed), collections (name, target class, well-formed), stray FK columns *)
Definition str_sx (s : string) : sx := SL (map (fun a => SZ (Z.of_nat (nat_of_ascii a))) (list_ascii_of_string s)).

Definition spec_cols (M : cmodel) (fs : list field) : list sx :=
  flat_map (fun f => match kind_of M f with
                     | KColumn code en nl => [SL [str_sx (f_name f); SZ code; str_sx en; SB nl]]
                     | _ => [] end) fs.
Definition spec_refs (M : cmodel) (fs : list field) : list sx :=
  flat_map (fun f => match kind_of M f with KRef t => [SL [str_sx (f_name f); str_sx t; SZ 1]] | _ => [] end) fs.
Definition spec_colls (M : cmodel) (fs : list field) : list sx :=
  flat_map (fun f => match kind_of M f with KColl t => [SL [str_sx (f_name f); str_sx t; SZ 1]] | _ => [] end) fs.

Definition in_hierarchy (M : cmodel) (c : cls) : bool :=
  match parent_of M c with Some _ => true | None => has_children M c end.

Definition spec_class_obs (M : cmodel) (c : cls) : sx :=
  let fs := own_public_fields M c in
  SL [ str_sx (c_name c);
       str_sx (match parent_of M c with Some p => c_name p | None => "" end);
       SB (in_hierarchy M c);
       SZ (if in_hierarchy M c then 1 else 2);
       SZ 1;
       SL (sx_sort (spec_cols M fs)); SL (sx_sort (spec_refs M fs)); SL (sx_sort (spec_colls M fs)); SL [] ].

(* the layer accepted (1) and one entry per class, sorted; no unused association table *)
Definition spec_obs (M : cmodel) : sx := SL [SZ 1; SL (sx_sort (map (spec_class_obs M) M)); SL []].

(* ---------------------------------------------------------------- generated schemas *)
Record column := { col_name : string; col_opt : bool; col_cont : string; col_tymod : string; col_tyname : string;
                   col_sql : Z;           (* 0 type inferred, 1 String(255), 2 JSON, 3 String(255) nullable=False *)
                   col_nullable_arg : bool }.
Record fkcol := { fk_name : string; fk_target : string; fk_opt : bool }.
Record rel := { rel_name : string; rel_target : string; rel_uselist : bool; rel_fk : string; rel_secondary : string;
                rel_joins : string;   (* ", primaryjoin=..., secondaryjoin=..." for a collection of the own class, else "" *)
                rel_remote : string   (* remote_side: "" or the target's primary key (reference into the own table, 22a99b9) *) }.
Record table := { t_cls : string; t_module : string; t_name : string; t_base : option string; t_pk : string;
                  t_pk_target : string;
                  t_builtin : list column; t_custom : list column; t_fks : list fkcol; t_rels : list rel;
                  t_mapper : list (string * string) }.
Record assoc := { a_name : string; a_lfk : string; a_lpk : string; a_rfk : string; a_rpk : string;
                  a_ltable : string; a_rtable : string }.
Record schema := { s_imports : list string; s_assoc : list assoc; s_tables : list table; s_error : bool }.

(* what SQLAlchemy reads off a column declaration: type code and nullability *)
Definition col_code (c : column) : Z :=
  if Z.eqb (col_sql c) 2 then 7 else if Z.eqb (col_sql c) 3 then 3
  else if String.eqb (col_tymod c) "builtins" then
         (if String.eqb (col_tyname c) "int" then 1 else if String.eqb (col_tyname c) "float" then 2
          else if String.eqb (col_tyname c) "str" then 3 else if String.eqb (col_tyname c) "bool" then 4 else 99)
  else if String.eqb (col_tymod c) "datetime" then 5 else 6.
Definition col_nullable (c : column) : bool :=
  if Z.eqb (col_sql c) 2 || Z.eqb (col_sql c) 3 then col_nullable_arg c else col_opt c.

(* the contribution of one field to its table (and to the association tables / imports) *)
Record items := { i_builtin : list column; i_custom : list column; i_fks : list fkcol; i_rels : list rel;
                  i_assoc : list assoc; i_imports : list string; i_err : bool }.
Definition no_items : items := {| i_builtin := []; i_custom := []; i_fks := []; i_rels := []; i_assoc := [];
                                  i_imports := []; i_err := false |}.
Definition err_items : items := {| i_builtin := []; i_custom := []; i_fks := []; i_rels := []; i_assoc := [];
                                   i_imports := []; i_err := true |}.


(* ---------------------------------------------------------------- per-field coverage: what the ANNOTATION calls for.
   [dao_of] / [pk_of] are the generator's naming of the DAO table of a class and of a table's primary key. *)
Definition field_ok (dao_of pk_of : string -> string) (M : cmodel) (c : cls) (f : field) (it : items) : Prop :=
  match kind_of M f with
  | KColumn code en nl =>
      i_err it = false /\
      exists col, (if Z.eqb code 7 then i_custom it = [col] /\ i_builtin it = [] else i_builtin it = [col] /\ i_custom it = [])
        /\ col_name col = f_name f /\ col_code col = code /\ col_nullable col = nl
        /\ (code = 6%Z -> col_tyname col = en)
        /\ i_fks it = [] /\ i_rels it = [] /\ i_assoc it = []
  | KRef t =>
      i_err it = false /\
      exists k r, i_fks it = [k] /\ i_rels it = [r] /\ i_builtin it = [] /\ i_custom it = [] /\ i_assoc it = []
        /\ rel_name r = f_name f /\ rel_target r = dao_of t /\ rel_uselist r = false /\ rel_fk r = fk_name k
        /\ rel_secondary r = "" /\ fk_target k = pk_of (dao_of t)
        /\ (rel_remote r = "" \/ rel_remote r = fk_target k)
  | KColl t =>
      i_err it = false /\
      exists a r, i_assoc it = [a] /\ i_rels it = [r] /\ i_builtin it = [] /\ i_custom it = [] /\ i_fks it = []
        /\ rel_name r = f_name f /\ rel_target r = dao_of t /\ rel_uselist r = true /\ rel_secondary r = a_name a
        /\ a_lpk a = pk_of (dao_of (c_name c)) /\ a_rpk a = pk_of (dao_of t)
  | KNone => True
  end.

(* modules whose names occur in the emitted annotations *)
Definition col_mods (c : column) : list string :=
  (if col_opt c then ["typing"] else [])
  ++ (if String.eqb (col_cont c) "" then [] else ["typing"])
  ++ (if String.eqb (col_tymod c) "" then [] else [col_tymod c]).
Definition fk_mods (k : fkcol) : list string := if fk_opt k then ["typing"; "builtins"] else [].
Definition rel_mods (r : rel) : list string := if rel_uselist r then ["typing"] else [].
Definition table_mods (t : table) : list string :=
  ["builtins"; t_module t] ++ flat_map col_mods (t_builtin t) ++ flat_map col_mods (t_custom t)
  ++ flat_map fk_mods (t_fks t) ++ flat_map rel_mods (t_rels t).

(* attribute names assigned in the class body, in emission order *)
Definition attr_names (t : table) : list string :=
  [t_pk t] ++ map col_name (t_builtin t) ++ map col_name (t_custom t) ++ map fk_name (t_fks t) ++ map rel_name (t_rels t).

Definition reserved_names : list string := ["metadata"].   (* `registry` was probed: accepted by the installed SQLAlchemy *)

Definition table_names (s : schema) : list string := map t_name (s_tables s).
Definition pk_names (s : schema) : list string := map (fun t => t_name t ++ "." ++ t_pk t) (s_tables s).

(* ---- static well-formedness, one boolean per condition (each is what import / configure_mappers / create_all needs) *)
Definition wf_attrs_unique (s : schema) : bool := forallb (fun t => str_nodup (attr_names t)) (s_tables s).
Definition wf_attrs_not_reserved (s : schema) : bool :=
  forallb (fun t => forallb (fun n => negb (str_in n reserved_names)) (attr_names t)) (s_tables s).
Definition wf_table_names_unique (s : schema) : bool :=
  str_nodup (map py_lower (table_names s ++ map a_name (s_assoc s))).
Definition wf_fk_targets (s : schema) : bool :=
  forallb (fun t => forallb (fun k => str_in (fk_target k) (pk_names s)) (t_fks t)
                    && forallb (fun r => str_in (rel_target r) (table_names s)) (t_rels t)
                    && forallb (fun r => (String.eqb (rel_secondary r) "") || str_in (rel_secondary r) (map a_name (s_assoc s))) (t_rels t)
                    && forallb (fun r => rel_uselist r || str_in (rel_fk r) (map fk_name (t_fks t))) (t_rels t)
                    && ((String.eqb (t_pk_target t) "") || str_in (t_pk_target t) (pk_names s)))
          (s_tables s)
  && forallb (fun a => str_in (a_lpk a) (pk_names s) && str_in (a_rpk a) (pk_names s)) (s_assoc s).
Definition wf_assoc_columns (s : schema) : bool :=
  forallb (fun a => negb (String.eqb (a_lfk a) (a_rfk a))) (s_assoc s).
Definition wf_imports (s : schema) : bool :=
  forallb (fun t => str_subset (table_mods t) (s_imports s)) (s_tables s).
Definition has_kv (t : table) (k v : string) : bool :=
  existsb (fun kv => String.eqb (fst kv) k && String.eqb (snd kv) v) (t_mapper t).
Definition wf_polymorphic (s : schema) : bool :=
  forallb (fun t =>
    match t_base t with
    | None =>
        (* a root that some table derives from carries the discriminator column, names it, and has an identity *)
        if existsb (fun u => match t_base u with Some b => String.eqb b (t_name t) | None => false end) (s_tables s)
        then str_in "polymorphic_type" (map col_name (t_custom t))
             && has_kv t "'polymorphic_on'" "'polymorphic_type'"
             && has_kv t "'polymorphic_identity'" ("'" ++ t_name t ++ "'")
        else true
    | Some b =>
        (* a derived table: identity, join condition on the parent's key, primary key referencing the parent's key *)
        has_kv t "'polymorphic_identity'" ("'" ++ t_name t ++ "'")
        && has_kv t "'inherit_condition'" (t_pk t ++ " == " ++ b ++ "." ++ t_pk t)
        && String.eqb (t_pk_target t) (b ++ "." ++ t_pk t)
    end) (s_tables s).
(* a derived DAO class is emitted after the DAO class it derives from *)
Fixpoint wf_bases_first (seen : list string) (ts : list table) : bool :=
  match ts with
  | [] => true
  | t :: r => match t_base t with Some b => str_in b seen | None => true end && wf_bases_first (t_name t :: seen) r
  end.

Definition schema_wf (s : schema) : bool :=
  negb (s_error s) && wf_attrs_unique s && wf_attrs_not_reserved s && wf_table_names_unique s && wf_fk_targets s
  && wf_assoc_columns s && wf_imports s && wf_polymorphic s && wf_bases_first [] (s_tables s).

(* ---------------------------------------------------------------- the fragment F and the refused shapes
   C06-a (collection of the own class) was repaired by c757abc and needs no hypothesis any more.
   Since bd9b8e0 ORMatic REFUSES (ValueError naming the clash) the models whose generated names clash:  *)
(* C06-c/d/e/f: a field named like the generated key, like the discriminator of a polymorphic root, or `metadata`;
   a field x_id beside a reference x *)
Definition F_attrnames (M : cmodel) : bool :=
  forallb (fun c => let ns := field_names (own_public_fields M c) in
                    forallb (fun f => negb (str_in (f_name f) ["database_id"; "metadata"])
                                      && negb (String.eqb (f_name f) "polymorphic_type"
                                               && match parent_of M c with None => has_children M c | Some _ => false end)
                                      && match kind_of M f with
                                         | KRef _ => negb (str_in (f_name f ++ "_id") ns)
                                         | _ => true end) (own_public_fields M c)) M.
(* C06-n (5e556b1) and C06-p (84214c3): an attribute of a subclass DAO named like a column OR a relationship of an
   ancestor's DAO (x_id beside an inherited reference x, a reference g beside an inherited reference g_id, the
   discriminator) is refused as well *)
Definition derived_cols (M : cmodel) (c : cls) : list string :=
  flat_map (fun f => match kind_of M f with
                     | KColumn _ _ _ => [f_name f]
                     | KRef _ => [f_name f ++ "_id"]
                     | _ => [] end) (own_public_fields M c).
Definition derived_attrs (M : cmodel) (c : cls) : list string :=
  List.app (field_names (own_public_fields M c))
           (flat_map (fun f => match kind_of M f with KRef _ => [f_name f ++ "_id"] | _ => [] end) (own_public_fields M c)).
Definition F_inherited (M : cmodel) : bool :=
  forallb (fun c => let inh := List.app (flat_map (derived_attrs M) (ancestors (List.length M) M c))
                                        (match parent_of M c with Some _ => ["polymorphic_type"] | None => [] end) in
                    forallb (fun n => negb (str_in n inh)) (derived_attrs M c)) M.
(* C06-h/k: two classes / collection fields stored under the same name; [tname] and [aname] are the generator's naming of
   the table of a class and of the association table of a collection field *)
Definition storage_names (tname : string -> string) (aname : string -> string -> string) (M : cmodel) : list string :=
  map (fun c => tname (c_name c)) M
  ++ flat_map (fun c => flat_map (fun f => match kind_of M f with KColl _ => [aname (tname (c_name c)) (f_name f)] | _ => [] end)
                                 (own_public_fields M c)) M.
Definition spec_refused (tname : string -> string) (aname : string -> string -> string) (M : cmodel) : bool :=
  negb (F_attrnames M) || negb (F_inherited M) || negb (str_nodup (storage_names tname aname M)).
(* what the property asks for, including the refused shapes: [2] = refused with a ValueError at generation *)
Definition spec_obs_r (tname : string -> string) (aname : string -> string -> string) (M : cmodel) : sx :=
  if spec_refused tname aname M then SL [SZ 2] else spec_obs M.

(* C06-g (open): class names stay distinct when lower-cased; and no underscore (association names stay unambiguous) *)
Definition F_classnames (M : cmodel) : bool :=
  str_nodup (map py_lower (class_names M)) && forallb (fun c => negb (contains_char "_" (c_name c))) M.
Definition inF (M : cmodel) : bool := F_attrnames M && F_inherited M && F_classnames M.
