(* Rows: the relational encoding behind the generated SQLAlchemy layer (wrapped_table.py, sqlalchemy_model.py.jinja)
   and its inverse, as far as C05 needs them.

   schema   joined-table inheritance: every DAO class has its own table holding its OWN data columns, the chain of
            tables of an object shares one primary key, the root table carries polymorphic_type (create_mapper_args);
            a single-valued reference is a nullable foreign-key column (create_one_to_one_relationship, use_alter,
            post_update); a collection is an association table with one row per (parent, element)
            (create_one_to_many_relationship, relationship(secondary=...)).
   flush    session.add(dao); commit()  : DAO graph -> rows.  Primary keys: ANY assignment [pk] that is injective per hierarchy.
   load     a fresh Session reading the rows back (polymorphic load by discriminator, lazy relationship loads).

   MODELLED SQLAlchemy behaviour (compared with the real library by harness/c05.py, not proved about it):
   (i)  direction inference: a single-valued reference whose target table belongs to the source's own mapped hierarchy
        and that has no remote_side ([s_selfref]; the generator emits remote_side since repo commit 22a99b9, so the list
        read from the real mappers is empty for generated layers) is ONETOMANY: the foreign key is written on the TARGET's row
        (one column per row: the last writer wins) and read back as "the row whose column points to me";
   (ii) a relationship(secondary=...) collection is written with one association row per element, repetitions included
        (the table has no key), but LOADING it yields every referenced row once (first occurrences): the ORM uniques
        the entities of a collection load;
   (iii) polymorphic loading: the class of a loaded DAO is the discriminator of its root row, through whichever class
        of the chain the row is requested. *)
From Coq Require Import List ZArith Bool Lia Arith PeanoNat.
From Krrood Require Import Orm.ObjGraph.
Import ListNotations.
Local Open Scope nat_scope.

Definition key := (Z * nat)%type.          (* (root table of the hierarchy, primary key) *)
Definition key_eqb (a b : key) : bool := Z.eqb (fst a) (fst b) && Nat.eqb (snd a) (snd b).

Lemma key_eqb_eq a b : key_eqb a b = true <-> a = b.
Proof.
  destruct a as [a1 a2], b as [b1 b2]. unfold key_eqb. simpl.
  rewrite andb_true_iff, Z.eqb_eq, Nat.eqb_eq. split; [intros [-> ->]; auto|intros H; inversion H; auto].
Qed.
Lemma key_eqb_refl a : key_eqb a a = true.
Proof. now apply key_eqb_eq. Qed.
Lemma key_eqb_neq a b : a <> b -> key_eqb a b = false.
Proof. intros H. destruct (key_eqb a b) eqn:E; auto. apply key_eqb_eq in E. contradiction. Qed.

Record schema := mkSchema {
  s_parent : list (Z * Z);          (* DAO class -> parent DAO class; hierarchy roots are absent *)
  s_ncols : list (Z * nat);         (* number of own data columns of the class's table (default 0) *)
  s_fields : list (Z * list Z);     (* relationship tags of the class, inherited ones included, in mapper order *)
  s_selfref : list Z                (* tags of single-valued references into the own hierarchy without remote_side *)
}.

Fixpoint zlook {B : Type} (c : Z) (l : list (Z * B)) : option B :=
  match l with
  | [] => None
  | (k, v) :: t => if Z.eqb c k then Some v else zlook c t
  end.

Section Rows.
  Variable S : schema.

  Fixpoint chain_up (fuel : nat) (c : Z) : list Z :=
    match fuel with
    | O => [c]
    | Datatypes.S f => c :: match zlook c (s_parent S) with Some p => chain_up f p | None => [] end
    end.
  Definition chain (c : Z) : list Z := rev (chain_up 16 c).       (* root first *)
  Definition root (c : Z) : Z := hd c (chain c).
  Definition ncols (c : Z) : nat := match zlook c (s_ncols S) with Some n => n | None => 0 end.
  Definition fields (c : Z) : list Z := match zlook c (s_fields S) with Some l => l | None => [] end.
  Definition is_coll (t : Z) : bool := Z.odd t.                   (* tags are interned as 2*name + (1 if collection) *)
  Definition is_selfref (t : Z) : bool := existsb (Z.eqb t) (s_selfref S).

  Record db := mkDb {
    t_root : list (key * Z);                 (* root table: key, polymorphic_type *)
    t_rows : list (key * Z * list Z);        (* one row per table of the chain: key, table, own data columns *)
    t_fk : list (key * Z * key);             (* non-NULL foreign-key cells in write order: row, column tag, referenced key *)
    t_assoc : list (key * Z * key)           (* association rows: parent key, field tag, element key *)
  }.

  (* ------------------------------------------------------------------ flush *)
  Variable d : heap.          (* the DAO graph, addresses 0 .. n-1 *)
  Variable n : nat.
  Variable pk : addr -> nat.

  Definition K (a : addr) : key :=
    match d a with Some o => (root (ocls o), pk a) | None => (0%Z, pk a) end.

  Fixpoint split_cols (ch : list Z) (scal : list Z) : list (Z * list Z) :=
    match ch with
    | [] => []
    | ci :: r => (ci, firstn (ncols ci) scal) :: split_cols r (skipn (ncols ci) scal)
    end.

  Fixpoint dedup (l : list addr) : list addr :=    (* first occurrences *)
    match l with
    | [] => []
    | x :: t => x :: filter (fun y => negb (Nat.eqb y x)) (dedup t)
    end.

  Definition rows_of (a : addr) (o : obj) : list (key * Z * list Z) :=
    map (fun p : Z * list Z => (K a, fst p, snd p)) (split_cols (chain (ocls o)) (oscal o)).

  Definition fk_of_fld (a : addr) (f : fld) : list (key * Z * key) :=
    if is_coll (fst f) then []
    else match snd f with
         | b :: _ => if is_selfref (fst f) then [(K b, fst f, K a)] else [(K a, fst f, K b)]
         | [] => []
         end.
  Definition fk_of (a : addr) (o : obj) : list (key * Z * key) := flat_map (fk_of_fld a) (oflds o).

  Definition assoc_of_fld (a : addr) (f : fld) : list (key * Z * key) :=
    if is_coll (fst f) then map (fun b => (K a, fst f, K b)) (snd f) else [].
  Definition assoc_of (a : addr) (o : obj) : list (key * Z * key) := flat_map (assoc_of_fld a) (oflds o).

  Definition gather {X : Type} (g : addr -> obj -> list X) : list X :=
    flat_map (fun a => match d a with Some o => g a o | None => [] end) (seq 0 n).

  Definition flush : db :=
    mkDb (map (fun a => (K a, match d a with Some o => ocls o | None => 0%Z end)) (seq 0 n))
         (gather rows_of) (gather fk_of) (gather assoc_of).
End Rows.

(* ------------------------------------------------------------------ load *)
Section Load.
  Variable S : schema.
  Variable D : db.

  Fixpoint find_index {X : Type} (p : X -> bool) (l : list X) : option nat :=
    match l with
    | [] => None
    | x :: t => if p x then Some 0 else option_map Datatypes.S (find_index p t)
    end.

  Definition idx_of (k : key) : option addr := find_index (fun r : key * Z => key_eqb (fst r) k) (t_root D).
  Definition idxs (ks : list key) : list addr :=
    flat_map (fun k => match idx_of k with Some i => [i] | None => [] end) ks.

  Definition cols_of (k : key) (ci : Z) : list Z :=
    match find (fun r : key * Z * list Z => key_eqb (fst (fst r)) k && Z.eqb (snd (fst r)) ci) (t_rows D) with
    | Some r => snd r
    | None => []
    end.

  Definition cell_sel (k : key) (t : Z) (c : key * Z * key) : bool := key_eqb (fst (fst c)) k && Z.eqb (snd (fst c)) t.

  (* current value of a foreign-key column: the last write *)
  Definition cell_val (k : key) (t : Z) : list key :=
    match rev (filter (cell_sel k t) (t_fk D)) with
    | c :: _ => [snd c]
    | [] => []
    end.

  (* ONETOMANY, uselist=False reading of a self-referential foreign key: a row whose column currently points to k *)
  Definition selfref_sources (k : key) (t : Z) : list key :=
    firstn 1 (filter (fun x => existsb (key_eqb k) (cell_val x t)) (map fst (t_root D))).

  Definition children (k : key) (t : Z) : list key := map snd (filter (cell_sel k t) (t_assoc D)).

  Definition load_fld (k : key) (t : Z) : fld :=
    (t, if is_coll t then dedup (idxs (children k t))
        else idxs (if is_selfref S t then selfref_sources k t else cell_val k t)).

  Definition load_obj (k : key) (c : Z) : obj :=
    mkObj c (concat (map (cols_of k) (chain S c))) (map (load_fld k) (fields S c)).

  (* the loaded DAO graph: DAO i is the i-th root row *)
  Definition load : heap :=
    fun a => match nth_error (t_root D) a with Some (k, c) => Some (load_obj k c) | None => None end.
End Load.

(* ------------------------------------------------------------------ side conditions (decidable) *)
Fixpoint nodupb (l : list nat) : bool :=
  match l with [] => true | x :: t => negb (memb x t) && nodupb t end.
Fixpoint znodupb (l : list Z) : bool :=
  match l with [] => true | x :: t => negb (existsb (Z.eqb x) t) && znodupb t end.
Fixpoint zlist_eqb (a b : list Z) : bool :=
  match a, b with
  | [], [] => true
  | x :: a', y :: b' => Z.eqb x y && zlist_eqb a' b'
  | _, _ => false
  end.

Definition sum_ncols (S : schema) (ch : list Z) : nat := fold_right (fun c acc => ncols S c + acc) 0 ch.

(* the DAO graph fits the schema *)
Definition wf_dao_obj (S : schema) (n : nat) (o : obj) : bool :=
  znodupb (chain S (ocls o)) &&
  Nat.eqb (length (oscal o)) (sum_ncols S (chain S (ocls o))) &&
  zlist_eqb (map fst (oflds o)) (fields S (ocls o)) &&
  znodupb (fields S (ocls o)) &&
  forallb (fun f : fld => (is_coll (fst f) || Nat.leb (length (snd f)) 1) && forallb (fun k => Nat.ltb k n) (snd f)) (oflds o).
Definition wf_dao (S : schema) (d : heap) (n : nat) : bool :=
  forallb (fun a => match d a with Some o => wf_dao_obj S n o | None => false end) (seq 0 n).

(* the fragment: no repeated element in a collection, no value in a self-referential single reference *)
Definition F05_obj (S : schema) (o : obj) : bool :=
  forallb (fun f : fld => if is_coll (fst f) then nodupb (snd f)
                          else if is_selfref S (fst f) then match snd f with [] => true | _ => false end else true) (oflds o).
Definition F05 (S : schema) (d : heap) (n : nat) : bool :=
  forallb (fun a => match d a with Some o => F05_obj S o | None => false end) (seq 0 n).
