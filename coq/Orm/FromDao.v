(* FromDao: model of DataAccessObject.from_dao (dao.py l.659-700) with FromDAOState (l.158-265).
   allocate_and_memoize -> [memo] entry before descending; scalar kwargs; parse_single / parse_collection per
   relationship; __init__ (or the setattr fallback: same final fields); apply_circular_fixes re-reads every
   relationship value from the memo ([p_refix] = true); a result that is an AlternativeMapping instance is replaced by
   create_from_dao() -- a NEW object -- and only then is the memo entry overwritten ([p_late]), so whoever looked
   the entry up while the mapping object was in progress keeps the mapping object (finding C04-a).
   The state is a parameter: FromDAOState can be passed in by the caller and reused across calls.  Since repo commit
   32013a0 allocate_and_memoize also stores keep_alive[id(dao)] = dao ([p_keep] = true), so a memoised DAO's address
   cannot be recycled; before that commit it could (finding C04-b / C04-c, now fixed: [P_fromdao_old], regression
   examples in RoundTrip.v). *)
From Coq Require Import List ZArith Bool Lia Arith PeanoNat.
From Krrood Require Import Orm.ObjGraph Orm.ObjGraphWalk Orm.ToDao.
Import ListNotations.

Fixpoint zassoc_inv (m : Z) (l : list (Z * Z)) : option Z :=
  match l with
  | [] => None
  | (k, v) :: t => if Z.eqb m v then Some k else zassoc_inv m t
  end.

(* [dec c]: what user code makes of the DAO columns for the final object of class c (create_from_dao of the mapping of c;
   for a DAO below an alternatively mapped DAO the base arguments taken from the converted temporary parent);
   [altbases]: DAO classes below an alternatively mapped DAO -- _build_base_kwargs_for_alternative_parent converts a temporary
   parent DAO: a mapping object and a parent object are allocated and dropped (2 addresses). *)
Definition P_fromdao_gen (keepalive : bool) (dec : Z -> list Z -> list Z) (alts : list (Z * Z)) (altbases : list Z) : params :=
  mkParams (fun k s => (k, match zassoc_inv k alts with Some _ => s | None => dec k s end))
           (fun k s => match zassoc_inv k alts with Some c => Some (c, dec c s) | None => None end)
           (fun k => if zmem k altbases then 2 else 0)
           true keepalive.
Definition P_fromdao := P_fromdao_gen true.

(* [d] is the DAO heap with addresses 0..n-1 *)
Definition from_dao (dec : Z -> list Z -> list Z) (alts : list (Z * Z)) (altbases : list Z) (d : heap) (n : nat) (r : addr) (s : st)
  : option (addr * st) := walk (P_fromdao dec alts altbases) d (S n) r s.

(* the code before repo commit 32013a0: FromDAOState had no keep_alive *)
Definition P_fromdao_old := P_fromdao_gen false.
Definition from_dao_old (dec : Z -> list Z -> list Z) (alts : list (Z * Z)) (altbases : list Z) (d : heap) (n : nat) (r : addr) (s : st)
  : option (addr * st) := walk (P_fromdao_old dec alts altbases) d (S n) r s.

Lemma zassoc_inv_none c l : zmem c (map snd l) = false -> zassoc_inv c l = None.
Proof.
  induction l as [|[k v] t IH]; simpl; auto. intros H. apply orb_false_iff in H. destruct H as [H1 H2].
  rewrite H1. auto.
Qed.
