(* FromDao: model of DataAccessObject.from_dao (dao.py l.659-700) with FromDAOState (l.158-265).
   allocate_and_memoize -> [memo] entry before descending; scalar kwargs; parse_single / parse_collection per
   relationship; __init__ (or the setattr fallback: same final fields); apply_circular_fixes re-reads every
   relationship value from the memo ([p_refix] = true); a result that is an AlternativeMapping instance is replaced by
   create_from_dao() -- a NEW object -- and only then is the memo entry overwritten ([p_late]), so whoever looked
   the entry up while the mapping object was in progress keeps the mapping object (finding C04-a).
   The state is a parameter: FromDAOState can be passed in by the caller and reused across calls.  Since repo commit
   32013a0 allocate_and_memoize also stores keep_alive[id(dao)] = dao ([p_keep] = true), so a memoised DAO's address
   cannot be recycled; before that commit it could (finding C04-b / C04-c, now fixed: [P_fromdao_old], regression
   examples in RoundTrip.v). *)
From Coq Require Import List ZArith Bool Lia Arith PeanoNat.
From Krrood Require Import Orm.ObjGraph Orm.ObjGraphWalk Orm.ToDao.
Import ListNotations.

Fixpoint zassoc_inv (m : Z) (l : list (Z * Z)) : option Z :=
  match l with
  | [] => None
  | (k, v) :: t => if Z.eqb m v then Some k else zassoc_inv m t
  end.

Definition P_fromdao (alts : list (Z * Z)) : params :=
  mkParams (fun k => k) (fun k => zassoc_inv k alts) true true.

(* the code before repo commit 32013a0: FromDAOState had no keep_alive *)
Definition P_fromdao_old (alts : list (Z * Z)) : params :=
  mkParams (fun k => k) (fun k => zassoc_inv k alts) true false.
Definition from_dao_old (alts : list (Z * Z)) (d : heap) (n : nat) (r : addr) (s : st) : option (addr * st) :=
  walk (P_fromdao_old alts) d (S n) r s.

(* [d] is the DAO heap with addresses 0..n-1 *)
Definition from_dao (alts : list (Z * Z)) (d : heap) (n : nat) (r : addr) (s : st) : option (addr * st) :=
  walk (P_fromdao alts) d (S n) r s.

Lemma zassoc_inv_none c l : zmem c (map snd l) = false -> zassoc_inv c l = None.
Proof.
  induction l as [|[k v] t IH]; simpl; auto. intros H. apply orb_false_iff in H. destruct H as [H1 H2].
  rewrite H1. auto.
Qed.
