(* C08 Spec: a ripple-down-rules interpreter on the rule program AS WRITTEN, applied to every element of the domain.
   No dependency on the model (RuleBuild / RuleEval).

   Programs.  One variable x ranges over a domain of objects with two integer attributes a, b.
     rule := { conds (and_-ed atoms, >= 1); tag (the class of the instance the rule's Add concludes; None = no Add);
               body : list (kind * rule) }      kind = refinement | alternative | next_rule, in the order written
   inside the rule's `with` block.  An instance is (tag, element it was built from).

   Reading of the property (fixed here, see also the comments at [level]):
   * the branches written at one level form a sequence: the head rule, then every alternative / next_rule written in
     its block or in the block of an alternative/next_rule of the same level, in written (pre-)order;
   * head and alternatives fire only when no earlier branch of the sequence fired (else-if); a next_rule fires whenever
     its conditions hold (also-if);
   * a branch that fires contributes the conclusion of its deepest holding refinement: its refinements (kind R in its
     block) form their own level, tried in written order; if something fires there it overrides the branch's own tag. *)
From Coq Require Import List ZArith Bool Arith.
Import ListNotations.

Inductive cmp := CEq | CNe | CLt | CLe | CGt | CGe.
Inductive rhs := RConst (k : Z) | RAttr (attr : nat).
Record atom := Atom { at_attr : nat; at_op : cmp; at_rhs : rhs }.
Definition elem := (Z * Z)%type.

Definition attr_of (e : elem) (a : nat) : Z := match a with O => fst e | _ => snd e end.
Definition cmp_holds (c : cmp) (x y : Z) : bool :=
  match c with
  | CEq => Z.eqb x y | CNe => negb (Z.eqb x y)
  | CLt => Z.ltb x y | CLe => Z.leb x y
  | CGt => Z.ltb y x | CGe => Z.leb y x
  end.
Definition atom_holds (e : elem) (a : atom) : bool :=
  cmp_holds (at_op a) (attr_of e (at_attr a))
            (match at_rhs a with RConst k => k | RAttr b => attr_of e b end).
Definition holds (e : elem) (cs : list atom) : bool := forallb (atom_holds e) cs.

Inductive kind := KRef | KAlt | KNext.
Inductive rule := Rule (conds : list atom) (tag : option nat) (body : list (kind * rule)).

Definition r_conds (r : rule) := match r with Rule c _ _ => c end.
Definition r_tag (r : rule) := match r with Rule _ t _ => t end.
Definition r_body (r : rule) := match r with Rule _ _ b => b end.
Definition tag_list (t : option nat) : list nat := match t with Some x => [x] | None => [] end.

(* state of a level while its branches are visited in written order: (some branch fired, tags concluded so far) *)
Definition lstate := (bool * list nat)%type.

(* [level e k r st]: visit branch r (entered as kind k: KAlt also stands for the head of a level) and then the
   alternatives / next_rules written in its block; refinements in its block are the exception level of r. *)
Fixpoint level (e : elem) (k : kind) (r : rule) (st : lstate) {struct r} : lstate :=
  match r with
  | Rule cs tg body =>
      let exc := (fix rf (l : list (kind * rule)) (s : lstate) {struct l} : lstate :=
                    match l with
                    | [] => s
                    | (KRef, q) :: l' => rf l' (level e KAlt q s)
                    | _ :: l' => rf l' s
                    end) body (false, []) in
      let mine := if fst exc then snd exc else tag_list tg in
      let may_fire := match k with KNext => true | _ => negb (fst st) end in
      let st1 := if may_fire && holds e cs then (true, snd st ++ mine) else st in
      (fix sib (l : list (kind * rule)) (s : lstate) {struct l} : lstate :=
         match l with
         | [] => s
         | (KRef, _) :: l' => sib l' s
         | (k', q) :: l' => sib l' (level e k' q s)
         end) body st1
  end.

(* tags concluded for one element *)
Definition rdr1 (prog : rule) (e : elem) : list nat := snd (level e KAlt prog (false, [])).

Fixpoint enum_from {A} (i : nat) (l : list A) : list (nat * A) :=
  match l with [] => [] | x :: l' => (i, x) :: enum_from (S i) l' end.
Definition enum {A} (l : list A) := enum_from 0 l.

(* the inferred instances: (tag, index of the element it is built from), for every element of the domain *)
Definition rdr (prog : rule) (W : list elem) : list (nat * nat) :=
  flat_map (fun ie => map (fun t => (t, fst ie)) (rdr1 prog (snd ie))) (enum W).

(* every rule of the program (for "no branch is ignored") *)
Fixpoint rules_of (r : rule) : list rule :=
  match r with
  | Rule _ _ body => r :: (fix go (l : list (kind * rule)) : list rule :=
                             match l with [] => [] | (_, q) :: l' => rules_of q ++ go l' end) body
  end.
