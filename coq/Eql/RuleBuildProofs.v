(* C08 proofs, part F: the construction yields the written tree, for EVERY program.
   The heap is related to a tree with node ids by [rep]; the tree is handled as a zipper: a list of frames from the
   current rule's condition leaf up to the query descriptor. *)
From Coq Require Import List ZArith Bool Arith Lia Permutation.
From Krrood Require Import Eql.RuleSpec Eql.RuleEval Eql.RuleBuild Eql.RulePure Eql.RuleEvalProofs Eql.RuleSpecProofs.
Import ListNotations.

(* ---- heap algebra ---- *)
Lemma nd_upd_same h i f : nd (upd h i f) i = f (nd h i).
Proof. unfold nd, upd. simpl. rewrite Nat.eqb_refl. reflexivity. Qed.
Lemma nd_upd_other h i f n : n <> i -> nd (upd h i f) n = nd h n.
Proof. intros H. unfold nd, upd. simpl. apply Nat.eqb_neq in H. rewrite H. reflexivity. Qed.
Lemma next_upd h i f : next (upd h i f) = next h.
Proof. reflexivity. Qed.
Lemma nd_alloc_same h k : nd (fst (alloc h k)) (next h) = fresh_node k.
Proof. unfold nd, alloc. simpl. rewrite Nat.eqb_refl. reflexivity. Qed.
Lemma nd_alloc_other h k n : n <> next h -> nd (fst (alloc h k)) n = nd h n.
Proof. intros H. unfold nd, alloc. simpl. apply Nat.eqb_neq in H. rewrite H. reflexivity. Qed.
Lemma next_alloc h k : next (fst (alloc h k)) = S (next h).
Proof. reflexivity. Qed.
Lemma snd_alloc h k : snd (alloc h k) = next h.
Proof. reflexivity. Qed.

(* ---- a heap region represents a tree (node ids = tree ids); p is the primary parent of the root ---- *)
Fixpoint rep (h : heap) (p : nat) (t : tree) : Prop :=
  match t with
  | Leaf x cs c =>
      nk (nd h x) = NCond cs /\ nconcl (nd h x) = c /\ nparent (nd h x) = Some p /\ x < next h
  | Node x s tl tr =>
      nk (nd h x) = NSel s /\ nleft (nd h x) = Some (root_id tl) /\ nright (nd h x) = Some (root_id tr) /\
      nparent (nd h x) = Some p /\ x < next h /\ rep h x tl /\ rep h x tr
  end.

Lemma rep_frame h h' p t :
  rep h p t -> (forall n, In n (ids t) -> nd h' n = nd h n) -> next h <= next h' -> rep h' p t.
Proof.
  revert p. induction t as [x cs c|x s tl IHl tr IHr]; intros p H Hn Hle; simpl in *.
  - rewrite (Hn x) by auto. destruct H as [H1 [H2 [H3 H4]]]. repeat split; auto; lia.
  - rewrite (Hn x) by auto. destruct H as [H1 [H2 [H3 [H4 [H5 [H6 H7]]]]]].
    repeat split; auto; try lia.
    + apply IHl; auto. intros n Hin. apply Hn. right. apply in_or_app. auto.
    + apply IHr; auto. intros n Hin. apply Hn. right. apply in_or_app. auto.
Qed.

Lemma rep_ids_lt h p t : rep h p t -> forall n, In n (ids t) -> n < next h.
Proof.
  revert p. induction t as [x cs c|x s tl IHl tr IHr]; intros p H n Hn; simpl in *.
  - destruct Hn as [<-|[]]. tauto.
  - destruct H as [_ [_ [_ [_ [H5 [H6 H7]]]]]]. destruct Hn as [<-|Hn]; [exact H5|].
    apply in_app_or in Hn. destruct Hn; [eapply IHl|eapply IHr]; eauto.
Qed.

Lemma root_in_ids t : In (root_id t) (ids t).
Proof. destruct t; simpl; auto. Qed.

(* the root's parent pointer can be redirected *)
Lemma rep_reparent h p p' t :
  rep h p t -> NoDup (ids t) -> rep (upd h (root_id t) (w_parent (Some p'))) p' t.
Proof.
  intros H Hnd. destruct t as [x cs c|x s tl tr]; cbn [rep root_id ids] in *.
  - rewrite nd_upd_same. simpl. destruct H as [H1 [H2 [H3 H4]]]. repeat split; auto.
  - rewrite nd_upd_same. simpl. destruct H as [H1 [H2 [H3 [H4 [H5 [H6 H7]]]]]].
    apply NoDup_cons_iff in Hnd. destruct Hnd as [Hx Hnd].
    repeat split; auto.
    + apply (rep_frame h); auto. intros n Hn. apply nd_upd_other. intro; subst. apply Hx, in_or_app; auto.
    + apply (rep_frame h); auto. intros n Hn. apply nd_upd_other. intro; subst. apply Hx, in_or_app; auto.
Qed.

(* ---- reading the tree back ---- *)
Fixpoint depth (t : tree) : nat := match t with Leaf _ _ _ => 1 | Node _ _ l r => S (Nat.max (depth l) (depth r)) end.
Lemma reify_rep h p t : rep h p t -> forall fuel, depth t <= fuel -> reify_at fuel h (root_id t) = Some t.
Proof.
  revert p. induction t as [x cs c|x s tl IHl tr IHr]; intros p H fuel Hf; simpl in *.
  - destruct fuel; [lia|]. simpl. destruct H as [H1 [H2 _]]. rewrite H1, H2. reflexivity.
  - destruct fuel; [lia|]. simpl. destruct H as [H1 [H2 [H3 [_ [_ [H6 H7]]]]]]. rewrite H1, H2, H3.
    rewrite (IHl x H6 fuel) by lia. rewrite (IHr x H7 fuel) by lia. reflexivity.
Qed.
Lemma depth_le_ids t : depth t <= length (ids t).
Proof.
  induction t as [|x s tl IHl tr IHr]; simpl; [lia|]. rewrite app_length. lia.
Qed.

(* a duplicate-free list of numbers below n has at most n elements *)
Lemma nodup_bound l : NoDup l -> forall n, (forall x, In x l -> x < n) -> length l <= n.
Proof.
  intros Hnd n Hlt.
  assert (H : incl l (seq 0 n)) by (intros x Hx; apply in_seq; specialize (Hlt x Hx); lia).
  pose proof (NoDup_incl_length Hnd H) as Hl. rewrite seq_length in Hl. exact Hl.
Qed.

(* ---- zipper ---- *)
Inductive frame :=
| FR (x : nat) (s : sel) (a : tree)      (* Node x s a [.] : the hole is the right operand *)
| FL (x : nat) (s : sel) (b : tree).     (* Node x s [.] b : the hole is the left operand *)
Definition fnode (f : frame) : nat := match f with FR x _ _ | FL x _ _ => x end.
Definition fsel (f : frame) : sel := match f with FR _ s _ | FL _ s _ => s end.
Definition fsib (f : frame) : tree := match f with FR _ _ a => a | FL _ _ b => b end.
Definition fill (f : frame) (m : tree) : tree :=
  match f with FR x s a => Node x s a m | FL x s b => Node x s m b end.
Definition plug (fs : list frame) (m : tree) : tree := fold_left (fun m f => fill f m) fs m.   (* innermost frame first *)
Definition fids (f : frame) : list nat := fnode f :: ids (fsib f).
Definition holeparent (p : nat) (fs : list frame) : nat := match fs with [] => p | f :: _ => fnode f end.
(* the two operand pointers of a frame node, the hole holding the node r *)
Definition fpoint (f : frame) (n : node) (r : nat) : Prop :=
  match f with
  | FR _ _ a => nleft n = Some (root_id a) /\ nright n = Some r
  | FL _ _ b => nleft n = Some r /\ nright n = Some (root_id b)
  end.

Fixpoint ctx (h : heap) (p : nat) (fs : list frame) (r : nat) : Prop :=
  match fs with
  | [] => True
  | f :: rest =>
      nk (nd h (fnode f)) = NSel (fsel f) /\ nparent (nd h (fnode f)) = Some (holeparent p rest) /\
      fnode f < next h /\ fpoint f (nd h (fnode f)) r /\ rep h (fnode f) (fsib f) /\ ctx h p rest (fnode f)
  end.

Lemma plug_cons f fs m : plug (f :: fs) m = plug fs (fill f m).
Proof. reflexivity. Qed.
Lemma plug_app fs1 fs2 m : plug (fs1 ++ fs2) m = plug fs2 (plug fs1 m).
Proof. unfold plug. apply fold_left_app. Qed.
Lemma root_fill f m : root_id (fill f m) = fnode f.
Proof. destruct f; reflexivity. Qed.

Lemma rep_plug h p fs : forall m, rep h p (plug fs m) <-> ctx h p fs (root_id m) /\ rep h (holeparent p fs) m.
Proof.
  induction fs as [|f fs IH]; intros m.
  - simpl. tauto.
  - rewrite plug_cons, IH, root_fill. cbn [ctx holeparent].
    destruct f as [x s a|x s b]; cbn [fill rep fnode fsel fsib fpoint]; tauto.
Qed.

Lemma ids_plug_in fs : forall m n, In n (ids (plug fs m)) <-> In n (ids m) \/ In n (flat_map fids fs).
Proof.
  induction fs as [|f fs IH]; intros m n.
  - simpl. tauto.
  - rewrite plug_cons, IH. cbn [flat_map]. rewrite in_app_iff.
    destruct f as [x s a|x s b]; cbn [fill ids fids fnode fsib]; simpl; rewrite ?in_app_iff; simpl; tauto.
Qed.

Lemma ids_plug_perm fs : forall m, Permutation (ids (plug fs m)) (ids m ++ flat_map fids fs).
Proof.
  induction fs as [|f fs IH]; intros m.
  - simpl. rewrite app_nil_r. apply Permutation_refl.
  - rewrite plug_cons. eapply Permutation_trans; [apply IH|]. cbn [flat_map].
    rewrite app_assoc. apply Permutation_app_tail.
    destruct f as [x s a|x s b]; cbn [fill ids fids fnode fsib].
    + apply (Permutation_app_comm (x :: ids a) (ids m)).
    + apply Permutation_middle.
Qed.

Lemma ctx_frame h h' p fs : forall r,
  ctx h p fs r -> (forall n, In n (flat_map fids fs) -> nd h' n = nd h n) -> next h <= next h' -> ctx h' p fs r.
Proof.
  induction fs as [|f fs IH]; intros r H Hn Hle; [exact I|].
  cbn [ctx] in *. destruct H as [H1 [H2 [H3 [H4 [H5 H6]]]]].
  assert (Hf : nd h' (fnode f) = nd h (fnode f)) by (apply Hn; cbn [flat_map fids]; simpl; auto).
  rewrite Hf. repeat split; auto; try lia.
  - apply (rep_frame h); auto. intros n Hin. apply Hn. cbn [flat_map fids]. simpl. right. apply in_or_app. auto.
  - apply IH; auto. intros n Hin. apply Hn. cbn [flat_map]. apply in_or_app. auto.
Qed.

(* the innermost frame node gets a new operand in its hole; everything else in the context is untouched *)
Lemma ctx_retarget h h' p f rest r r' :
  ctx h p (f :: rest) r ->
  ~ In (fnode f) (ids (fsib f)) -> ~ In (fnode f) (flat_map fids rest) ->
  (forall n, In n (flat_map fids (f :: rest)) -> n <> fnode f -> nd h' n = nd h n) ->
  next h <= next h' ->
  nk (nd h' (fnode f)) = nk (nd h (fnode f)) -> nparent (nd h' (fnode f)) = nparent (nd h (fnode f)) ->
  fpoint f (nd h' (fnode f)) r' ->
  ctx h' p (f :: rest) r'.
Proof.
  intros H Hn1 Hn2 Hother Hle Hk Hp Hpt. cbn [ctx] in *. destruct H as [H1 [H2 [H3 [H4 [H5 H6]]]]].
  rewrite Hk, Hp. repeat split; auto; try lia.
  - apply (rep_frame h); auto. intros n Hin. apply Hother.
    + cbn [flat_map fids]. simpl. right. apply in_or_app. auto.
    + intro E. rewrite E in Hin. contradiction.
  - apply (ctx_frame h); auto. intros n Hin. apply Hother.
    + cbn [flat_map]. apply in_or_app. auto.
    + intro E. rewrite E in Hin. contradiction.
Qed.

(* ---- the global invariant: the whole condition tree under the query descriptor ---- *)
Definition GIT (h : heap) (T : tree) : Prop :=
  rep h ENTITY T /\
  nk (nd h ENTITY) = NEntity /\ nchild (nd h ENTITY) = Some (root_id T) /\ nparent (nd h ENTITY) = Some AN /\
  nk (nd h AN) = NAn /\ nparent (nd h AN) = None /\
  NoDup (ids T) /\ ~ In ENTITY (ids T) /\ ~ In AN (ids T) /\ ENTITY < next h /\ AN < next h.

Lemma nodup_plug fs m : NoDup (ids (plug fs m)) -> NoDup (ids m ++ flat_map fids fs).
Proof. intros H. eapply Permutation_NoDup; [apply ids_plug_perm|exact H]. Qed.

(* ---- allocation and BinaryOperator(...) as heap functions ---- *)
Definition alloc_h (h : heap) (k : nkind) : heap := fst (alloc h k).
Lemma alloc_eq h k : alloc h k = (alloc_h h k, next h).
Proof. reflexivity. Qed.
Definition mkbin_h (h : heap) (s : sel) (l r : nat) : heap := fst (mk_bin h s l r).
Lemma mkbin_eq h s l r : mk_bin h s l r = (mkbin_h h s l r, next h).
Proof. reflexivity. Qed.

Lemma nd_alloc_h_same h k : nd (alloc_h h k) (next h) = fresh_node k.
Proof. apply nd_alloc_same. Qed.
Lemma nd_alloc_h_other h k n : n <> next h -> nd (alloc_h h k) n = nd h n.
Proof. apply nd_alloc_other. Qed.
Lemma next_alloc_h h k : next (alloc_h h k) = S (next h).
Proof. reflexivity. Qed.

Lemma next_mkbin_h h s l r : next (mkbin_h h s l r) = S (next h).
Proof. reflexivity. Qed.
Lemma nd_mkbin_new h s l r : l <> next h -> r <> next h ->
  nd (mkbin_h h s l r) (next h) = w_right (Some r) (w_left (Some l) (fresh_node (NSel s))).
Proof.
  intros Hl Hr. unfold mkbin_h, mk_bin. cbn [fst]. rewrite alloc_eq. cbn [fst snd].
  rewrite nd_upd_other by auto. rewrite nd_upd_other by auto. rewrite nd_upd_same. rewrite nd_alloc_h_same. reflexivity.
Qed.
Lemma nd_mkbin_l h s l r : l <> next h -> l <> r ->
  nd (mkbin_h h s l r) l = w_parent (Some (next h)) (nd h l).
Proof.
  intros Hl Hlr. unfold mkbin_h, mk_bin. rewrite alloc_eq. cbn [fst snd].
  rewrite nd_upd_other by auto. rewrite nd_upd_same. rewrite nd_upd_other by auto. rewrite nd_alloc_h_other by auto. reflexivity.
Qed.
Lemma nd_mkbin_r h s l r : r <> next h ->
  nd (mkbin_h h s l r) r = w_parent (Some (next h)) (if Nat.eqb r l then w_parent (Some (next h)) (nd h r) else nd h r).
Proof.
  intros Hr. unfold mkbin_h, mk_bin. rewrite alloc_eq. cbn [fst snd]. rewrite nd_upd_same.
  destruct (Nat.eqb r l) eqn:E.
  - apply Nat.eqb_eq in E. subst. rewrite nd_upd_same. rewrite nd_upd_other by auto. rewrite nd_alloc_h_other by auto. reflexivity.
  - apply Nat.eqb_neq in E. rewrite nd_upd_other by auto. rewrite nd_upd_other by auto. rewrite nd_alloc_h_other by auto. reflexivity.
Qed.
Lemma nd_mkbin_other h s l r n : n <> next h -> n <> l -> n <> r -> nd (mkbin_h h s l r) n = nd h n.
Proof.
  intros H1 H2 H3. unfold mkbin_h, mk_bin. rewrite alloc_eq. cbn [fst snd].
  rewrite !nd_upd_other by auto. apply nd_alloc_h_other. auto.
Qed.
Global Opaque alloc_h mkbin_h.

Lemma root_plug_same fs : forall t t', root_id t = root_id t' -> root_id (plug fs t) = root_id (plug fs t').
Proof.
  induction fs as [|g fs IH]; intros t t' H; [exact H|]. rewrite !plug_cons. apply IH. rewrite !root_fill. reflexivity.
Qed.
Lemma root_plug_nonempty f fs m m' : root_id (plug (f :: fs) m) = root_id (plug (f :: fs) m').
Proof. rewrite !plug_cons. apply root_plug_same. rewrite !root_fill. reflexivity. Qed.

(* ---- refinement(): the condition leaf L is replaced by ExceptIf(L, new branch) in the slot that held L ---- *)
Lemma do_refinement_ok st fs L cs c csq stk :
  GIT (hp st) (plug fs (Leaf L cs c)) -> stack st = L :: stk ->
  exists st', do_refinement csq st = Some (st', next (hp st)) /\ stack st' = stack st /\ croot st' = croot st /\
              next (hp st') = next (hp st) + 2 /\
              GIT (hp st') (plug (FR (S (next (hp st))) SExc (Leaf L cs c) :: fs) (Leaf (next (hp st)) csq [])).
Proof.
  intros [Hrep [HE1 [HE2 [HE3 [HA1 [HA2 [Hnd [HnE [HnA [HltE HltA]]]]]]]]]] Hstk.
  set (h := hp st) in *. set (nb := next h). set (x := S nb). set (P := holeparent ENTITY fs).
  pose proof Hrep as Hrep0. apply rep_plug in Hrep. destruct Hrep as [Hctx Hleaf]. cbn [rep root_id] in Hleaf, Hctx.
  destruct Hleaf as [HLk [HLc [HLp HLlt]]]. fold P in HLp.
  pose proof (nodup_plug _ _ Hnd) as Hnd'. cbn [ids app] in Hnd'. apply NoDup_cons_iff in Hnd'. destruct Hnd' as [HLfs Hndfs].
  assert (HinT : forall n, In n (flat_map fids fs) -> In n (ids (plug fs (Leaf L cs c)))) by (intros n Hn; apply ids_plug_in; right; exact Hn).
  assert (HltF : forall n, In n (flat_map fids fs) -> n < nb).
  { intros n Hn. eapply rep_ids_lt; [exact Hrep0|apply HinT; exact Hn]. }
  assert (HP : P < nb /\ P <> L /\ (fs = [] -> P = ENTITY) /\ (forall f rest, fs = f :: rest -> P = fnode f)).
  { unfold P. destruct fs as [|f rest]; cbn [holeparent].
    - repeat split; auto; try discriminate. intro E. apply HnE. apply ids_plug_in. left. simpl. auto.
    - repeat split; try discriminate.
      + apply HltF. cbn [flat_map fids]. simpl. auto.
      + intro E. apply HLfs. rewrite <- E. cbn [flat_map fids]. simpl. auto.
      + intros f0 r0 E. inversion E. reflexivity. }
  destruct HP as [HPlt [HPL [HP0 HP1]]].
  (* run the code *)
  unfold do_refinement. fold h. rewrite alloc_eq. rewrite Hstk.
  set (h0 := alloc_h h (NCond csq)).
  assert (H0L : nd h0 L = nd h L) by (apply nd_alloc_h_other; unfold nb in *; lia).
  rewrite H0L, HLp. unfold set_parent at 1. rewrite H0L, HLp.
  set (h1 := upd h0 L (w_parent None)).
  rewrite mkbin_eq. set (h2 := mkbin_h h1 SExc L nb).
  assert (Hn1 : next h1 = x) by reflexivity.
  cbn [set_parent]. rewrite Hn1.
  set (h3 := upd (upd h2 x (w_parent (Some P))) P (w_child (Some x))).
  (* cells of h3 *)
  assert (C_nb : nd h3 nb = w_parent (Some x) (fresh_node (NCond csq))).
  { unfold h3. rewrite nd_upd_other by (unfold x, nb in *; lia). rewrite nd_upd_other by (unfold x; lia).
    unfold h2. rewrite nd_mkbin_r by (rewrite Hn1; unfold x; lia).
    assert (E : Nat.eqb nb L = false) by (apply Nat.eqb_neq; unfold nb in *; lia). rewrite E. rewrite Hn1.
    unfold h1. rewrite nd_upd_other by (unfold nb in *; lia). unfold h0. rewrite nd_alloc_h_same. reflexivity. }
  assert (C_x : nd h3 x = w_parent (Some P) (w_right (Some nb) (w_left (Some L) (fresh_node (NSel SExc))))).
  { unfold h3. rewrite nd_upd_other by (unfold x, nb in *; lia). rewrite nd_upd_same.
    unfold h2. rewrite <- Hn1. rewrite nd_mkbin_new by (rewrite Hn1; unfold x, nb in *; lia). reflexivity. }
  assert (C_L : nd h3 L = w_parent (Some x) (nd h L)).
  { unfold h3. rewrite nd_upd_other by auto. rewrite nd_upd_other by (unfold x, nb in *; lia).
    unfold h2. rewrite nd_mkbin_l by (rewrite ?Hn1; unfold x, nb in *; lia). rewrite Hn1.
    unfold h1. rewrite nd_upd_same. rewrite H0L. destruct (nd h L); reflexivity. }
  assert (C_P : nd h3 P = w_child (Some x) (nd h P)).
  { unfold h3. rewrite nd_upd_same. rewrite nd_upd_other by (unfold x, nb in *; lia).
    unfold h2. rewrite nd_mkbin_other by (rewrite ?Hn1; unfold x, nb in *; lia).
    unfold h1. rewrite nd_upd_other by auto. unfold h0. rewrite nd_alloc_h_other by (unfold nb in *; lia). reflexivity. }
  assert (C_o : forall n, n <> nb -> n <> x -> n <> L -> n <> P -> nd h3 n = nd h n).
  { intros n N1 N2 N3 N4. unfold h3. rewrite !nd_upd_other by auto.
    unfold h2. rewrite nd_mkbin_other by (rewrite ?Hn1; auto).
    unfold h1. rewrite nd_upd_other by auto. unfold h0. apply nd_alloc_h_other. exact N1. }
  assert (Hn3 : next h3 = S x) by reflexivity.
  change (exists st' : bstate,
    Some ({| hp := if is_binop h3 (Some P)
                   then if oeq (nleft (nd h3 P)) L then upd h3 P (w_left (Some x)) else upd h3 P (w_right (Some x))
                   else h3;
             stack := L :: stk; croot := croot st |}, nb) = Some (st', nb) /\
    stack st' = L :: stk /\ croot st' = croot st /\ next (hp st') = nb + 2 /\
    GIT (hp st') (plug (FR x SExc (Leaf L cs c) :: fs) (Leaf nb csq []))).
  eexists. split; [reflexivity|]. cbn [hp stack croot]. split; [reflexivity|]. split; [reflexivity|].
  (* facts shared by both shapes of the slot *)
  assert (HAN : AN <> nb /\ AN <> x /\ AN <> L /\ AN <> P).
  { unfold x, nb in *. repeat split; try lia.
    - intro E. apply HnA. apply ids_plug_in. left. simpl. auto.
    - intro E. destruct fs as [|f rest]; [rewrite (HP0 eq_refl) in E; discriminate|].
      rewrite (HP1 f rest eq_refl) in E. apply HnA. apply ids_plug_in. right. rewrite E. cbn [flat_map fids]. simpl. auto. }
  destruct HAN as [A1 [A2 [A3 A4]]].
  assert (Hnew_nd : NoDup (ids (plug (FR x SExc (Leaf L cs c) :: fs) (Leaf nb csq [])))).
  { eapply Permutation_NoDup; [apply Permutation_sym; apply ids_plug_perm|].
    cbn [ids app flat_map fids fnode fsib]. simpl.
    constructor; [|constructor; [|constructor; [exact HLfs|exact Hndfs]]].
    - intros [E|[E|E]]; [unfold x in E; lia|unfold nb in *; lia|apply HltF in E; lia].
    - intros [E|E]; [unfold x, nb in *; lia|apply HltF in E; unfold x in E; lia]. }
  assert (Hnew_in : forall n, In n (ids (plug (FR x SExc (Leaf L cs c) :: fs) (Leaf nb csq []))) ->
                      n = nb \/ n = x \/ n = L \/ In n (flat_map fids fs)).
  { intros n Hn. apply ids_plug_in in Hn. cbn [ids flat_map fids fnode fsib] in Hn. simpl in Hn. intuition. }
  assert (HnE' : ~ In ENTITY (ids (plug (FR x SExc (Leaf L cs c) :: fs) (Leaf nb csq [])))).
  { intro Hn. apply Hnew_in in Hn. destruct Hn as [E|[E|[E|E]]].
    - unfold nb in *; lia.
    - unfold x, nb in *; lia.
    - apply HnE. apply ids_plug_in. left. simpl. auto.
    - apply HnE. apply HinT. exact E. }
  assert (HnA' : ~ In AN (ids (plug (FR x SExc (Leaf L cs c) :: fs) (Leaf nb csq [])))).
  { intro Hn. apply Hnew_in in Hn. destruct Hn as [E|[E|[E|E]]]; try congruence.
    apply HnA. apply HinT. exact E. }
  (* the new subtree under its parent P, in any heap that has the cells of h3 at nb, x, L *)
  assert (Hsub : forall hh, nd hh nb = nd h3 nb -> nd hh x = nd h3 x -> nd hh L = nd h3 L -> next hh = S x ->
                            rep hh P (Node x SExc (Leaf L cs c) (Leaf nb csq []))).
  { intros hh E1 E2 E3 En. cbn [rep root_id]. rewrite E1, E2, E3, C_nb, C_x, C_L, En.
    cbn [w_child w_parent w_left w_right nk nleft nright nchild nparent nconcl fresh_node].
    rewrite HLk, HLc. unfold x, nb in *. repeat split; auto; lia. }
  destruct fs as [|f rest].
  - (* the leaf was the whole tree: the descriptor's child is re-pointed by the `_parent_` setter *)
    rewrite (HP0 eq_refl) in *.
    assert (Hb : is_binop h3 (Some ENTITY) = false).
    { unfold is_binop. rewrite C_P. cbn [w_child nk]. rewrite HE1. reflexivity. }
    rewrite Hb. split; [rewrite Hn3; unfold x, nb; lia|].
    unfold GIT. cbn [plug fold_left fill root_id]. rewrite C_P.
    cbn [w_child nk nchild nparent]. rewrite (C_o AN) by auto.
    refine (conj _ (conj HE1 (conj eq_refl (conj HE3 (conj HA1 (conj HA2 (conj _ (conj _ (conj _ (conj _ _)))))))))).
    + apply Hsub; auto.
    + exact Hnew_nd.
    + exact HnE'.
    + exact HnA'.
    + rewrite Hn3. unfold x, nb. lia.
    + rewrite Hn3. unfold x, nb. lia.
  - (* the leaf was an operand of a selector: that operand is re-linked *)
    rewrite (HP1 f rest eq_refl) in *. clear HP0 HP1.
    pose proof Hctx as Hctx0. cbn [ctx] in Hctx. destruct Hctx as [K1 [K2 [K3 [K4 [K5 K6]]]]].
    assert (Hb : is_binop h3 (Some (fnode f)) = true).
    { unfold is_binop. rewrite C_P. cbn [w_child nk]. rewrite K1. reflexivity. }
    rewrite Hb.
    cbn [flat_map] in Hndfs, HLfs. pose proof (nodup_app_l _ _ Hndfs) as Hndf.
    cbn [fids] in Hndf. apply NoDup_cons_iff in Hndf. destruct Hndf as [Hf1 _].
    assert (Hf2 : ~ In (fnode f) (flat_map fids rest)).
    { intro E. cbn [fids] in Hndfs. simpl in Hndfs. apply NoDup_cons_iff in Hndfs. destruct Hndfs as [Hx _]. apply Hx. apply in_or_app. auto. }
    (* which operand of the parent held L *)
    assert (Hh4 : exists g, (g = w_left (Some x) \/ g = w_right (Some x)) /\
                  (if oeq (nleft (nd h3 (fnode f))) L then upd h3 (fnode f) (w_left (Some x)) else upd h3 (fnode f) (w_right (Some x)))
                  = upd h3 (fnode f) g /\ fpoint f (g (w_child (Some x) (nd h (fnode f)))) x).
    { rewrite C_P. cbn [w_child nleft].
      destruct f as [x' s' a|x' s' b]; cbn [fpoint fnode fsib] in *; destruct K4 as [K4a K4b]; rewrite K4a; cbn [oeq].
      - assert (E : Nat.eqb (root_id a) L = false).
        { apply Nat.eqb_neq. intro E. apply HLfs. rewrite <- E. apply in_or_app. left. cbn [fids fsib]. right. apply root_in_ids. }
        rewrite E. exists (w_right (Some x)). split; [right; reflexivity|]. split; [reflexivity|].
        cbn [w_right w_child nleft nright]. split; [exact K4a|reflexivity].
      - rewrite Nat.eqb_refl. exists (w_left (Some x)). split; [left; reflexivity|]. split; [reflexivity|].
        cbn [w_left w_child nleft nright]. split; [reflexivity|exact K4b]. }
    destruct Hh4 as [g [Hg [-> Hpt]]].
    set (h4 := upd h3 (fnode f) g).
    assert (D_o : forall n, n <> fnode f -> nd h4 n = nd h3 n) by (intros n Hn; apply nd_upd_other; exact Hn).
    assert (D_P : nd h4 (fnode f) = g (w_child (Some x) (nd h (fnode f)))) by (unfold h4; rewrite nd_upd_same, C_P; reflexivity).
    assert (Hn4 : next h4 = S x) by reflexivity.
    assert (HgK : nk (g (w_child (Some x) (nd h (fnode f)))) = nk (nd h (fnode f)) /\
                  nparent (g (w_child (Some x) (nd h (fnode f)))) = nparent (nd h (fnode f))).
    { destruct Hg as [-> | ->]; split; reflexivity. }
    split; [rewrite Hn4; unfold x, nb; lia|].
    assert (HPin : In (fnode f) (ids (plug (f :: rest) (Leaf L cs c)))).
    { apply ids_plug_in. right. cbn [flat_map fids]. simpl. auto. }
    assert (HEP : ENTITY <> fnode f) by (intro E; apply HnE; rewrite E; exact HPin).
    assert (HEo : nd h4 ENTITY = nd h ENTITY).
    { rewrite D_o by exact HEP. apply C_o; try (unfold x, nb in *; lia); try exact HEP.
      intro E. apply HnE. apply ids_plug_in. left. simpl. auto. }
    assert (HAo : nd h4 AN = nd h AN) by (rewrite D_o by exact A4; apply C_o; auto).
    unfold GIT. rewrite HEo, HAo.
    refine (conj _ (conj HE1 (conj _ (conj HE3 (conj HA1 (conj HA2 (conj Hnew_nd (conj HnE' (conj HnA' (conj _ _)))))))))).
    + change (plug (FR x SExc (Leaf L cs c) :: f :: rest) (Leaf nb csq [])) with
             (plug (f :: rest) (Node x SExc (Leaf L cs c) (Leaf nb csq []))).
      apply rep_plug. split.
      * apply (ctx_retarget h h4 ENTITY f rest L x Hctx0 Hf1 Hf2).
        -- intros n Hn Hne. rewrite D_o by exact Hne. apply C_o; auto.
           ++ apply HltF in Hn. unfold nb in *. lia.
           ++ apply HltF in Hn. unfold x, nb in *. lia.
           ++ intro E. apply HLfs. rewrite <- E. exact Hn.
        -- rewrite Hn4. unfold x, nb. lia.
        -- rewrite D_P. apply HgK.
        -- rewrite D_P. apply HgK.
        -- rewrite D_P. exact Hpt.
      * cbn [holeparent]. apply Hsub; auto; apply D_o; unfold x, nb in *; lia.
    + rewrite HE2. f_equal. change (plug (FR x SExc (Leaf L cs c) :: f :: rest) (Leaf nb csq [])) with (plug (f :: rest) (Node x SExc (Leaf L cs c) (Leaf nb csq []))). apply root_plug_nonempty.
    + rewrite Hn4. unfold x, nb. lia.
    + rewrite Hn4. unfold x, nb. lia.
Qed.

(* ---- alternative_or_next(): the climb ---- *)
Definition climbable (f : frame) : bool := match f with FR _ SExc _ => false | _ => true end.
Definition boundary (fs : list frame) : Prop :=
  match fs with [] => True | FR _ SExc _ :: _ => True | _ => False end.

Lemma climb_ctx h fs1 : forall fs2 r fuel,
  ctx h ENTITY (fs1 ++ fs2) r -> nparent (nd h r) = Some (holeparent ENTITY (fs1 ++ fs2)) ->
  forallb climbable fs1 = true -> boundary fs2 -> nk (nd h ENTITY) = NEntity ->
  NoDup (r :: flat_map fids (fs1 ++ fs2)) -> length fs1 < fuel ->
  climb fuel h r = holeparent r (rev fs1).
Proof.
  induction fs1 as [|f fs1 IH]; intros fs2 r fuel Hctx Hp Hc Hb HE Hnd Hf.
  - cbn [app rev holeparent] in *. destruct fuel; [lia|]. cbn [climb]. rewrite Hp.
    destruct fs2 as [|g rest]; cbn [holeparent].
    + unfold is_sel. rewrite HE. reflexivity.
    + destruct g as [x s a|x s b]; cbn [boundary] in Hb; try contradiction. destruct s; try contradiction.
      cbn [ctx fnode fsel fsib fpoint] in Hctx. destruct Hctx as [K1 [_ [_ [[K4 _] _]]]].
      unfold is_sel. cbn [fnode]. rewrite K1. cbn [orb andb]. rewrite K4. cbn [oeq].
      assert (E : Nat.eqb (root_id a) r = false).
      { apply Nat.eqb_neq. intro E. apply NoDup_cons_iff in Hnd. destruct Hnd as [Hr _]. apply Hr. rewrite <- E.
        cbn [flat_map fids fsib]. simpl. right. apply in_or_app. left. apply root_in_ids. }
      rewrite E. reflexivity.
  - cbn [app] in *. destruct fuel; [simpl in Hf; lia|]. cbn [climb]. rewrite Hp. cbn [holeparent].
    cbn [ctx] in Hctx. destruct Hctx as [K1 [K2 [K3 [K4 [K5 K6]]]]].
    cbn [forallb] in Hc. apply andb_prop in Hc. destruct Hc as [Hcf Hc].
    assert (Hgo : is_sel h (Some (fnode f)) (fun s => match s with SExc => false | _ => true end)
                  || (is_sel h (Some (fnode f)) (fun s => match s with SExc => true | _ => false end)
                      && oeq (nleft (nd h (fnode f))) r) = true).
    { unfold is_sel. rewrite K1. destruct f as [x s a|x s b]; cbn [fsel climbable fpoint fnode] in *.
      - destruct s; try discriminate; reflexivity.
      - destruct s; try reflexivity. destruct K4 as [K4 _]. rewrite K4. cbn [oeq]. rewrite Nat.eqb_refl. reflexivity. }
    rewrite Hgo.
    cbn [rev]. 
    assert (Hnd' : NoDup (fnode f :: flat_map fids (fs1 ++ fs2))).
    { apply NoDup_cons_iff in Hnd. destruct Hnd as [_ Hnd]. cbn [flat_map fids] in Hnd. simpl in Hnd.
      apply NoDup_cons_iff in Hnd. destruct Hnd as [Hx Hnd]. constructor.
      - intro E. apply Hx. apply in_or_app. right. exact E.
      - eapply nodup_app_r. exact Hnd. }
    rewrite (IH fs2 (fnode f) fuel K6 K2 Hc Hb HE Hnd') by (simpl in Hf; lia).
    destruct (rev fs1) as [|g gs]; reflexivity.
Qed.

Lemma root_plug fs : forall m, root_id (plug fs m) = holeparent (root_id m) (rev fs).
Proof.
  induction fs as [|f fs IH] using rev_ind; intros m; [reflexivity|].
  rewrite plug_app. cbn [plug fold_left]. rewrite root_fill. rewrite rev_app_distr. reflexivity.
Qed.
Lemma rep_root_parent h p t : rep h p t -> nparent (nd h (root_id t)) = Some p.
Proof. destruct t; cbn [rep root_id]; tauto. Qed.

Lemma length_frames fs : length fs <= length (flat_map fids fs).
Proof. induction fs as [|f fs IH]; simpl; [lia|]. rewrite app_length. simpl. lia. Qed.

Lemma do_alt_next_ok st s fs1 fs2 L cs c csq stk :
  s <> SExc ->
  GIT (hp st) (plug (fs1 ++ fs2) (Leaf L cs c)) -> stack st = L :: stk ->
  forallb climbable fs1 = true -> boundary fs2 ->
  exists st', do_alt_next s csq st = Some (st', next (hp st)) /\ stack st' = stack st /\ croot st' = croot st /\
              next (hp st') = next (hp st) + 2 /\
              GIT (hp st') (plug (FR (S (next (hp st))) s (plug fs1 (Leaf L cs c)) :: fs2) (Leaf (next (hp st)) csq [])).
Proof.
  intros Hs [Hrep [HE1 [HE2 [HE3 [HA1 [HA2 [Hnd [HnE [HnA [HltE HltA]]]]]]]]]] Hstk Hclimb Hbound.
  set (h := hp st) in *. set (nb := next h). set (x := S nb). set (P := holeparent ENTITY fs2).
  set (T1 := plug fs1 (Leaf L cs c)). set (R := root_id T1).
  pose proof Hrep as Hrep0.
  pose proof (nodup_plug _ _ Hnd) as HndL. cbn [ids app] in HndL.
  (* the leaf under all frames, for the climb *)
  pose proof (proj1 (rep_plug h ENTITY (fs1 ++ fs2) (Leaf L cs c)) Hrep) as [HctxL HleafL].
  cbn [rep root_id] in HleafL, HctxL. destruct HleafL as [_ [_ [HLp HLlt]]].
  (* the subtree T1 in the slot of P *)
  rewrite plug_app in Hrep, HE2, Hnd, HnE, HnA. fold T1 in Hrep, HE2, Hnd, HnE, HnA.
  apply rep_plug in Hrep. destruct Hrep as [Hctx HT1]. fold R in Hctx. fold P in HT1.
  pose proof (rep_root_parent _ _ _ HT1) as HRp. fold R in HRp.
  pose proof (nodup_plug _ _ Hnd) as Hnd'.
  pose proof (nodup_app_l _ _ Hnd') as HndT1. pose proof (nodup_app_r _ _ Hnd') as Hndfs.
  pose proof (nodup_app_disj _ _ Hnd') as Hdisj.
  assert (HinT : forall n, In n (flat_map fids fs2) -> In n (ids (plug fs2 T1))) by (intros n Hn; apply ids_plug_in; right; exact Hn).
  assert (HinT1 : forall n, In n (ids T1) -> In n (ids (plug fs2 T1))) by (intros n Hn; apply ids_plug_in; left; exact Hn).
  assert (Hlt : forall n, In n (ids (plug fs2 T1)) -> n < nb).
  { intros n Hn. eapply rep_ids_lt; [|exact Hn]. apply rep_plug. split; [exact Hctx|exact HT1]. }
  assert (HRin : In R (ids T1)) by apply root_in_ids.
  assert (HP : P < nb /\ ~ In P (ids T1) /\ (fs2 = [] -> P = ENTITY) /\ (forall f rest, fs2 = f :: rest -> P = fnode f)).
  { unfold P. destruct fs2 as [|f rest]; cbn [holeparent].
    - repeat split; auto; try discriminate; try (intro E; apply HnE; apply HinT1; exact E).
    - repeat split; try discriminate.
      + apply Hlt, HinT. cbn [flat_map fids]. simpl. auto.
      + intro E. apply (Hdisj _ E). cbn [flat_map fids]. simpl. auto.
      + intros f0 r0 E. inversion E. reflexivity. }
  destruct HP as [HPlt [HPT1 [HP0 HP1]]].
  assert (HPR : P <> R) by (intro E; apply HPT1; rewrite E; exact HRin).
  assert (HRlt : R < nb) by (apply Hlt, HinT1, HRin).
  (* run the code *)
  unfold do_alt_next. fold h. rewrite alloc_eq. rewrite Hstk.
  set (h0 := alloc_h h (NCond csq)).
  assert (H0 : forall n, n < nb -> nd h0 n = nd h n) by (intros n Hn; apply nd_alloc_h_other; unfold nb in *; lia).
  assert (Hcl : climb (S (next h0)) h0 L = R).
  { unfold R, T1. rewrite root_plug. cbn [root_id].
    apply (climb_ctx h0 fs1 fs2 L).
    - apply (ctx_frame h); [exact HctxL| |unfold h0; rewrite next_alloc_h; lia].
      intros n Hn. apply H0. eapply rep_ids_lt; [exact Hrep0|]. apply ids_plug_in. right. exact Hn.
    - rewrite H0 by exact HLlt. exact HLp.
    - exact Hclimb.
    - exact Hbound.
    - rewrite H0 by (unfold nb; exact HltE). exact HE1.
    - exact HndL.
    - unfold h0. rewrite next_alloc_h. fold nb.
      apply NoDup_cons_iff in HndL. destruct HndL as [_ HndF].
      assert (length (flat_map fids (fs1 ++ fs2)) <= nb).
      { apply nodup_bound; [exact HndF|]. intros n Hn. eapply rep_ids_lt; [exact Hrep0|]. apply ids_plug_in. right. exact Hn. }
      pose proof (length_frames (fs1 ++ fs2)) as Hl. rewrite app_length in Hl. lia. }
  rewrite Hcl. clear Hcl.
  assert (H0R : nd h0 R = nd h R) by (apply H0; exact HRlt).
  rewrite H0R, HRp. unfold set_parent at 1. rewrite H0R, HRp.
  set (h1 := upd h0 R (w_parent None)).
  rewrite mkbin_eq. set (h2 := mkbin_h h1 s R nb).
  assert (Hn1 : next h1 = x) by reflexivity.
  cbn [set_parent]. rewrite Hn1.
  set (h3 := upd (upd h2 x (w_parent (Some P))) P (w_child (Some x))).
  assert (C_nb : nd h3 nb = w_parent (Some x) (fresh_node (NCond csq))).
  { unfold h3. rewrite nd_upd_other by (unfold x, nb in *; lia). rewrite nd_upd_other by (unfold x; lia).
    unfold h2. rewrite nd_mkbin_r by (rewrite Hn1; unfold x; lia).
    assert (E : Nat.eqb nb R = false) by (apply Nat.eqb_neq; unfold nb in *; lia). rewrite E. rewrite Hn1.
    unfold h1. rewrite nd_upd_other by (unfold nb in *; lia). unfold h0. rewrite nd_alloc_h_same. reflexivity. }
  assert (C_x : nd h3 x = w_parent (Some P) (w_right (Some nb) (w_left (Some R) (fresh_node (NSel s))))).
  { unfold h3. rewrite nd_upd_other by (unfold x, nb in *; lia). rewrite nd_upd_same.
    unfold h2. rewrite <- Hn1. rewrite nd_mkbin_new by (rewrite Hn1; unfold x, nb in *; lia). reflexivity. }
  assert (C_R : nd h3 R = w_parent (Some x) (nd h R)).
  { unfold h3. rewrite nd_upd_other by auto. rewrite nd_upd_other by (unfold x, nb in *; lia).
    unfold h2. rewrite nd_mkbin_l by (rewrite ?Hn1; unfold x, nb in *; lia). rewrite Hn1.
    unfold h1. rewrite nd_upd_same. rewrite H0R. destruct (nd h R); reflexivity. }
  assert (C_P : nd h3 P = w_child (Some x) (nd h P)).
  { unfold h3. rewrite nd_upd_same. rewrite nd_upd_other by (unfold x, nb in *; lia).
    unfold h2. rewrite nd_mkbin_other by (rewrite ?Hn1; unfold x, nb in *; lia).
    unfold h1. rewrite nd_upd_other by auto. unfold h0. rewrite nd_alloc_h_other by (unfold nb in *; lia). reflexivity. }
  assert (C_o : forall n, n <> nb -> n <> x -> n <> R -> n <> P -> nd h3 n = nd h n).
  { intros n N1 N2 N3 N4. unfold h3. rewrite !nd_upd_other by auto.
    unfold h2. rewrite nd_mkbin_other by (rewrite ?Hn1; auto).
    unfold h1. rewrite nd_upd_other by auto. unfold h0. apply nd_alloc_h_other. exact N1. }
  assert (Hn3 : next h3 = S x) by reflexivity.
  change (exists st' : bstate,
    Some ({| hp := if is_binop h3 (Some P) then upd h3 P (w_right (Some x)) else h3;
             stack := L :: stk; croot := croot st |}, nb) = Some (st', nb) /\
    stack st' = L :: stk /\ croot st' = croot st /\ next (hp st') = nb + 2 /\
    GIT (hp st') (plug (FR x s T1 :: fs2) (Leaf nb csq []))).
  eexists. split; [reflexivity|]. cbn [hp stack croot]. split; [reflexivity|]. split; [reflexivity|].
  assert (HAN : AN <> nb /\ AN <> x /\ AN <> R /\ AN <> P).
  { unfold x, nb in *. repeat split; try lia.
    - intro E. apply HnA. apply HinT1. rewrite E. exact HRin.
    - intro E. destruct fs2 as [|f rest]; [rewrite (HP0 eq_refl) in E; discriminate|].
      rewrite (HP1 f rest eq_refl) in E. apply HnA. apply HinT. rewrite E. cbn [flat_map fids]. simpl. auto. }
  destruct HAN as [A1 [A2 [A3 A4]]].
  assert (Hnew_in : forall n, In n (ids (plug (FR x s T1 :: fs2) (Leaf nb csq []))) ->
                      n = nb \/ n = x \/ In n (ids T1) \/ In n (flat_map fids fs2)).
  { intros n Hn. apply ids_plug_in in Hn. cbn [ids flat_map fids fnode fsib] in Hn. simpl in Hn.
    rewrite in_app_iff in Hn. intuition. }
  assert (Hnew_nd : NoDup (ids (plug (FR x s T1 :: fs2) (Leaf nb csq [])))).
  { eapply Permutation_NoDup; [apply Permutation_sym; apply ids_plug_perm|].
    cbn [ids app flat_map fids fnode fsib]. simpl.
    constructor; [|constructor; [|exact Hnd']].
    - intros [E|E]; [unfold x in E; lia|]. apply in_app_or in E. destruct E as [E|E].
      + apply HinT1, Hlt in E. lia.
      + apply HinT, Hlt in E. lia.
    - intro E. apply in_app_or in E. destruct E as [E|E].
      + apply HinT1, Hlt in E. unfold x in E. lia.
      + apply HinT, Hlt in E. unfold x in E. lia. }
  assert (HnE' : ~ In ENTITY (ids (plug (FR x s T1 :: fs2) (Leaf nb csq [])))).
  { intro Hn. apply Hnew_in in Hn. destruct Hn as [E|[E|[E|E]]].
    - unfold nb in *; lia.
    - unfold x, nb in *; lia.
    - apply HnE, HinT1, E.
    - apply HnE, HinT, E. }
  assert (HnA' : ~ In AN (ids (plug (FR x s T1 :: fs2) (Leaf nb csq [])))).
  { intro Hn. apply Hnew_in in Hn. destruct Hn as [E|[E|[E|E]]]; try congruence.
    - apply HnA, HinT1, E.
    - apply HnA, HinT, E. }
  assert (Hsub : forall hh, nd hh nb = nd h3 nb -> nd hh x = nd h3 x -> nd hh R = nd h3 R ->
                            (forall n, In n (ids T1) -> n <> R -> nd hh n = nd h n) -> next hh = S x ->
                            rep hh P (Node x s T1 (Leaf nb csq []))).
  { intros hh E1 E2 E3 E4 En. cbn [rep root_id]. fold R. rewrite E1, E2, C_nb, C_x, En.
    cbn [w_child w_parent w_left w_right nk nleft nright nchild nparent nconcl fresh_node].
    refine (conj eq_refl (conj eq_refl (conj eq_refl (conj eq_refl (conj _ (conj _ _)))))).
    - unfold x. lia.
    - apply (rep_frame (upd h R (w_parent (Some x)))).
      + unfold R. apply (rep_reparent h P x T1 HT1 HndT1).
      + intros n Hn. destruct (Nat.eq_dec n R) as [->|Hne].
        * rewrite E3, C_R. rewrite nd_upd_same. reflexivity.
        * rewrite E4 by assumption. rewrite nd_upd_other by assumption. reflexivity.
      + rewrite next_upd. unfold x, nb. lia.
    - repeat split; auto; unfold x, nb in *; lia. }
  destruct fs2 as [|f rest].
  - rewrite (HP0 eq_refl) in *.
    assert (Hb : is_binop h3 (Some ENTITY) = false).
    { unfold is_binop. rewrite C_P. cbn [w_child nk]. rewrite HE1. reflexivity. }
    rewrite Hb. split; [rewrite Hn3; unfold x, nb; lia|].
    unfold GIT. cbn [plug fold_left fill root_id]. rewrite C_P.
    cbn [w_child nk nchild nparent]. rewrite (C_o AN) by auto.
    refine (conj _ (conj HE1 (conj eq_refl (conj HE3 (conj HA1 (conj HA2 (conj _ (conj _ (conj _ (conj _ _)))))))))).
    + apply Hsub; auto. intros n Hn Hne. apply C_o; auto.
      * apply HinT1, Hlt in Hn. unfold nb in *. lia.
      * apply HinT1, Hlt in Hn. unfold x, nb in *. lia.
      * intro E. apply HnE, HinT1. rewrite <- E. exact Hn.
    + exact Hnew_nd.
    + exact HnE'.
    + exact HnA'.
    + rewrite Hn3. unfold x, nb. lia.
    + rewrite Hn3. unfold x, nb. lia.
  - rewrite (HP1 f rest eq_refl) in *. clear HP0 HP1.
    destruct f as [x' s' a|x' s' b]; cbn [boundary] in Hbound; try contradiction.
    destruct s'; try contradiction.
    pose proof Hctx as Hctx0. cbn [ctx fnode fsel fsib fpoint] in Hctx. destruct Hctx as [K1 [K2 [K3 [[K4a K4b] [K5 K6]]]]].
    cbn [fnode] in *.
    assert (Hb : is_binop h3 (Some x') = true).
    { unfold is_binop. rewrite C_P. cbn [w_child nk]. rewrite K1. reflexivity. }
    rewrite Hb.
    cbn [flat_map fids fnode fsib] in Hndfs. simpl in Hndfs.
    pose proof Hndfs as Hndfs0. apply NoDup_cons_iff in Hndfs. destruct Hndfs as [Hx' _].
    assert (Hf1 : ~ In x' (ids a)) by (intro E; apply Hx'; apply in_or_app; left; exact E).
    assert (Hf2 : ~ In x' (flat_map fids rest)) by (intro E; apply Hx'; apply in_or_app; right; exact E).
    set (h4 := upd h3 x' (w_right (Some x))).
    assert (D_o : forall n, n <> x' -> nd h4 n = nd h3 n) by (intros n Hn; apply nd_upd_other; exact Hn).
    assert (D_P : nd h4 x' = w_right (Some x) (w_child (Some x) (nd h x'))) by (unfold h4; rewrite nd_upd_same, C_P; reflexivity).
    assert (Hn4 : next h4 = S x) by reflexivity.
    split; [rewrite Hn4; unfold x, nb; lia|].
    assert (HPin : In x' (ids (plug (FR x' SExc a :: rest) T1))).
    { apply ids_plug_in. right. cbn [flat_map fids]. simpl. auto. }
    assert (HEP : ENTITY <> x') by (intro E; apply HnE; rewrite E; exact HPin).
    assert (HEo : nd h4 ENTITY = nd h ENTITY).
    { rewrite D_o by exact HEP. apply C_o; try (unfold x, nb in *; lia); try exact HEP.
      intro E. apply HnE, HinT1. rewrite E. exact HRin. }
    assert (HAo : nd h4 AN = nd h AN) by (rewrite D_o by exact A4; apply C_o; auto).
    unfold GIT. rewrite HEo, HAo.
    refine (conj _ (conj HE1 (conj _ (conj HE3 (conj HA1 (conj HA2 (conj Hnew_nd (conj HnE' (conj HnA' (conj _ _)))))))))).
    + change (plug (FR x s T1 :: FR x' SExc a :: rest) (Leaf nb csq [])) with
             (plug (FR x' SExc a :: rest) (Node x s T1 (Leaf nb csq []))).
      apply rep_plug. split.
      * apply (ctx_retarget h h4 ENTITY (FR x' SExc a) rest R x Hctx0 Hf1 Hf2).
        -- intros n Hn Hne. cbn [fnode] in Hne. rewrite D_o by exact Hne. apply C_o; auto.
           ++ apply HinT, Hlt in Hn. unfold nb in *. lia.
           ++ apply HinT, Hlt in Hn. unfold x, nb in *. lia.
           ++ intro E. apply (Hdisj R HRin). rewrite <- E. exact Hn.
        -- rewrite Hn4. unfold x, nb. lia.
        -- cbn [fnode]. rewrite D_P. reflexivity.
        -- cbn [fnode]. rewrite D_P. reflexivity.
        -- cbn [fnode fpoint]. rewrite D_P. cbn [w_right w_child nleft nright]. split; [exact K4a|reflexivity].
      * cbn [holeparent fnode]. apply Hsub.
        -- apply D_o. unfold nb in *. lia.
        -- apply D_o. unfold x, nb in *. lia.
        -- apply D_o. intro E. apply HPT1. rewrite <- E. exact HRin.
        -- intros n Hn Hne. rewrite D_o by (intro E; apply HPT1; rewrite <- E; exact Hn). apply C_o; auto.
           ++ apply HinT1, Hlt in Hn. unfold nb in *. lia.
           ++ apply HinT1, Hlt in Hn. unfold x, nb in *. lia.
           ++ intro E. apply HPT1. rewrite <- E. exact Hn.
        -- exact Hn4.
    + rewrite HE2. f_equal. change (plug (FR x s T1 :: FR x' SExc a :: rest) (Leaf nb csq [])) with (plug (FR x' SExc a :: rest) (Node x s T1 (Leaf nb csq []))). apply root_plug_nonempty.
    + rewrite Hn4. unfold x, nb. lia.
    + rewrite Hn4. unfold x, nb. lia.
Qed.

(* ---- Add(...): the conclusion is attached to the condition leaf on top of the stack ---- *)
Lemma add_concl_ok st fs L cs tg stk :
  GIT (hp st) (plug fs (Leaf L cs [])) -> stack st = L :: stk ->
  exists st', add_concl tg st = Some st' /\ stack st' = stack st /\ croot st' = croot st /\ next (hp st') = next (hp st) /\
              GIT (hp st') (plug fs (Leaf L cs (tag_list tg))).
Proof.
  intros HG Hstk. destruct tg as [t|]; cbn [add_concl tag_list].
  2:{ exists st. split; [reflexivity|]. split; [reflexivity|]. split; [reflexivity|]. split; [reflexivity|]. exact HG. }
  rewrite Hstk. eexists. split; [reflexivity|]. cbn [hp stack croot]. split; [reflexivity|]. split; [reflexivity|]. split; [reflexivity|].
  destruct HG as [Hrep [HE1 [HE2 [HE3 [HA1 [HA2 [Hnd [HnE [HnA [HltE HltA]]]]]]]]]].
  set (h := hp st) in *. set (h' := upd h L (fun n => w_concl (union (nconcl n) [t]) n)).
  pose proof (nodup_plug _ _ Hnd) as Hnd'. cbn [ids app] in Hnd'. apply NoDup_cons_iff in Hnd'. destruct Hnd' as [HLfs _].
  assert (HLE : L <> ENTITY) by (intro E; apply HnE; apply ids_plug_in; left; rewrite <- E; simpl; auto).
  assert (HLA : L <> AN) by (intro E; apply HnA; apply ids_plug_in; left; rewrite <- E; simpl; auto).
  assert (Hids : forall n, In n (ids (plug fs (Leaf L cs [t]))) <-> In n (ids (plug fs (Leaf L cs [])))).
  { intros n. rewrite !ids_plug_in. reflexivity. }
  unfold GIT, h'. rewrite !(nd_upd_other h L _ ENTITY) by auto. rewrite !(nd_upd_other h L _ AN) by auto. fold h'.
  refine (conj _ (conj HE1 (conj _ (conj HE3 (conj HA1 (conj HA2 (conj _ (conj _ (conj _ (conj HltE HltA)))))))))).
  - apply rep_plug in Hrep. destruct Hrep as [Hctx Hleaf]. apply rep_plug. split.
    + apply (ctx_frame h); auto. intros n Hn. apply nd_upd_other. intro E. apply HLfs. rewrite <- E. exact Hn.
    + cbn [rep root_id] in *. unfold h'. rewrite nd_upd_same. destruct Hleaf as [H1 [H2 [H3 H4]]].
      cbn [w_concl nk nconcl nparent]. rewrite H2. repeat split; auto.
  - rewrite HE2. f_equal. apply root_plug_same. reflexivity.
  - eapply Permutation_NoDup; [|exact Hnd]. eapply Permutation_trans; [apply (ids_plug_perm fs (Leaf L cs []))|].
    apply Permutation_sym. apply (ids_plug_perm fs (Leaf L cs [t])).
  - intro E. apply HnE. apply Hids. exact E.
  - intro E. apply HnA. apply Hids. exact E.
Qed.

(* ---- `with branch:` pushes the branch itself (it is neither the query nor a child of the query) ---- *)
Lemma root_of_rep h p t : rep h p t -> forall n, In n (ids t) ->
  exists d, d <= depth t /\ forall k, root_of (d + k) h n = root_of k h p.
Proof.
  revert p. induction t as [x cs c|x s tl IHl tr IHr]; intros p H n Hn; cbn [rep ids depth] in *.
  - destruct Hn as [<-|[]]. exists 1. split; [lia|]. intros k. cbn [Nat.add root_of]. destruct H as [_ [_ [H3 _]]]. rewrite H3. reflexivity.
  - destruct H as [_ [_ [_ [H4 [_ [H6 H7]]]]]]. destruct Hn as [<-|Hn].
    + exists 1. split; [lia|]. intros k. cbn [Nat.add root_of]. rewrite H4. reflexivity.
    + apply in_app_or in Hn. destruct Hn as [Hn|Hn].
      * destruct (IHl x H6 n Hn) as [d [Hd Hk]]. exists (S d). split; [lia|]. intros k.
        replace (S d + k) with (d + S k) by lia. rewrite Hk. cbn [root_of]. rewrite H4. reflexivity.
      * destruct (IHr x H7 n Hn) as [d [Hd Hk]]. exists (S d). split; [lia|]. intros k.
        replace (S d + k) with (d + S k) by lia. rewrite Hk. cbn [root_of]. rewrite H4. reflexivity.
Qed.

Lemma root_of_git h T n : GIT h T -> In n (ids T) -> root_of (S (next h)) h n = AN.
Proof.
  intros [Hrep [HE1 [HE2 [HE3 [HA1 [HA2 [Hnd [HnE [HnA [HltE HltA]]]]]]]]]] Hn.
  destruct (root_of_rep h ENTITY T Hrep n Hn) as [d [Hd Hk]].
  assert (Hlen : length (ids T) + 2 <= next h).
  { assert (Hnd2 : NoDup (ENTITY :: AN :: ids T)).
    { constructor; [|constructor; assumption]. intros [E|E]; [discriminate E|contradiction]. }
    pose proof (nodup_bound _ Hnd2 (next h)) as Hb. simpl in Hb. 
    assert (forall x, ENTITY = x \/ AN = x \/ In x (ids T) -> x < next h).
    { intros x [<-|[<-|Hx]]; auto. eapply rep_ids_lt; eauto. }
    specialize (Hb H). lia. }
  pose proof (depth_le_ids T) as Hdp.
  replace (S (next h)) with (d + (S (next h) - d)) by lia. rewrite Hk.
  destruct (S (next h) - d) as [|[|k]] eqn:Ek; try lia.
  cbn [root_of]. rewrite HE3, HA2. reflexivity.
Qed.

Lemma enter_branch st T nb x :
  GIT (hp st) T -> In nb (ids T) -> nparent (nd (hp st) nb) = Some x -> In x (ids T) ->
  enter nb st = {| hp := hp st; stack := nb :: stack st; croot := croot st |}.
Proof.
  intros HG Hnb Hp Hx. unfold enter. rewrite (root_of_git _ _ _ HG Hnb). rewrite Hp. cbn [oeq].
  destruct HG as [_ [_ [_ [_ [_ [_ [_ [_ [HnA _]]]]]]]]].
  assert (E1 : Nat.eqb nb AN = false) by (apply Nat.eqb_neq; intro E; apply HnA; rewrite <- E; exact Hnb).
  assert (E2 : Nat.eqb x AN = false) by (apply Nat.eqb_neq; intro E; apply HnA; rewrite <- E; exact Hx).
  rewrite E1, E2. reflexivity.
Qed.

(* ---- the written tree as a zipper around the rule's condition leaf (pure) ---- *)
Definition eframe (f : frame) : frame :=
  match f with FR _ s a => FR 0 s (erase a) | FL _ s b => FL 0 s (erase b) end.
Lemma erase_plug fs : forall m, erase (plug fs m) = plug (map eframe fs) (erase m).
Proof.
  induction fs as [|f fs IH]; intros m; [reflexivity|]. cbn [map]. rewrite !plug_cons, IH. f_equal.
  destruct f; reflexivity.
Qed.

Definition met (r : rule) : tree :=
  match r with
  | Rule cs tg body =>
      (fix rf (l : list (kind * rule)) {struct l} : tree :=
         match l with
         | [] => Leaf 0 cs (tag_list tg)
         | (KRef, q) :: l' => Node 0 SExc (rf l') (tlevel KAlt q None)
         | _ :: l' => rf l'
         end) body
  end.
Fixpoint refs (body : list (kind * rule)) : list rule :=
  match body with [] => [] | (KRef, q) :: l' => q :: refs l' | _ :: l' => refs l' end.
Definition Afr (r : rule) : list frame := rev (map (fun q => FL 0 SExc (tlevel KAlt q None)) (refs (r_body r))).
Lemma met_plug r : met r = plug (Afr r) (Leaf 0 (r_conds r) (tag_list (r_tag r))).
Proof.
  destruct r as [cs tg body]. unfold Afr. cbn [met r_body r_conds r_tag].
  induction body as [|[k q] body IH]; [reflexivity|].
  destruct k; cbn [refs map rev]; try exact IH.
  rewrite plug_app, <- IH. reflexivity.
Qed.

Fixpoint Bfr (r : rule) : list frame :=
  match r with
  | Rule _ _ body =>
      (fix go (l : list (kind * rule)) {struct l} : list frame :=
         match l with
         | [] => []
         | (KRef, _) :: l' => go l'
         | (k, q) :: l' => (FL 0 (sel_of k) (met q) :: Bfr q) ++ go l'
         end) body
  end.
Definition joinE (k : kind) (acc : option tree) (m : tree) : tree :=
  match acc with None => m | Some a => Node 0 (sel_of k) a m end.

Lemma tlevel_plug r : forall k acc, tlevel k r acc = plug (Bfr r) (joinE k acc (met r)).
Proof.
  induction r as [cs tg body IH] using rule_ind'. intros k acc.
  cbn [tlevel Bfr]. change ((fix rf (l : list (kind * rule)) : tree :=
                               match l with
                               | [] => Leaf 0 cs (tag_list tg)
                               | (KRef, q) :: l' => Node 0 SExc (rf l') (tlevel KAlt q None)
                               | _ :: l' => rf l'
                               end) body) with (met (Rule cs tg body)).
  change (match acc with None => met (Rule cs tg body) | Some a => Node 0 (sel_of k) a (met (Rule cs tg body)) end)
    with (joinE k acc (met (Rule cs tg body))).
  generalize (joinE k acc (met (Rule cs tg body))). clear k acc.
  induction body as [|[k q] body IHb]; intros t0; [reflexivity|].
  inversion IH as [|? ? Hq Hrest]; subst. simpl in Hq.
  destruct k.
  - apply IHb. exact Hrest.
  - rewrite (IHb Hrest). rewrite Hq. rewrite plug_app. reflexivity.
  - rewrite (IHb Hrest). rewrite Hq. rewrite plug_app. reflexivity.
Qed.

Corollary tree_of_plug prog :
  tree_of prog = plug (Afr prog ++ Bfr prog) (Leaf 0 (r_conds prog) (tag_list (r_tag prog))).
Proof. unfold tree_of. rewrite tlevel_plug. cbn [joinE]. rewrite met_plug, plug_app. reflexivity. Qed.

(* ---- executing the body of a `with` block ---- *)
Lemma leaf_in_plug fs L cs c : In L (ids (plug fs (Leaf L cs c))).
Proof. apply ids_plug_in. left. simpl. auto. Qed.

Lemma branch_entry st x s a fs nb csq :
  GIT (hp st) (plug (FR x s a :: fs) (Leaf nb csq [])) ->
  enter nb st = {| hp := hp st; stack := nb :: stack st; croot := croot st |}.
Proof.
  intros HG. apply (enter_branch st _ nb x HG).
  - apply leaf_in_plug.
  - destruct HG as [Hrep _]. apply rep_plug in Hrep. destruct Hrep as [_ Hl]. cbn [rep holeparent fnode] in Hl. tauto.
  - apply ids_plug_in. right. cbn [flat_map fids fnode]. simpl. auto.
Qed.

Definition exec_post (r : rule) (st st' : bstate) (fs0 fsout : list frame) (L : nat) : Prop :=
  exists A B, stack st' = stack st /\ croot st' = croot st /\
    GIT (hp st') (plug (A ++ fs0 ++ B ++ fsout) (Leaf L (r_conds r) (tag_list (r_tag r)))) /\
    forallb climbable A = true /\ forallb climbable B = true /\
    map eframe A = Afr r /\ map eframe B = Bfr r.

Lemma exec_body_ok r : forall st fs0 fsout L stk,
  GIT (hp st) (plug (fs0 ++ fsout) (Leaf L (r_conds r) [])) -> stack st = L :: stk ->
  forallb climbable fs0 = true -> boundary fsout ->
  exists st', exec_body r st = Some st' /\ exec_post r st st' fs0 fsout L.
Proof.
  induction r as [cs tg body IH] using rule_ind'. intros st fs0 fsout L stk HG Hstk Hc0 Hbd.
  cbn [r_conds] in HG. cbn [exec_body].
  destruct (add_concl_ok st (fs0 ++ fsout) L cs tg stk HG Hstk) as [st1 [Ha [Hs1 [Hcr1 [_ HG1]]]]].
  rewrite Ha. set (c := tag_list tg) in *.
  (* the loop over the remaining body, with the frames accumulated so far *)
  assert (Hloop : forall rest, Forall (fun kq => forall st fs0 fsout L stk,
                      GIT (hp st) (plug (fs0 ++ fsout) (Leaf L (r_conds (snd kq)) [])) -> stack st = L :: stk ->
                      forallb climbable fs0 = true -> boundary fsout ->
                      exists st', exec_body (snd kq) st = Some st' /\ exec_post (snd kq) st st' fs0 fsout L) rest ->
            forall st1 A B,
              GIT (hp st1) (plug (A ++ fs0 ++ B ++ fsout) (Leaf L cs c)) -> stack st1 = L :: stk ->
              forallb climbable A = true -> forallb climbable B = true ->
              exists st' A' B',
                (fix go (l : list (kind * rule)) (st : bstate) {struct l} : option bstate :=
                   match l with
                   | [] => Some st
                   | (k, q) :: l' =>
                       match do_branch k (r_conds q) st with
                       | None => None
                       | Some (st2, nb) =>
                           match exec_body q (enter nb st2) with
                           | None => None
                           | Some st3 => go l' (leave st3)
                           end
                       end
                   end) rest st1 = Some st' /\
                stack st' = stack st1 /\ croot st' = croot st1 /\
                GIT (hp st') (plug ((A' ++ A) ++ fs0 ++ (B ++ B') ++ fsout) (Leaf L cs c)) /\
                forallb climbable A' = true /\ forallb climbable B' = true /\
                map eframe A' = rev (map (fun q => FL 0 SExc (tlevel KAlt q None)) (refs rest)) /\
                map eframe B' = (fix go (l : list (kind * rule)) {struct l} : list frame :=
                                   match l with
                                   | [] => []
                                   | (KRef, _) :: l' => go l'
                                   | (k, q) :: l' => (FL 0 (sel_of k) (met q) :: Bfr q) ++ go l'
                                   end) rest).
  { induction rest as [|[k q] rest IHr]; intros HF st0 A B HG0 Hs0 HcA HcB.
    - exists st0, [], []. cbn [app]. rewrite app_nil_r.
      refine (conj eq_refl (conj eq_refl (conj eq_refl (conj HG0 (conj eq_refl (conj eq_refl (conj eq_refl eq_refl))))))).
    - inversion HF as [|? ? Hq HFr]; subst. cbn [snd] in Hq. specialize (IHr HFr).
      set (fs := A ++ fs0 ++ B ++ fsout) in *.
      destruct k.
      + (* refinement *)
        destruct (do_refinement_ok st0 fs L cs c (r_conds q) stk HG0 Hs0) as [st2 [Hd [Hs2 [Hcr2 [_ HG2]]]]].
        cbn [do_branch]. rewrite Hd.
        rewrite (branch_entry st2 _ _ _ _ _ _ HG2).
        set (nb := next (hp st0)) in *. set (x := S nb) in *.
        set (stp := {| hp := hp st2; stack := nb :: stack st2; croot := croot st2 |}).
        destruct (Hq stp [] (FR x SExc (Leaf L cs c) :: fs) nb (L :: stk)) as [st3 [He [Aq [Bq [Hs3 [Hcr3 [HG3 [HcAq [HcBq [HeA HeB]]]]]]]]]].
        { exact HG2. } { cbn [stp stack]. rewrite Hs2, Hs0. reflexivity. } { reflexivity. } { exact I. }
        rewrite He.
        set (Tq := plug (Aq ++ Bq) (Leaf nb (r_conds q) (tag_list (r_tag q)))).
        assert (HG3' : GIT (hp (leave st3)) (plug ((FL x SExc Tq :: A) ++ fs0 ++ B ++ fsout) (Leaf L cs c))).
        { cbn [leave hp]. cbn [app] in HG3. rewrite app_assoc in HG3. rewrite plug_app in HG3. fold Tq in HG3.
          exact HG3. }
        destruct (IHr (leave st3) (FL x SExc Tq :: A) B HG3') as [st' [A' [B' [Hgo [Hs' [Hcr' [HG' [HcA' [HcB' [HeA' HeB']]]]]]]]]].
        { cbn [leave stack]. rewrite Hs3. cbn [stp stack tl]. rewrite Hs2. exact Hs0. } { cbn [forallb climbable]. exact HcA. } { exact HcB. }
        exists st', (A' ++ [FL x SExc Tq]), B'. rewrite Hgo.
        refine (conj eq_refl (conj _ (conj _ (conj _ (conj _ (conj HcB' (conj _ HeB'))))))).
        * rewrite Hs'. cbn [leave stack]. rewrite Hs3. cbn [stp stack tl]. rewrite Hs2. reflexivity.
        * rewrite Hcr'. cbn [leave croot]. rewrite Hcr3. cbn [stp croot]. exact Hcr2.
        * rewrite <- !app_assoc. rewrite <- !app_assoc in HG'. exact HG'.
        * rewrite forallb_app, HcA'. reflexivity.
        * rewrite map_app, HeA'. cbn [refs map rev eframe]. f_equal. f_equal. f_equal.
          unfold Tq. rewrite erase_plug, map_app, HeA, HeB. cbn [erase]. symmetry. apply (tree_of_plug q).
      + (* alternative *)
        assert (HGa : GIT (hp st0) (plug ((A ++ fs0 ++ B) ++ fsout) (Leaf L cs c))).
        { unfold fs in HG0. rewrite <- !app_assoc. exact HG0. }
        assert (Hcl : forallb climbable (A ++ fs0 ++ B) = true) by (rewrite !forallb_app, HcA, Hc0, HcB; reflexivity).
        destruct (do_alt_next_ok st0 SAlt (A ++ fs0 ++ B) fsout L cs c (r_conds q) stk ltac:(discriminate) HGa Hs0 Hcl Hbd)
          as [st2 [Hd [Hs2 [Hcr2 [_ HG2]]]]].
        cbn [do_branch]. rewrite Hd.
        rewrite (branch_entry st2 _ _ _ _ _ _ HG2).
        set (nb := next (hp st0)) in *. set (x := S nb) in *.
        set (T1 := plug (A ++ fs0 ++ B) (Leaf L cs c)) in *.
        set (stp := {| hp := hp st2; stack := nb :: stack st2; croot := croot st2 |}).
        destruct (Hq stp [FR x SAlt T1] fsout nb (L :: stk)) as [st3 [He [Aq [Bq [Hs3 [Hcr3 [HG3 [HcAq [HcBq [HeA HeB]]]]]]]]]].
        { exact HG2. } { cbn [stp stack]. rewrite Hs2, Hs0. reflexivity. } { reflexivity. } { exact Hbd. }
        rewrite He.
        set (MEq := plug Aq (Leaf nb (r_conds q) (tag_list (r_tag q)))).
        assert (HG3' : GIT (hp (leave st3)) (plug (A ++ fs0 ++ (B ++ FL x SAlt MEq :: Bq) ++ fsout) (Leaf L cs c))).
        { cbn [leave hp]. rewrite plug_app in HG3. fold MEq in HG3. cbn [app] in HG3. rewrite plug_cons in HG3. cbn [fill] in HG3.
          change (Node x SAlt T1 MEq) with (fill (FL x SAlt MEq) T1) in HG3. rewrite <- plug_cons in HG3.
          unfold T1 in HG3. rewrite <- plug_app in HG3.
          rewrite <- !app_assoc in HG3. rewrite <- !app_assoc. exact HG3. }
        destruct (IHr (leave st3) A (B ++ FL x SAlt MEq :: Bq) HG3') as [st' [A' [B' [Hgo [Hs' [Hcr' [HG' [HcA' [HcB' [HeA' HeB']]]]]]]]]].
        { cbn [leave stack]. rewrite Hs3. cbn [stp stack tl]. rewrite Hs2. exact Hs0. } { exact HcA. }
        { rewrite forallb_app, HcB. cbn [forallb climbable]. exact HcBq. }
        exists st', A', ((FL x SAlt MEq :: Bq) ++ B'). rewrite Hgo.
        refine (conj eq_refl (conj _ (conj _ (conj _ (conj HcA' (conj _ (conj HeA' _))))))).
        * rewrite Hs'. cbn [leave stack]. rewrite Hs3. cbn [stp stack tl]. rewrite Hs2. reflexivity.
        * rewrite Hcr'. cbn [leave croot]. rewrite Hcr3. cbn [stp croot]. exact Hcr2.
        * rewrite <- !app_assoc in HG'. rewrite <- !app_assoc. exact HG'.
        * rewrite forallb_app, HcB'. cbn [forallb climbable]. rewrite HcBq. reflexivity.
        * rewrite map_app, HeB'. cbn [map eframe sel_of]. rewrite HeB. f_equal. f_equal. f_equal.
          unfold MEq. rewrite erase_plug, HeA. cbn [erase]. symmetry. apply met_plug.
      + (* next_rule *)
        assert (HGa : GIT (hp st0) (plug ((A ++ fs0 ++ B) ++ fsout) (Leaf L cs c))).
        { unfold fs in HG0. rewrite <- !app_assoc. exact HG0. }
        assert (Hcl : forallb climbable (A ++ fs0 ++ B) = true) by (rewrite !forallb_app, HcA, Hc0, HcB; reflexivity).
        destruct (do_alt_next_ok st0 SNext (A ++ fs0 ++ B) fsout L cs c (r_conds q) stk ltac:(discriminate) HGa Hs0 Hcl Hbd)
          as [st2 [Hd [Hs2 [Hcr2 [_ HG2]]]]].
        cbn [do_branch]. rewrite Hd.
        rewrite (branch_entry st2 _ _ _ _ _ _ HG2).
        set (nb := next (hp st0)) in *. set (x := S nb) in *.
        set (T1 := plug (A ++ fs0 ++ B) (Leaf L cs c)) in *.
        set (stp := {| hp := hp st2; stack := nb :: stack st2; croot := croot st2 |}).
        destruct (Hq stp [FR x SNext T1] fsout nb (L :: stk)) as [st3 [He [Aq [Bq [Hs3 [Hcr3 [HG3 [HcAq [HcBq [HeA HeB]]]]]]]]]].
        { exact HG2. } { cbn [stp stack]. rewrite Hs2, Hs0. reflexivity. } { reflexivity. } { exact Hbd. }
        rewrite He.
        set (MEq := plug Aq (Leaf nb (r_conds q) (tag_list (r_tag q)))).
        assert (HG3' : GIT (hp (leave st3)) (plug (A ++ fs0 ++ (B ++ FL x SNext MEq :: Bq) ++ fsout) (Leaf L cs c))).
        { cbn [leave hp]. rewrite plug_app in HG3. fold MEq in HG3. cbn [app] in HG3. rewrite plug_cons in HG3. cbn [fill] in HG3.
          change (Node x SNext T1 MEq) with (fill (FL x SNext MEq) T1) in HG3. rewrite <- plug_cons in HG3.
          unfold T1 in HG3. rewrite <- plug_app in HG3.
          rewrite <- !app_assoc in HG3. rewrite <- !app_assoc. exact HG3. }
        destruct (IHr (leave st3) A (B ++ FL x SNext MEq :: Bq) HG3') as [st' [A' [B' [Hgo [Hs' [Hcr' [HG' [HcA' [HcB' [HeA' HeB']]]]]]]]]].
        { cbn [leave stack]. rewrite Hs3. cbn [stp stack tl]. rewrite Hs2. exact Hs0. } { exact HcA. }
        { rewrite forallb_app, HcB. cbn [forallb climbable]. exact HcBq. }
        exists st', A', ((FL x SNext MEq :: Bq) ++ B'). rewrite Hgo.
        refine (conj eq_refl (conj _ (conj _ (conj _ (conj HcA' (conj _ (conj HeA' _))))))).
        * rewrite Hs'. cbn [leave stack]. rewrite Hs3. cbn [stp stack tl]. rewrite Hs2. reflexivity.
        * rewrite Hcr'. cbn [leave croot]. rewrite Hcr3. cbn [stp croot]. exact Hcr2.
        * rewrite <- !app_assoc in HG'. rewrite <- !app_assoc. exact HG'.
        * rewrite forallb_app, HcB'. cbn [forallb climbable]. rewrite HcBq. reflexivity.
        * rewrite map_app, HeB'. cbn [map eframe sel_of]. rewrite HeB. f_equal. f_equal. f_equal.
          unfold MEq. rewrite erase_plug, HeA. cbn [erase]. symmetry. apply met_plug. }
  destruct (Hloop body IH st1 [] [] ) as [st' [A' [B' [Hgo [Hs' [Hcr' [HG' [HcA' [HcB' [HeA' HeB']]]]]]]]]].
  { cbn [app]. exact HG1. } { rewrite Hs1. exact Hstk. } { reflexivity. } { reflexivity. }
  exists st'. split; [exact Hgo|]. exists A', B'. cbn [r_conds r_tag]. fold c.
  rewrite app_nil_r in HG'. cbn [app] in HG'.
  refine (conj _ (conj _ (conj HG' (conj HcA' (conj HcB' (conj HeA' HeB')))))).
  - rewrite Hs'. exact Hs1.
  - rewrite Hcr'. exact Hcr1.
Qed.

(* ---- the whole construction ---- *)
Definition heap0 (prog : rule) : heap :=
  let h0 := fst (alloc empty_heap (NCond (r_conds prog))) in
  let h1 := fst (alloc h0 NEntity) in
  let h2 := fst (alloc h1 NAn) in
  let h3 := upd (upd h2 ENTITY (w_child (Some 0))) 0 (w_parent (Some ENTITY)) in
  upd (upd h3 AN (w_child (Some ENTITY))) ENTITY (w_parent (Some AN)).

Lemma build_eq prog :
  build prog = match exec_body prog {| hp := heap0 prog; stack := [0]; croot := Some 0 |} with
               | Some st => Some (hp st)
               | None => None
               end.
Proof. reflexivity. Qed.

Lemma git0 prog : GIT (heap0 prog) (plug [] (Leaf 0 (r_conds prog) [])).
Proof.
  unfold GIT. cbn [plug fold_left root_id ids rep].
  refine (conj _ (conj eq_refl (conj eq_refl (conj eq_refl (conj eq_refl (conj eq_refl (conj _ (conj _ (conj _ (conj _ _)))))))))).
  - repeat split; try reflexivity. cbv. lia.
  - constructor; [intros []|constructor].
  - intros [E|[]]. discriminate E.
  - intros [E|[]]. discriminate E.
  - cbv. lia.
  - cbv. lia.
Qed.

Theorem build_written prog :
  exists h t, build prog = Some h /\ reify h = Some t /\ erase t = tree_of prog /\ NoDup (ids t).
Proof.
  rewrite build_eq.
  destruct (exec_body_ok prog {| hp := heap0 prog; stack := [0]; croot := Some 0 |} [] [] 0 [] (git0 prog) eq_refl eq_refl I)
    as [st' [He [A [B [_ [_ [HG [_ [_ [HeA HeB]]]]]]]]]].
  rewrite He. cbn [app] in HG. rewrite app_nil_r in HG.
  set (T := plug (A ++ B) (Leaf 0 (r_conds prog) (tag_list (r_tag prog)))) in *.
  exists (hp st'), T. split; [reflexivity|].
  destruct HG as [Hrep [HE1 [HE2 [HE3 [HA1 [HA2 [Hnd [HnE [HnA [HltE HltA]]]]]]]]]].
  split; [|split; [|exact Hnd]].
  - unfold reify. rewrite HE2. apply (reify_rep _ _ _ Hrep).
    pose proof (depth_le_ids T). 
    assert (length (ids T) <= next (hp st')) by (apply nodup_bound; [exact Hnd|intros x Hx; eapply rep_ids_lt; eauto]).
    lia.
  - unfold T. rewrite erase_plug, map_app, HeA, HeB. cbn [erase]. symmetry. apply tree_of_plug.
Qed.
