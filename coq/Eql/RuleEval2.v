(* C08 model for TWO-variable rule programs (sibling of RuleEval.v; the construction model RuleBuild.v is shared).
   c ranges over connection-like objects (k, parent), b over bodies (a).  Exactly the conditions of one refinement J
   start with the join `b == c.parent`, written here as the marker atom [Atom 2 _ _] at the head of J's conditions;
   atoms with attr 0 read c.k, atoms with attr 1 read b.a.  A conclusion with tag t is built from c (selof t = 0), from b
   (1) or from both (2).

   Evaluation differs from RuleEval.v in three places only:
   * the join leaf, evaluated with c bound and b unbound, yields one row per body in domain order (Comparator with the
     bound side first, then AND): false for every body that is not c.parent, and for c.parent the truth of the
     remaining atoms;
   * update_conclusion keys the coverage memory by the bindings of the variables of the selected conclusions
     (`required_vars`): c's identity, b's identity, or both;
   * the inferred instance is built from the variables its conclusion names. *)
From Coq Require Import List ZArith Bool Arith.
From Krrood Require Import Eql.RuleSpec Eql.RuleEval.
Import ListNotations.

Definition celem := (Z * nat)%type.          (* c.k, index of c.parent in the body domain *)
Definition belem := Z.                       (* b.a *)
Record bind2 := { bc : nat * celem; bb : option (nat * belem) }.
Definition elem_of (B : bind2) : elem :=
  (fst (snd (bc B)), match bb B with Some (_, a) => a | None => 0%Z end).
Definition parent_of (B : bind2) : nat := snd (snd (bc B)).

Definition is_join (cs : list atom) : bool := match cs with a :: _ => Nat.eqb (at_attr a) 2 | [] => false end.

(* coverage key of a binding for a set of conclusions: (identity of c + 1 or 0, identity of b + 1 or 0) *)
Definition uses_c (selof : nat -> nat) (c : list nat) : bool := existsb (fun t => negb (Nat.eqb (selof t) 1)) c.
Definition uses_b (selof : nat -> nat) (c : list nat) : bool := existsb (fun t => negb (Nat.eqb (selof t) 0)) c.
Definition key2 (selof : nat -> nat) (c : list nat) (B : bind2) : nat * nat :=
  (if uses_c selof c then S (fst (bc B)) else 0,
   if uses_b selof c then match bb B with Some (bi, _) => S bi | None => 0 end else 0).

Definition seen_entry2 := (nat * bool * list nat * (nat * nat))%type.
Record store2 := { mem2 : nat -> nat -> list nat; seen2 : list seen_entry2; out2 : list (list nat * bind2);
                   rootsel2 : nat }.
Definition get2 (f n : nat) (S : store2) : list nat := mem2 S f n.
Definition set2 (f n : nat) (v : list nat) (S : store2) : store2 :=
  {| mem2 := fun f' n' => if Nat.eqb f f' && Nat.eqb n n' then v else mem2 S f' n'; seen2 := seen2 S; out2 := out2 S;
     rootsel2 := rootsel2 S |}.
Definition getb2 (f n : nat) (S : store2) : bool := match get2 f n S with [] => false | _ => true end.
Definition setb2 (f n : nat) (b : bool) (S : store2) : store2 := set2 f n (if b then [1] else []) S.
Definition emit2 (row : list nat * bind2) (S : store2) : store2 :=
  {| mem2 := mem2 S; seen2 := seen2 S; out2 := row :: out2 S; rootsel2 := rootsel2 S |}.
Definition init_root2 (root : nat) : store2 := {| mem2 := fun _ _ => []; seen2 := []; out2 := []; rootsel2 := root |}.
Definition add_seen2 (e : seen_entry2) (S : store2) : store2 :=
  {| mem2 := mem2 S; seen2 := e :: seen2 S; out2 := out2 S; rootsel2 := rootsel2 S |}.

Definition K2 := bind2 -> bool -> store2 -> store2.
Definition concl_now2 (t : tree) (S : store2) : list nat :=
  match t with Leaf _ _ c => c | Node id _ _ _ => get2 DYN id S end.

Definition entry_is2 (id : nat) (tr : bool) (c : list nat) (k : nat * nat) (e : seen_entry2) : bool :=
  match e with (n, t, c', k') => Nat.eqb n id && Bool.eqb t tr && set_eqb c' c
                                 && Nat.eqb (fst k') (fst k) && Nat.eqb (snd k') (snd k) end.
Definition seenb2 (id : nat) (tr : bool) (c : list nat) (k : nat * nat) (S : store2) : bool :=
  existsb (entry_is2 id tr c k) (seen2 S).

(* Entry-time resets of /repo 23d12cd (flags and `_conclusion_` reset when a selector's `_evaluate__` is entered): not written
   out, for the reason given in RuleEval.v -- on entry REV and DYN are already clear ([Pre], RuleEval2MultiProofs.v
   [inner_all]) and LEV is written before it is read. *)
Section Eval2.
  Variable selof : nat -> nat.
  Variables (Cs : list celem) (Bs : list belem).

  Definition update_conclusion2 (id : nat) (B : bind2) (concl : list nat) (S : store2) : store2 :=
    match concl with
    | [] => S
    | _ => if Nat.eqb id (rootsel2 S)
           then let tr := negb (getb2 FLAG id S) in
                let k := key2 selof concl B in
                if seenb2 id tr concl k S then S
                else add_seen2 (id, tr, concl, k) (set2 DYN id (union (get2 DYN id S) concl) S)
           else set2 DYN id (union (get2 DYN id S) concl) S
    end.
  Definition yield_upd2 (id : nat) (B : bind2) (concl : list nat) (k : K2) (S : store2) : store2 :=
    let S1 := update_conclusion2 id B concl S in
    set2 DYN id [] (k B (getb2 FLAG id S1) S1).
  Definition sel_post2 (s : sel) (id : nat) (l r : tree) (k : K2) (B : bind2) (S : store2) : store2 :=
    let S1 := match s with
              | SAlt => if negb (getb2 FLAG (root_id l) S) then update_conclusion2 id B (concl_now2 l S) S
                        else if negb (getb2 FLAG (root_id r) S) then update_conclusion2 id B (concl_now2 r S) S
                        else S
              | _ => let S' := if getb2 LEV id S then update_conclusion2 id B (concl_now2 l S) S else S in
                     if getb2 REV id S' then update_conclusion2 id B (concl_now2 r S') S' else S'
              end in
    set2 DYN id [] (k B (getb2 FLAG id S1) S1).

  Fixpoint ev2 (t : tree) (b : option bind2) (k : K2) (S : store2) {struct t} : store2 :=
    match t with
    | Leaf id cs _ =>
        if is_join cs then
          (* c is bound, b is not: one row per body, in domain order *)
          match b with
          | Some B =>
              fold_left (fun S (ia : nat * belem) =>
                           let B' := {| bc := bc B; bb := Some ia |} in
                           let f := negb (Nat.eqb (fst ia) (parent_of B) && holds (elem_of B') (tl cs)) in
                           k B' f (setb2 FLAG id f S)) (enum Bs) S
          | None => S
          end
        else
          let one := fun (S : store2) (B : bind2) =>
                       let f := negb (holds (elem_of B) cs) in k B f (setb2 FLAG id f S) in
          match b with
          | Some B => one S B
          | None => fold_left (fun S ic => one S {| bc := ic; bb := None |}) (enum Cs) S
          end
    | Node id SExc l r =>
        ev2 l b (fun B fl S1 =>
          let S1 := setb2 FLAG id fl S1 in
          if fl then k B true S1
          else
            let old := get2 RY id S1 in
            let S2 := setb2 RY id false S1 in
            let S3 := ev2 r (Some B) (fun B' f' S' =>
                        if f' then S'
                        else yield_upd2 id B' (concl_now2 r S') k (setb2 RY id true S')) S2 in
            let ry := getb2 RY id S3 in
            let S4 := set2 RY id old S3 in
            if ry then S4 else yield_upd2 id B (concl_now2 l S4) k S4) S
    | Node id s l r =>
        let post := sel_post2 s id l r k in
        let eval_right := fun (src : option bind2) (S : store2) =>
          let S := setb2 LEV id false S in
          let S := ev2 r src (fun B fr S' => post B (setb2 REV id true (setb2 FLAG id fr S'))) S in
          setb2 REV id false S in
        let eval_left := fun (S : store2) =>
          ev2 l b (fun B fl S' =>
                     let S' := setb2 LEV id true S' in
                     if fl then eval_right (Some B) S' else post B (setb2 FLAG id false S')) S in
        match s with
        | SAlt => eval_left S
        | _ =>
            let S := setb2 LEV id false (eval_left S) in
            let S := ev2 r b (fun B fr S' =>
                                let S' := setb2 REV id true (setb2 FLAG id fr S') in
                                if fr then S' else post B S') S in
            setb2 REV id false S
        end
    end.

  Definition run2 (t : tree) : list (list nat * bind2) :=
    rev (out2 (ev2 t None (fun B f S =>
                             if f then S
                             else match concl_now2 t S with [] => S | c => emit2 (c, B) S end)
                  (init_root2 (root_id t)))).

  (* the inferred instance of a row: (tag, index of c or none, index of b or none) *)
  Definition inst_of (t : nat) (B : bind2) : nat * option nat * option nat :=
    (t,
     if Nat.eqb (selof t) 1 then None else Some (fst (bc B)),
     if Nat.eqb (selof t) 0 then None else match bb B with Some (bi, _) => Some bi | None => None end).
End Eval2.
