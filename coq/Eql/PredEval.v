(* C12 -- hand-written, code-faithful model of how a predicate variable is evaluated
   (symbolic.py: Variable._evaluate__ for the kwargs, _instantiate_using_child_vars_and_yield_results_,
   _generate_combinations_for_child_vars_values_ = as of 3f7e74b lazy nested loops over the kwargs, each evaluated
   under the bindings produced by the ones before it (before: itertools.product over *independent* evaluations
   under the same sources, kept below as [pred_eval_product] for the regression statement of finding C01-d),
   _process_output_and_update_values_), and of the small queries the
   correspondence check runs around it.  Tied to the implementation by differential execution (harness/c12.py).

   Abstraction (stated in the evidence): bindings are keyed by *variable*; the ids of the other nodes
   (Literal, Attribute, the predicate variable itself) are fresh per written argument, are never looked up by
   the code modelled here and are left out. *)
From Coq Require Import List ZArith Bool.
From Krrood Require Import Base.Sx Eql.PredIdioms Eql.PredSpec Eql.PredCase.
From Krrood Require Gen.Pred.
Import ListNotations.
Open Scope Z_scope.
Module G := Gen.Pred.

Definition bindings := dict Z.

Fixpoint product {A : Type} (gens : list (list A)) : list (list A) :=
  match gens with
  | [] => [[]]
  | g :: r => flat_map (fun c => map (cons c) (product r)) g
  end.

Section Eval.
  Variable dom : Z -> list Z.
  Variable attr : Z -> Z -> Z.

  (* one written argument evaluated under the sources b: (bindings, value) in yield order
       Literal              : a variable of its own with the one-element domain [v]
       Variable, bound      : yield sources             Variable, open: one result per domain element, {**sources, id: v}
       Attribute            : for every result of the child, the mapped value (bindings of the child kept) *)
  Fixpoint eval_arg (a : arg) (b : bindings) : list (bindings * Z) :=
    match a with
    | ALit v => [(b, v)]
    | AVar x => match dict_get b x with
                | Some v => [(b, v)]
                | None => map (fun v => (dict_set b x v, v)) (dom x)
                end
    | AAttr a f => map (fun r => (fst r, attr f (snd r))) (eval_arg a b)
    end.

  (* combinations(position, bindings, chosen): the chosen results in kwarg order; the first kwarg varies slowest and
     every kwarg is evaluated under the bindings of the result chosen for the one before it *)
  Fixpoint combinations (args : list arg) (b : bindings) : list (list (bindings * Z)) :=
    match args with
    | [] => [[]]
    | a :: rest => flat_map (fun r => map (cons r) (combinations rest (fst r))) (eval_arg a b)
    end.

  (* values = {self: hv}; for d in kwargs.values(): values.update(d.bindings) *)
  Definition merge_bindings (combo : list (bindings * Z)) : bindings :=
    fold_left (fun acc d => dict_update acc (fst d)) combo [].

  Section Call.
    Context {R : Type}.
    Variable body : list (name * Z) -> R.     (* self._type_( **bound_kwargs ) [ () for a Predicate subclass ] *)
    Variable truthy : R -> bool.              (* bool(instance) *)

    (* (bindings yielded, keyword arguments of the call, is_true) per combination, in order *)
    Definition finish (kwargs : list (name * arg)) (combo : list (bindings * Z)) : bindings * list (name * Z) * bool :=
      let call := combine (map fst kwargs) (map snd combo) in
      (merge_bindings combo, call, truthy (body call)).

    Definition pred_eval (kwargs : list (name * arg)) (b : bindings) : list (bindings * list (name * Z) * bool) :=
      map (finish kwargs) (combinations (map snd kwargs) b).

    (* the definition before 3f7e74b: every kwarg evaluated under the same sources, itertools.product *)
    Definition pred_eval_product (kwargs : list (name * arg)) (b : bindings) : list (bindings * list (name * Z) * bool) :=
      map (finish kwargs) (product (map (fun ka => eval_arg (snd ka) b) kwargs)).
  End Call.
End Eval.

(* ------------------------------------------------------------------------------------------- *)
(* MODEL: dispatch by the translated code, then the hand model of the evaluation *)
Definition model_outcome (c : pcase) : sx :=
  let d := if c_pred c
           then G.Predicate_new arg_is_symbolic (self_name :: c_params c) (c_pos c) (c_kw c)
           else G.symbolic_function_wrapper arg_is_symbolic (c_params c) (c_pos c) (c_kw c) in
  match d with
  | G.MakeVariable _ kwargs =>
      run_symbolic c kwargs (pred_eval (w_dom c) (w_attr c) (body_of c) truthy_z)
  | G.CallFunction _ _ | G.NewInstance => concrete_outcome c
  end.


(* 100*class + code.  class: 0 = well-formed call (F), 2 = call Python itself rejects (the property is silent: impl vs model only) *)
Definition case_code (c : pcase) (impl : sx) : Z :=
  let m := model_outcome c in
  if negb (wellformed c) then 200 + (if sx_eqb impl m then 0 else 3)
  else let s := spec_outcome c in
       let k := classify (canon impl) (canon m) (canon s) in
       if Z.eqb k 0 then (if sx_eqb impl m then 0 else 4) else k.   (* 4: same bag, order differs from the model *)
