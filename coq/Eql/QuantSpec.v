(* C09 -- Spec of result quantifiers.  Independent of the generated model (Gen/Quant.v), so that
   the implementation can still be compared with the Spec when regeneration or a proof fails. *)
From Coq Require Import List ZArith Bool Lia.
From Krrood Require Import Base.Sx.
Import ListNotations.
Open Scope Z_scope.

Inductive exn : Type :=
| NegativeQuantificationError | QuantificationConsistencyError
| GreaterThanExpectedNumberOfSolutions | LessThanExpectedNumberOfSolutions.

Inductive ctor := KExactly (v : Z) | KAtLeast (v : Z) | KAtMost (v : Z) | KRange (lo hi : Z).

Inductive the_result {A : Type} := TheValue (a : A) | NoSolutionFound | MultipleSolutionFound | TheOther.
Arguments the_result : clear implicits.

(* ---------- Spec ---------- *)
Definition lower (k : ctor) : Z :=
  match k with KExactly v => v | KAtLeast v => v | KAtMost _ => 0 | KRange lo _ => lo end.
Definition upper (k : ctor) : option Z :=
  match k with KExactly v => Some v | KAtLeast _ => None | KAtMost v => Some v | KRange _ hi => Some hi end.

Definition ctor_spec (k : ctor) : option exn :=
  match k with
  | KExactly v | KAtLeast v | KAtMost v => if v <? 0 then Some NegativeQuantificationError else None
  | KRange lo hi => if (lo <? 0) || (hi <? 0) then Some NegativeQuantificationError
                    else if hi <? lo then Some QuantificationConsistencyError else None
  end.

Definition above (k : ctor) (n : Z) : bool := match upper k with Some u => u <? n | None => false end.

(* what an(..., quantification=k) must do on [rows]: *)
Definition an_spec {A} (k : ctor) (rows : list A) : list A * option exn :=
  let n := Z.of_nat (length rows) in
  if above k n then
    (firstn (Z.to_nat (match upper k with Some u => u | None => 0 end)) rows, Some GreaterThanExpectedNumberOfSolutions)
  else if n <? lower k then (rows, Some LessThanExpectedNumberOfSolutions)
  else (rows, None).

Definition the_spec {A} (rows : list A) : the_result A :=
  match rows with
  | [] => NoSolutionFound
  | [x] => TheValue x
  | _ :: _ :: _ => MultipleSolutionFound
  end.

(* ---------- printing for the correspondence check ---------- *)
Definition exn_id (e : option exn) : Z :=
  match e with
  | None => 0
  | Some NegativeQuantificationError => 1
  | Some QuantificationConsistencyError => 2
  | Some GreaterThanExpectedNumberOfSolutions => 3
  | Some LessThanExpectedNumberOfSolutions => 4
  end.

Definition show_an (r : list Z * option exn) : sx := SL [SL (map SZ (fst r)); SZ (exn_id (snd r))].
Definition show_the (r : the_result Z) : sx :=
  match r with
  | TheValue a => SL [SZ 0; SZ a]
  | NoSolutionFound => SL [SZ 5]
  | MultipleSolutionFound => SL [SZ 6]
  | TheOther => SL [SZ 99]
  end.


Definition spec_an (k : option ctor) (rows : list Z) : sx :=
  match k with
  | None => show_an (rows, None)
  | Some k => match ctor_spec k with
              | Some e => SL [SZ (-1); SZ (exn_id (Some e))]
              | None => show_an (an_spec k rows)
              end
  end.
Definition spec_the (rows : list Z) : sx := show_the (the_spec rows).

Inductive qcase := QAn (k : option ctor) (rows : list Z) | QThe (rows : list Z).
(* spec-only classification (used when the model cannot be built): 0 agree, 3 differ *)
Definition case_code_spec (c : qcase) (impl : sx) : Z :=
  match c with
  | QAn k rows => classify impl (spec_an k rows) (spec_an k rows)
  | QThe rows => classify impl (spec_the rows) (spec_the rows)
  end.
