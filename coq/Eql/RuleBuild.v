(* C08 model, part 1: the CONSTRUCTION of a rule tree while the user writes nested `with` blocks
   (rule.py refinement / alternative_or_next, conclusion.py Conclusion.__post_init__, symbolic.py `_parent_` setter,
   `__enter__`, `_conditions_root_`, BinaryOperator.__post_init__/_update_children_).

   Node heap: id -> {kind; left; right; _child_; primary graph parent; static conclusions}.  An and_-chain of
   comparators is one NCond node (nothing below looks inside it).  Allocation order is Python's: the conditions of a
   branch are built before refinement()/alternative()/next_rule() runs, then the selector node. *)
From Coq Require Import List ZArith Bool Arith.
From Krrood Require Import Eql.RuleSpec Eql.RuleEval.
Import ListNotations.

Inductive nkind := NCond (cs : list atom) | NSel (s : sel) | NEntity | NAn.
Record node := { nk : nkind; nleft : option nat; nright : option nat; nchild : option nat;
                 nparent : option nat; nconcl : list nat }.
(* the heap: a total map from node ids to nodes and the next free id (ids are allocated in Python's order) *)
Record heap := { cells : nat -> node; next : nat }.

Record bstate := { hp : heap; stack : list nat; croot : option nat }.

Definition dummy := {| nk := NAn; nleft := None; nright := None; nchild := None; nparent := None; nconcl := [] |}.
Definition nd (h : heap) (i : nat) : node := cells h i.
Definition upd (h : heap) (i : nat) (f : node -> node) : heap :=
  {| cells := fun n => if Nat.eqb n i then f (cells h n) else cells h n; next := next h |}.
Definition fresh_node (k : nkind) : node :=
  {| nk := k; nleft := None; nright := None; nchild := None; nparent := None; nconcl := [] |}.
Definition alloc (h : heap) (k : nkind) : heap * nat :=
  ({| cells := fun n => if Nat.eqb n (next h) then fresh_node k else cells h n; next := Datatypes.S (next h) |}, next h).
Definition empty_heap : heap := {| cells := fun _ => dummy; next := 0 |}.

Definition w_left v n := {| nk := nk n; nleft := v; nright := nright n; nchild := nchild n; nparent := nparent n; nconcl := nconcl n |}.
Definition w_right v n := {| nk := nk n; nleft := nleft n; nright := v; nchild := nchild n; nparent := nparent n; nconcl := nconcl n |}.
Definition w_child v n := {| nk := nk n; nleft := nleft n; nright := nright n; nchild := v; nparent := nparent n; nconcl := nconcl n |}.
Definition w_parent v n := {| nk := nk n; nleft := nleft n; nright := nright n; nchild := nchild n; nparent := v; nconcl := nconcl n |}.
Definition w_concl v n := {| nk := nk n; nleft := nleft n; nright := nright n; nchild := nchild n; nparent := nparent n; nconcl := v |}.

(* `x._parent_ = p` (symbolic.py:238-242).  Detaching a node that has no primary parent raises in rustworkx. *)
Definition set_parent (h : heap) (x : nat) (p : option nat) : option heap :=
  match p with
  | None => match nparent (nd h x) with
            | None => None
            | Some _ => Some (upd h x (w_parent None))
            end
  | Some pp => Some (upd (upd h x (w_parent (Some pp))) pp (w_child (Some x)))    (* every node class has `_child_` *)
  end.

(* BinaryOperator(left, right): fresh node; `_update_children_` makes it the primary parent of both operands *)
Definition mk_bin (h : heap) (s : sel) (l r : nat) : heap * nat :=
  let (h1, x) := alloc h (NSel s) in
  let h2 := upd h1 x (fun n => w_right (Some r) (w_left (Some l) n)) in
  (upd (upd h2 l (w_parent (Some x))) r (w_parent (Some x)), x).

Definition is_sel (h : heap) (p : option nat) (f : sel -> bool) : bool :=
  match p with Some pp => match nk (nd h pp) with NSel s => f s | _ => false end | None => false end.
Definition is_binop (h : heap) (p : option nat) : bool :=
  match p with Some pp => match nk (nd h pp) with NSel _ | NCond _ => true | _ => false end | None => false end.
Definition oeq (a : option nat) (b : nat) : bool := match a with Some x => Nat.eqb x b | None => false end.

(* rule.py refinement() *)
Definition do_refinement (cs : list atom) (st : bstate) : option (bstate * nat) :=
  let (h0, nb) := alloc (hp st) (NCond cs) in
  match stack st with
  | [] => None
  | cur :: _ =>
      let pp := nparent (nd h0 cur) in
      match set_parent h0 cur None with
      | None => None
      | Some h1 =>
          let (h2, x) := mk_bin h1 SExc cur nb in
          match pp with
          | None => None
          | Some _ => match set_parent h2 x pp with
                      | None => None
                      | Some h3 =>
                          (* if isinstance(prev_parent, BinaryOperator): re-link the operand that was current_node *)
                          let h4 := match pp with
                                    | Some ppi =>
                                        if is_binop h3 pp then
                                          if oeq (nleft (nd h3 ppi)) cur then upd h3 ppi (w_left (Some x))
                                          else upd h3 ppi (w_right (Some x))
                                        else h3
                                    | None => h3
                                    end in
                          Some ({| hp := h4; stack := stack st; croot := croot st |}, nb)
                      end
          end
      end
  end.

(* rule.py alternative_or_next(): `while parent is Alternative/Next or (parent is ExceptIf and current is its left)` *)
Fixpoint climb (fuel : nat) (h : heap) (cur : nat) : nat :=
  match fuel with
  | O => cur
  | S f =>
      let p := nparent (nd h cur) in
      if is_sel h p (fun s => match s with SExc => false | _ => true end)
         || (is_sel h p (fun s => match s with SExc => true | _ => false end)
             && match p with Some pp => oeq (nleft (nd h pp)) cur | None => false end)
      then match p with Some pp => climb f h pp | None => cur end
      else cur
  end.

Definition do_alt_next (s : sel) (cs : list atom) (st : bstate) : option (bstate * nat) :=
  let (h0, nb) := alloc (hp st) (NCond cs) in
  match stack st with
  | [] => None
  | top :: _ =>
      let cur := climb (Datatypes.S (next h0)) h0 top in
      let pp := nparent (nd h0 cur) in
      match set_parent h0 cur None with
      | None => None
      | Some h1 =>
          let (h2, x) := mk_bin h1 s cur nb in
          match pp with
          | None => None
          | Some ppi =>
              match set_parent h2 x pp with
              | None => None
              | Some h3 =>
                  let h4 := if is_binop h3 pp then upd h3 ppi (w_right (Some x)) else h3 in
                  Some ({| hp := h4; stack := stack st; croot := croot st |}, nb)
              end
          end
      end
  end.

(* `_root_`: follow primary parents *)
Fixpoint root_of (fuel : nat) (h : heap) (x : nat) : nat :=
  match fuel with
  | O => x
  | S f => match nparent (nd h x) with Some p => root_of f h p | None => x end
  end.
(* `_conditions_root_` (symbolic.py:244-254) *)
Fixpoint cond_root (fuel : nat) (h : heap) (x : nat) : nat :=
  match fuel with
  | O => x
  | S f => match nchild (nd h x) with
           | None => x
           | Some c => match nparent (nd h c) with
                       | Some p => match nk (nd h p) with NEntity => c | _ => cond_root f h c end
                       | None => cond_root f h c
                       end
           end
  end.
(* `__enter__` (symbolic.py:363-368); the cached property is per node object: only the query object is ever asked *)
Definition enter (x : nat) (st : bstate) : bstate :=
  let h := hp st in
  let fuel := Datatypes.S (next h) in
  let rt := root_of fuel h x in
  if Nat.eqb x rt || oeq (nparent (nd h x)) rt then
    let c := match croot st with Some c => c | None => cond_root fuel h rt end in
    {| hp := h; stack := c :: stack st; croot := Some c |}
  else {| hp := h; stack := x :: stack st; croot := croot st |}.
Definition leave (st : bstate) : bstate := {| hp := hp st; stack := tl (stack st); croot := croot st |}.

(* Add(views, ...): attaches itself to the top of the expression stack (conclusion.py:43-47) *)
Definition add_concl (t : option nat) (st : bstate) : option bstate :=
  match t, stack st with
  | None, _ => Some st
  | Some tg, top :: _ =>
      Some {| hp := upd (hp st) top (fun n => w_concl (union (nconcl n) [tg]) n); stack := stack st; croot := croot st |}
  | Some _, [] => None
  end.

Definition do_branch (k : kind) (cs : list atom) (st : bstate) : option (bstate * nat) :=
  match k with
  | KRef => do_refinement cs st
  | KAlt => do_alt_next SAlt cs st
  | KNext => do_alt_next SNext cs st
  end.

(* the body of a `with` block whose node is on top of the stack *)
Fixpoint exec_body (r : rule) (st : bstate) {struct r} : option bstate :=
  match r with
  | Rule _ tg body =>
      match add_concl tg st with
      | None => None
      | Some st1 =>
          (fix go (l : list (kind * rule)) (st : bstate) {struct l} : option bstate :=
             match l with
             | [] => Some st
             | (k, q) :: l' =>
                 match do_branch k (r_conds q) st with
                 | None => None
                 | Some (st2, nb) =>
                     match exec_body q (enter nb st2) with
                     | None => None
                     | Some st3 => go l' (leave st3)
                     end
                 end
             end) body st1
      end
  end.

(* q = an(entity(views, *conds)); with q: <body> *)
Definition ENTITY := 1. Definition AN := 2.
Definition build (prog : rule) : option heap :=
  let (h0, c0) := alloc empty_heap (NCond (r_conds prog)) in
  let (h1, ent) := alloc h0 NEntity in
  let (h2, an) := alloc h1 NAn in
  let h3 := upd (upd h2 ent (w_child (Some c0))) c0 (w_parent (Some ent)) in
  let h4 := upd (upd h3 an (w_child (Some ent))) ent (w_parent (Some an)) in
  match exec_body prog (enter an {| hp := h4; stack := []; croot := None |}) with
  | Some st => Some (hp st)
  | None => None
  end.

(* the tree the evaluator will see: through left / right, starting at the descriptor's `_child_` *)
Fixpoint reify_at (fuel : nat) (h : heap) (x : nat) : option tree :=
  match fuel with
  | O => None
  | S f =>
      match nk (nd h x) with
      | NCond cs => Some (Leaf x cs (nconcl (nd h x)))
      | NSel s => match nleft (nd h x), nright (nd h x) with
                  | Some l, Some r => match reify_at f h l, reify_at f h r with
                                      | Some tl, Some tr => Some (Node x s tl tr)
                                      | _, _ => None
                                      end
                  | _, _ => None
                  end
      | _ => None
      end
  end.
Definition reify (h : heap) : option tree :=
  match nchild (nd h ENTITY) with Some c => reify_at (Datatypes.S (next h)) h c | None => None end.

(* the whole model: build, reify, evaluate *)
Definition model (prog : rule) (W : list elem) : option (list (list nat * nat)) :=
  match build prog with
  | Some h => match reify h with Some t => Some (run W t) | None => None end
  | None => None
  end.

(* ---- the written tree of a program (ids erased to 0) ----
   A branch with refinements r1 r2 .. rn (written order) is ExceptIf(.. ExceptIf(ExceptIf(leaf, Ln), ..), L1): the first
   written refinement is outermost and therefore wins; Li is the level of ri (ri with its own refinements, followed by
   the alternatives / next_rules written in its block).  The alternatives / next_rules of a level chain to the left. *)
Definition sel_of (k : kind) : sel := match k with KNext => SNext | _ => SAlt end.
Fixpoint tlevel (k : kind) (r : rule) (acc : option tree) {struct r} : tree :=
  match r with
  | Rule cs tg body =>
      let me := (fix rf (l : list (kind * rule)) {struct l} : tree :=
                   match l with
                   | [] => Leaf 0 cs (tag_list tg)
                   | (KRef, q) :: l' => Node 0 SExc (rf l') (tlevel KAlt q None)
                   | _ :: l' => rf l'
                   end) body in
      let t0 := match acc with None => me | Some a => Node 0 (sel_of k) a me end in
      (fix sib (l : list (kind * rule)) (t : tree) {struct l} : tree :=
         match l with
         | [] => t
         | (KRef, _) :: l' => sib l' t
         | (k', q) :: l' => sib l' (tlevel k' q (Some t))
         end) body t0
  end.
Definition tree_of (prog : rule) : tree := tlevel KAlt prog None.

Fixpoint erase (t : tree) : tree :=
  match t with
  | Leaf _ cs c => Leaf 0 cs c
  | Node _ s l r => Node 0 s (erase l) (erase r)
  end.
Fixpoint ids (t : tree) : list nat :=
  match t with Leaf i _ _ => [i] | Node i _ l r => i :: ids l ++ ids r end.
