(* C12 -- the cases of the correspondence check and what the Spec says about them.
   Depends on the Spec only (Eql/PredSpec.v), so that the implementation can still be compared with the
   Spec when the model cannot be regenerated or built. *)
From Coq Require Import List ZArith Bool.
From Krrood Require Import Base.Sx Eql.PredSpec.
Import ListNotations.
Open Scope Z_scope.

(* ------------------------------------------------------------------------------------------- *)
(* The cases of the correspondence check: a callable with parameters [c_params] (defaults [c_defaults]),
   written call f( *c_pos, **c_kw ) whose arguments are ordinary objects (ALit) or expressions over query
   variables, evaluated inside   an(entity/set_of(c_sel, and_(<conjuncts binding c_pre first>, f(...)))). *)
Record pcase := {
  c_pred : bool;                       (* true: Predicate subclass (dataclass __init__, self first); false: @symbolic_function *)
  c_params : list Z;                   (* without self *)
  c_defaults : list (Z * Z);           (* parameter -> default value *)
  c_pos : list arg;
  c_kw : list (Z * arg);
  c_pre : list Z;                      (* variables bound by an earlier, always-true conjunct *)
  c_sel : list Z;                      (* selected variables *)
  c_doms : list (Z * list Z);
  c_attrs : list (Z * Z * Z);          (* (attribute, object) -> value *)
  c_tbl : list Z                       (* the body: result = tbl[code of the parameter values] *)
}.

Definition self_name : Z := 0.

Definition w_dom (c : pcase) (x : Z) : list Z :=
  match assoc x (c_doms c) with Some l => l | None => [] end.
Definition w_attr (c : pcase) (f v : Z) : Z :=
  match find (fun e => Z.eqb (fst (fst e)) f && Z.eqb (snd (fst e)) v) (c_attrs c) with
  | Some e => snd e | None => 0 end.

(* Python's binding of an all-keyword call f( **kwargs ): None = TypeError (unknown keyword / missing parameter) *)
Definition kw_call_ok (c : pcase) (kwargs : list (Z * Z)) : bool :=
  forallb (fun k => existsb (Z.eqb k) (c_params c)) (map fst kwargs) &&
  forallb (fun p => match assoc p kwargs, assoc p (c_defaults c) with None, None => false | _, _ => true end) (c_params c).

(* the harness' body: the values of all parameters (defaults filled in) as the body sees them, and its result *)
Definition seen (c : pcase) (kwargs : list (Z * Z)) : list Z :=
  map (fun p => match assoc p kwargs with Some v => v
                | None => match assoc p (c_defaults c) with Some d => d | None => -1 end end) (c_params c).
Fixpoint code_of (vs : list Z) : Z :=
  match vs with [] => 0 | v :: r => (v mod 3) + 3 * code_of r end.
Definition body_of (c : pcase) (kwargs : list (Z * Z)) : Z :=
  nth (Z.to_nat (code_of (seen c kwargs) mod Z.of_nat (length (c_tbl c)))) (c_tbl c) 0.
Definition truthy_z (r : Z) : bool := negb (Z.eqb r 0).

Definition lit_value (a : arg) : Z := match a with ALit v => v | _ => -7 end.

(* concrete call through Python's own binding (Spec part 1): [0; result] or [0; -1] for TypeError *)
Definition concrete_outcome (c : pcase) : sx :=
  let pos := map lit_value (c_pos c) in
  let kw := map (fun ka => (fst ka, lit_value (snd ka))) (c_kw c) in
  let required := filter (fun p => match assoc p (c_defaults c) with Some _ => false | None => true end) (c_params c) in
  if call_okb (c_params c) pos kw && completeb (c_params c) required pos kw then
    let bound := flat_map (fun p => match python_bind (c_params c) pos kw p with Some v => [(p, v)] | None => [] end) (c_params c) in
    SL [SZ 0; SZ (body_of c bound); SL [SL (map SZ (seen c bound))]]
  else SL [SZ 0; SZ (-1); SL []].

Definition sx_calls (c : pcase) (calls : list (list (Z * Z))) : sx := SL (map (fun k => SL (map SZ (seen c k))) calls).
Definition row_of (c : pcase) (b : list (Z * Z)) : sx :=
  SL (map (fun x => SZ (match assoc x b with Some v => v | None => -9 end)) (c_sel c)).

(* the query around the condition: conjuncts that bind c_pre first (each enumerates its variable once, in order),
   then the predicate variable under each of those bindings; rows = the selected variables of the true results.
   Selection step (QueryObjectDescriptor.evaluate_selected_variables, as of 32abf51: lazy nested loops, each selected
   expression evaluated under the bindings produced by the ones before it): the harness only selects variables that
   the condition has bound, and a bound variable yields exactly one result (its binding) under any bindings that
   extend the condition's, so both the threaded loops and the earlier itertools.product give the one row [row_of]. *)
Definition run_symbolic (c : pcase) (kwargs : list (Z * arg))
           (ev : list (Z * arg) -> list (Z * Z) -> list (list (Z * Z) * list (Z * Z) * bool)) : sx :=
  let results := flat_map (ev kwargs) (cands (w_dom c) [] (c_pre c)) in
  match results with
  | [] => SL [SZ 1; SZ 0; SL []; SL []]
  | first :: _ =>
      if kw_call_ok c (snd (fst first)) then
        SL [SZ 1; SZ 0; sx_calls c (map (fun r => snd (fst r)) results);
            SL (map (fun r => row_of c (fst (fst r))) (filter (fun r => snd r) results))]
      else SL [SZ 1; SZ (-1); SL []; SL []]        (* TypeError at the first instantiation *)
  end.

(* SPEC: symbolic iff some written argument is a variable expression; parameters bound as Python binds
   them; one call per candidate binding; truth of the concrete call.  Defined for well-formed calls. *)
Definition spec_outcome (c : pcase) : sx :=
  if existsb arg_is_symbolic (c_pos c) || existsb arg_is_symbolic (map snd (c_kw c)) then
    let kwargs := flat_map (fun p => match python_bind (c_params c) (c_pos c) (c_kw c) p with
                                     | Some a => [(p, a)] | None => [] end) (c_params c) in
    run_symbolic c kwargs (spec_eval (w_dom c) (w_attr c) (body_of c) truthy_z)
  else concrete_outcome c.

Definition wellformed (c : pcase) : bool :=
  let required := filter (fun p => match assoc p (c_defaults c) with Some _ => false | None => true end) (c_params c) in
  call_okb (c_params c) (c_pos c) (c_kw c) && completeb (c_params c) required (c_pos c) (c_kw c).

(* canonical form for the comparison with the Spec: the property does not fix the order of calls / rows *)
Definition canon (o : sx) : sx :=
  match o with
  | SL [k; e; SL calls; SL rows] => SL [k; e; SL (sx_sort calls); SL (sx_sort rows)]
  | _ => o
  end.

Definition case_code_spec (c : pcase) (impl : sx) : Z :=
  if negb (wellformed c) then 200
  else if sx_eqb (canon impl) (canon (spec_outcome c)) then 0 else 3.

(* ------------------------------------------------------------------------------------------- *)
(* Nested calls: one written argument of the outer callable is itself a symbolic call g(...), e.g. f(g(x)) or
   Pred(h(x), y).  These are OUTSIDE the model (Eql/PredEval.v has no call-valued argument); the implementation is
   compared with the Spec only.  Spec = the concrete composition: for every candidate binding the inner callable is
   applied to the values of its written arguments, and the outer callable to the values of its written arguments with
   the inner RESULT (whatever its truthiness) in the nested position; truth = bool of the outer result (negated under
   not_).  In the outer call the nested argument is written as the variable [nest_var]. *)
Definition nest_var : Z := 99.

Record ncase := {
  n_outer : pcase;
  n_inner_params : list Z;
  n_inner_defaults : list (Z * Z);
  n_inner_pos : list arg;
  n_inner_kw : list (Z * arg);
  n_inner_tbl : list Z;
  n_neg : bool;                         (* the condition is not_(outer(...)) *)
  n_mode : Z    (* how often the inner call OBJECT g is used, with F = outer(.., g, ..):
                   0: [not_] F                              -- as operand only
                   1: and_(g, [not_] F)                     -- as condition and as operand
                   2: or_(and_(g, F), and_(not_(g), true))  -- in both or_ branches, once under not_, and as operand
                   Model and Spec do not see object identity: the Spec is the plain reading of the condition. *)
}.

Definition bound_kwargs (params : list Z) (pos : list arg) (kw : list (Z * arg)) : list (Z * arg) :=
  flat_map (fun p => match python_bind params pos kw p with Some a => [(p, a)] | None => [] end) params.

Definition vars_of (kwargs : list (Z * arg)) : list Z :=
  flat_map (fun ka => match arg_var (snd ka) with Some x => [x] | None => [] end) kwargs.

Definition spec_nested (n : ncase) : sx :=
  let o := n_outer n in
  let i := {| c_pred := false; c_params := n_inner_params n; c_defaults := n_inner_defaults n; c_pos := []; c_kw := [];
              c_pre := []; c_sel := []; c_doms := c_doms o; c_attrs := c_attrs o; c_tbl := n_inner_tbl n |} in
  let ikw := bound_kwargs (n_inner_params n) (n_inner_pos n) (n_inner_kw n) in
  let okw := bound_kwargs (c_params o) (c_pos o) (c_kw o) in
  let vars := dedup (c_pre o ++ vars_of ikw ++ filter (fun z => negb (Z.eqb z nest_var)) (vars_of okw)) in
  let per := map (fun rho =>
                    let icall := call_of (w_attr o) ikw rho in
                    let v := body_of i icall in
                    let ocall := call_of (w_attr o) okw (rho ++ [(nest_var, v)]) in
                    let tg := truthy_z v in let tf := truthy_z (body_of o ocall) in
                    (SL (map SZ (seen i icall)),
                     (* the outer call: always in mode 0, only where g holds otherwise (and_ short-circuits) *)
                     (if Z.eqb (n_mode n) 0 || tg then [SL (map SZ (seen o ocall))] else []),
                     (if Z.eqb (n_mode n) 0 then xorb (n_neg n) tf
                      else if Z.eqb (n_mode n) 1 then tg && xorb (n_neg n) tf
                      else (tg && tf) || negb tg),
                     row_of o rho))
                 (cands (w_dom o) [] vars) in
  SL [SZ 1; SZ 0;
      SL (sx_set (map (fun r => fst (fst (fst r))) per));          (* the inner calls, as a set *)
      SL (sx_sort (flat_map (fun r => snd (fst (fst r))) per));    (* one outer call per candidate binding that reaches it *)
      SL (sx_sort (map (fun r => snd r) (filter (fun r => snd (fst r)) per)))].

Definition canon_nested (o : sx) : sx :=
  match o with
  | SL [k; e; SL ic; SL oc; SL rows] => SL [k; e; SL (sx_set ic); SL (sx_sort oc); SL (sx_sort rows)]
  | _ => o
  end.

Definition case_code_nested (n : ncase) (impl : sx) : Z :=
  if sx_eqb (canon_nested impl) (spec_nested n) then 0 else 3.

(* ------------------------------------------------------------------------------------------- *)
(* Selected call results: an(set_of([x, y, f(x, y)], <conjuncts binding the variables>)) -- the call is not a condition
   but a selected expression; every candidate binding gives one row (the variables, then the plain result of the call,
   falsy results included).  Outside the model: implementation vs Spec. *)
Definition spec_selected (c : pcase) : sx :=
  let kwargs := bound_kwargs (c_params c) (c_pos c) (c_kw c) in
  let per := map (fun rho => let call := call_of (w_attr c) kwargs rho in
                             (SL (map SZ (seen c call)),
                              match row_of c rho with SL r => SL (r ++ [SZ (body_of c call)]) | o => o end))
                 (cands (w_dom c) [] (dedup (c_pre c ++ vars_of kwargs))) in
  SL [SZ 1; SZ 0; SL (sx_set (map fst per)); SL (sx_sort (map snd per))].

Definition canon_selected (o : sx) : sx :=
  match o with
  | SL [k; e; SL calls; SL rows] => SL [k; e; SL (sx_set calls); SL (sx_sort rows)]
  | _ => o
  end.

Definition case_code_selected (c : pcase) (impl : sx) : Z :=
  if sx_eqb (canon_selected impl) (spec_selected c) then 0 else 3.

(* ------------------------------------------------------------------------------------------- *)
(* The call below a quantifier: and_(<conjuncts binding the other variables>, for_all(u, f(..u..)))  (neg = false) or
   ... not_(exists(u, f(..u..)))  (neg = true, rewritten by the library to for_all(u, not f)).  Spec: the row of rho is
   returned iff the call holds (does not hold) for EVERY value of u.  (Before 1d53b86 the call was invoked for the first
   value of u only and its result replayed for the others: finding C12-b, fixed.) *)
Definition quant_rows (c : pcase) (u : Z) (neg : bool) : sx :=
  let kwargs := bound_kwargs (c_params c) (c_pos c) (c_kw c) in
  SL (sx_sort (flat_map (fun rho =>
        let t := fun v => xorb neg (truthy_z (body_of c (call_of (w_attr c) kwargs (rho ++ [(u, v)])))) in
        if forallb t (w_dom c u) then [row_of c rho] else []) (cands (w_dom c) [] (c_pre c)))).

Definition rows_of_outcome (o : sx) : sx :=
  match o with SL [SZ 1; SZ 0; SL rows] => SL (sx_sort rows) | _ => o end.

(* q = 10 * u + (1 if not_(exists) else 0) *)
Definition case_code_quant (cq : pcase * Z) (impl : sx) : Z :=
  let c := fst cq in let u := (snd cq / 10)%Z in let neg := Z.eqb (snd cq mod 10) 1 in
  if sx_eqb (rows_of_outcome impl) (quant_rows c u neg) then 0 else 3.

(* ------------------------------------------------------------------------------------------- *)
(* The call as an OPERAND of a comparison: f(...) == k, f(...) < k, f(...) != k.  Spec: one call per candidate binding;
   the row is returned iff the comparison holds for the call's plain result, falsy results included.  (Before c666f8e a
   binding whose result is falsy was dropped before the comparison: finding C12-c, fixed.) *)
Definition operand_outcome (c : pcase) (op k : Z) : sx :=
  let kwargs := bound_kwargs (c_params c) (c_pos c) (c_kw c) in
  let per := map (fun rho => let call := call_of (w_attr c) kwargs rho in
                             let r := body_of c call in
                             let holds := if Z.eqb op 0 then Z.eqb r k else if Z.eqb op 1 then Z.ltb r k else negb (Z.eqb r k) in
                             (SL (map SZ (seen c call)), holds, row_of c rho))
                 (cands (w_dom c) [] (dedup (c_pre c ++ vars_of kwargs))) in
  SL [SZ 1; SZ 0; SL (sx_sort (map (fun r => fst (fst r)) per));
      SL (sx_sort (map (fun r => snd r) (filter (fun r => snd (fst r)) per)))].

(* ok = 10 * op + k *)
Definition case_code_operand (ck : pcase * Z) (impl : sx) : Z :=
  let c := fst ck in let op := (snd ck / 10)%Z in let k := (snd ck mod 10)%Z in
  if sx_eqb (canon impl) (operand_outcome c op k) then 0 else 3.
