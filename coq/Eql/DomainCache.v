(* C03 (a) -- HashedIterable as a concurrent object (hashed_data.py __iter__), hand models.
   The faithful model of the CURRENT code is [rstep]/[rrun] further down (commit 1997e3c).  [hstep]/[run] model the
   PREVIOUS iterator (below) and are kept for the regression statements C03_refuted_interleave / C03_refuted_dup.

     def __iter__(self):
         yield from self.values.values()        # live dict view: size change => RuntimeError at the next step
         for v in self.iterable:                # ONE shared one-shot generator
             self.values[v.id_] = v             # dict keyed by id_: a duplicate overwrites, does not grow
             yield v

   State of the object: [cache] (the dict, insertion order) and [src] (what the shared generator has not produced yet).
   Every [iter()] is a handle with local state.  The generator body starts at the first [next]: that is when the dict
   view is created and its size recorded ([HNew] -> [HReplay 0 (length cache)]).
   CPython dict-view iterator: each [next] first compares the recorded size with the current one (RuntimeError
   "dictionary changed size during iteration" if different), then returns entry [i], or is exhausted when [i] is past the
   entries; exhaustion falls through, inside the same [next], to the drain loop. *)
From Coq Require Import List ZArith Bool Arith.
From Krrood Require Import Eql.DomainCacheSpec.
Import ListNotations.
Open Scope Z_scope.

Record dstate := { cache : list hv; src : list hv }.

Inductive hstate :=
| HNew                       (* generator created, body not started *)
| HReplay (i n0 : nat)       (* inside [yield from values.values()], next entry i, size recorded n0 *)
| HDrain                     (* inside [for v in self.iterable] *)
| HDone                      (* ran to StopIteration *)
| HClosed                    (* abandoned: close() / dropped *)
| HFailed.                   (* died with RuntimeError *)

Inductive out := OYield (v : hv) | OStop | OErr.

Definition drain (d : dstate) : out * dstate * hstate :=
  match src d with
  | [] => (OStop, d, HDone)
  | v :: r => (OYield v, {| cache := ins (cache d) v; src := r |}, HDrain)
  end.

Definition replay (d : dstate) (i n0 : nat) : out * dstate * hstate :=
  if negb (Nat.eqb (length (cache d)) n0) then (OErr, d, HFailed)
  else match nth_error (cache d) i with
       | Some v => (OYield v, d, HReplay (S i) n0)
       | None => drain d
       end.

(* one [next] on a handle *)
Definition hstep (d : dstate) (h : hstate) : out * dstate * hstate :=
  match h with
  | HNew => replay d 0 (length (cache d))
  | HReplay i n0 => replay d i n0
  | HDrain => drain d
  | HDone => (OStop, d, HDone)
  | HClosed => (OStop, d, HClosed)
  | HFailed => (OStop, d, HFailed)
  end.

Definition live (h : hstate) : bool :=
  match h with HNew | HReplay _ _ | HDrain => true | _ => false end.

Definition hclose (h : hstate) : hstate := if live h then HClosed else h.

(* ---- the object with any number of handles ------------------------------------------------ *)
Inductive op := Create | Next (h : nat) | Abandon (h : nat).

(* a handle: local state, values it yielded so far (in order) *)
Definition handle := (hstate * list hv)%type.
Record sys := { dom : dstate; hs : list handle }.

Fixpoint upd {A} (n : nat) (x : A) (l : list A) : list A :=
  match l, n with
  | [], _ => []
  | _ :: t, O => x :: t
  | a :: t, S n' => a :: upd n' x t
  end.

Definition yielded (o : out) : list hv := match o with OYield v => [v] | _ => [] end.

Definition step (o : op) (S : sys) : sys :=
  match o with
  | Create => {| dom := dom S; hs := hs S ++ [(HNew, [])] |}
  | Next h =>
      match nth_error (hs S) h with
      | None => S
      | Some (st, tr) =>
          let '(o, d', st') := hstep (dom S) st in
          {| dom := d'; hs := upd h (st', tr ++ yielded o) (hs S) |}
      end
  | Abandon h =>
      match nth_error (hs S) h with
      | None => S
      | Some (st, tr) => {| dom := dom S; hs := upd h (hclose st, tr) (hs S) |}
      end
  end.

Definition run (ops : list op) (S : sys) : sys := fold_left (fun S o => step o S) ops S.

Definition init (domain : list hv) : sys := {| dom := {| cache := []; src := domain |}; hs := [] |}.

(* schedules in which no two handles are live at once: a handle is created only when every other one is
   exhausted, abandoned or dead.  [seq_run] is [run] guarded by that check. *)
Fixpoint seq_run (ops : list op) (S : sys) : option sys :=
  match ops with
  | [] => Some S
  | Create :: r => if existsb (fun p => live (fst p)) (hs S) then None else seq_run r (step Create S)
  | o :: r => seq_run r (step o S)
  end.

(* ---- the CURRENT iterator (krrood commit 1997e3c): positional replay of a per-round snapshot, one new element per round --
     def __iter__(self):
         index = 0
         while True:
             cached = list(self.values.values())[index:]          # snapshot of what is cached beyond my position
             if cached:
                 for v in cached:
                     index += 1
                     yield v
                 continue
             if not hasattr(self.iterable, "__next__"): self.iterable = iter(self.iterable)
             for v in self.iterable:                               # ONE shared source
                 if v.id_ not in self.values:                      # an id already cached is skipped (duplicates yield once)
                     self.values[v.id_] = v
                     break                                         # ... and is replayed from the cache on the next round
             else:
                 return
   Handle state: the position [i] and the part [pend] of the current snapshot not yet yielded. *)
Inductive rstate := RLive (i : nat) (pend : list hv) | RDone | RClosed.

Fixpoint rpull (c s : list hv) : option hv * list hv * list hv :=
  match s with
  | [] => (None, c, [])
  | v :: r => if mem v c then rpull c r else (Some v, c ++ [v], r)
  end.

Definition rstep (d : dstate) (h : rstate) : out * dstate * rstate :=
  match h with
  | RLive i (v :: p) => (OYield v, d, RLive (S i) p)
  | RLive i [] =>
      match skipn i (cache d) with
      | v :: p => (OYield v, d, RLive (S i) p)
      | [] => match rpull (cache d) (src d) with
              | (Some v, c, r) => (OYield v, {| cache := c; src := r |}, RLive (S i) [])   (* next round: cached = [v] *)
              | (None, c, r) => (OStop, {| cache := c; src := r |}, RDone)
              end
      end
  | RDone => (OStop, d, RDone)
  | RClosed => (OStop, d, RClosed)
  end.

Definition rclose (h : rstate) : rstate := match h with RLive _ _ => RClosed | x => x end.

Definition rhandle := (rstate * list hv)%type.
Record rsys := { rdom : dstate; rhs : list rhandle }.

Definition rsysstep (o : op) (S : rsys) : rsys :=
  match o with
  | Create => {| rdom := rdom S; rhs := rhs S ++ [(RLive 0 [], [])] |}
  | Next h =>
      match nth_error (rhs S) h with
      | None => S
      | Some (st, tr) =>
          let '(o, d', st') := rstep (rdom S) st in
          {| rdom := d'; rhs := upd h (st', tr ++ yielded o) (rhs S) |}
      end
  | Abandon h =>
      match nth_error (rhs S) h with
      | None => S
      | Some (st, tr) => {| rdom := rdom S; rhs := upd h (rclose st, tr) (rhs S) |}
      end
  end.

Definition rrun (ops : list op) (S : rsys) : rsys := fold_left (fun S o => rsysstep o S) ops S.
Definition rinit (domain : list hv) : rsys := {| rdom := {| cache := []; src := domain |}; rhs := [] |}.

(* ---- running one fresh handle to exhaustion (what a whole sequential evaluation does with a variable) ---- *)
Fixpoint exhaust (fuel : nat) (d : dstate) (h : hstate) (acc : list hv) : option (list hv * dstate) :=
  match fuel with
  | O => None
  | S f => match hstep d h with
           | (OYield v, d', h') => exhaust f d' h' (acc ++ [v])
           | (OStop, d', _) => Some (acc, d')
           | (OErr, _, _) => None
           end
  end.

Fixpoint rexhaust (fuel : nat) (d : dstate) (h : rstate) (acc : list hv) : option (list hv * dstate) :=
  match fuel with
  | O => None
  | S f => match rstep d h with
           | (OYield v, d', h') => rexhaust f d' h' (acc ++ [v])
           | (OStop, d', _) => Some (acc, d')
           | (OErr, _, _) => None
           end
  end.

(* ---- per-operation log of a schedule (what the harness observes on the implementation) ----
   value yielded | -1 StopIteration | -2 RuntimeError | -3 create/abandon | -9 no such handle *)
Definition out_code (o : out) : Z := match o with OYield v => v | OStop => -1 | OErr => -2 end.

Definition step_log (o : op) (S : sys) : Z * sys :=
  match o with
  | Create => (-3, step o S)
  | Next h => match nth_error (hs S) h with
              | None => (-9, S)
              | Some (st, _) => (out_code (fst (fst (hstep (dom S) st))), step o S)
              end
  | Abandon h => match nth_error (hs S) h with None => (-9, S) | Some _ => (-3, step o S) end
  end.

Fixpoint run_log (ops : list op) (S : sys) : list Z :=
  match ops with
  | [] => []
  | o :: r => let '(z, S') := step_log o S in z :: run_log r S'
  end.

Definition rstep_log (o : op) (S : rsys) : Z * rsys :=
  match o with
  | Create => (-3, rsysstep o S)
  | Next h => match nth_error (rhs S) h with
              | None => (-9, S)
              | Some (st, _) => (out_code (fst (fst (rstep (rdom S) st))), rsysstep o S)
              end
  | Abandon h => match nth_error (rhs S) h with None => (-9, S) | Some _ => (-3, rsysstep o S) end
  end.

Fixpoint rrun_log (ops : list op) (S : rsys) : list Z :=
  match ops with
  | [] => []
  | o :: r => let '(z, S') := rstep_log o S in z :: rrun_log r S'
  end.
