(* C10 -- no read-ahead, proved of the model: for a variable that the query uses only below attributes, that no for_all
   quantifies and that the selection does not enumerate, every element pulled out of its generator has one of its
   attributes read before the next element is pulled, before the generator is finished, and before the log ends. *)
From Coq Require Import List ZArith Bool Arith Lia.
From Krrood Require Import Eql.Syntax Eql.Sat Eql.Eval Eql.TraceSpec Eql.Trace Eql.TraceProofs.
Import ListNotations.
Open Scope nat_scope.

(* ---------- the scan of the Spec as a state machine over the newest-first store ---------- *)
Definition xstep (D : domains) (x : var) (st : option (option Z)) (e : event) : option (option Z) :=
  match st with
  | None => None
  | Some pend =>
      match e with
      | Pull y i => if Nat.eqb x y then match pend with None => Some (obj_of D x i) | Some _ => None end else Some pend
      | End y => if Nat.eqb x y then match pend with None => Some None | Some _ => None end else Some pend
      | Get o _ => match pend with Some p => if Z.eqb o p then Some None else Some pend | None => Some None end
      | Yield r => match pend with
                   | Some p => if existsb (fun v => match v with VO o => Z.eqb o p | _ => false end) r then Some None else Some pend
                   | None => Some None
                   end
      | Frame _ | Note _ _ | Pass => Some pend
      end
  end.
Definition xstate (D : domains) (x : var) (s : store) : option (option Z) :=
  fold_right (fun e st => xstep D x st e) (Some None) s.

Lemma xstep_none D x t : fold_left (xstep D x) t None = None.
Proof. induction t; simpl; auto. Qed.
Lemma examined_scan_fold D x t : forall pend,
  examined_scan D x pend t = match fold_left (xstep D x) t (Some pend) with Some None => true | _ => false end.
Proof.
  induction t as [|e t IH]; intros pend; simpl.
  - destruct pend; reflexivity.
  - destruct e as [y i|y|o a|r|n|n k|]; simpl; try apply IH.
    + destruct (Nat.eqb x y); [|apply IH]. destruct pend; [now rewrite xstep_none | apply IH].
    + destruct (Nat.eqb x y); [|apply IH]. destruct pend; [now rewrite xstep_none | apply IH].
    + destruct pend as [p|]; [|apply IH]. destruct (Z.eqb o p); apply IH.
    + destruct pend as [p|]; [|apply IH]. destruct (existsb _ r); apply IH.
Qed.
Lemma examined_scan_rev D x s : examined_scan D x None (rev s) = true <-> xstate D x s = Some None.
Proof.
  rewrite examined_scan_fold. unfold xstate.
  rewrite <- (rev_involutive s) at 2. rewrite fold_left_rev_right.
  destruct (fold_left _ (rev s) (Some None)) as [[p|]|]; split; intros H; try discriminate; reflexivity.
Qed.

Section Ahead.
  Variable W : world.
  Variable D : domains.
  Variable x : var.

  Definition Clean (s : store) : Prop := xstate D x s = Some None.

  Lemma Clean_nil : Clean []. Proof. reflexivity. Qed.
  Lemma Clean_other e s : is_pull x e = false -> is_end x e = false -> Clean s -> Clean (e :: s).
  Proof.
    unfold Clean, xstate. simpl. intros H1 H2 ->. destruct e as [y i|y|o a|r|n|n k|]; simpl in *; auto.
    - now rewrite H1.
    - now rewrite H2.
  Qed.
  Lemma Clean_end s : Clean s -> Clean (End x :: s).
  Proof. unfold Clean, xstate. simpl. intros ->. simpl. now rewrite Nat.eqb_refl. Qed.
  Lemma Clean_finish y s : Clean s -> Clean (finish y s).
  Proof.
    intros H. unfold finish. destruct (ended y s); auto. destruct (Nat.eqb_spec x y) as [<-|N].
    - apply Clean_end; auto.
    - apply Clean_other; auto. simpl. now apply Nat.eqb_neq.
  Qed.
  Lemma Clean_get v a s : Clean s -> Clean (get_ev v a s).
  Proof. intros H. unfold get_ev. destruct v; auto. apply Clean_other; auto. Qed.
  Lemma Clean_touch_other y i s : x <> y -> Clean s -> Clean (touch y i s).
  Proof.
    intros N H. unfold touch. destruct (i <? npulls y s); auto. apply Clean_other; auto. simpl. now apply Nat.eqb_neq.
  Qed.
  (* the element is pulled and its attribute read at once *)
  Lemma Clean_touch_get i v a s : nth_error (D x) i = Some v -> Clean s -> Clean (get_ev v a (touch x i s)).
  Proof.
    intros Hv H. unfold touch. destruct (i <? npulls x s); [apply Clean_get; auto|].
    unfold Clean, xstate, get_ev in *. destruct v as [z|o|l|l]; simpl; rewrite H; simpl; rewrite Nat.eqb_refl;
      unfold obj_of; rewrite Hv; simpl; auto.
    now rewrite Z.eqb_refl.
  Qed.

  Definition covers (b0 : binds) (vs : list var) (b' : binds) : Prop :=
    forall z, bound b0 z = true \/ In z vs -> bound b' z = true.
  Definition kclean {A} (P : A -> Prop) (k : A -> store -> store * signal) : Prop :=
    forall a s, P a -> Clean s -> Clean (fst (k a s)).

  Lemma bound_cons y v b z : bound ((y, v) :: b) z = Nat.eqb z y || bound b z.
  Proof. unfold bound. simpl. destruct (Nat.eqb z y); reflexivity. Qed.

  Lemma andthen_clean (o : store * signal) f :
    Clean (fst o) -> (forall s, Clean s -> Clean (fst (f s))) -> Clean (fst (andthen o f)).
  Proof. destruct o as [s [|]]; simpl; auto. Qed.
  Lemma each_clean {A} (P : A -> Prop) (f : A -> store -> store * signal) l :
    kclean P f -> Forall P l -> forall s, Clean s -> Clean (fst (each f l s)).
  Proof.
    intros Hf HP. induction HP as [|a l Ha Hl IH]; intros s Hs; simpl; auto.
    apply andthen_clean; auto.
  Qed.

  (* enumeration of a variable other than x *)
  Lemma enum_clean_other y (k : val -> store -> store * signal) s :
    x <> y -> (forall v s0, Clean s0 -> Clean (fst (k v s0))) -> Clean s -> Clean (fst (enum D y k s)).
  Proof.
    intros N Hk Hs. unfold enum. apply andthen_clean.
    - apply (each_clean (fun _ => True)); auto.
      + intros iv s0 _ H0. apply Hk. apply Clean_touch_other; auto.
      + apply Forall_forall. auto.
    - intros s' H'. simpl. apply Clean_finish; auto.
  Qed.

  (* enumeration of x with its attribute read at once *)
  Lemma enum_clean_attr a (k : val -> store -> store * signal) :
    (forall v s0, Clean s0 -> Clean (fst (k v s0))) ->
    forall l i s, (forall j v, nth_error l j = Some v -> nth_error (D x) (i + j) = Some v) -> Clean s ->
    Clean (fst (each (fun iv s0 => k (snd iv) (get_ev (snd iv) a (touch x (fst iv) s0))) (combine (seq i (length l)) l) s)).
  Proof.
    intros Hk. induction l as [|v l IH]; intros i s Hl Hs; simpl; auto.
    apply andthen_clean.
    - apply Hk. apply Clean_touch_get; auto. specialize (Hl 0 v eq_refl). now rewrite Nat.add_0_r in Hl.
    - intros s' H'. apply IH; auto. intros j w Hj. specialize (Hl (S j) w Hj). now rewrite Nat.add_succ_r in Hl.
  Qed.

  Lemma opnd_clean e : bare x e = false -> forall b (k : binds * val -> store -> store * signal) s,
    kclean (fun p => covers b (opnd_vars e) (fst p)) k -> Clean s -> Clean (fst (tr_opnd W D e b k s)).
  Proof.
    induction e as [v|z|e IH a]; intros Hb b k s Hk Hs.
    - simpl. apply Hk; auto. intros z [Hz|[]]. exact Hz.
    - simpl in Hb. apply Nat.eqb_neq in Hb. simpl. destruct (lookup b z) as [v|] eqn:Hz.
      + apply Hk; auto. intros y [Hy|[<-|[]]]; auto. simpl. unfold bound. now rewrite Hz.
      + apply enum_clean_other; auto. intros v s0 H0. apply Hk; auto.
        intros y Hy. simpl. rewrite bound_cons. destruct Hy as [Hy|[<-|[]]]; [rewrite Hy; apply orb_true_r | now rewrite Nat.eqb_refl].
    - simpl. destruct e as [v|z|e' a'].
      + simpl. apply Hk; [|apply Clean_get; auto]. intros y [Hy|[]]. exact Hy.
      + destruct (Nat.eqb_spec x z) as [<-|N].
        * (* the attribute of x itself *)
          simpl. destruct (lookup b x) as [v|] eqn:Hx.
          -- apply Hk; [|apply Clean_get; auto]. simpl. intros y [Hy|[<-|[]]]; auto. unfold bound. now rewrite Hx.
          -- unfold enum, indexed. apply andthen_clean.
             ++ apply (enum_clean_attr a (fun v s0 => k ((x, v) :: b, getattr W v a) s0)).
                ** intros v s0 H0. apply Hk; auto. simpl. intros y Hy. rewrite bound_cons.
                   destruct Hy as [Hy|[<-|[]]]; [rewrite Hy; apply orb_true_r | now rewrite Nat.eqb_refl].
                ** intros j v Hj. exact Hj.
                ** exact Hs.
             ++ intros s' H'. simpl. apply Clean_finish; auto.
        * apply IH; auto; [simpl; now apply Nat.eqb_neq|].
          intros p s0 Hp H0. apply Hk; [exact Hp | apply Clean_get; auto].
      + apply IH; auto. intros p s0 Hp H0. apply Hk; [exact Hp | apply Clean_get; auto].
  Qed.

  Lemma nmem_In z l : nmem z l = true <-> In z l.
  Proof.
    unfold nmem. rewrite existsb_exists. split.
    - intros [y [H1 H2]]. apply Nat.eqb_eq in H2. now subst.
    - intros H. exists z. split; auto. apply Nat.eqb_refl.
  Qed.
  Lemma In_inter z l m : In z (inter l m) -> In z l /\ In z m.
  Proof. unfold inter. rewrite filter_In. intros [H1 H2]. split; auto. now apply nmem_In. Qed.
  Lemma bound_app s1 b z : bound b z = true -> bound (s1 ++ b) z = true.
  Proof.
    unfold bound. induction s1 as [|[y v] s1 IH]; simpl; auto. destruct (Nat.eqb z y); auto.
  Qed.

  (* the ForAll loop over a variable other than x *)
  Section ForAllClean.
    Variable trc : binds -> (res -> store -> store * signal) -> store -> store * signal.
    Variable evalc : binds -> list res.
    Variable y : var.
    Variable others : list var.
    Hypothesis Hy : x <> y.
    Hypothesis trc_clean : forall b k, (forall p s0, Clean s0 -> Clean (fst (k p s0))) ->
                                       forall s, Clean s -> Clean (fst (trc b k s)).

    Lemma drain_full_clean b s : Clean s -> Clean (drain_full trc b s).
    Proof. intros H. unfold drain_full. apply trc_clean; auto. Qed.
    Lemma drain_first_clean b s : Clean s -> Clean (drain_first trc b s).
    Proof. intros H. unfold drain_first. apply trc_clean; auto. Qed.
    Lemma narrow_events_clean bv ss : forall s, Clean s -> Clean (narrow_events trc bv ss s).
    Proof.
      unfold narrow_events. induction ss as [|s1 ss IH]; intros s H; simpl; auto. apply IH, drain_first_clean; auto.
    Qed.
    Lemma fa_step_clean bv S s : Clean s -> Clean (snd (fa_step trc evalc others bv S s)).
    Proof. intros H. destruct S; simpl; [apply narrow_events_clean | apply drain_full_clean]; auto. Qed.
    Lemma fa_loop_clean b ivs : forall S s, Clean s -> Clean (snd (fa_loop trc evalc y others b ivs S s)).
    Proof.
      induction ivs as [|iv rest IH]; intros S s H; simpl; [apply Clean_finish; auto|].
      pose proof (fa_step_clean ((y, snd iv) :: b) S _ (Clean_touch_other y (fst iv) s Hy H)) as H1.
      destruct (fst (fa_step trc evalc others ((y, snd iv) :: b) S (touch y (fst iv) s))); simpl; auto.
    Qed.
  End ForAllClean.

  (* continuations are only called on results that bind what [must] promises *)
  Lemma cond_clean c : no_bare_strict x c = true -> forall b (k : res -> store -> store * signal) s,
    kclean (fun r => covers b (must c (negb (snd r))) (fst r)) k -> Clean s -> Clean (fst (tr_cond W D c b k s)).
  Proof.
    induction c as [op l r|l IHl r IHr|l IHl r IHr|l IHl r IHr|c IH|e c IH|y c IH]; intros Hn b k s Hk Hs;
      simpl in Hn.
    - apply andb_true_iff in Hn. destruct Hn as [Hl Hr]. apply negb_true_iff in Hl. apply negb_true_iff in Hr.
      simpl. destruct (right_first b r).
      + apply opnd_clean; auto. intros p1 s1 H1 C1. apply opnd_clean; auto. intros p2 s2 H2 C2. apply Hk; auto.
        unfold covers. simpl. intros z [Hz|Hz].
        * apply H2; left; apply H1; left; exact Hz.
        * apply in_app_or in Hz. destruct Hz as [Hz|Hz]; [apply H2; right; exact Hz | apply H2; left; apply H1; right; exact Hz].
      + apply opnd_clean; auto. intros p1 s1 H1 C1. apply opnd_clean; auto. intros p2 s2 H2 C2. apply Hk; auto.
        unfold covers. simpl. intros z [Hz|Hz].
        * apply H2; left; apply H1; left; exact Hz.
        * apply in_app_or in Hz. destruct Hz as [Hz|Hz]; [apply H2; left; apply H1; right; exact Hz | apply H2; right; exact Hz].
    - apply andb_true_iff in Hn. destruct Hn as [Hl Hr]. simpl.
      apply IHl; auto. intros r1 s1 H1 C1. destruct (snd r1) eqn:F1; simpl in H1.
      + apply Hk; auto. unfold covers. simpl. intros z [Hz|Hz]; [apply H1; left; exact Hz|].
        apply In_inter in Hz. destruct Hz as [Hz _]. apply H1. right. exact Hz.
      + apply IHr; auto. intros r2 s2 H2 C2. apply Hk; auto. unfold covers. simpl. intros z [Hz|Hz].
        * apply H2; left; apply H1; left; exact Hz.
        * destruct (snd r2); simpl in *.
          -- apply In_inter in Hz. destruct Hz as [_ Hz]. apply in_app_or in Hz.
             destruct Hz as [Hz|Hz]; [apply H2; left; apply H1; right; exact Hz | apply H2; right; exact Hz].
          -- apply in_app_or in Hz.
             destruct Hz as [Hz|Hz]; [apply H2; left; apply H1; right; exact Hz | apply H2; right; exact Hz].
    - apply andb_true_iff in Hn. destruct Hn as [Hl Hr]. simpl.
      apply IHl; auto. intros r1 s1 H1 C1. destruct (snd r1) eqn:F1; simpl in H1.
      + apply IHr; auto. intros r2 s2 H2 C2. apply Hk; auto. unfold covers. simpl. intros z [Hz|Hz].
        * apply H2; left; apply H1; left; exact Hz.
        * destruct (snd r2); simpl in *.
          -- apply in_app_or in Hz.
             destruct Hz as [Hz|Hz]; [apply H2; left; apply H1; right; exact Hz | apply H2; right; exact Hz].
          -- apply In_inter in Hz. destruct Hz as [_ Hz]. apply in_app_or in Hz.
             destruct Hz as [Hz|Hz]; [apply H2; left; apply H1; right; exact Hz | apply H2; right; exact Hz].
      + apply Hk; auto. unfold covers. simpl. intros z [Hz|Hz]; [apply H1; left; exact Hz|].
        apply In_inter in Hz. destruct Hz as [Hz _]. apply H1. right. exact Hz.
    - apply andb_true_iff in Hn. destruct Hn as [Hl Hr]. simpl.
      assert (Hb : kclean (fun r0 => covers b [] (fst r0)) k) by (intros r0 s0 H0 C0; apply Hk; auto).
      apply andthen_clean.
      + apply IHl; auto. intros r1 s1 H1 C1. destruct (snd r1).
        * apply IHr; auto. intros r2 s2 H2 C2. apply Hb; auto. intros z [Hz|[]]. apply H2. left. apply H1. left. exact Hz.
        * apply Hb; auto. intros z [Hz|[]]. apply H1. left. exact Hz.
      + intros s' C'. apply IHr; auto; [|apply Clean_other; auto].
        intros r2 s2 H2 C2. destruct (snd r2); [exact C2|]. apply Hb; auto. intros z [Hz|[]]. apply H2. left. exact Hz.
    - simpl. apply IH; auto. intros r1 s1 H1 C1. apply Hk; auto. simpl. rewrite negb_involutive. exact H1.
    - (* Exists *)
      assert (Hc : no_bare_strict x c = true).
      { destruct e; auto; apply andb_true_iff in Hn; destruct Hn; auto. }
      simpl. apply IH; auto; [|apply Clean_other; auto].
      intros r1 s1 H1 C1. destruct (snd r1); [exact C1|]. destruct (existsb _ _); [exact C1|].
      apply Hk; [|apply Clean_other; auto]. simpl. intros z [Hz|[]]. apply H1. left. exact Hz.
    - (* ForAll over another variable *)
      apply andb_true_iff in Hn. destruct Hn as [Hxy Hc]. apply negb_true_iff in Hxy. apply Nat.eqb_neq in Hxy.
      assert (Htrc : forall b0 k0, (forall p s0, Clean s0 -> Clean (fst (k0 p s0))) ->
                                   forall s0, Clean s0 -> Clean (fst (tr_cond W D c b0 k0 s0))).
      { intros b0 k0 H0 s0 C0. apply IH; auto. intros p s1 _ C1. apply H0; auto. }
      assert (Hres : forall s1 s0, Clean s0 -> Clean (fst (k (s1 ++ b, false) s0))).
      { intros s1 s0 C0. apply Hk; auto. simpl. intros z [Hz|[]]. apply bound_app; auto. }
      simpl. destruct (lookup b y).
      + rewrite (each_map _ k). apply (each_clean (fun _ => True)).
        * intros s1 s0 _ C0. apply Hres; auto.
        * apply Forall_forall; auto.
        * apply drain_full_clean; auto.
      + pose proof (fa_loop_clean (tr_cond W D c) (eval W D c) y (remove_var y (cond_vars c)) Hxy Htrc b (indexed (D y)) None s Hs) as HL.
        destruct (fst (fa_loop _ _ _ _ _ _ _ _)).
        * rewrite (each_map _ k). apply (each_clean (fun _ => True)); auto.
          -- intros s1 s0 _ C0. apply Hres; auto.
          -- apply Forall_forall; auto.
        * apply Hk; auto. simpl. intros z [Hz|[]]. exact Hz.
  Qed.
  (* ---------- a pulled element of x is pending while x is bound to it inside a for_all over x ---------- *)
  Definition kcleanAll {A} (k : A -> store -> store * signal) : Prop := forall a s, Clean s -> Clean (fst (k a s)).

  Section Pending.
    Variable o : Z.
    Definition Pc (s : store) : Prop := xstate D x s = Some (Some o) \/ Clean s.
    Definition Bx (b : binds) : Prop := lookup b x = Some (VO o).

    Lemma Clean_Pc s : Clean s -> Pc s. Proof. right; auto. Qed.
    Lemma Pc_other e s : is_pull x e = false -> is_end x e = false -> Pc s -> Pc (e :: s).
    Proof.
      intros H1 H2 [H|H]; [|right; apply Clean_other; auto].
      unfold Pc, Clean, xstate in *. simpl. rewrite H.
      destruct e as [y i|y|o' a|r|n|n k|]; simpl in *; auto.
      - rewrite H1. auto.
      - rewrite H2. auto.
      - destruct (Z.eqb o' o); auto.
      - destruct (existsb _ r); auto.
    Qed.
    Lemma Pc_touch_other y i s : x <> y -> Pc s -> Pc (touch y i s).
    Proof. intros N H. unfold touch. destruct (i <? npulls y s); auto. apply Pc_other; auto. simpl. now apply Nat.eqb_neq. Qed.
    Lemma Pc_get v a s : Pc s -> Pc (get_ev v a s).
    Proof. intros H. unfold get_ev. destruct v; auto. apply Pc_other; auto. Qed.
    Lemma Pc_get_self a s : Pc s -> Clean (get_ev (VO o) a s).
    Proof.
      intros [H|H]; [|apply Clean_get; auto]. unfold Clean, xstate, get_ev in *. simpl. rewrite H. simpl. now rewrite Z.eqb_refl.
    Qed.
    Lemma Clean_finish_other y s : x <> y -> Clean s -> Clean (finish y s).
    Proof. intros _. apply Clean_finish. Qed.

    Lemma each_pc {A} (f : A -> store -> store * signal) l : l <> [] ->
      (forall a s0, Pc s0 -> Clean (fst (f a s0))) -> forall s, Pc s -> Clean (fst (each f l s)).
    Proof.
      intros Hl Hf s Hs. destruct l as [|a l]; [contradiction|]. simpl. apply andthen_clean; auto.
      intros s' C'. apply (each_clean (fun _ => True)); auto.
      - intros a0 s0 _ C0. apply Hf. right; auto.
      - apply Forall_forall; auto.
    Qed.

    Lemma enum_pc_other y (k : val -> store -> store * signal) s :
      x <> y -> D y <> [] -> (forall v s0, Pc s0 -> Clean (fst (k v s0))) -> Pc s -> Clean (fst (enum D y k s)).
    Proof.
      intros N NE Hk Hs. unfold enum, indexed. apply andthen_clean.
      - apply each_pc; auto.
        + destruct (D y); [contradiction | simpl; discriminate].
        + intros iv s0 H0. apply Hk. apply Pc_touch_other; auto.
      - intros s' C'. simpl. apply Clean_finish; auto.
    Qed.

    Lemma Bx_cons z v b : x <> z -> Bx b -> Bx ((z, v) :: b).
    Proof. unfold Bx. simpl. intros N H. destruct (Nat.eqb_spec x z); [contradiction | exact H]. Qed.

    (* an operand evaluated while x's element is pending: when the operand is an attribute chain over x the pending
       element is looked at before the consumer runs, otherwise the consumer runs at least once with it still pending *)
    Lemma opnd_pc e : bare x e = false -> (forall z, In z (opnd_vars e) -> D z <> []) ->
      forall b (k : binds * val -> store -> store * signal) s, Bx b ->
      (forall p s0, Bx (fst p) -> (if nmem x (opnd_vars e) then Clean s0 else Pc s0) -> Clean (fst (k p s0))) ->
      Pc s -> Clean (fst (tr_opnd W D e b k s)).
    Proof.
      induction e as [v|z|e IH a]; intros Hb NE b k s HB Hk Hs.
      - simpl. apply Hk; auto.
      - simpl in Hb. apply Nat.eqb_neq in Hb.
        assert (Hn : nmem x (opnd_vars (OVar z)) = false).
        { unfold opnd_vars, nmem. simpl. rewrite orb_false_r. now apply Nat.eqb_neq. }
        rewrite Hn in Hk. simpl. destruct (lookup b z) as [v|] eqn:Hz; [apply Hk; auto|].
        apply enum_pc_other; auto; [apply NE; unfold opnd_vars; simpl; auto|].
        intros v s0 H0. apply Hk; auto. simpl. apply Bx_cons; auto.
      - change (opnd_vars (OAttr e a)) with (opnd_vars e) in *. simpl. destruct e as [v|z|e' a'].
        + simpl. apply Hk; auto. simpl. apply Pc_get; auto.
        + destruct (Nat.eqb_spec x z) as [<-|N].
          * simpl. unfold Bx in HB. rewrite HB.
            assert (Hn : nmem x (opnd_vars (OVar x)) = true) by (unfold opnd_vars, nmem; simpl; now rewrite Nat.eqb_refl).
            rewrite Hn in Hk. apply Hk; auto. apply Pc_get_self; auto.
          * apply IH; auto; [simpl; now apply Nat.eqb_neq|].
            intros p s0 HB0 H0. apply Hk; auto.
            destruct (nmem x (opnd_vars (OVar z))); [apply Clean_get; auto | apply Pc_get; auto].
        + apply IH; auto. intros p s0 HB0 H0. apply Hk; auto.
          destruct (nmem x (opnd_vars (OAttr e' a'))); [apply Clean_get; auto | apply Pc_get; auto].
    Qed.
  End Pending.

  Lemma kcleanAll_kclean {A} (P : A -> Prop) (k : A -> store -> store * signal) : kcleanAll k -> kclean P k.
  Proof. intros H a s _ C. apply H; auto. Qed.

  (* the body of a for_all over x, evaluated while the element bound to x is pending: the comparison evaluated first looks at it *)
  Lemma cond_pc o c : leftmost_reads x c = true -> no_bare_strict x c = true -> (forall z, In z (cond_vars c) -> D z <> []) ->
    forall b (k : res -> store -> store * signal) s, Bx o b -> kcleanAll k -> Pc o s -> Clean (fst (tr_cond W D c b k s)).
  Proof.
    induction c as [op l r|l IHl r IHr|l IHl r IHr|l IHl r IHr|c IH|e c IH|y c IH]; intros Hl Hn NE b k s HB Hk Hs;
      simpl in Hl, Hn; try discriminate.
    - (* the comparison *)
      apply andb_true_iff in Hn. destruct Hn as [Bl Br]. apply negb_true_iff in Bl. apply negb_true_iff in Br.
      assert (NEl : forall z, In z (opnd_vars l) -> D z <> []) by (intros z Hz; apply NE; simpl; apply in_or_app; auto).
      assert (NEr : forall z, In z (opnd_vars r) -> D z <> []) by (intros z Hz; apply NE; simpl; apply in_or_app; auto).
      assert (Hor : nmem x (opnd_vars l) = true \/ nmem x (opnd_vars r) = true).
      { apply nmem_In in Hl. apply in_app_or in Hl. destruct Hl; [left | right]; apply nmem_In; auto. }
      assert (Hgen : forall e1 e2 (f : binds * val -> binds * val -> res), bare x e1 = false -> bare x e2 = false ->
                (forall z, In z (opnd_vars e1) -> D z <> []) -> (forall z, In z (opnd_vars e2) -> D z <> []) ->
                nmem x (opnd_vars e1) = true \/ nmem x (opnd_vars e2) = true ->
                Clean (fst (tr_opnd W D e1 b (fun p1 => tr_opnd W D e2 (fst p1) (fun p2 => k (f p1 p2))) s))).
      { intros e1 e2 f B1 B2 N1 N2 Hx. apply (opnd_pc o); auto. intros p1 s1 HB1 H1.
        destruct (nmem x (opnd_vars e1)) eqn:E1.
        - apply opnd_clean; auto. apply kcleanAll_kclean. intros p2 s2 C2. apply Hk; auto.
        - destruct Hx as [Hx|Hx]; [discriminate|]. apply (opnd_pc o); auto.
          intros p2 s2 HB2 H2. rewrite Hx in H2. apply Hk; auto. }
      simpl. destruct (right_first b r).
      + apply (Hgen r l (fun p1 p2 => (fst p2, negb (apply_op W op (snd p2) (snd p1))))); auto. tauto.
      + apply (Hgen l r (fun p1 p2 => (fst p2, negb (apply_op W op (snd p1) (snd p2))))); auto.
    - apply andb_true_iff in Hn. destruct Hn as [Nl Nr]. simpl.
      apply IHl; auto; [intros z Hz; apply NE; simpl; apply in_or_app; auto|].
      intros p s1 C1. destruct (snd p); [apply Hk; auto|].
      apply cond_clean; auto. apply kcleanAll_kclean; auto.
    - apply andb_true_iff in Hn. destruct Hn as [Nl Nr]. simpl.
      apply IHl; auto; [intros z Hz; apply NE; simpl; apply in_or_app; auto|].
      intros p s1 C1. destruct (snd p); [|apply Hk; auto].
      apply cond_clean; auto. apply kcleanAll_kclean; auto.
    - apply andb_true_iff in Hn. destruct Hn as [Nl Nr]. simpl. apply andthen_clean.
      + apply IHl; auto; [intros z Hz; apply NE; simpl; apply in_or_app; auto|].
        intros p s1 C1. destruct (snd p); [|apply Hk; auto].
        apply cond_clean; auto. apply kcleanAll_kclean; auto.
      + intros s' C'. apply cond_clean; auto; [|apply Clean_other; auto].
        intros p s1 _ C1. destruct (snd p); [exact C1 | apply Hk; auto].
    - simpl. apply IH; auto. intros p s1 C1. apply Hk; auto.
  Qed.

  (* the loop of a for_all over x itself *)
  Lemma fa_loop_clean_x c b : leftmost_reads x c = true -> no_bare_strict x c = true ->
    (forall z, In z (cond_vars c) -> D z <> []) ->
    forall l i St s, (forall j v, nth_error l j = Some v -> nth_error (D x) (i + j) = Some v) ->
    (St = None \/ exists a ss, St = Some (a :: ss)) -> Clean s ->
    Clean (snd (fa_loop (tr_cond W D c) (eval W D c) x (remove_var x (cond_vars c)) b (combine (seq i (length l)) l) St s)).
  Proof.
    intros Hl Hn NE.
    assert (Hfull : forall b0 s0, Clean s0 -> Clean (drain_full (tr_cond W D c) b0 s0)).
    { intros b0 s0 C0. unfold drain_full. apply cond_clean; auto. intros p s1 _ C1. exact C1. }
    assert (Hfirst : forall b0 s0, Clean s0 -> Clean (drain_first (tr_cond W D c) b0 s0)).
    { intros b0 s0 C0. unfold drain_first. apply cond_clean; auto. intros p s1 _ C1. exact C1. }
    assert (Hnarrow : forall bv ss s0, Clean s0 -> Clean (narrow_events (tr_cond W D c) bv ss s0)).
    { intros bv ss. unfold narrow_events. induction ss as [|s1 ss IH]; intros s0 C0; simpl; auto. }
    induction l as [|v l IH]; intros i St s Hsuf HS Hs; simpl; [apply Clean_finish; auto|].
    assert (Hv : nth_error (D x) i = Some v) by (specialize (Hsuf 0 v eq_refl); now rewrite Nat.add_0_r in Hsuf).
    assert (Hsuf' : forall j w, nth_error l j = Some w -> nth_error (D x) (S i + j) = Some w).
    { intros j w Hj. specialize (Hsuf (S j) w Hj). now rewrite Nat.add_succ_r in Hsuf. }
    set (s1 := touch x i s). set (bv := (x, v) :: b).
    (* the state after the pull: clean, or the object just pulled is pending *)
    assert (Hst : Clean s1 \/ exists ov, v = VO ov /\ xstate D x s1 = Some (Some ov)).
    { unfold s1, touch. destruct (i <? npulls x s); [left; auto|].
      unfold Clean, xstate in *. simpl. rewrite Hs. simpl. rewrite Nat.eqb_refl. unfold obj_of. rewrite Hv.
      destruct v as [z|ov|lz|lo]; auto. right. exists ov. auto. }
    assert (Hstep : Clean (snd (fa_step (tr_cond W D c) (eval W D c) (remove_var x (cond_vars c)) bv St s1))).
    { destruct Hst as [C1|(ov & -> & P1)].
      - destruct St; simpl; auto.
      - assert (HB : forall extra, Bx ov (bv ++ extra)) by (intros extra; unfold Bx, bv; simpl; now rewrite Nat.eqb_refl).
        destruct HS as [->|(a & ss & ->)]; simpl.
        + unfold drain_full. apply (cond_pc ov); auto.
          * specialize (HB []). now rewrite app_nil_r in HB.
          * intros p s0 C0. exact C0.
          * left. exact P1.
        + change (Clean (narrow_events (tr_cond W D c) bv ss (drain_first (tr_cond W D c) (bv ++ a) s1))).
          apply Hnarrow. unfold drain_first. apply (cond_pc ov); auto.
          * intros p s0 C0. exact C0.
          * left. exact P1. }
    destruct (fst (fa_step (tr_cond W D c) (eval W D c) (remove_var x (cond_vars c)) bv St s1)) as [|a ss] eqn:E; simpl; auto.
    apply IH; auto. right. exists a, ss. reflexivity.
  Qed.

  Lemma cond_clean_len c : no_bare x c = true -> (forall z, In z (cond_vars c) -> D z <> []) ->
    forall b (k : res -> store -> store * signal) s,
    kclean (fun r => covers b (must c (negb (snd r))) (fst r)) k -> Clean s -> Clean (fst (tr_cond W D c b k s)).
  Proof.
    induction c as [op l r|l IHl r IHr|l IHl r IHr|l IHl r IHr|c IH|e c IH|y c IH]; intros Hn NE b k s Hk Hs;
      simpl in Hn.
    - apply andb_true_iff in Hn. destruct Hn as [Hl Hr]. apply negb_true_iff in Hl. apply negb_true_iff in Hr.
      simpl. destruct (right_first b r).
      + apply opnd_clean; auto. intros p1 s1 H1 C1. apply opnd_clean; auto. intros p2 s2 H2 C2. apply Hk; auto.
        unfold covers. simpl. intros z [Hz|Hz].
        * apply H2; left; apply H1; left; exact Hz.
        * apply in_app_or in Hz. destruct Hz as [Hz|Hz]; [apply H2; right; exact Hz | apply H2; left; apply H1; right; exact Hz].
      + apply opnd_clean; auto. intros p1 s1 H1 C1. apply opnd_clean; auto. intros p2 s2 H2 C2. apply Hk; auto.
        unfold covers. simpl. intros z [Hz|Hz].
        * apply H2; left; apply H1; left; exact Hz.
        * apply in_app_or in Hz. destruct Hz as [Hz|Hz]; [apply H2; left; apply H1; right; exact Hz | apply H2; right; exact Hz].
    - apply andb_true_iff in Hn. destruct Hn as [Hl Hr]. simpl.
      apply IHl; auto; [intros z0 Hz0; apply NE; simpl; apply in_or_app; auto|]. intros r1 s1 H1 C1. destruct (snd r1) eqn:F1; simpl in H1.
      + apply Hk; auto. unfold covers. simpl. intros z [Hz|Hz]; [apply H1; left; exact Hz|].
        apply In_inter in Hz. destruct Hz as [Hz _]. apply H1. right. exact Hz.
      + apply IHr; auto; [intros z0 Hz0; apply NE; simpl; apply in_or_app; auto|]. intros r2 s2 H2 C2. apply Hk; auto. unfold covers. simpl. intros z [Hz|Hz].
        * apply H2; left; apply H1; left; exact Hz.
        * destruct (snd r2); simpl in *.
          -- apply In_inter in Hz. destruct Hz as [_ Hz]. apply in_app_or in Hz.
             destruct Hz as [Hz|Hz]; [apply H2; left; apply H1; right; exact Hz | apply H2; right; exact Hz].
          -- apply in_app_or in Hz.
             destruct Hz as [Hz|Hz]; [apply H2; left; apply H1; right; exact Hz | apply H2; right; exact Hz].
    - apply andb_true_iff in Hn. destruct Hn as [Hl Hr]. simpl.
      apply IHl; auto; [intros z0 Hz0; apply NE; simpl; apply in_or_app; auto|]. intros r1 s1 H1 C1. destruct (snd r1) eqn:F1; simpl in H1.
      + apply IHr; auto; [intros z0 Hz0; apply NE; simpl; apply in_or_app; auto|]. intros r2 s2 H2 C2. apply Hk; auto. unfold covers. simpl. intros z [Hz|Hz].
        * apply H2; left; apply H1; left; exact Hz.
        * destruct (snd r2); simpl in *.
          -- apply in_app_or in Hz.
             destruct Hz as [Hz|Hz]; [apply H2; left; apply H1; right; exact Hz | apply H2; right; exact Hz].
          -- apply In_inter in Hz. destruct Hz as [_ Hz]. apply in_app_or in Hz.
             destruct Hz as [Hz|Hz]; [apply H2; left; apply H1; right; exact Hz | apply H2; right; exact Hz].
      + apply Hk; auto. unfold covers. simpl. intros z [Hz|Hz]; [apply H1; left; exact Hz|].
        apply In_inter in Hz. destruct Hz as [Hz _]. apply H1. right. exact Hz.
    - apply andb_true_iff in Hn. destruct Hn as [Hl Hr]. simpl.
      assert (Hb : kclean (fun r0 => covers b [] (fst r0)) k) by (intros r0 s0 H0 C0; apply Hk; auto).
      apply andthen_clean.
      + apply IHl; auto; [intros z0 Hz0; apply NE; simpl; apply in_or_app; auto|]. intros r1 s1 H1 C1. destruct (snd r1).
        * apply IHr; auto; [intros z0 Hz0; apply NE; simpl; apply in_or_app; auto|]. intros r2 s2 H2 C2. apply Hb; auto. intros z [Hz|[]]. apply H2. left. apply H1. left. exact Hz.
        * apply Hb; auto. intros z [Hz|[]]. apply H1. left. exact Hz.
      + intros s' C'. apply IHr; auto; [intros z0 Hz0; apply NE; simpl; apply in_or_app; auto| |apply Clean_other; auto].
        intros r2 s2 H2 C2. destruct (snd r2); [exact C2|]. apply Hb; auto. intros z [Hz|[]]. apply H2. left. exact Hz.
    - simpl. apply IH; auto. intros r1 s1 H1 C1. apply Hk; auto. simpl. rewrite negb_involutive. exact H1.
    - (* Exists *)
      assert (Hc : no_bare x c = true).
      { destruct e; auto; apply andb_true_iff in Hn; destruct Hn; auto. }
      assert (NEc : forall z0, In z0 (cond_vars c) -> D z0 <> []).
      { intros z0 Hz0. apply NE. simpl. apply in_or_app. right. exact Hz0. }
      simpl. apply IH; auto; [|apply Clean_other; auto].
      intros r1 s1 H1 C1. destruct (snd r1); [exact C1|]. destruct (existsb _ _); [exact C1|].
      apply Hk; [|apply Clean_other; auto]. simpl. intros z [Hz|[]]. apply H1. left. exact Hz.
    - (* ForAll *)
      assert (NEc : forall z0, In z0 (cond_vars c) -> D z0 <> []) by (intros z0 Hz0; apply NE; simpl; right; exact Hz0).
      assert (Hres : forall s1 s0, Clean s0 -> Clean (fst (k (s1 ++ b, false) s0))).
      { intros s1 s0 C0. apply Hk; auto. simpl. intros z [Hz|[]]. apply bound_app; auto. }
      destruct (Nat.eqb_spec x y) as [<-|Hxy].
      + (* over x itself *)
        apply andb_true_iff in Hn. destruct Hn as [Hlm Hst].
        simpl. destruct (lookup b x).
        * rewrite (each_map _ k). apply (each_clean (fun _ => True)).
          -- intros s1 s0 _ C0. apply Hres; auto.
          -- apply Forall_forall; auto.
          -- unfold drain_full. apply cond_clean; auto. intros p s1 _ C1. exact C1.
        * pose proof (fa_loop_clean_x c b Hlm Hst NEc (D x) 0 None s (fun j v Hj => Hj) (or_introl eq_refl) Hs) as HL.
          unfold indexed. destruct (fst (fa_loop _ _ _ _ _ _ _ _)).
          -- rewrite (each_map _ k). apply (each_clean (fun _ => True)); auto.
             ++ intros s1 s0 _ C0. apply Hres; auto.
             ++ apply Forall_forall; auto.
          -- apply Hk; auto. simpl. intros z [Hz|[]]. exact Hz.
      + assert (Htrc : forall b0 k0, (forall p s0, Clean s0 -> Clean (fst (k0 p s0))) ->
                                     forall s0, Clean s0 -> Clean (fst (tr_cond W D c b0 k0 s0))).
        { intros b0 k0 H0 s0 C0. apply IH; auto. intros p s1 _ C1. apply H0; auto. }
        simpl. destruct (lookup b y).
        * rewrite (each_map _ k). apply (each_clean (fun _ => True)).
          -- intros s1 s0 _ C0. apply Hres; auto.
          -- apply Forall_forall; auto.
          -- apply drain_full_clean; auto.
        * pose proof (fa_loop_clean (tr_cond W D c) (eval W D c) y (remove_var y (cond_vars c)) Hxy Htrc b (indexed (D y)) None s Hs) as HL.
          destruct (fst (fa_loop _ _ _ _ _ _ _ _)).
          -- rewrite (each_map _ k). apply (each_clean (fun _ => True)); auto.
             ++ intros s1 s0 _ C0. apply Hres; auto.
             ++ apply Forall_forall; auto.
          -- apply Hk; auto. simpl. intros z [Hz|[]]. exact Hz.
  Qed.

  Lemma select_clean sels : forall b (k : list val -> store -> store * signal) s,
    (existsb (bare x) sels = true -> bound b x = true) ->
    (forall row s0, Clean s0 -> Clean (fst (k row s0))) -> Clean s -> Clean (fst (tr_select W D sels b k s)).
  Proof.
    induction sels as [|e ss IH]; intros b k s Hb Hk Hs; simpl; [apply Hk; auto|].
    simpl in Hb. destruct (bare x e) eqn:Be.
    - (* x itself is selected: it is bound, nothing is enumerated *)
      destruct e as [v|z|e' a]; simpl in Be; try discriminate. apply Nat.eqb_eq in Be. subst z.
      specialize (Hb eq_refl). unfold bound in Hb. simpl. destruct (lookup b x) as [v|] eqn:Hx; [|discriminate].
      apply IH; auto; try (intros _; unfold bound; simpl; now rewrite Hx).
    - apply opnd_clean; auto. intros p s1 Hp C1. apply IH; auto;
        try (intros H; apply Hp; left; apply Hb; simpl; exact H).
  Qed.

  Lemma run_clean q (k : list val -> store -> store * signal) s :
    attr_only_strict q x = true -> (forall row s0, Clean s0 -> Clean (fst (k row s0))) -> Clean s ->
    Clean (fst (tr_run W D q k s)).
  Proof.
    unfold attr_only_strict, cond_ok, sel_ok, tr_run. intros Ha Hk Hs.
    apply andb_true_iff in Ha. destruct Ha as [Hc Hsel].
    destruct (q_cond q) as [c|].
    - apply cond_clean; auto. intros r s0 Hr C0. destruct (snd r) eqn:F; [exact C0|].
      apply select_clean; auto. intros He. rewrite He in Hsel. simpl in Hsel.
      apply Hr. right. simpl. apply nmem_In. exact Hsel.
    - apply select_clean; auto. intros He. rewrite He in Hsel. simpl in Hsel. discriminate.
  Qed.

  Lemma take_clean n row s : Clean s -> Clean (fst (take n row s)).
  Proof. intros H. unfold take. simpl. apply Clean_other; auto. Qed.
  Lemma take_all_clean row s : Clean s -> Clean (fst (take_all row s)).
  Proof. intros H. unfold take_all. simpl. apply Clean_other; auto. Qed.

  (* C10_no_read_ahead *)
  Theorem trace_k_examined q n : attr_only_strict q x = true -> examined_scan D x None (trace_k W D q n) = true.
  Proof.
    intros Ha. destruct n as [|n]; [reflexivity|]. unfold trace_k. apply examined_scan_rev.
    apply run_clean; auto; [intros row s0; apply take_clean | apply Clean_nil].
  Qed.
  Theorem trace_full_examined q : attr_only_strict q x = true -> examined_scan D x None (trace_full W D q) = true.
  Proof.
    intros Ha. unfold trace_full. apply examined_scan_rev.
    apply run_clean; auto; [intros row s0; apply take_all_clean | apply Clean_nil].
  Qed.
  Lemma run_clean_len q (k : list val -> store -> store * signal) s :
    attr_only_len D q x = true -> (forall row s0, Clean s0 -> Clean (fst (k row s0))) -> Clean s ->
    Clean (fst (tr_run W D q k s)).
  Proof.
    unfold attr_only_len, cond_ok, sel_ok, nonempty_doms, tr_run. intros Ha Hk Hs.
    apply andb_true_iff in Ha. destruct Ha as [Ha Hne]. apply andb_true_iff in Ha. destruct Ha as [Hc Hsel].
    destruct (q_cond q) as [c|].
    - apply cond_clean_len; auto.
      + intros z Hz. rewrite forallb_forall in Hne. specialize (Hne z Hz). destruct (D z); [discriminate | discriminate].
      + intros r s0 Hr C0. destruct (snd r) eqn:F; [exact C0|].
        apply select_clean; auto. intros He. rewrite He in Hsel. simpl in Hsel.
        apply Hr. right. simpl. apply nmem_In. exact Hsel.
    - apply select_clean; auto. intros He. rewrite He in Hsel. simpl in Hsel. discriminate.
  Qed.

  Theorem trace_k_examined_len q n : attr_only_len D q x = true -> examined_scan D x None (trace_k W D q n) = true.
  Proof.
    intros Ha. destruct n as [|n]; [reflexivity|]. unfold trace_k. apply examined_scan_rev.
    apply run_clean_len; auto; [intros row s0; apply take_clean | apply Clean_nil].
  Qed.
  Theorem trace_full_examined_len q : attr_only_len D q x = true -> examined_scan D x None (trace_full W D q) = true.
  Proof.
    intros Ha. unfold trace_full. apply examined_scan_rev.
    apply run_clean_len; auto; [intros row s0; apply take_all_clean | apply Clean_nil].
  Qed.
End Ahead.
