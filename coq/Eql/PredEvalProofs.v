(* C12 -- the hand model of the predicate-variable evaluation meets the Spec ("once per candidate binding, with
   exactly the values of the written arguments, truth = bool of the call") for every list of written arguments;
   a computed witness shows that the definition before 3f7e74b (independent evaluation + product) did not when two
   arguments share an open variable (finding C01-d, repaired). *)
From Coq Require Import List ZArith Bool Lia.
From Krrood Require Import Eql.PredIdioms Eql.PredSpec Eql.PredCase Eql.PredEval Eql.PredProofs.
Import ListNotations.
Open Scope Z_scope.

(* ---------------------------------------------------------------- association lists *)
Lemma get_app (d1 d2 : dict Z) k :
  dict_get (d1 ++ d2) k = match dict_get d1 k with Some v => Some v | None => dict_get d2 k end.
Proof. induction d1 as [|[k' v'] d1 IH]; simpl; auto. destruct (Z.eqb k' k); auto. Qed.

Lemma get_None_notin (d : dict Z) k : dict_get d k = None -> ~ In k (map fst d).
Proof.
  induction d as [|[k' v'] d IH]; simpl; [tauto|]. destruct (Z.eqb k' k) eqn:E; [discriminate|].
  intros H [->|Hin]; [rewrite Z.eqb_refl in E; discriminate | tauto].
Qed.

Lemma notin_get_None (d : dict Z) k : ~ In k (map fst d) -> dict_get d k = None.
Proof. rewrite dict_get_assoc. apply assoc_None_notin. Qed.

Lemma in_get (d : dict Z) k v : NoDup (map fst d) -> In (k, v) d -> dict_get d k = Some v.
Proof. intros. rewrite dict_get_assoc. apply in_assoc; assumption. Qed.

Lemma set_same (d : dict Z) k v : dict_get d k = Some v -> dict_set d k v = d.
Proof.
  induction d as [|[k' v'] d IH]; simpl; [discriminate|]. destruct (Z.eqb k' k) eqn:E.
  - intros [= ->]. apply Z.eqb_eq in E. subst. reflexivity.
  - intros H. rewrite IH by assumption. reflexivity.
Qed.

Lemma set_fresh (d : dict Z) k v : dict_get d k = None -> dict_set d k v = d ++ [(k, v)].
Proof.
  induction d as [|[k' v'] d IH]; simpl; auto. destruct (Z.eqb k' k); [discriminate|].
  intros H. rewrite IH by assumption. reflexivity.
Qed.

Lemma update_noop (l d : dict Z) : (forall k v, In (k, v) l -> dict_get d k = Some v) -> dict_update d l = d.
Proof.
  unfold dict_update. induction l as [|[k v] l IH]; simpl; intros H; auto.
  rewrite set_same by (apply H; auto). apply IH. intros; apply H; auto.
Qed.

Lemma update_fresh (n : dict Z) : forall d, NoDup (map fst n) ->
  (forall k, In k (map fst n) -> ~ In k (map fst d)) -> dict_update d n = d ++ n.
Proof.
  unfold dict_update. induction n as [|[k v] n IH]; simpl; intros d Hnd H.
  - rewrite app_nil_r. reflexivity.
  - inversion Hnd as [|? ? Hni Hnd']; subst.
    rewrite set_fresh by (apply notin_get_None; apply H; auto).
    rewrite IH; auto.
    + rewrite <- app_assoc. reflexivity.
    + intros k' Hin. rewrite map_app, in_app_iff. simpl. intros [Hd|[->|[]]]; [apply (H k'); auto | tauto].
Qed.

Lemma update_app (d l1 l2 : dict Z) : dict_update d (l1 ++ l2) = dict_update (dict_update d l1) l2.
Proof. unfold dict_update. apply fold_left_app. Qed.

Lemma nodup_app_l {A} (l1 l2 : list A) : NoDup (l1 ++ l2) -> NoDup l1.
Proof. induction l1; simpl; intros H; [constructor|]. inversion H; subst. constructor; auto. rewrite in_app_iff in *. tauto. Qed.
Lemma nodup_app_r {A} (l1 l2 : list A) : NoDup (l1 ++ l2) -> NoDup l2.
Proof. induction l1; simpl; intros H; auto. inversion H; auto. Qed.
Lemma nodup_app_disj {A} (l1 l2 : list A) x : NoDup (l1 ++ l2) -> In x l2 -> ~ In x l1.
Proof.
  induction l1; simpl; intros H Hin; [tauto|]. inversion H as [|? ? Hni Hnd]; subst.
  intros [->|H1]; [apply Hni; rewrite in_app_iff; auto | exact (IHl1 Hnd Hin H1)].
Qed.

Lemma nodup_snoc {A} (l : list A) x : NoDup l -> ~ In x l -> NoDup (l ++ [x]).
Proof.
  induction l as [|a l IH]; simpl; intros H Hx.
  - constructor; [simpl; tauto | constructor].
  - inversion H as [|? ? Hni Hnd]; subst. constructor.
    + rewrite in_app_iff. simpl. intros [H1|[->|[]]]; tauto.
    + apply IH; tauto.
Qed.

(* values.update(d.bindings) where d.bindings repeats the sources b and adds n *)
Lemma update_ext (b m n : dict Z) : NoDup (map fst (b ++ m ++ n)) -> dict_update (b ++ m) (b ++ n) = b ++ m ++ n.
Proof.
  intros H. rewrite update_app. rewrite !map_app in H.
  rewrite (update_noop b (b ++ m)).
  - rewrite update_fresh.
    + rewrite <- app_assoc. reflexivity.
    + apply nodup_app_r in H. apply nodup_app_r in H. exact H.
    + intros k Hin. rewrite map_app. rewrite app_assoc in H. eapply nodup_app_disj; eauto.
  - intros k v Hin. rewrite get_app. rewrite (in_get b k v); auto. apply nodup_app_l in H. exact H.
Qed.

Lemma update_nil (l : dict Z) : NoDup (map fst l) -> dict_update [] l = l.
Proof. intros H. rewrite update_fresh; auto. Qed.

(* ---------------------------------------------------------------- list plumbing *)
Lemma map_flat_map {A B C} (f : B -> C) (g : A -> list B) l :
  map f (flat_map g l) = flat_map (fun x => map f (g x)) l.
Proof. induction l; simpl; [reflexivity|]. rewrite map_app, IHl. reflexivity. Qed.

Lemma flat_map_map {A B C} (f : B -> list C) (g : A -> B) l :
  flat_map f (map g l) = flat_map (fun x => f (g x)) l.
Proof. induction l; simpl; [reflexivity|]. rewrite IHl. reflexivity. Qed.

Lemma flat_map_single {A B} (f : A -> B) l : flat_map (fun x => [f x]) l = map f l.
Proof. induction l; simpl; [reflexivity|]. rewrite IHl. reflexivity. Qed.

Lemma filter_id (l : list Z) a : ~ In a l -> filter (fun z => negb (Z.eqb z a)) l = l.
Proof.
  induction l as [|x l IH]; simpl; auto. intros H. destruct (Z.eqb x a) eqn:E.
  - apply Z.eqb_eq in E. subst. tauto.
  - simpl. rewrite IH; tauto.
Qed.

Lemma dedup_nodup (l : list Z) : NoDup l -> dedup l = l.
Proof.
  induction l as [|a l IH]; simpl; auto. intros H. inversion H; subst.
  rewrite IH by assumption. rewrite filter_id by assumption. reflexivity.
Qed.

Lemma filter_filter_absorb (p q : Z -> bool) (l : list Z) :
  (forall z, p z = true -> q z = true) -> filter p (filter q l) = filter p l.
Proof.
  intros H. induction l as [|a l IH]; simpl; [reflexivity|].
  destruct (q a) eqn:Eq; simpl; [rewrite IH; reflexivity|].
  destruct (p a) eqn:Ep; [rewrite (H a Ep) in Eq; discriminate | exact IH].
Qed.

Lemma filter_comm (p q : Z -> bool) (l : list Z) : filter p (filter q l) = filter q (filter p l).
Proof.
  induction l as [|a l IH]; simpl; [reflexivity|].
  destruct (q a) eqn:Eq, (p a) eqn:Ep; simpl; rewrite ?Eq, ?Ep, IH; reflexivity.
Qed.

Lemma dedup_filter (p : Z -> bool) (l : list Z) : dedup (filter p l) = filter p (dedup l).
Proof.
  induction l as [|a l IH]; simpl; [reflexivity|].
  destruct (p a) eqn:Ep; simpl.
  - rewrite IH. rewrite filter_comm. reflexivity.
  - rewrite IH. symmetry. apply filter_filter_absorb.
    intros z Hz. destruct (Z.eqb z a) eqn:E; [|reflexivity]. apply Z.eqb_eq in E. subst. congruence.
Qed.

(* ---------------------------------------------------------------- the evaluation *)
Section Once.
  Variable dom : Z -> list Z.
  Variable attr : Z -> Z -> Z.

  Definition ov (b : assignment) (a : arg) : list Z :=
    match arg_var a with
    | Some x => match lookup b x with Some _ => [] | None => [x] end
    | None => []
    end.

  Lemma open_vars_cons b k a rest : open_vars b ((k, a) :: rest) = ov b a ++ open_vars b rest.
  Proof. reflexivity. Qed.

  Lemma cands_single b x : cands dom b [x] = map (fun v => b ++ [(x, v)]) (dom x).
  Proof. simpl. apply flat_map_single. Qed.

  Lemma cands_ext xs : forall acc rho, In rho (cands dom acc xs) -> exists e, rho = acc ++ e.
  Proof.
    induction xs as [|x xs IH]; simpl; intros acc rho H.
    - destruct H as [<-|[]]. exists []. rewrite app_nil_r. reflexivity.
    - apply in_flat_map in H. destruct H as (v & _ & H). apply IH in H. destruct H as (e & ->).
      exists ((x, v) :: e). rewrite <- app_assoc. reflexivity.
  Qed.

  Lemma lookup_get (b : assignment) x : lookup b x = dict_get b x.
  Proof. unfold lookup. rewrite dict_get_assoc. reflexivity. Qed.

  Lemma den_var rho rho' a x : arg_var a = Some x -> lookup rho x = lookup rho' x -> den attr rho a = den attr rho' a.
  Proof.
    induction a as [v|y|a IH f]; simpl; intros Hv Hl; [discriminate| |].
    - injection Hv as ->. rewrite Hl. reflexivity.
    - rewrite IH; auto.
  Qed.

  Lemma den_closed rho rho' a : arg_var a = None -> den attr rho a = den attr rho' a.
  Proof. induction a as [v|y|a IH f]; simpl; intros Hv; [reflexivity|discriminate|]. rewrite IH; auto. Qed.

  (* an argument whose variable (if any) is bound by b has the same value under every extension of b *)
  Lemma den_stable b e a : ov b a = [] -> den attr (b ++ e) a = den attr b a.
  Proof.
    unfold ov. destruct (arg_var a) as [x|] eqn:Ev.
    - destruct (lookup b x) as [v|] eqn:El; [|discriminate]. intros _.
      apply (den_var _ _ a x Ev). rewrite !lookup_get in *. rewrite get_app, El. reflexivity.
    - intros _. apply den_closed. exact Ev.
  Qed.

  Lemma eval_arg_spec a : forall b,
    eval_arg dom attr a b = map (fun rho => (rho, den attr rho a)) (cands dom b (ov b a)).
  Proof.
    induction a as [v|x|a IH f]; intros b.
    - reflexivity.
    - change (ov b (AVar x)) with (match lookup b x with Some _ => [] | None => [x] end).
      simpl eval_arg. rewrite lookup_get. destruct (dict_get b x) as [v|] eqn:E.
      + simpl. rewrite lookup_get, E. reflexivity.
      + rewrite cands_single, map_map. apply map_ext. intros v.
        rewrite set_fresh by assumption. simpl. rewrite lookup_get, get_app, E. simpl. rewrite Z.eqb_refl. reflexivity.
    - simpl eval_arg. rewrite IH, map_map. reflexivity.
  Qed.

  Definition fin (acc : bindings) (cp : list (Z * Z)) (names : list Z) (combo : list (bindings * Z)) :=
    (fold_left (fun acc d => dict_update acc (fst d)) combo acc, cp ++ combine names (map snd combo)).

  (* binding x removes it from the open variables of the remaining arguments *)
  Lemma open_vars_bind b x v rest : lookup b x = None ->
    open_vars (b ++ [(x, v)]) rest = filter (fun z => negb (Z.eqb z x)) (open_vars b rest).
  Proof.
    intros Hx. induction rest as [|[k a] rest IH]; [reflexivity|].
    change (open_vars (b ++ [(x, v)]) ((k, a) :: rest)) with (ov (b ++ [(x, v)]) a ++ open_vars (b ++ [(x, v)]) rest).
    rewrite open_vars_cons, filter_app, IH. f_equal.
    unfold ov. destruct (arg_var a) as [y|]; [|reflexivity].
    rewrite !lookup_get, get_app. rewrite lookup_get in Hx.
    destruct (dict_get b y) eqn:Ey; [reflexivity|]. simpl.
    destruct (Z.eqb x y) eqn:E.
    - apply Z.eqb_eq in E. subst. simpl. rewrite Z.eqb_refl. reflexivity.
    - simpl. rewrite Z.eqb_sym, E. reflexivity.
  Qed.

  Lemma update_self_ext (cur n : assignment) : NoDup (map fst (cur ++ n)) -> dict_update cur (cur ++ n) = cur ++ n.
  Proof.
    intros H. pose proof (update_ext cur [] n) as U. simpl in U. rewrite app_nil_r in U. apply U. exact H.
  Qed.

  Lemma main : forall kwargs (cur : assignment) (acc : bindings) cp,
    NoDup (map fst cur) ->
    (forall n : assignment, NoDup (map fst (cur ++ n)) -> dict_update acc (cur ++ n) = cur ++ n) ->
    (kwargs = [] -> acc = cur) ->
    map (fin acc cp (map fst kwargs)) (combinations dom attr (map snd kwargs) cur) =
    map (fun rho => (rho, cp ++ call_of attr kwargs rho)) (cands dom cur (dedup (open_vars cur kwargs))).
  Proof.
    induction kwargs as [|[k a] rest IH]; intros cur acc cp Hnd Hacc Hnil.
    - simpl. unfold fin. simpl. rewrite (Hnil eq_refl). reflexivity.
    - rewrite open_vars_cons. simpl map. simpl combinations. rewrite map_flat_map.
      rewrite eval_arg_spec, flat_map_map.
      assert (Hstep : forall (c : bindings * Z),
                 map (fin acc cp (k :: map fst rest)) (map (cons c) (combinations dom attr (map snd rest) (fst c))) =
                 map (fin (dict_update acc (fst c)) (cp ++ [(k, snd c)]) (map fst rest))
                     (combinations dom attr (map snd rest) (fst c))).
      { intros c. rewrite map_map. apply map_ext. intros combo. unfold fin. simpl. rewrite <- app_assoc. reflexivity. }
      destruct (ov cur a) as [|x ovr] eqn:Eov.
      + (* the argument adds no binding *)
        simpl app. simpl cands at 1. simpl flat_map. rewrite app_nil_r. rewrite Hstep. simpl fst. simpl snd.
        assert (dict_update acc cur = cur) as ->.
        { pose proof (Hacc []) as H0. rewrite !app_nil_r in H0. apply H0. exact Hnd. }
        rewrite (IH cur cur (cp ++ [(k, den attr cur a)])); auto.
        * apply map_ext_in. intros rho Hin. apply cands_ext in Hin. destruct Hin as (e & ->).
          rewrite <- (app_assoc cp). simpl. rewrite den_stable by assumption. reflexivity.
        * intros n Hn. apply update_self_ext. exact Hn.
      + (* the argument enumerates its open variable x; the remaining arguments see it bound *)
        assert (ovr = []) as ->.
        { unfold ov in Eov. destruct (arg_var a); [destruct (lookup cur z)|]; congruence. }
        assert (Hax : arg_var a = Some x /\ lookup cur x = None).
        { unfold ov in Eov. destruct (arg_var a) as [y|]; [destruct (lookup cur y) eqn:El|]; try discriminate.
          injection Eov as ->. auto. }
        destruct Hax as (Hax & Hbx).
        rewrite cands_single, flat_map_map. simpl app. simpl dedup. simpl cands. rewrite map_flat_map.
        apply flat_map_ext. intros v. rewrite Hstep. simpl fst. simpl snd.
        assert (Hxb : ~ In x (map fst cur)) by (apply get_None_notin; rewrite <- lookup_get; exact Hbx).
        assert (Hnd' : NoDup (map fst (cur ++ [(x, v)]))).
        { rewrite map_app. simpl. apply nodup_snoc; auto. }
        rewrite (Hacc [(x, v)] Hnd').
        rewrite (IH (cur ++ [(x, v)]) (cur ++ [(x, v)]) (cp ++ [(k, den attr (cur ++ [(x, v)]) a)])); auto.
        * rewrite (open_vars_bind cur x v rest Hbx), dedup_filter.
          apply map_ext_in. intros rho Hin. apply cands_ext in Hin. destruct Hin as (e & ->).
          rewrite <- (app_assoc cp). simpl.
          rewrite (den_var ((cur ++ [(x, v)]) ++ e) (cur ++ [(x, v)]) a x Hax); [reflexivity|].
          rewrite !lookup_get, !get_app. rewrite (notin_get_None cur x Hxb). simpl. rewrite Z.eqb_refl. reflexivity.
        * intros n Hn. apply update_self_ext. exact Hn.
  Qed.

  Section Body.
    Context {R : Type}.
    Variable body : list (Z * Z) -> R.
    Variable truthy : R -> bool.

    Theorem once_per_binding : forall kwargs b,
      kwargs <> [] -> NoDup (map fst b) ->
      pred_eval dom attr body truthy kwargs b = spec_eval dom attr body truthy kwargs b.
    Proof.
      intros kwargs b Hne Hb. unfold pred_eval, spec_eval.
      assert (H := main kwargs b [] [] Hb (fun n Hn => update_nil _ Hn) (fun E => match Hne E with end)).
      transitivity (map (fun rc : bindings * list (Z * Z) => (fst rc, snd rc, truthy (body (snd rc))))
                        (map (fin [] [] (map fst kwargs)) (combinations dom attr (map snd kwargs) b))).
      - rewrite map_map. apply map_ext. intros combo. reflexivity.
      - transitivity (map (fun rc : bindings * list (Z * Z) => (fst rc, snd rc, truthy (body (snd rc))))
                          (map (fun rho : assignment => (rho, [] ++ call_of attr kwargs rho))
                               (cands dom b (dedup (open_vars b kwargs))))).
        + f_equal. exact H.
        + rewrite map_map. reflexivity.
    Qed.
  End Body.
End Once.

(* ---------------------------------------------------------------- regression statement for finding C01-d
   (repaired by 3f7e74b): with the old definition -- every kwarg evaluated independently under the same sources,
   itertools.product -- pred(p1 = x.a, p2 = x.b) over x in {o0 (a=0,b=1), o1 (a=1,b=2)} with body p1 < p2 made
   4 calls for 2 candidate bindings and bound x from the last kwarg; the current definition meets the Spec there. *)
Definition kx_dom (x : Z) : list Z := if Z.eqb x 1 then [100; 101] else [].
Definition kx_attr (f v : Z) : Z :=
  if Z.eqb f 0 then (if Z.eqb v 100 then 0 else 1) else (if Z.eqb v 100 then 1 else 2).
Definition kx_body (c : list (Z * Z)) : bool :=
  match c with [(_, u); (_, w)] => Z.ltb u w | _ => false end.
Definition kx_kwargs : list (Z * arg) := [(1, AAttr (AVar 1) 0); (2, AAttr (AVar 1) 1)].

Lemma old_product_refuted :
  exists dom attr (body : list (Z * Z) -> bool) kwargs b,
    kwargs <> [] /\ NoDup (map fst b) /\
    length (pred_eval_product dom attr body (fun r => r) kwargs b) <> length (spec_eval dom attr body (fun r => r) kwargs b) /\
    map (fun r => fst (fst r)) (filter (fun r => snd r) (pred_eval_product dom attr body (fun r => r) kwargs b)) <>
    map (fun r => fst (fst r)) (filter (fun r => snd r) (spec_eval dom attr body (fun r => r) kwargs b)) /\
    pred_eval dom attr body (fun r => r) kwargs b = spec_eval dom attr body (fun r => r) kwargs b.
Proof.
  exists kx_dom, kx_attr, kx_body, kx_kwargs, []. split; [discriminate|]. split; [constructor|].
  split; [vm_compute; discriminate|]. split; [vm_compute; discriminate | reflexivity].
Qed.

(* ---------------------------------------------------------------- the whole path of a symbolic call:
   dispatch (translated) -> merged kwargs (translated) -> evaluation (hand model) *)
Lemma assoc_map_snd {A B} (f : A -> B) (l : list (Z * A)) p :
  assoc p (map (fun ka => (fst ka, f (snd ka))) l) = option_map f (assoc p l).
Proof. induction l as [|[k a] l IH]; simpl; auto. destruct (Z.eqb k p); auto. Qed.

Section Whole.
  Variable dom : Z -> list Z.
  Variable attr : Z -> Z -> Z.
  Context {R : Type}.
  Variable body : list (Z * Z) -> R.
  Variable truthy : R -> bool.

  Lemma merged_nonempty params pos kw : NoDup params -> call_ok params pos kw ->
    some_var arg_is_symbolic pos kw = true -> G.merge_args_and_kwargs params pos kw false <> [].
  Proof.
    intros Hnd Hok Hs Hm. rewrite <- (any_merge arg_is_symbolic params pos kw Hnd Hok) in Hs. rewrite Hm in Hs. discriminate.
  Qed.

  Theorem symbolic_call_function : forall params pos kw,
    NoDup params -> call_ok params pos kw -> some_var arg_is_symbolic pos kw = true ->
    exists m, G.symbolic_function_wrapper arg_is_symbolic params pos kw = G.MakeVariable G.DecoratedMethod m /\
      (forall rho p, assoc p (call_of attr m rho) = option_map (den attr rho) (python_bind params pos kw p)) /\
      (forall b, NoDup (map fst b) ->
                 pred_eval dom attr body truthy m b = spec_eval dom attr body truthy m b).
  Proof.
    intros params pos kw Hnd Hok Hs. exists (G.merge_args_and_kwargs params pos kw false). split; [|split].
    - rewrite dispatch_function by assumption. rewrite Hs. reflexivity.
    - intros rho p. unfold call_of. rewrite assoc_map_snd, <- dict_get_assoc, merge_get by assumption. reflexivity.
    - intros b Hb. apply once_per_binding; auto. apply merged_nonempty; assumption.
  Qed.

  Theorem symbolic_call_predicate : forall self ps inst pos kw,
    NoDup (self :: ps) -> call_ok (self :: ps) (inst :: pos) kw -> some_var arg_is_symbolic pos kw = true ->
    exists m, G.Predicate_new arg_is_symbolic (self :: ps) pos kw = G.MakeVariable G.SubClassOfPredicate m /\
      (forall rho p, p <> self ->
         assoc p (call_of attr m rho) = option_map (den attr rho) (python_bind (self :: ps) (inst :: pos) kw p)) /\
      (forall rho, assoc self (call_of attr m rho) = None) /\
      (forall b, NoDup (map fst b) ->
                 pred_eval dom attr body truthy m b = spec_eval dom attr body truthy m b).
  Proof.
    intros self ps inst pos kw Hnd Hok Hs. exists (G.merge_args_and_kwargs (self :: ps) pos kw true).
    pose proof (merge_get_method self ps inst pos kw Hnd Hok) as Hget.
    split; [|split; [|split]].
    - rewrite (dispatch_predicate arg_is_symbolic self ps inst) by assumption. rewrite Hs. reflexivity.
    - intros rho p Hp. unfold call_of. rewrite assoc_map_snd, <- dict_get_assoc, Hget.
      destruct (Z.eqb p self) eqn:E; [apply Z.eqb_eq in E; congruence | reflexivity].
    - intros rho. unfold call_of. rewrite assoc_map_snd, <- dict_get_assoc, Hget, Z.eqb_refl. reflexivity.
    - intros b Hb. apply once_per_binding; auto.
      inversion Hnd; subst. destruct (call_ok_self _ _ _ _ _ Hok) as (Hok' & _).
      change (G.merge_args_and_kwargs (self :: ps) pos kw true) with (G.merge_args_and_kwargs ps pos kw false).
      apply merged_nonempty; assumption.
  Qed.
End Whole.
