(* C08 proofs, part E: programs whose last top-level branch is a next_rule without refinements (and no other next_rule):
   the written tree is Next(tree of the rest, leaf), and the Spec adds the next_rule's conclusion to the rest's. *)
From Coq Require Import List ZArith Bool Arith Lia Permutation.
From Krrood Require Import Eql.RuleSpec Eql.RuleEval Eql.RuleBuild Eql.RulePure Eql.RuleEvalProofs Eql.RuleSpecProofs
  Eql.RuleProofs Eql.RuleNextProofs.
Import ListNotations.

(* ---- syntactic decomposition ---- *)
Lemma split_last_app {A} (l : list A) a y : split_last l = Some (a, y) -> l = a ++ [y].
Proof.
  revert a y. induction l as [|x l IH]; intros a y H; [discriminate H|].
  destruct l as [|x' l'].
  - cbn in H. injection H as <- <-. reflexivity.
  - change (match split_last (x' :: l') with Some (a0, y0) => Some (x :: a0, y0) | None => None end = Some (a, y)) in H.
    destruct (split_last (x' :: l')) as [[a' y']|] eqn:E; [|discriminate H].
    injection H as <- <-. rewrite (IH a' y' eq_refl). reflexivity.
Qed.

Lemma split_root_next_spec prog prog' csn tgn :
  split_root_next prog = Some (prog', csn, tgn) ->
  exists cs tg body', prog' = Rule cs tg body' /\ prog = Rule cs tg (body' ++ [(KNext, Rule csn tgn [])]) /\
                      has_next prog' = false.
Proof.
  destruct prog as [cs tg body]. unfold split_root_next.
  destruct (split_last body) as [[body' [k q]]|] eqn:E; [|discriminate].
  destruct k; try discriminate. destruct q as [csn' tgn' bn]. destruct bn; [|discriminate].
  destruct (has_next (Rule cs tg body')) eqn:Hn; [discriminate|].
  intros H. inversion H; subst. exists cs, tg, body'. split; [reflexivity|]. split; [|exact Hn].
  rewrite (split_last_app _ _ _ E). reflexivity.
Qed.

(* ---- the written tree and the Spec of such a program ---- *)
Lemma tree_of_root_next cs tg body' csn tgn :
  tree_of (Rule cs tg (body' ++ [(KNext, Rule csn tgn [])]))
  = Node 0 SNext (tree_of (Rule cs tg body')) (Leaf 0 csn (tag_list tgn)).
Proof.
  unfold tree_of. cbn [tlevel].
  (* the refinement nest ignores the next_rule *)
  assert (Hme : forall b,
     (fix rf (l : list (kind * rule)) {struct l} : tree :=
        match l with
        | [] => Leaf 0 cs (tag_list tg)
        | (KRef, q) :: l' => Node 0 SExc (rf l') (tlevel KAlt q None)
        | _ :: l' => rf l'
        end) (b ++ [(KNext, Rule csn tgn [])])
     = (fix rf (l : list (kind * rule)) {struct l} : tree :=
        match l with
        | [] => Leaf 0 cs (tag_list tg)
        | (KRef, q) :: l' => Node 0 SExc (rf l') (tlevel KAlt q None)
        | _ :: l' => rf l'
        end) b).
  { induction b as [|[k q] b IH]; [reflexivity|]. cbn [app]. destruct k; rewrite IH; reflexivity. }
  rewrite Hme. clear Hme.
  match goal with |- _ (body' ++ _) ?m = _ => generalize m end.
  induction body' as [|[k q] b IH]; intros t0; [reflexivity|].
  cbn [app]. destruct k; apply IH.
Qed.

Lemma rdr1_root_next cs tg body' csn tgn e :
  rdr1 (Rule cs tg (body' ++ [(KNext, Rule csn tgn [])])) e
  = rdr1 (Rule cs tg body') e ++ (if holds e csn then tag_list tgn else []).
Proof.
  unfold rdr1. cbn [level].
  assert (Hexc : forall b s,
     (fix rf (l : list (kind * rule)) (s : lstate) {struct l} : lstate :=
        match l with
        | [] => s
        | (KRef, q) :: l' => rf l' (level e KAlt q s)
        | _ :: l' => rf l' s
        end) (b ++ [(KNext, Rule csn tgn [])]) s
     = (fix rf (l : list (kind * rule)) (s : lstate) {struct l} : lstate :=
        match l with
        | [] => s
        | (KRef, q) :: l' => rf l' (level e KAlt q s)
        | _ :: l' => rf l' s
        end) b s).
  { induction b as [|[k q] b IH]; intros s; [reflexivity|]. cbn [app]. destruct k; apply IH. }
  rewrite Hexc. clear Hexc.
  match goal with |- snd (_ (body' ++ _) ?m) = _ => generalize m end.
  induction body' as [|[k q] b IH]; intros st.
  - cbn [app level]. cbn [andb]. destruct st as [f o]. destruct (holds e csn); simpl; [reflexivity|rewrite app_nil_r; reflexivity].
  - cbn [app]. destruct k; apply IH.
Qed.

(* ---- the Spec only concludes tags that are written in the program ---- *)
Lemma tags_of_cons cs tg body : forall k q x, In (k, q) body -> In x (tags_of q) -> In x (tags_of (Rule cs tg body)).
Proof.
  intros k q x Hin Hx. unfold tags_of. cbn [rules_of flat_map]. apply in_or_app. right.
  induction body as [|[k0 q0] body IH]; [destruct Hin|].
  rewrite flat_map_app. apply in_or_app. destruct Hin as [E|Hin].
  - inversion E; subst. left. exact Hx.
  - right. apply IH. exact Hin.
Qed.
Lemma tags_of_head cs tg body x : In x (tag_list tg) -> In x (tags_of (Rule cs tg body)).
Proof. intros H. unfold tags_of. cbn [rules_of flat_map r_tag]. apply in_or_app. left. exact H. Qed.

Lemma level_tags e r : forall k st x, In x (snd (level e k r st)) -> In x (snd st) \/ In x (tags_of r).
Proof.
  induction r as [cs tg body IH] using rule_ind'. intros k st x.
  cbn [level].
  assert (Hexc : forall s0 y,
     In y (snd ((fix rf (l : list (kind * rule)) (s : lstate) {struct l} : lstate :=
                   match l with
                   | [] => s
                   | (KRef, q) :: l' => rf l' (level e KAlt q s)
                   | _ :: l' => rf l' s
                   end) body s0)) -> In y (snd s0) \/ In y (tags_of (Rule cs tg body))).
  { assert (Hgen : forall b, (forall k q, In (k, q) b -> In (k, q) body) -> Forall (fun kq => forall k st x, In x (snd (level e k (snd kq) st)) -> In x (snd st) \/ In x (tags_of (snd kq))) b ->
       forall s0 y,
       In y (snd ((fix rf (l : list (kind * rule)) (s : lstate) {struct l} : lstate :=
                   match l with
                   | [] => s
                   | (KRef, q) :: l' => rf l' (level e KAlt q s)
                   | _ :: l' => rf l' s
                   end) b s0)) -> In y (snd s0) \/ In y (tags_of (Rule cs tg body))).
    { induction b as [|[k0 q0] b IHb]; intros Hsub HF s0 y Hy; [left; exact Hy|].
      inversion HF as [|? ? Hq Hrest]; subst. simpl in Hq.
      assert (Hsub' : forall k q, In (k, q) b -> In (k, q) body) by (intros; apply Hsub; right; assumption).
      destruct k0; try (apply (IHb Hsub' Hrest s0 y Hy)).
      destruct (IHb Hsub' Hrest _ y Hy) as [H|H]; [|right; exact H].
      destruct (Hq KAlt s0 y H) as [H1|H1]; [left; exact H1|right].
      apply (tags_of_cons cs tg body KRef q0); [apply Hsub; left; reflexivity|exact H1]. }
    apply Hgen; [auto|exact IH]. }
  assert (Hsib : forall b, (forall k q, In (k, q) b -> In (k, q) body) -> Forall (fun kq => forall k st x, In x (snd (level e k (snd kq) st)) -> In x (snd st) \/ In x (tags_of (snd kq))) b ->
     forall s0 y,
     In y (snd ((fix sib (l : list (kind * rule)) (s : lstate) {struct l} : lstate :=
               match l with
               | [] => s
               | (KRef, _) :: l' => sib l' s
               | (k', q) :: l' => sib l' (level e k' q s)
               end) b s0)) -> In y (snd s0) \/ In y (tags_of (Rule cs tg body))).
  { induction b as [|[k0 q0] b IHb]; intros Hsub HF s0 y Hy; [left; exact Hy|].
    inversion HF as [|? ? Hq Hrest]; subst. simpl in Hq.
    assert (Hsub' : forall k q, In (k, q) b -> In (k, q) body) by (intros; apply Hsub; right; assumption).
    destruct k0.
    - apply (IHb Hsub' Hrest s0 y Hy).
    - destruct (IHb Hsub' Hrest _ y Hy) as [H|H]; [|right; exact H].
      destruct (Hq KAlt s0 y H) as [H1|H1]; [left; exact H1|right].
      apply (tags_of_cons cs tg body KAlt q0); [apply Hsub; left; reflexivity|exact H1].
    - destruct (IHb Hsub' Hrest _ y Hy) as [H|H]; [|right; exact H].
      destruct (Hq KNext s0 y H) as [H1|H1]; [left; exact H1|right].
      apply (tags_of_cons cs tg body KNext q0); [apply Hsub; left; reflexivity|exact H1]. }
  intros Hx. destruct (Hsib body (fun _ _ H => H) IH _ x Hx) as [H|H]; [|right; exact H].
  clear Hsib Hx.
  match type of H with In x (snd (if ?c then _ else _)) => destruct c end; [|left; exact H].
  cbn [snd] in H. apply in_app_or in H. destruct H as [H|H]; [left; exact H|right].
  match type of H with In x (if fst ?ex then _ else _) => destruct (fst ex) eqn:Ef end.
  - destruct (Hexc _ x H) as [H1|H1]; [destruct H1|exact H1].
  - apply tags_of_head. exact H.
Qed.

Lemma rdr1_tags prog e x : In x (rdr1 prog e) -> In x (tags_of prog).
Proof. unfold rdr1. intros H. destruct (level_tags e prog KAlt (false, []) x H) as [[]|H1]; exact H1. Qed.

(* ---- assembling: the model's run of a root-next program is a permutation of the Spec's instances ---- *)
Lemma singles_app a b xa xb : singles a = Some xa -> singles b = Some xb -> singles (a ++ b) = Some (xa ++ xb).
Proof.
  revert xa. induction a as [|r a IH]; intros xa Ha Hb.
  - simpl in Ha. inversion Ha; subst. exact Hb.
  - cbn [singles app] in *. destruct (single r) as [x|]; [|discriminate]. destruct (singles a) as [xs|]; [|discriminate].
    inversion Ha; subst. rewrite (IH xs eq_refl Hb). reflexivity.
Qed.
Lemma singles_flat_map {A} (f : A -> list (list nat * nat)) (g : A -> list (nat * nat)) l :
  (forall x, singles (f x) = Some (g x)) -> singles (flat_map f l) = Some (flat_map g l).
Proof.
  intros H. induction l as [|x l IH]; [reflexivity|]. cbn [flat_map]. apply singles_app; [apply H|exact IH].
Qed.
Lemma flat_map_app_perm {A B} (g1 g2 : A -> list B) l :
  Permutation (flat_map g1 l ++ flat_map g2 l) (flat_map (fun x => g1 x ++ g2 x) l).
Proof.
  induction l as [|x l IH]; [constructor|]. cbn [flat_map].
  rewrite <- app_assoc. rewrite <- app_assoc. apply Permutation_app_head.
  eapply Permutation_trans; [|apply Permutation_app_head; exact IH].
  rewrite !app_assoc. apply Permutation_app_tail. apply Permutation_app_comm.
Qed.

Definition tagsrows (i : nat) (c : list nat) : list (nat * nat) := map (fun tg => (tg, i)) c.

Lemma singles_emitq c i : length c <= 1 -> singles (emitq (union [] c) i) = Some (tagsrows i c).
Proof. destruct c as [|x [|y c]]; simpl; intros; try reflexivity; lia. Qed.

Theorem rules_next_ok prog : Fb_next prog = true -> forall W,
  exists rows xs, model prog W = Some rows /\ singles rows = Some xs /\ Permutation xs (rdr prog W).
Proof.
  unfold Fb_next. intros H W. apply andb_prop in H. destruct H as [HG Hs].
  destruct (split_root_next prog) as [[[prog' csn] tgn]|] eqn:Esp; [|discriminate].
  destruct (split_root_next_spec _ _ _ _ Esp) as [cs [tg [body' [-> [-> Hn]]]]].
  set (prog' := Rule cs tg body') in *. set (prog := Rule cs tg (body' ++ [(KNext, Rule csn tgn [])])) in *.
  destruct (Gb_spec prog HG) as [h [t [Hb [Hr [He Hnd]]]]].
  unfold prog in He. rewrite tree_of_root_next in He. fold prog' in He.
  destruct t as [|id s l r]; [discriminate He|]. cbn [erase] in He.
  destruct r as [idr csr cr|]; [|discriminate He]. cbn [erase] in He.
  injection He as Es El Ecs Ecr. subst s csr cr.
  assert (Hpe : forall e, pe l e = pe (tree_of prog') e) by (intros e; rewrite <- El; symmetry; apply pe_erase).
  assert (Hnf : nextfree l = true).
  { rewrite <- nextfree_erase, El. apply (pe_tree_of prog' (0, 0)%Z Hn). }
  unfold model. rewrite Hb, Hr.
  exists (run W (Node id SNext l (Leaf idr csn (tag_list tgn)))).
  rewrite (run_root_next W id idr l csn (tag_list tgn) Hnf Hnd).
  (* per element *)
  set (g1 := fun ie : nat * elem =>
               if fst (pe l (snd ie)) then tagsrows (fst ie) (if holds (snd ie) csn then tag_list tgn else [])
               else tagsrows (fst ie) (rdr1 prog' (snd ie))).
  set (g2 := fun ie : nat * elem =>
               if fst (pe l (snd ie)) then [] else tagsrows (fst ie) (if holds (snd ie) csn then tag_list tgn else [])).
  assert (Htl : length (tag_list tgn) <= 1) by (destruct tgn; simpl; lia).
  assert (Hfresh : forall e, negb (fst (pe l e)) = true -> nonempty (snd (pe l e)) && set_eqb (snd (pe l e)) (tag_list tgn) = false).
  { intros e Hf. destruct (pe_tree_of prog' e Hn) as [_ [Hr1 Hl1]]. rewrite <- Hpe in Hr1.
    destruct (pe l e) as [fl cl]. cbn [fst snd] in *. destruct fl; [discriminate|]. subst cl.
    destruct tgn as [tn|]; [|destruct (rdr1 prog' e) as [|a [|b c]]; reflexivity].
    destruct (rdr1 prog' e) as [|a [|b c]] eqn:Er; [reflexivity| |simpl in Hl1; lia].
    cbn [nonempty andb tag_list]. unfold set_eqb. cbn [forallb memb existsb]. rewrite !orb_false_r, !andb_true_r.
    destruct (Nat.eqb a tn) eqn:Ea; [|reflexivity]. exfalso. apply Nat.eqb_eq in Ea. subst a.
    apply negb_true_iff in Hs. assert (Hin : In tn (tags_of prog')) by (apply (rdr1_tags prog' e); rewrite Er; simpl; auto).
    unfold memb in Hs. assert (existsb (Nat.eqb tn) (tags_of prog') = true) by (apply existsb_exists; exists tn; split; [exact Hin|apply Nat.eqb_refl]).
    congruence. }
  assert (H1 : forall ie, singles (f1 l csn (tag_list tgn) ie) = Some (g1 ie)).
  { intros [i e]. unfold f1, g1. cbn [fst snd]. destruct (pe_tree_of prog' e Hn) as [_ [Hr1 Hl1]]. rewrite <- Hpe in Hr1.
    destruct (pe l e) as [fl cl]. cbn [fst snd] in *. destruct fl.
    - destruct (holds e csn); [apply singles_emitq; exact Htl|reflexivity].
    - rewrite Hr1. apply singles_emitq. rewrite <- Hr1. exact Hl1. }
  assert (H2 : forall ie, singles (f2 l csn (tag_list tgn) ie) = Some (g2 ie)).
  { intros [i e]. unfold f2, g2, covT. cbn [fst snd]. specialize (Hfresh e).
    destruct (pe l e) as [fl cl]. cbn [fst snd] in *. destruct fl.
    - destruct (holds e csn); cbn [andb]; [|reflexivity].
      destruct (nonempty (tag_list tgn)) eqn:Ene; cbn [negb]; [reflexivity|].
      destruct tgn; [discriminate Ene|reflexivity].
    - rewrite (Hfresh eq_refl). cbn [negb]. rewrite andb_true_r.
      destruct (holds e csn); [apply singles_emitq; exact Htl|reflexivity]. }
  exists (flat_map g1 (enum W) ++ flat_map g2 (enum W)). split; [reflexivity|]. split.
  - apply singles_app; apply singles_flat_map; assumption.
  - eapply Permutation_trans; [apply flat_map_app_perm|].
    unfold rdr. assert (Heq : forall ie, g1 ie ++ g2 ie = map (fun tg => (tg, fst ie)) (rdr1 prog (snd ie))).
    { intros [i e]. unfold g1, g2, prog. cbn [fst snd]. rewrite rdr1_root_next. fold prog'.
      destruct (pe_tree_of prog' e Hn) as [_ [Hr1 _]]. rewrite <- Hpe in Hr1.
      destruct (pe l e) as [fl cl]. cbn [fst snd] in *. destruct fl.
      - rewrite Hr1. rewrite app_nil_r. reflexivity.
      - unfold tagsrows. rewrite map_app. reflexivity. }
    clear - Heq. induction (enum W) as [|ie L IH]; [constructor|]. cbn [flat_map]. rewrite Heq.
    apply Permutation_app_head. exact IH.
Qed.

Lemma ex_nonvacuous2 :
  Fb_next w_next = true /\ Fb_next w_alt_next = true /\
  Fb ex_prog = true /\
  rdr ex_prog W8 = [(0, 0); (2, 1); (1, 2); (1, 3); (1, 4); (1, 5); (3, 7)] /\
  model_tags ex_prog W8 = rdr ex_prog W8.
Proof. repeat match goal with |- _ /\ _ => split end; vm_compute; reflexivity. Qed.
