(* EQL core: values, worlds, query syntax as the public constructors build it.
   Shared by the Spec (Eql/Sat.v) and the code-faithful model (Eql/Eval.v).  See DESIGN.md section 6, C01. *)
From Coq Require Import List ZArith Bool Arith.
Import ListNotations.

Definition var := nat.

(* Python values the generators use: ints, objects (by identity), lists of ints, lists of objects *)
Inductive val : Type :=
| VI (z : Z)
| VO (o : Z)
| VLI (l : list Z)
| VLO (l : list Z).

Definition val_eq_dec (v w : val) : {v = w} + {v <> w}.
Proof. decide equality; try apply Z.eq_dec; apply (list_eq_dec Z.eq_dec). Defined.
Definition val_eqb (v w : val) : bool := if val_eq_dec v w then true else false.
Lemma val_eqb_eq v w : val_eqb v w = true <-> v = w.
Proof. unfold val_eqb. destruct (val_eq_dec v w); split; congruence. Qed.

(* A world: attribute access and the key that decides Python [==] between objects
   (identity classes: [okey o = o]; value-equal twins share a key). *)
Record world : Type := { attr : Z -> nat -> val; okey : Z -> Z }.

Definition getattr (W : world) (v : val) (a : nat) : val :=
  match v with VO o => attr W o a | _ => VI 0 end.

Definition zmem (z : Z) (l : list Z) : bool := existsb (Z.eqb z) l.
Definition zsubset (l m : list Z) : bool := forallb (fun z => zmem z m) l.

(* Python [==] as the engine applies it: iterables on both sides are compared as sets *)
Definition py_eq (W : world) (v w : val) : bool :=
  match v, w with
  | VI a, VI b => Z.eqb a b
  | VO a, VO b => Z.eqb (okey W a) (okey W b)
  | VLI l, VLI m => zsubset l m && zsubset m l
  | VLO l, VLO m => let kl := map (okey W) l in let km := map (okey W) m in zsubset kl km && zsubset km kl
  | VLI [], VLO [] | VLO [], VLI [] => true
  | _, _ => false
  end.

Definition zlist_eqb (l m : list Z) : bool := if list_eq_dec Z.eq_dec l m then true else false.
(* plain Python [==] (no set conversion), as [x in seen_values] applies it *)
Definition py_plain_eq (W : world) (v w : val) : bool :=
  match v, w with
  | VI a, VI b => Z.eqb a b
  | VO a, VO b => Z.eqb (okey W a) (okey W b)
  | VLI l, VLI m => zlist_eqb l m
  | VLO l, VLO m => zlist_eqb (map (okey W) l) (map (okey W) m)
  | VLI [], VLO [] | VLO [], VLI [] => true
  | _, _ => false
  end.

Inductive cmpop := OpEq | OpNe | OpLt | OpLe | OpGt | OpGe | OpContains.

(* [apply_op op left right]; for OpContains the left operand is the container *)
Definition apply_op (W : world) (op : cmpop) (l r : val) : bool :=
  match op with
  | OpEq => py_eq W l r
  | OpNe => negb (py_eq W l r)
  | OpLt => match l, r with VI a, VI b => Z.ltb a b | _, _ => false end
  | OpLe => match l, r with VI a, VI b => Z.leb a b | _, _ => false end
  | OpGt => match l, r with VI a, VI b => Z.ltb b a | _, _ => false end
  | OpGe => match l, r with VI a, VI b => Z.leb b a | _, _ => false end
  | OpContains =>
      match l, r with
      | VLI m, VI z => zmem z m
      | VLO m, VO o => zmem (okey W o) (map (okey W) m)
      | _, _ => false
      end
  end.

(* operands: literal, variable, attribute chain *)
Inductive opnd : Type :=
| OLit (v : val)
| OVar (x : var)
| OAttr (e : opnd) (a : nat).

Inductive cond : Type :=
| CCmp (op : cmpop) (l r : opnd)
| CAnd (l r : cond)
| CElseIf (l r : cond)
| CUnion (l r : cond)
| CNot (c : cond)
| CExists (e : opnd) (c : cond)      (* exists(e, c): e is the quantified variable (or an attribute expression, as match_any builds) *)
| CForAll (y : var) (c : cond).      (* for_all(y, c) *)

Fixpoint opnd_var (e : opnd) : option var :=
  match e with OLit _ => None | OVar x => Some x | OAttr e _ => opnd_var e end.
Definition opnd_vars (e : opnd) : list var :=
  match opnd_var e with Some x => [x] | None => [] end.

(* every variable mentioned, quantified ones included (what optimize_or looks at) *)
Fixpoint cond_vars (c : cond) : list var :=
  match c with
  | CCmp _ l r => opnd_vars l ++ opnd_vars r
  | CAnd l r | CElseIf l r | CUnion l r => cond_vars l ++ cond_vars r
  | CNot c => cond_vars c
  | CExists e c => opnd_vars e ++ cond_vars c
  | CForAll y c => y :: cond_vars c
  end.

Definition remove_var (y : var) (l : list var) : list var := filter (fun x => negb (Nat.eqb x y)) l.

(* free variables: a quantifier binds its variable *)
Fixpoint cond_fv (c : cond) : list var :=
  match c with
  | CCmp _ l r => opnd_vars l ++ opnd_vars r
  | CAnd l r | CElseIf l r | CUnion l r => cond_fv l ++ cond_fv r
  | CNot c => cond_fv c
  | CExists (OVar y) c => remove_var y (cond_fv c)
  | CExists e c => opnd_vars e ++ cond_fv c
  | CForAll y c => remove_var y (cond_fv c)
  end.

Fixpoint qfree (c : cond) : bool :=
  match c with
  | CCmp _ _ _ => true
  | CAnd l r | CElseIf l r | CUnion l r => qfree l && qfree r
  | CNot c => qfree c
  | CExists _ _ | CForAll _ _ => false
  end.

Definition nmem (x : var) (l : list var) : bool := existsb (Nat.eqb x) l.
Definition nsubset (l m : list var) : bool := forallb (fun x => nmem x m) l.
Definition same_vars (l m : list var) : bool := nsubset l m && nsubset m l.

(* the public constructors: or_ chooses ElseIf when both sides mention the same variables
   (optimize_or), and_ nests to the left (chained_logic), not_ wraps *)
Definition mk_or (l r : cond) : cond :=
  if same_vars (cond_vars l) (cond_vars r) then CElseIf l r else CUnion l r.
Definition mk_and (l r : cond) : cond := CAnd l r.
(* not_(e) = e._invert_(): a quantifier is inverted into its dual over the inverted condition, anything else is wrapped *)
Fixpoint mk_not (c : cond) : cond :=
  match c with
  | CExists (OVar y) c' => CForAll y (mk_not c')
  | CForAll y c' => CExists (OVar y) (mk_not c')
  | _ => CNot c
  end.

(* a query: selected operands and an optional condition; domains are given per variable *)
Record query : Type := { q_sels : list opnd; q_cond : option cond }.
Definition domains := var -> list val.

Definition query_vars (q : query) : list var :=
  flat_map opnd_vars (q_sels q) ++ match q_cond q with Some c => cond_fv c | None => [] end.
