(* C01 (flatten / nested sub-queries) -- code-faithful model of the evaluator with GENERATED variables, variable level.
   [evalG] is Eql/Eval.v's evaluator with the evaluation of a variable abstracted ([ve_var]); [evv] evaluates a variable
   under a declaration list:
     plain variable (Variable._evaluate__): bound -> replayed; unbound -> one result per domain element;
     z := FlatOf e (Flatten is a DomainMapping: DomainMapping._evaluate__ + Flatten._apply_mapping_): bound (the node's id is
        in the bindings) -> replayed; unbound -> the child expression e is evaluated under the current bindings (which may
        enumerate unbound variables), and every result yields one result per element of the collection, binding z;
     z := SubOf z0 c (ResultQuantifier._evaluate__ over Entity: QueryObjectDescriptor._evaluate__): bound -> replayed;
        unbound -> the TRUE results of c under the current (outer) bindings, then the selected variable z0 under each
        (replayed when c bound it, enumerated otherwise), binding z to z0's value.
   With an empty declaration list [evalG] is [Eval.eval] (Eql/EvalDepProofs.v: evalD_nil).
   Reading notes: operands carry no truth flag here (Comparator filters operands by is_true; a DomainMapping's flag is only
   refreshed under a logical parent or as the conditions root, a ResultQuantifier always yields False). *)
From Coq Require Import List ZArith Bool Arith.
From Krrood Require Import Eql.Syntax Eql.Sat Eql.Eval Eql.EvalDepSpec.
Import ListNotations.

(* what the generic evaluator needs to know about variables *)
Record venv : Type := {
  ve_var : var -> binds -> list (binds * val);   (* _evaluate__ of the node the variable stands for *)
  ve_roots : var -> list var;                    (* _unique_variables_: the Variable instances below that node *)
  ve_flat : var -> list var                      (* Flatten nodes strictly below that node (Exists.other_variable_ids) *)
}.

Section Generic.
  Variable W : world.
  Variable E : venv.

  Fixpoint evG_opnd (e : opnd) (b : binds) : list (binds * val) :=
    match e with
    | OLit v => [(b, v)]
    | OVar x => ve_var E x b
    | OAttr e a => map (fun p => (fst p, getattr W (snd p) a)) (evG_opnd e b)
    end.

  (* Comparator.get_first_second_operands: the right operand goes first when one of ITS Variable instances is bound *)
  Definition right_firstG (b : binds) (r : opnd) : bool := existsb (bound b) (flat_map (ve_roots E) (opnd_vars r)).

  Definition evG_cmp (op : cmpop) (l r : opnd) (b : binds) : list res :=
    if right_firstG b r then
      flat_map (fun p1 : binds * val =>
        map (fun p2 : binds * val => (fst p2, negb (apply_op W op (snd p2) (snd p1)))) (evG_opnd l (fst p1)))
        (evG_opnd r b)
    else
      flat_map (fun p1 : binds * val =>
        map (fun p2 : binds * val => (fst p2, negb (apply_op W op (snd p1) (snd p2)))) (evG_opnd r (fst p1)))
        (evG_opnd l b).

  (* Exists.other_variable_ids: the Variable instances of the quantified expression and of the condition except the
     quantified variable itself, plus the Flatten nodes the quantified expression is taken from *)
  Definition exists_othersG (e : opnd) (c : cond) : list var :=
    match e with
    | OVar y => remove_var y (ve_roots E y ++ flat_map (ve_roots E) (cond_vars c)) ++ ve_flat E y
    | _ => flat_map (ve_roots E) (opnd_vars e ++ cond_vars c)
    end.
  (* ForAll.condition_unique_variable_ids *)
  Definition forall_othersG (y : var) (c : cond) : list var :=
    filter (fun x => negb (nmem x (ve_roots E y))) (flat_map (ve_roots E) (cond_vars c)).

  Fixpoint evalG (c : cond) (b : binds) : list res :=
    match c with
    | CCmp op l r => evG_cmp op l r b
    | CAnd l r =>
        flat_map (fun p : res => if snd p then [(fst p, true)] else evalG r (fst p)) (evalG l b)
    | CElseIf l r =>
        flat_map (fun p : res => if snd p then evalG r (fst p) else [(fst p, false)]) (evalG l b)
    | CUnion l r =>
        flat_map (fun p : res => if snd p then evalG r (fst p) else [(fst p, false)]) (evalG l b)
        ++ filter (fun p : res => negb (snd p)) (evalG r b)
    | CNot c => map (fun p : res => (fst p, negb (snd p))) (evalG c b)
    | CExists e c => exists_scan (exists_othersG e c) [] (evalG c b)
    | CForAll y c =>
        let others := forall_othersG y c in
        match map fst (ve_var E y b) with
        | [] => [(b, false)]
        | bv0 :: bvs =>
            let s0 := map (fun p : res => restrict others (fst p)) (filter (fun p : res => negb (snd p)) (evalG c bv0)) in
            let s := fold_left (fun (ss : list binds) (bv : binds) =>
                                  filter (fun s1 => first_true (evalG c (bv ++ s1))) ss) bvs s0 in
            map (fun s1 => (s1 ++ b, false)) s
        end
    end.

  Definition true_resultsG (c : option cond) (b : binds) : list binds :=
    match c with
    | Some c => map fst (filter (fun p : res => negb (snd p)) (evalG c b))
    | None => [b]
    end.

  Fixpoint selectG (sels : list opnd) (b : binds) : list (list val) :=
    match sels with
    | [] => [[]]
    | s :: ss => flat_map (fun p : binds * val => map (cons (snd p)) (selectG ss (fst p))) (evG_opnd s b)
    end.

  Definition runG (q : query) : list (list val) :=
    flat_map (selectG (q_sels q)) (true_resultsG (q_cond q) []).
End Generic.

Section Dep.
  Variable W : world.
  Variable D : domains.

  Definition var_plain (x : var) (b : binds) : list (binds * val) :=
    match lookup b x with
    | Some v => [(b, v)]
    | None => map (fun v => ((x, v) :: b, v)) (D x)
    end.

  Definition is_flat (ds : decls) (x : var) : bool := match find_decl ds x with Some (FlatOf _) => true | _ => false end.

  (* the Flatten nodes strictly below the node of [y] *)
  Fixpoint flat_below (ds : decls) (y : var) : list var :=
    match ds with
    | [] => []
    | (z, g) :: ds' =>
        if Nat.eqb y z then
          match g with
          | FlatOf e => match opnd_var e with
                        | Some x => (if is_flat ds' x then [x] else []) ++ flat_below ds' x
                        | None => []
                        end
          | SubOf _ _ => []
          end
        else flat_below ds' y
    end.

  Fixpoint evv (ds : decls) (x : var) (b : binds) : list (binds * val) :=
    match ds with
    | [] => var_plain x b
    | (z, g) :: ds' =>
        if Nat.eqb x z then
          match lookup b z with
          | Some v => [(b, v)]
          | None =>
              let E' := {| ve_var := evv ds'; ve_roots := roots ds'; ve_flat := flat_below ds' |} in
              match g with
              | FlatOf e =>
                  flat_map (fun p : binds * val => map (fun w => ((z, w) :: fst p, w)) (elems (snd p))) (evG_opnd W E' e b)
              | SubOf z0 c =>
                  flat_map (fun b1 : binds => map (fun p : binds * val => ((z, snd p) :: fst p, snd p)) (evv ds' z0 b1))
                           (true_resultsG W E' c b)
              end
          end
        else evv ds' x b
    end.

  Definition envD (ds : decls) : venv := {| ve_var := evv ds; ve_roots := roots ds; ve_flat := flat_below ds |}.

  Definition evalD (ds : decls) : cond -> binds -> list res := evalG W (envD ds).
  Definition runD (ds : decls) (q : query) : list (list val) := runG W (envD ds) q.
End Dep.
