(* C10 -- Spec side: the events user code can observe, and what "lazy" means as predicates on an event log.
   Independent of the model (Eql/Trace.v): the harness evaluates these on the log the REAL engine produced.

   Events:  Pull x i   the i-th element of x's domain is pulled out of the user's one-shot generator
            End x      x's generator is asked for one more element and finishes
            Get o a    attribute a of object o is read
            Yield row  a result is handed to the consumer of an(...).evaluate()

   "Consumes only what it needs" is given an operational meaning by what a reference lazy nested-loop enumerator
   (variables in first-use order, inner domains replayed from a cache) does: it never reads ahead, and it exhausts a
   domain only because a loop over a variable used EARLIER has moved past its first element ([demand_at]). *)
From Coq Require Import List ZArith Bool Arith Lia.
From Krrood Require Import Base.Sx Eql.Syntax Eql.Sat Eql.ShowSpec.
Import ListNotations.
Open Scope nat_scope.

Inductive event : Type :=
| Pull (x : var) (i : nat)
| End (x : var)
| Get (o : Z) (a : nat)
| Yield (row : list val)
(* bookkeeping of the model, NOT observable (no user code runs): the scratch list of an Exists call.  [Frame n] opens the
   call that started when the log had n entries, [Note n key] records that this call has handed out a result whose other
   variables are bound as [key].  Every predicate below ignores them and [show_trace] drops them. *)
| Frame (n : nat)
| Note (n : nat) (key : list (option val))
(* ... and the moment the SECOND pass of a Union (or_ over different variable sets) begins *)
| Pass.
Definition visible (e : event) : bool := match e with Frame _ | Note _ _ | Pass => false | _ => true end.

Definition is_pull (x : var) (e : event) : bool := match e with Pull y _ => Nat.eqb x y | _ => false end.
Definition is_end (x : var) (e : event) : bool := match e with End y => Nat.eqb x y | _ => false end.
Definition is_yield (e : event) : bool := match e with Yield _ => true | _ => false end.
(* order-insensitive counters (used on chronological logs and on the model's newest-first store alike) *)
Definition npulls (x : var) (s : list event) : nat := length (filter (is_pull x) s).
Definition ended (x : var) (s : list event) : bool := existsb (is_end x) s.
Definition nyields (s : list event) : nat := length (filter is_yield s).

(* ---------- projections of a chronological log ---------- *)
Fixpoint rows_of (t : list event) : list (list val) :=
  match t with [] => [] | Yield r :: t' => r :: rows_of t' | _ :: t' => rows_of t' end.
Fixpoint pulls_of (x : var) (t : list event) : list nat :=
  match t with
  | [] => []
  | Pull y i :: t' => if Nat.eqb x y then i :: pulls_of x t' else pulls_of x t'
  | _ :: t' => pulls_of x t'
  end.
Definition vars_of (t : list event) : list var :=
  flat_map (fun e => match e with Pull x _ | End x => [x] | _ => [] end) t.

Definition Prefix {A : Type} (a b : list A) : Prop := exists c, b = a ++ c.

(* ---------- the Spec ---------- *)
(* only a prefix of each domain is consumed, each element once, in order *)
Definition pulls_in_order (x : var) (t : list event) : Prop := pulls_of x t = seq 0 (length (pulls_of x t)).

(* [before y x t]: y was pulled from before x was pulled from for the first time (first-use order) *)
Fixpoint upto_first (x : var) (t : list event) : list event :=
  match t with [] => [] | e :: t' => if is_pull x e then [] else e :: upto_first x t' end.
Definition before (y x : var) (t : list event) : bool := 1 <=? npulls y (upto_first x t).

(* [exempt x p]: x's domain was already exhausted when the second pass of some Union began (the first pass of an or_ over
   different variable sets runs its loops to their ends before the second pass re-enumerates the right operand) *)
Fixpoint exempt_scan (x : var) (e0 : bool) (t : list event) : bool :=
  match t with
  | [] => false
  | Pass :: t' => e0 || exempt_scan x e0 t'
  | e :: t' => exempt_scan x (e0 || is_end x e) t'
  end.
Definition exempt (x : var) (p : list event) : bool := exempt_scan x false p.

(* at this point of the log, a domain is exhausted only if a variable used earlier has been pulled from at least twice
   (its loop moved past its first element) -- or it is exempt (two-part bound for Union) *)
Definition demand_at (p : list event) : Prop :=
  forall x, ended x p = true -> exempt x p = true \/ exists y, before y x p = true /\ 2 <= npulls y p.
(* ... at every moment a result is handed out *)
Definition demand_ok (t : list event) : Prop :=
  forall p r rest, t = p ++ Yield r :: rest -> demand_at p.

(* ---------- executable companions ---------- *)
Definition option_eq_dec {A} (d : forall a b : A, {a = b} + {a <> b}) (x y : option A) : {x = y} + {x <> y}.
Proof. decide equality. Defined.
Definition rows_eqb (a b : list (list val)) : bool :=
  if list_eq_dec (list_eq_dec val_eq_dec) a b then true else false.
Definition event_eqb (e f : event) : bool :=
  match e, f with
  | Pull x i, Pull y j => Nat.eqb x y && Nat.eqb i j
  | End x, End y => Nat.eqb x y
  | Get o a, Get p b => Z.eqb o p && Nat.eqb a b
  | Yield r, Yield q => if list_eq_dec val_eq_dec r q then true else false
  | Frame n, Frame m => Nat.eqb n m
  | Note n k, Note m j => Nat.eqb n m && (if list_eq_dec (option_eq_dec val_eq_dec) k j then true else false)
  | Pass, Pass => true
  | _, _ => false
  end.
Fixpoint prefixb (a b : list event) : bool :=
  match a, b with
  | [], _ => true
  | e :: a', f :: b' => event_eqb e f && prefixb a' b'
  | _ :: _, [] => false
  end.
Definition nats_eqb (a b : list nat) : bool := if list_eq_dec Nat.eq_dec a b then true else false.
Definition pulls_in_orderb (x : var) (t : list event) : bool :=
  nats_eqb (pulls_of x t) (seq 0 (length (pulls_of x t))).
Definition demand_atb (p : list event) : bool :=
  forallb (fun x => negb (ended x p) || exempt x p
                    || existsb (fun y => before y x p && (2 <=? npulls y p)) (vars_of p)) (vars_of p).
Fixpoint demand_scan (pre t : list event) : bool :=
  match t with
  | [] => true
  | e :: t' => (if is_yield e then demand_atb pre else true) && demand_scan (pre ++ [e]) t'
  end.
Definition demand_okb (t : list event) : bool := demand_scan [] t.

Lemma event_eqb_eq e f : event_eqb e f = true <-> e = f.
Proof.
  destruct e, f; simpl; try (split; intro H; discriminate).
  - rewrite andb_true_iff, !Nat.eqb_eq. split; [intros [-> ->]; reflexivity | intros H; inversion H; auto].
  - rewrite Nat.eqb_eq. split; [intros ->; reflexivity | intros H; inversion H; auto].
  - rewrite andb_true_iff, Z.eqb_eq, Nat.eqb_eq. split; [intros [-> ->]; reflexivity | intros H; inversion H; auto].
  - destruct (list_eq_dec val_eq_dec row row0) as [->|N]; split; intro H; auto; try discriminate.
    inversion H; contradiction.
  - rewrite Nat.eqb_eq. split; [intros ->; reflexivity | intros H; inversion H; auto].
  - rewrite andb_true_iff, Nat.eqb_eq.
    destruct (list_eq_dec (option_eq_dec val_eq_dec) key key0) as [->|N]; split.
    + intros [-> _]; reflexivity.
    + intros H; inversion H; auto.
    + intros [_ H]; discriminate.
    + intros H; inversion H; contradiction.
  - split; reflexivity.
Qed.

Lemma prefixb_Prefix a : forall b, prefixb a b = true <-> Prefix a b.
Proof.
  induction a as [|e a IH]; intros b; simpl.
  - split; [intros _; exists b; reflexivity | reflexivity].
  - destruct b as [|f b].
    + split; [discriminate | intros [c H]; discriminate].
    + rewrite andb_true_iff, event_eqb_eq, IH. split.
      * intros [-> [c ->]]. exists c. reflexivity.
      * intros [c H]. inversion H; subst. split; [reflexivity | exists c; reflexivity].
Qed.

Lemma pulls_in_orderb_iff x t : pulls_in_orderb x t = true <-> pulls_in_order x t.
Proof.
  unfold pulls_in_orderb, pulls_in_order, nats_eqb.
  destruct (list_eq_dec Nat.eq_dec (pulls_of x t) (seq 0 (length (pulls_of x t)))); split; auto; discriminate.
Qed.

Lemma npulls_pos_in_vars y p : 1 <= npulls y p -> In y (vars_of p).
Proof.
  unfold npulls, vars_of. induction p as [|e p IH]; simpl; [lia|].
  destruct e as [x i|x|o a|r|n|n k|]; simpl; try exact IH.
  - destruct (Nat.eqb_spec y x); simpl; intros H; [left; auto | right; auto].
  - intros H; right; auto.
Qed.

Lemma ended_in_vars x p : ended x p = true -> In x (vars_of p).
Proof.
  unfold ended, vars_of. induction p as [|e p IH]; simpl; [discriminate|].
  destruct e as [y i|y|o a|r|n|n k|]; simpl; try exact IH.
  - intros H. right; auto.
  - destruct (Nat.eqb_spec x y); simpl; intros H; [left; auto | right; auto].
Qed.

Lemma exempt_scan_iff x t : forall e0,
  exempt_scan x e0 t = true <-> exists p1 p2, t = p1 ++ Pass :: p2 /\ (e0 || ended x p1) = true.
Proof.
  induction t as [|e t IH]; intros e0; simpl.
  - split; [discriminate | intros (p1 & p2 & H & _); destruct p1; discriminate].
  - assert (Hgen : is_end x e = is_end x e) by reflexivity.
    destruct e as [y i|y|o a|r|n|n k|]; simpl;
      try (rewrite IH; simpl; split;
           [ intros (p1 & p2 & -> & H); eexists (_ :: p1), p2; split; [reflexivity | simpl; rewrite ?orb_false_r in *; exact H]
           | intros (p1 & p2 & Heq & H); destruct p1 as [|e1 p1]; simpl in Heq; inversion Heq; subst;
             exists p1, p2; split; [reflexivity | simpl in H; rewrite ?orb_false_r in *; exact H] ]).
    + (* End y *)
      rewrite IH. split.
      * intros (p1 & p2 & -> & H). exists (End y :: p1), p2. split; [reflexivity|]. simpl.
        rewrite orb_assoc. exact H.
      * intros (p1 & p2 & Heq & H). destruct p1 as [|e1 p1]; simpl in Heq; inversion Heq; subst.
        exists p1, p2. split; [reflexivity|]. simpl in H. rewrite orb_assoc in H. exact H.
    + (* Pass *)
      rewrite orb_true_iff, IH. split.
      * intros [H|(p1 & p2 & -> & H)].
        -- exists [], t. split; [reflexivity | simpl; now rewrite orb_false_r].
        -- exists (Pass :: p1), p2. split; [reflexivity | exact H].
      * intros (p1 & p2 & Heq & H). destruct p1 as [|e1 p1]; simpl in Heq; inversion Heq; subst.
        -- left. simpl in H. now rewrite orb_false_r in H.
        -- right. exists p1, p2. split; [reflexivity | exact H].
Qed.
Lemma exempt_iff x p : exempt x p = true <-> exists p1 p2, p = p1 ++ Pass :: p2 /\ ended x p1 = true.
Proof. unfold exempt. rewrite exempt_scan_iff. simpl. reflexivity. Qed.

Lemma demand_atb_iff p : demand_atb p = true <-> demand_at p.
Proof.
  unfold demand_atb, demand_at. rewrite forallb_forall. split.
  - intros H x Hx. specialize (H x (ended_in_vars _ _ Hx)). rewrite Hx in H. cbn [negb orb] in H.
    destruct (exempt x p); [left; reflexivity|]. right. cbn [orb] in H.
    apply existsb_exists in H. destruct H as [y [_ Hy]]. apply andb_true_iff in Hy. destruct Hy as [Hb Hn].
    exists y. split; [exact Hb | apply Nat.leb_le; exact Hn].
  - intros H x _. destruct (ended x p) eqn:Hx; cbn [negb orb]; [|reflexivity].
    destruct (H x Hx) as [He|[y [Hb Hn]]]; [rewrite He; reflexivity|].
    apply orb_true_iff. right. apply existsb_exists. exists y. split.
    + apply npulls_pos_in_vars. lia.
    + apply andb_true_iff. split; [exact Hb | apply Nat.leb_le; exact Hn].
Qed.

Lemma demand_scan_iff t : forall pre,
  demand_scan pre t = true <-> (forall p r rest, t = p ++ Yield r :: rest -> demand_at (pre ++ p)).
Proof.
  induction t as [|e t IH]; intros pre; simpl.
  - split; [intros _ p r rest H; destruct p; discriminate | reflexivity].
  - rewrite andb_true_iff, IH. split.
    + intros [H1 H2] p r rest Heq. destruct p as [|e' p]; simpl in Heq; inversion Heq; subst.
      * simpl in H1. rewrite app_nil_r. apply demand_atb_iff. exact H1.
      * specialize (H2 p r rest eq_refl). rewrite <- app_assoc in H2. exact H2.
    + intros H. split.
      * destruct e; simpl; auto. apply demand_atb_iff. specialize (H [] row t eq_refl). rewrite app_nil_r in H. exact H.
      * intros p r rest ->. rewrite <- app_assoc. simpl. apply (H (e :: p) r rest). reflexivity.
Qed.

Lemma demand_okb_iff t : demand_okb t = true <-> demand_ok t.
Proof. unfold demand_okb, demand_ok. rewrite demand_scan_iff. simpl. reflexivity. Qed.

(* ---------- no read-ahead: whatever is pulled is looked at before anything more is pulled ---------- *)
(* For a variable over objects that the query uses only through attributes: every element pulled out of its generator
   has one of its attributes read, or is handed out in a result row, before the next element is pulled, before the
   generator is finished and before the log ends.  (An evaluator that pre-fetches, or drains a partly cached domain before handing out its first value, fails.) *)
Definition obj_of (D : domains) (x : var) (i : nat) : option Z :=
  match nth_error (D x) i with Some (VO o) => Some o | _ => None end.
Fixpoint examined_scan (D : domains) (x : var) (pend : option Z) (t : list event) : bool :=
  match t with
  | [] => match pend with None => true | Some _ => false end
  | Pull y i :: t' =>
      if Nat.eqb x y then match pend with None => examined_scan D x (obj_of D x i) t' | Some _ => false end
      else examined_scan D x pend t'
  | End y :: t' =>
      if Nat.eqb x y then match pend with None => examined_scan D x None t' | Some _ => false end
      else examined_scan D x pend t'
  | Get o _ :: t' =>
      match pend with
      | Some p => if Z.eqb o p then examined_scan D x None t' else examined_scan D x pend t'
      | None => examined_scan D x None t'
      end
  | Yield r :: t' =>
      match pend with
      | Some p => if existsb (fun v => match v with VO o => Z.eqb o p | _ => false end) r
                  then examined_scan D x None t' else examined_scan D x pend t'
      | None => examined_scan D x None t'
      end
  | Frame _ :: t' | Note _ _ :: t' | Pass :: t' => examined_scan D x pend t'
  end.
(* x occurs in the condition, never bare (always below an attribute), and ranges over objects *)
Definition bare (x : var) (e : opnd) : bool := match e with OVar y => Nat.eqb x y | _ => false end.
(* the comparison evaluated first reads an attribute of x (whatever is bound to x is then looked at at once) *)
Fixpoint leftmost_reads (x : var) (c : cond) : bool :=
  match c with
  | CCmp _ l r => nmem x (opnd_vars l ++ opnd_vars r)
  | CAnd l _ | CElseIf l _ | CUnion l _ => leftmost_reads x l
  | CNot c => leftmost_reads x c
  | CExists _ _ | CForAll _ _ => false
  end.
(* x occurs only below attributes and no for_all quantifies it *)
Fixpoint no_bare_strict (x : var) (c : cond) : bool :=
  match c with
  | CCmp _ l r => negb (bare x l) && negb (bare x r)
  | CAnd l r | CElseIf l r | CUnion l r => no_bare_strict x l && no_bare_strict x r
  | CNot c => no_bare_strict x c
  | CExists (OVar _) c => no_bare_strict x c
  | CExists e c => negb (bare x e) && no_bare_strict x c
  | CForAll y c => negb (Nat.eqb x y) && no_bare_strict x c
  end.
(* ... or a for_all does quantify it, and then the comparison evaluated first in that for_all's body reads it (whatever is
   bound to x is looked at at once; the body itself is strict) *)
Fixpoint no_bare (x : var) (c : cond) : bool :=
  match c with
  | CCmp _ l r => negb (bare x l) && negb (bare x r)
  | CAnd l r | CElseIf l r | CUnion l r => no_bare x l && no_bare x r
  | CNot c => no_bare x c
  | CExists (OVar _) c => no_bare x c
  | CExists e c => negb (bare x e) && no_bare x c
  | CForAll y c => if Nat.eqb x y then leftmost_reads x c && no_bare_strict x c else no_bare x c
  end.
(* variables certainly bound in every result of the given truth (true: the condition holds); conservative *)
Definition inter (l m : list var) : list var := filter (fun x => nmem x m) l.
Fixpoint must (c : cond) (truth : bool) : list var :=
  match c with
  | CCmp _ l r => opnd_vars l ++ opnd_vars r
  | CAnd l r => if truth then must l true ++ must r true else inter (must l false) (must l true ++ must r false)
  | CElseIf l r => if truth then inter (must l true) (must l false ++ must r true) else must l false ++ must r false
  | CNot c => must c (negb truth)
  | CUnion _ _ | CExists _ _ | CForAll _ _ => []
  end.
(* x is not enumerated by the selection itself: either it is not selected bare, or every true result of the condition
   binds it (a nested loop over a selected variable may pull elements that no row shows when an inner selected domain
   is empty) *)
Definition sel_ok (q : query) (x : var) : bool :=
  negb (existsb (bare x) (q_sels q))
  || match q_cond q with Some c => nmem x (must c true) | None => false end.
Definition cond_ok (f : var -> cond -> bool) (q : query) (x : var) : bool :=
  match q_cond q with Some c => f x c | None => true end.
Definition nonempty_doms (D : domains) (q : query) : bool :=
  match q_cond q with
  | Some c => forallb (fun z => match D z with [] => false | _ => true end) (cond_vars c)
  | None => true
  end.
(* PROVED classes (Eql/TraceAhead.v): x occurs only below attributes, the selection does not enumerate it, and either no
   for_all quantifies it ([attr_only_strict]) or one does, its body's first comparison reads x, and no variable of the
   condition has an empty domain ([attr_only_len]) *)
Definition attr_only_strict (q : query) (x : var) : bool := cond_ok no_bare_strict q x && sel_ok q x.
Definition attr_only_len (D : domains) (q : query) (x : var) : bool :=
  cond_ok no_bare q x && sel_ok q x && nonempty_doms D q.
(* CHECKED on the real engine's logs: the proved classes, for variables that range over objects and occur in the condition *)
Definition attr_only (D : domains) (q : query) (x : var) : bool :=
  match q_cond q with
  | Some c => nmem x (cond_vars c) && (attr_only_strict q x || attr_only_len D q x)
              && forallb (fun v => match v with VO _ => true | _ => false end) (D x)
  | None => false
  end.
(* every variable a query mentions: selected, free in the condition, or QUANTIFIED in it (exists / for_all) *)
Definition mentions (q : query) (x : var) : bool :=
  nmem x (flat_map opnd_vars (q_sels q) ++ match q_cond q with Some c => cond_vars c | None => [] end).
(* over a sequence of evaluated queries the scan applies to x only if EVERY query that mentions x at all -- quantified
   occurrences included -- has x in the checked class: a for_all whose body does not read its variable first still has to
   bind every element of the universal domain to decide, and the log has no event for that *)
Definition examined_okb (D : domains) (qs : list query) (xs : list var) (t : list event) : bool :=
  forallb (fun x => negb (forallb (fun q => attr_only D q x || negb (mentions q x)) qs
                           && existsb (fun q => attr_only D q x) qs)
                    || examined_scan D x None t) xs.

(* ---------- the fragment F10 (decidable, syntactic) ---------- *)
Fixpoint union_free (c : cond) : bool :=
  match c with
  | CCmp _ _ _ => true
  | CAnd l r | CElseIf l r => union_free l && union_free r
  | CNot c | CExists _ c => union_free c
  | CUnion _ _ | CForAll _ _ => false
  end.
Fixpoint forall_free (c : cond) : bool :=
  match c with
  | CCmp _ _ _ => true
  | CAnd l r | CElseIf l r | CUnion l r => forall_free l && forall_free r
  | CNot c | CExists _ c => forall_free c
  | CForAll _ _ => false
  end.
Fixpoint exists_free (c : cond) : bool :=
  match c with
  | CCmp _ _ _ => true
  | CAnd l r | CElseIf l r | CUnion l r => exists_free l && exists_free r
  | CNot c | CForAll _ c => exists_free c
  | CExists _ _ => false
  end.
Definition exists_free_o (c : option cond) : bool := match c with Some c => exists_free c | None => true end.
(* F10: every condition without for_all (comparisons, and_, or_ of both kinds, not_, exists), ANY selection.  for_all is
   outside: it materialises the candidate solutions of its condition for the first universal value before it hands
   anything on, and it has to see the whole universal domain to confirm a result (Props/C10.v: C10_forall_eager). *)
Definition f10 (q : query) : bool :=
  match q_cond q with Some c => forall_free c | None => true end.

(* ---------- printing for the correspondence check ---------- *)
Definition show_event (e : event) : sx :=
  match e with
  | Pull x i => SL [SZ 0%Z; SZ (Z.of_nat x); SZ (Z.of_nat i)]
  | End x => SL [SZ 1%Z; SZ (Z.of_nat x)]
  | Get o a => SL [SZ 2%Z; SZ o; SZ (Z.of_nat a)]
  | Yield r => SL [SZ 3%Z; SL (map show_val r)]
  | Frame n => SL [SZ 8%Z; SZ (Z.of_nat n)]
  | Note n _ => SL [SZ 9%Z; SZ (Z.of_nat n)]
  | Pass => SL [SZ 10%Z]
  end.
(* what harness-supplied user code can observe *)
Definition show_trace (t : list event) : sx := SL (map show_event (filter visible t)).

(* the Spec applied to observed logs: [full] = log of pulling everything, [ks] = logs of pulling n = 0, 1, 2, ... results.
   0 = meets the Spec; otherwise a sum of: 1 rows of the n-stopped run are not the first n rows of the full run /
   its log is not a prefix of the full log; 2 some domain is not consumed as the prefix 0,1,2,...; 4 a domain was
   exhausted before any earlier-used variable moved on (more was pulled than the reference enumerator needs);
   8 an element was pulled and not looked at before more was pulled / the log ended (read-ahead) *)
Definition b2z (b : bool) (w : Z) : Z := if b then 0%Z else w.
Definition case_in_F10 (c : ecase) : sx := SZ (if f10 (e_query c) then 1 else 0)%Z.
Definition spec_code (check_demand : bool) (exam : list event -> bool) (full : list event) (ks : list (list event)) : Z :=
  let nk := combine (seq 0 (length ks)) ks in
  let all := full :: ks in
  (b2z (forallb (fun p => rows_eqb (rows_of (snd p)) (firstn (fst p) (rows_of full)) && prefixb (snd p) full) nk) 1
   + b2z (forallb (fun t => forallb (fun x => pulls_in_orderb x t) (vars_of full)) all) 2
   + b2z (negb check_demand || forallb demand_okb all) 4
   + b2z (forallb exam all) 8)%Z.
(* the demand bound is relative to a single-pass nested-loop enumerator: it is applied to union-free conditions only *)
Definition union_free_o (c : option cond) : bool := match c with Some c => union_free c | None => true end.
Definition case_spec_code (c : ecase) (full : list event) (ks : list (list event)) : sx :=
  SZ (spec_code (union_free_o (q_cond (e_query c)))
                (examined_okb (mk_domains (e_doms c)) [e_query c] (map fst (e_doms c))) full ks).
(* a sequence of evaluations over the same variables: [base] = log after the first step alone, [t] = log after both.
   [quiet]: the second evaluation is of the same query and asks for no more results than the first one already obtained --
   everything it needs is cached, so it must not touch any generator (bit 4) *)
Definition is_end_any (e : event) : bool := match e with End _ => true | _ => false end.
Definition same_pulls (base t : list event) : bool :=
  forallb (fun x => Nat.eqb (npulls x t) (npulls x base)) (vars_of t)
  && Nat.eqb (length (filter is_end_any t)) (length (filter is_end_any base)).
Definition seq_spec_code (c : ecase) (q2 : query) (quiet : bool) (base t : list event) : sx :=
  SZ (b2z (prefixb base t) 1
      + b2z (forallb (fun x => pulls_in_orderb x t) (vars_of t)) 2
      + b2z (negb quiet || same_pulls base t) 4
      + b2z (examined_okb (mk_domains (e_doms c)) [e_query c; q2] (map fst (e_doms c)) t) 8)%Z.

(* flatten over one-shot iterators (implementation's logs only; Eql/Trace.v does not model iterator-valued data): the flattened
   iterators are numbered like variables, [gens] lists their elements.  1 rows / log of the n-stopped run are not prefixes
   of the full run's; 2 an iterator was not consumed as the prefix 0,1,2,...; 8 an element was pulled from a flattened
   iterator and not looked at (attribute read, or handed out) before more was pulled / the iterator was finished / the log
   ended -- so after k results no more than the elements up to the k-th result's have been taken *)
Definition flat_spec_code (gens : list (var * list val)) (full : list event) (ks : list (list event)) : sx :=
  let nk := combine (seq 0 (length ks)) ks in
  let all := full :: ks in
  SZ (b2z (forallb (fun p => rows_eqb (rows_of (snd p)) (firstn (fst p) (rows_of full)) && prefixb (snd p) full) nk) 1
      + b2z (forallb (fun t => forallb (fun x => pulls_in_orderb x t) (vars_of full)) all) 2
      + b2z (forallb (fun g => forallb (examined_scan (mk_domains gens) (fst g) None) all) gens) 8)%Z.
