(* C10 -- laziness.  An instrumented evaluator over the EQL core syntax (Eql/Syntax.v) that writes the EVENT LOG a run of the
   real engine produces, in Python's real order, and honours a consumer that stops pulling results.

   Continuation-passing style over an explicit store (DESIGN.md section 3): a Python generator pipeline is internal
   iteration, so a node is [cond -> binds -> (result -> store -> store * signal) -> store -> store * signal]; the consumer
   runs inside the continuation, [Stop] is "the caller never calls next() again".  The store is the event log itself
   (newest event first); the state of a variable's domain cache (hashed_data.py HashedIterable: a dict of the elements
   pulled so far + ONE shared one-shot generator) is read off the log: [npulls x] elements are cached, the generator is
   exhausted once [End x] was logged.

   Events (what harness-supplied user code can observe):
     Pull x i   the i-th element of x's domain is pulled out of the user's one-shot generator
     End x      x's generator is asked for one more element and finishes
     Get o a    attribute a of object o is read (getattr)
     Yield row  a result is handed to the consumer of an(...).evaluate()
   The rows themselves are those of the list-monad model Eql/Eval.v (bridge: Eql/TraceProofs.v). *)
From Coq Require Import List ZArith Bool Arith.
From Krrood Require Import Base.Sx Eql.Syntax Eql.Sat Eql.Eval Eql.ShowSpec Eql.TraceSpec.
Import ListNotations.
Open Scope nat_scope.

Definition store := list event.          (* newest first *)
Inductive signal := Continue | Stop.

(* sequencing of generator code: what follows runs only if the consumer has not stopped *)
Definition andthen {S : Type} (o : S * signal) (f : S -> S * signal) : S * signal :=
  match o with (s, Stop) => (s, Stop) | (s, Continue) => f s end.

(* a [for] loop over already available items *)
Fixpoint each {S A : Type} (f : A -> S -> S * signal) (l : list A) (s : S) : S * signal :=
  match l with
  | [] => (s, Continue)
  | a :: l' => andthen (f a s) (each f l')
  end.

(* HashedIterable.__iter__ (since 1997e3c): a position [index] into the cache; each round replays the cached elements from
   that position on (no user code runs), and when the replay has run dry takes ONE new element from the shared one-shot
   generator, caches it and replays it in the next round.  For the consumer this is: at position i, replay if i elements or
   more are cached, else pull element i and hand it out -- [touch].  (The code before 1997e3c replayed a live dict view and
   then pulled and yielded; same events for one consumer.) *)
Definition touch (x : var) (i : nat) (s : store) : store := if i <? npulls x s then s else Pull x i :: s.
(* ... when the replay has run dry and the generator has nothing more, the loop ends: the generator is asked once more and
   finishes ([End]); an already exhausted generator runs no user code when asked again *)
Definition finish (x : var) (s : store) : store := if ended x s then s else End x :: s.
Definition indexed {A : Type} (l : list A) : list (nat * A) := combine (seq 0 (length l)) l.
Definition get_ev (v : val) (a : nat) (s : store) : store := match v with VO o => Get o a :: s | _ => s end.

(* the scratch list of the Exists call that was opened as frame [n] *)
Fixpoint notes (n : nat) (s : store) : list (list (option val)) :=
  match s with
  | [] => []
  | Note m key :: s' => if Nat.eqb n m then key :: notes n s' else notes n s'
  | _ :: s' => notes n s'
  end.

Section Trace.
  Variable W : world.
  Variable D : domains.

  (* Variable._evaluate__ on an unbound variable: [for v in self._domain_: yield {**sources, id: v}] *)
  Definition enum (x : var) (k : val -> store -> store * signal) (s : store) : store * signal :=
    andthen (each (fun iv s0 => k (snd iv) (touch x (fst iv) s0)) (indexed (D x)) s)
            (fun s' => (finish x s', Continue)).

  (* operands (Variable / Literal / Attribute = DomainMapping._evaluate__, a generator expression over the child's results) *)
  Fixpoint tr_opnd (e : opnd) (b : binds) (k : binds * val -> store -> store * signal) (s : store) : store * signal :=
    match e with
    | OLit v => k (b, v) s
    | OVar x =>
        match lookup b x with
        | Some v => k (b, v) s
        | None => enum x (fun v => k ((x, v) :: b, v)) s
        end
    | OAttr e a => tr_opnd e b (fun p s1 => k (fst p, getattr W (snd p) a) (get_ev (snd p) a s1)) s
    end.

  (* ---- ForAll._evaluate__: the loop over the values of the universal variable.  The solution set is a pure function of
     the values seen so far (computed with the list-monad model [evalc] = Eval.eval c); the EVENTS are those of
     - get_all_candidate_solutions for the first value: the condition is evaluated completely ([drain_full]),
     - evaluate_condition for every candidate under every further value: the condition's generator is started, its FIRST
       result is looked at and the generator is abandoned ([drain_first]) -- whatever it enumerated stays half pulled,
     - [break] as soon as no candidate is left: the universal variable's generator is abandoned too (no [End]). ---- *)
  Section ForAllLoop.
    Variable trc : binds -> (res -> store -> store * signal) -> store -> store * signal.
    Variable evalc : binds -> list res.
    Variable y : var.
    Variable others : list var.

    Definition drain_full (b : binds) (s : store) : store := fst (trc b (fun _ s1 => (s1, Continue)) s).
    Definition drain_first (b : binds) (s : store) : store := fst (trc b (fun _ s1 => (s1, Stop)) s).
    Definition candidates (bv : binds) : list binds :=
      map (fun p : res => restrict others (fst p)) (filter (fun p : res => negb (snd p)) (evalc bv)).
    Definition narrow (bv : binds) (ss : list binds) : list binds :=
      filter (fun s1 => first_true (evalc (bv ++ s1))) ss.
    Definition narrow_events (bv : binds) (ss : list binds) (s : store) : store :=
      fold_left (fun s0 s1 => drain_first (bv ++ s1) s0) ss s.
    (* one value of the universal variable *)
    Definition fa_step (bv : binds) (S : option (list binds)) (s : store) : list binds * store :=
      match S with
      | None => (candidates bv, drain_full bv s)
      | Some ss => (narrow bv ss, narrow_events bv ss s)
      end.
    Fixpoint fa_loop (b : binds) (ivs : list (nat * val)) (S : option (list binds)) (s : store)
      : option (list binds) * store :=
      match ivs with
      | [] => (S, finish y s)
      | iv :: rest =>
          let r := fa_step ((y, snd iv) :: b) S (touch y (fst iv) s) in
          match fst r with
          | [] => (Some [], snd r)
          | _ => fa_loop b rest (Some (fst r)) (snd r)
          end
      end.
  End ForAllLoop.

  (* conditions, node by node as in symbolic.py (Comparator, AND, ElseIf, Union, Not, Exists, ForAll) *)
  Fixpoint tr_cond (c : cond) (b : binds) (k : res -> store -> store * signal) (s : store) : store * signal :=
    match c with
    | CCmp op l r =>
        if right_first b r then
          tr_opnd r b (fun p1 => tr_opnd l (fst p1) (fun p2 => k (fst p2, negb (apply_op W op (snd p2) (snd p1))))) s
        else
          tr_opnd l b (fun p1 => tr_opnd r (fst p1) (fun p2 => k (fst p2, negb (apply_op W op (snd p1) (snd p2))))) s
    | CAnd l r =>
        tr_cond l b (fun p s1 => if snd p then k (fst p, true) s1 else tr_cond r (fst p) k s1) s
    | CElseIf l r =>
        tr_cond l b (fun p s1 => if snd p then tr_cond r (fst p) k s1 else k (fst p, false) s1) s
    | CUnion l r =>
        (* since 6dfdafd the second pass hands on only the TRUE results of the right operand; the false ones are
           produced (their events happen) and dropped; [Pass] marks the moment the second pass begins (bookkeeping) *)
        andthen (tr_cond l b (fun p s1 => if snd p then tr_cond r (fst p) k s1 else k (fst p, false) s1) s)
                (fun s' => tr_cond r b (fun p s1 => if snd p then (s1, Continue) else k p s1) (Pass :: s'))
    | CNot c => tr_cond c b (fun p => k (fst p, negb (snd p))) s
    | CExists e c =>
        (* Exists._evaluate__: a lazy filter over the condition's results with a scratch list: false results are skipped, a
           true result is handed on iff the bindings of the OTHER variables were not handed on before in this call.
           The scratch list lives in the log as [Note] entries of this call's frame (opened with [Frame]). *)
        let others := exists_others e c in
        let fid := length s in
        tr_cond c b (fun p s1 =>
                       if snd p then (s1, Continue)
                       else let key := map (lookup (fst p)) others in
                            if existsb (key_eqb key) (notes fid s1) then (s1, Continue)
                            else k (fst p, false) (Note fid key :: s1))
                (Frame fid :: s)
    | CForAll y c =>
        let others := remove_var y (cond_vars c) in
        match lookup b y with
        | Some _ =>
            (* the universal variable is already bound: one round *)
            let r := fa_step (tr_cond c) (eval W D c) others b None s in
            each k (map (fun s1 => (s1 ++ b, false)) (fst r)) (snd r)
        | None =>
            let r := fa_loop (tr_cond c) (eval W D c) y others b (indexed (D y)) None s in
            match fst r with
            | None => k (b, false) (snd r)                       (* no value at all: holds vacuously *)
            | Some ss => each k (map (fun s1 => (s1 ++ b, false)) ss) (snd r)
            end
        end
    end.

  (* QueryObjectDescriptor.evaluate_selected_variables (since 32abf51): lazy nested loops over the selected expressions,
     leftmost varies slowest, each evaluated under the bindings the ones before it produced; a row is handed out as soon
     as the innermost loop has a value.  (Before: itertools.product over independent generators, which turned every
     generator into a tuple before the first row -- finding C10-a, kept as [tr_select_product] for the regression witness.) *)
  Fixpoint tr_select (sels : list opnd) (b : binds) (k : list val -> store -> store * signal) (s : store)
    : store * signal :=
    match sels with
    | [] => k [] s
    | e :: ss => tr_opnd e b (fun p s1 => tr_select ss (fst p) (fun row => k (snd p :: row)) s1) s
    end.

  (* the evaluator before 32abf51: drain every selected expression, then hand out the combinations *)
  Definition drain (e : opnd) (b : binds) (s : store) : store :=
    fst (tr_opnd e b (fun _ s1 => (s1, Continue)) s).
  Definition drain_all (sels : list opnd) (b : binds) (s : store) : store :=
    fold_left (fun s0 e => drain e b s0) sels s.
  Definition tr_select_product (sels : list opnd) (b : binds) (k : list val -> store -> store * signal) (s : store)
    : store * signal :=
    each k (select_product W D sels b) (drain_all sels b s).

  (* get_constrained_values keeps the true results of the condition *)
  Definition tr_run (q : query) (k : list val -> store -> store * signal) (s : store) : store * signal :=
    match q_cond q with
    | Some c => tr_cond c [] (fun p s1 => if snd p then (s1, Continue) else tr_select (q_sels q) (fst p) k s1) s
    | None => tr_select (q_sels q) [] k s
    end.

  (* the descriptor before 32abf51 (regression witness only) *)
  Definition tr_run_product (q : query) (k : list val -> store -> store * signal) (s : store) : store * signal :=
    match q_cond q with
    | Some c => tr_cond c [] (fun p s1 => if snd p then (s1, Continue) else tr_select_product (q_sels q) (fst p) k s1) s
    | None => tr_select_product (q_sels q) [] k s
    end.

  (* the consumer of an(...).evaluate(): takes a row; after its n-th row it never calls next() again *)
  Definition take (n : nat) (row : list val) (s : store) : store * signal :=
    let s' := Yield row :: s in (s', if n <=? nyields s' then Stop else Continue).
  Definition take_all (row : list val) (s : store) : store * signal := (Yield row :: s, Continue).

  (* the log after pulling n results (chronological order); n = 0: the generator was never started *)
  Definition trace_k (q : query) (n : nat) : list event :=
    match n with 0 => [] | _ => rev (fst (tr_run q (take n) [])) end.
  Definition trace_k_product (q : query) (n : nat) : list event :=
    match n with 0 => [] | _ => rev (fst (tr_run_product q (take n) [])) end.
  (* the log of list(an(...).evaluate()) *)
  Definition trace_full (q : query) : list event := rev (fst (tr_run q take_all [])).
  (* ---- several evaluations one after the other over the SAME variables (the same an(...) object evaluated again, or
     another query built over the same let-variables): the domain caches and their one-shot generators persist, so the
     next evaluation starts from the log the previous ones left ([enum] replays what is cached, then goes on pulling).
     A step (q, m) pulls m results from a fresh q.evaluate() and abandons the iterator. ---- *)
  Definition run_from (q : query) (m : nat) (s : store) : store :=
    match m with 0 => s | _ => fst (tr_run q (take (nyields s + m)) s) end.
  Definition store_seq (steps : list (query * nat)) : store :=
    fold_left (fun s qm => run_from (fst qm) (snd qm) s) steps [].
  Definition trace_seq (steps : list (query * nat)) : list event := rev (store_seq steps).
End Trace.

(* [full trace; trace_0 .. trace_(rows+1)] of a concrete case *)
Definition c10_traces (c : ecase) : sx :=
  let W := mk_world (e_world c) in
  let D := mk_domains (e_doms c) in
  let full := trace_full W D (e_query c) in
  SL [show_trace full;
      SL (map (fun n => show_trace (trace_k W D (e_query c) n)) (seq 0 (length (rows_of full) + 2)))].

(* the log after pulling n results of the case's query, abandoning the iterator, then pulling m results of q2 (same variables) *)
Definition c10_seq (c : ecase) (n : nat) (q2 : query) (m : nat) : sx :=
  show_trace (trace_seq (mk_world (e_world c)) (mk_domains (e_doms c)) [(e_query c, n); (q2, m)]).
