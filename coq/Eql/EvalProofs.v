(* C01 -- the evaluator model against the first-order Spec: the results of [eval] are a cylinder cover of the
   assignment space.  Completeness holds for every condition; soundness of a result of polarity [pol] holds when no
   Union occurs in a position of the opposite polarity ([snd_ok]) -- since 6dfdafd Union is as trustworthy as ElseIf. *)
From Coq Require Import List ZArith Bool Arith Lia.
From Krrood Require Import Eql.Syntax Eql.Sat Eql.Eval.
Import ListNotations.

Definition extends (rho : asg) (b : binds) : Prop :=
  forall x v, lookup b x = Some v -> rho x = v.

Lemma extends_nil rho : extends rho [].
Proof. intros x v H. discriminate. Qed.

Lemma extends_cons rho x v b :
  lookup b x = None ->
  (extends rho ((x, v) :: b) <-> rho x = v /\ extends rho b).
Proof.
  intros Hn. unfold extends. split.
  - intros H. split.
    + apply H. apply lookup_cons_eq.
    + intros y w Hl. apply H. rewrite lookup_cons_ne; auto. intros ->. congruence.
  - intros [H1 H2] y w. destruct (Nat.eq_dec y x) as [->|Hne].
    + rewrite lookup_cons_eq. intros [= <-]. exact H1.
    + rewrite lookup_cons_ne by exact Hne. apply H2.
Qed.

(* soundness polarity: [snd_ok pol c] = results of [c] whose truth is [pol] can be trusted *)
Fixpoint snd_ok (pol : bool) (c : cond) : bool :=
  match c with
  | CCmp _ _ _ => true
  | CAnd l r | CElseIf l r | CUnion l r => snd_ok pol l && snd_ok pol r
  | CNot c => snd_ok (negb pol) c
  | CExists _ _ | CForAll _ _ => false     (* quantifiers: not covered by the proofs yet; sampled against the Spec *)
  end.

Lemma snd_ok_qfree c : forall pol, snd_ok pol c = true -> qfree c = true.
Proof.
  induction c as [op l r|l IHl r IHr|l IHl r IHr|l IHl r IHr|c IH|e c IH|y c IH]; simpl; intros pol H; auto;
    try discriminate.
  - apply andb_prop in H as [Hl Hr]. rewrite (IHl _ Hl), (IHr _ Hr). reflexivity.
  - apply andb_prop in H as [Hl Hr]. rewrite (IHl _ Hl), (IHr _ Hr). reflexivity.
  - apply andb_prop in H as [Hl Hr]. rewrite (IHl _ Hl), (IHr _ Hr). reflexivity.
  - eauto.
Qed.

(* since 6dfdafd no logical operator is polarity-sensitive any more: for quantifier-free conditions [snd_ok] is [qfree] *)
Lemma snd_ok_is_qfree c : forall pol, snd_ok pol c = qfree c.
Proof.
  induction c as [op l r|l IHl r IHr|l IHl r IHr|l IHl r IHr|c IH|e c IH|y c IH]; simpl; intros pol; auto;
    try (now rewrite IHl, IHr).
Qed.

Lemma qfree_fv c : qfree c = true -> cond_fv c = cond_vars c.
Proof.
  induction c as [op l r|l IHl r IHr|l IHl r IHr|l IHl r IHr|c IH|e c IH|y c IH]; simpl; intros H; auto;
    try discriminate; apply andb_prop in H as [Hl Hr]; now rewrite IHl, IHr.
Qed.

Section Proofs.
  Variable W : world.
  Variable D : domains.

  Definition b_ok (b : binds) : Prop := forall x v, lookup b x = Some v -> In v (D x).

  Lemma b_ok_nil : b_ok [].
  Proof. intros x v H. discriminate. Qed.

  (* ---------- operands ---------- *)
  Lemma ev_opnd_sound e : forall b b' v,
    In (b', v) (ev_opnd W D e b) ->
    forall rho, extends rho b' -> extends rho b /\ den W rho e = v.
  Proof.
    induction e as [w|x|e IH a]; simpl; intros b b' v Hin rho He.
    - destruct Hin as [[= <- <-]|[]]. auto.
    - destruct (lookup b x) eqn:E.
      + destruct Hin as [[= <- <-]|[]]. split; auto.
      + apply in_map_iff in Hin as (w & [= <- <-] & Hw).
        apply extends_cons in He as [H1 H2]; auto.
    - apply in_map_iff in Hin as ([b1 v1] & [= <- <-] & H1). simpl in *.
      destruct (IH _ _ _ H1 rho He) as [H2 H3]. split; auto. now rewrite H3.
  Qed.

  Lemma ev_opnd_bok e : forall b b' v, In (b', v) (ev_opnd W D e b) -> b_ok b -> b_ok b'.
  Proof.
    induction e as [w|x|e IH a]; simpl; intros b b' v Hin Hb.
    - destruct Hin as [[= <- <-]|[]]. auto.
    - destruct (lookup b x) eqn:E.
      + destruct Hin as [[= <- <-]|[]]. auto.
      + apply in_map_iff in Hin as (w & [= <- <-] & Hw).
        intros y u. destruct (Nat.eq_dec y x) as [->|Hne].
        * rewrite lookup_cons_eq. intros [= <-]. exact Hw.
        * rewrite lookup_cons_ne by exact Hne. apply Hb.
    - apply in_map_iff in Hin as ([b1 v1] & [= <- <-] & H1). simpl in *. eauto.
  Qed.

  Lemma ev_opnd_complete e : forall b rho,
    extends rho b -> (forall x, In x (opnd_vars e) -> In (rho x) (D x)) ->
    exists b', In (b', den W rho e) (ev_opnd W D e b) /\ extends rho b'.
  Proof.
    induction e as [w|x|e IH a]; simpl; intros b rho He Hd.
    - exists b. auto.
    - destruct (lookup b x) eqn:E.
      + exists b. split; auto. left. now rewrite (He _ _ E).
      + exists ((x, rho x) :: b). split.
        * apply in_map_iff. exists (rho x). split; [reflexivity|]. apply Hd. unfold opnd_vars. simpl. auto.
        * apply extends_cons; auto.
    - destruct (IH b rho He Hd) as (b' & H1 & H2).
      exists b'. split; auto. apply in_map_iff. exists (b', den W rho e). auto.
  Qed.

  (* ---------- comparator: either operand order gives the same characterisation ---------- *)
  Lemma ev_cmp_inv op l r b b' f :
    In (b', f) (ev_cmp W D op l r b) ->
    exists b1 lv rv, f = negb (apply_op W op lv rv) /\
      ((In (b1, lv) (ev_opnd W D l b) /\ In (b', rv) (ev_opnd W D r b1)) \/
       (In (b1, rv) (ev_opnd W D r b) /\ In (b', lv) (ev_opnd W D l b1))).
  Proof.
    unfold ev_cmp. destruct (right_first b r); intros H;
      apply in_flat_map in H as ([b1 v1] & H1 & H2);
      apply in_map_iff in H2 as ([b2 v2] & [= <- <-] & H2); simpl in *.
    - exists b1, v2, v1. split; auto.
    - exists b1, v1, v2. split; auto.
  Qed.

  Lemma ev_cmp_sound op l r b b' f :
    In (b', f) (ev_cmp W D op l r b) ->
    forall rho, extends rho b' ->
      extends rho b /\ f = negb (apply_op W op (den W rho l) (den W rho r)).
  Proof.
    intros H rho He. apply ev_cmp_inv in H as (b1 & lv & rv & -> & [[H1 H2]|[H1 H2]]).
    - destruct (ev_opnd_sound _ _ _ _ H2 rho He) as [He1 Hr].
      destruct (ev_opnd_sound _ _ _ _ H1 rho He1) as [He0 Hl]. split; auto. now rewrite Hl, Hr.
    - destruct (ev_opnd_sound _ _ _ _ H2 rho He) as [He1 Hl].
      destruct (ev_opnd_sound _ _ _ _ H1 rho He1) as [He0 Hr]. split; auto. now rewrite Hl, Hr.
  Qed.

  Lemma ev_cmp_bok op l r b b' f : In (b', f) (ev_cmp W D op l r b) -> b_ok b -> b_ok b'.
  Proof.
    intros H Hb. apply ev_cmp_inv in H as (b1 & lv & rv & _ & [[H1 H2]|[H1 H2]]);
      eapply ev_opnd_bok; eauto; eapply ev_opnd_bok; eauto.
  Qed.

  Lemma ev_cmp_complete op l r b rho :
    extends rho b -> (forall x, In x (opnd_vars l ++ opnd_vars r) -> In (rho x) (D x)) ->
    exists b', In (b', negb (apply_op W op (den W rho l) (den W rho r))) (ev_cmp W D op l r b) /\ extends rho b'.
  Proof.
    intros He Hd. unfold ev_cmp. destruct (right_first b r).
    - destruct (ev_opnd_complete r b rho He) as (b1 & H1 & He1); [intros; apply Hd, in_or_app; auto|].
      destruct (ev_opnd_complete l b1 rho He1) as (b2 & H2 & He2); [intros; apply Hd, in_or_app; auto|].
      exists b2. split; auto. apply in_flat_map. exists (b1, den W rho r). split; auto.
      apply in_map_iff. exists (b2, den W rho l). auto.
    - destruct (ev_opnd_complete l b rho He) as (b1 & H1 & He1); [intros; apply Hd, in_or_app; auto|].
      destruct (ev_opnd_complete r b1 rho He1) as (b2 & H2 & He2); [intros; apply Hd, in_or_app; auto|].
      exists b2. split; auto. apply in_flat_map. exists (b1, den W rho l). split; auto.
      apply in_map_iff. exists (b2, den W rho r). auto.
  Qed.

  (* ---------- conditions ---------- *)
  Lemma eval_mono c : qfree c = true -> forall b b' f, In (b', f) (eval W D c b) -> forall rho, extends rho b' -> extends rho b.
  Proof.
    induction c as [op l r|l IHl r IHr|l IHl r IHr|l IHl r IHr|c IH|e c IH|y c IH]; simpl; intros Q b b' f Hin rho He; try discriminate;
      try (apply andb_prop in Q as [Ql Qr]; specialize (IHl Ql); specialize (IHr Qr)); try specialize (IH Q).
    - eapply ev_cmp_sound; eauto.
    - apply in_flat_map in Hin as ([b1 f1] & H1 & H2). simpl in H2. destruct f1.
      + destruct H2 as [[= <- <-]|[]]. eauto.
      + eauto.
    - apply in_flat_map in Hin as ([b1 f1] & H1 & H2). simpl in H2. destruct f1.
      + eauto.
      + destruct H2 as [[= <- <-]|[]]. eauto.
    - apply in_app_or in Hin as [Hin|Hin]; [|apply filter_In in Hin as [Hin _]; eauto].
      apply in_flat_map in Hin as ([b1 f1] & H1 & H2). simpl in H2. destruct f1.
      + eauto.
      + destruct H2 as [[= <- <-]|[]]. eauto.
    - apply in_map_iff in Hin as ([b1 f1] & [= <- <-] & H1). eauto.
  Qed.

  Lemma eval_bok c : qfree c = true -> forall b b' f, In (b', f) (eval W D c b) -> b_ok b -> b_ok b'.
  Proof.
    induction c as [op l r|l IHl r IHr|l IHl r IHr|l IHl r IHr|c IH|e c IH|y c IH]; simpl; intros Q b b' f Hin Hb; try discriminate;
      try (apply andb_prop in Q as [Ql Qr]; specialize (IHl Ql); specialize (IHr Qr)); try specialize (IH Q).
    - eapply ev_cmp_bok; eauto.
    - apply in_flat_map in Hin as ([b1 f1] & H1 & H2). simpl in H2. destruct f1.
      + destruct H2 as [[= <- <-]|[]]. eauto.
      + eauto.
    - apply in_flat_map in Hin as ([b1 f1] & H1 & H2). simpl in H2. destruct f1.
      + eauto.
      + destruct H2 as [[= <- <-]|[]]. eauto.
    - apply in_app_or in Hin as [Hin|Hin]; [|apply filter_In in Hin as [Hin _]; eauto].
      apply in_flat_map in Hin as ([b1 f1] & H1 & H2). simpl in H2. destruct f1.
      + eauto.
      + destruct H2 as [[= <- <-]|[]]. eauto.
    - apply in_map_iff in Hin as ([b1 f1] & [= <- <-] & H1). eauto.
  Qed.

  (* a result whose truth is [pol] tells the truth about every assignment it covers *)
  Lemma eval_sound c : forall pol b b',
    snd_ok pol c = true -> In (b', negb pol) (eval W D c b) ->
    forall rho, extends rho b' -> sat W D rho c = pol.
  Proof.
    induction c as [op l r|l IHl r IHr|l IHl r IHr|l IHl r IHr|c IH|e c IH|y c IH]; simpl; intros pol b b' Hok Hin rho He; try discriminate.
    - destruct (ev_cmp_sound _ _ _ _ _ _ Hin rho He) as [_ Hf].
      destruct (apply_op W op (den W rho l) (den W rho r)), pol; simpl in Hf; congruence.
    - apply andb_prop in Hok as [Hl Hr].
      apply in_flat_map in Hin as ([b1 f1] & H1 & H2). simpl in H2. destruct f1.
      + (* left false: result is (b1, true), so pol = false *)
        destruct H2 as [[= <- Hp]|[]]. destruct pol; [discriminate|].
        rewrite (IHl false _ _ Hl H1 rho He). reflexivity.
      + (* left true, right decides *)
        destruct pol.
        * rewrite (IHr true _ _ Hr H2 rho He).
          rewrite (IHl true _ _ Hl H1 rho (eval_mono r (snd_ok_qfree r _ Hr) _ _ _ H2 rho He)). reflexivity.
        * rewrite (IHr false _ _ Hr H2 rho He). apply andb_false_r.
    - apply andb_prop in Hok as [Hl Hr].
      apply in_flat_map in Hin as ([b1 f1] & H1 & H2). simpl in H2. destruct f1.
      + destruct pol.
        * rewrite (IHr true _ _ Hr H2 rho He). apply orb_true_r.
        * rewrite (IHr false _ _ Hr H2 rho He).
          rewrite (IHl false _ _ Hl H1 rho (eval_mono r (snd_ok_qfree r _ Hr) _ _ _ H2 rho He)). reflexivity.
      + destruct H2 as [[= <- Hp]|[]]. destruct pol; [|discriminate].
        rewrite (IHl true _ _ Hl H1 rho He). reflexivity.
    - apply andb_prop in Hok as [Hl Hr].
      apply in_app_or in Hin as [Hin|Hin].
      + apply in_flat_map in Hin as ([b1 f1] & H1 & H2). simpl in H2. destruct f1.
        * destruct pol.
          -- rewrite (IHr true _ _ Hr H2 rho He). apply orb_true_r.
          -- rewrite (IHr false _ _ Hr H2 rho He).
             rewrite (IHl false _ _ Hl H1 rho (eval_mono r (snd_ok_qfree r _ Hr) _ _ _ H2 rho He)). reflexivity.
        * destruct H2 as [[= <- Hp]|[]]. destruct pol; [|discriminate].
          rewrite (IHl true _ _ Hl H1 rho He). reflexivity.
      + (* second pass: only true results of the right operand *)
        apply filter_In in Hin as [Hin Hf]. simpl in Hf. destruct pol; [|discriminate].
        rewrite (IHr true _ _ Hr Hin rho He). apply orb_true_r.
    - apply in_map_iff in Hin as ([b1 f1] & [= <- Hf] & H1).
      assert (f1 = negb (negb pol)) by (destruct f1, pol; simpl in *; congruence). subst f1.
      rewrite (IH (negb pol) _ _ Hok H1 rho He). apply negb_involutive.
  Qed.

  (* every assignment is covered by a result that tells the truth about it -- for every condition *)
  Lemma eval_complete c : qfree c = true -> forall b rho,
    extends rho b -> (forall x, In x (cond_vars c) -> In (rho x) (D x)) ->
    exists b', In (b', negb (sat W D rho c)) (eval W D c b) /\ extends rho b'.
  Proof.
    induction c as [op l r|l IHl r IHr|l IHl r IHr|l IHl r IHr|c IH|e c IH|y c IH]; simpl; intros Q b rho He Hd; try discriminate;
      try (apply andb_prop in Q as [Ql Qr]; specialize (IHl Ql); specialize (IHr Qr)); try specialize (IH Q).
    - apply ev_cmp_complete; auto.
    - destruct (IHl b rho He) as (b1 & H1 & He1); [intros; apply Hd, in_or_app; auto|].
      destruct (sat W D rho l) eqn:Sl; simpl in *.
      + destruct (IHr b1 rho He1) as (b2 & H2 & He2); [intros; apply Hd, in_or_app; auto|].
        exists b2. split; auto. apply in_flat_map. exists (b1, false). auto.
      + exists b1. split; auto. apply in_flat_map. exists (b1, true). split; simpl; auto.
    - destruct (IHl b rho He) as (b1 & H1 & He1); [intros; apply Hd, in_or_app; auto|].
      destruct (sat W D rho l) eqn:Sl; simpl in *.
      + exists b1. split; auto. apply in_flat_map. exists (b1, false). split; simpl; auto.
      + destruct (IHr b1 rho He1) as (b2 & H2 & He2); [intros; apply Hd, in_or_app; auto|].
        exists b2. split; auto. apply in_flat_map. exists (b1, true). auto.
    - destruct (IHl b rho He) as (b1 & H1 & He1); [intros; apply Hd, in_or_app; auto|].
      destruct (sat W D rho l) eqn:Sl; simpl in *.
      + exists b1. split; auto. apply in_or_app. left. apply in_flat_map. exists (b1, false). split; simpl; auto.
      + destruct (IHr b1 rho He1) as (b2 & H2 & He2); [intros; apply Hd, in_or_app; auto|].
        exists b2. split; auto. apply in_or_app. left. apply in_flat_map. exists (b1, true). auto.
    - destruct (IH b rho He Hd) as (b1 & H1 & He1).
      exists b1. split; auto. apply in_map_iff. exists (b1, negb (sat W D rho c)). auto.
  Qed.
End Proofs.
