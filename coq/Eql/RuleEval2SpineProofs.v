(* C08 proofs for the two-variable evaluator, part 2: the joining refinement.
   Evaluated with c bound and b unbound, the join leaf yields one row per body; the rows of the bodies that are not
   c.parent are false and, on their way up through the ExceptIf nodes written inside the joining refinement's block,
   only rewrite `_is_false_` flags.  [Proto t B Q] is [Single] for continuations that, on false rows, only rewrite the
   flags of the nodes in Q. *)
From Coq Require Import List ZArith Bool Arith Lia.
From Krrood Require Import Eql.RuleSpec Eql.RuleEval Eql.RuleBuild Eql.RulePure Eql.RuleEval2 Eql.RuleEvalProofs
  Eql.RuleEval2Proofs.
Import ListNotations.

Definition onlyflag (Q : nat -> Prop) (S S' : store2) : Prop :=
  same_but Q S S' /\ forall n f, f <> FLAG -> get2 f n S' = get2 f n S.
Lemma of_refl Q S : onlyflag Q S S.
Proof. split; [apply sb_refl|reflexivity]. Qed.
Lemma of_trans (Q : nat -> Prop) S S1 S2 : onlyflag Q S S1 -> onlyflag Q S1 S2 -> onlyflag Q S S2.
Proof. intros [A1 A2] [B1 B2]. split; [eapply sb_trans; eauto|]. intros n f Hf. rewrite B2, A2; auto. Qed.
Lemma of_mono (P Q : nat -> Prop) S S' : (forall n, P n -> Q n) -> onlyflag P S S' -> onlyflag Q S S'.
Proof. intros H [A1 A2]. split; [eapply sb_mono; eauto|exact A2]. Qed.
Lemma of_setflag (Q : nat -> Prop) id b S : Q id -> onlyflag Q S (setb2 FLAG id b S).
Proof. intros H. split; [apply sb_setb2; exact H|]. intros n f Hf. apply get2_setb2_diff. left. congruence. Qed.
Definition kflag (Q : nat -> Prop) (k : K2) : Prop := forall B' S', onlyflag Q S' (k B' true S').

(* S' agrees with S except on the cells of the nodes in P and on the flags of the nodes in Q *)
Definition rel (P Q : nat -> Prop) (S S' : store2) : Prop :=
  same_but (fun n => P n \/ Q n) S S' /\ forall n f, ~ P n -> f <> FLAG -> get2 f n S' = get2 f n S.
Lemma rel_refl P Q S : rel P Q S S.
Proof. split; [apply sb_refl|reflexivity]. Qed.
Lemma rel_trans (P Q : nat -> Prop) S S1 S2 : rel P Q S S1 -> rel P Q S1 S2 -> rel P Q S S2.
Proof. intros [A1 A2] [B1 B2]. split; [eapply sb_trans; eauto|]. intros n f Hn Hf. rewrite B2, A2; auto. Qed.
Lemma rel_mono (P Q P2 Q2 : nat -> Prop) S S' :
  (forall n, P n -> P2 n) -> (forall n, Q n -> P2 n \/ Q2 n) -> rel P Q S S' -> rel P2 Q2 S S'.
Proof.
  intros H1 H2 [A1 A2]. split.
  - eapply sb_mono; [|exact A1]. intros n [H|H]; [left; auto|auto].
  - intros n f Hn Hf. apply A2; auto.
Qed.
Lemma sb_rel (P P2 Q : nat -> Prop) S S' : (forall n, P n -> P2 n) -> same_but P S S' -> rel P2 Q S S'.
Proof.
  intros H A. split; [eapply sb_mono; [|exact A]; intros n Hn; left; auto|].
  intros n f Hn _. destruct A as [_ [_ [_ A]]]. apply A. intro. apply Hn. auto.
Qed.
Lemma of_rel (P' P Q : nat -> Prop) S S' : (forall n, P' n -> P n \/ Q n) -> onlyflag P' S S' -> rel P Q S S'.
Proof. intros H [A1 A2]. split; [eapply sb_mono; eauto|]. intros n f _ Hf. apply A2. exact Hf. Qed.
Lemma rel_get (P Q : nat -> Prop) S S' f n : rel P Q S S' -> ~ P n -> ~ Q n -> get2 f n S' = get2 f n S.
Proof. intros [A _] H1 H2. apply (sb_get _ _ _ _ _ A). intros [H|H]; contradiction. Qed.
Lemma rel_nf (P Q : nat -> Prop) S S' f n : rel P Q S S' -> ~ P n -> f <> FLAG -> get2 f n S' = get2 f n S.
Proof. intros [_ A] H1 H2. apply A; assumption. Qed.
Lemma rel_root (P Q : nat -> Prop) S S' : rel P Q S S' -> rootsel2 S' = rootsel2 S.
Proof. intros [A _]. apply (sb_root _ _ _ A). Qed.

Lemma enum_from_split {A} (L : list A) : forall p a j, nth_error L p = Some a ->
  enum_from j L = enum_from j (firstn p L) ++ (j + p, a) :: enum_from (S (j + p)) (skipn (S p) L).
Proof.
  induction L as [|x L IH]; intros p a j H; [destruct p; discriminate|].
  destruct p as [|p]; simpl in *.
  - inversion H; subst. rewrite Nat.add_0_r. reflexivity.
  - rewrite (IH p a (S j) H). replace (S j + p) with (j + S p) by lia. reflexivity.
Qed.
Lemma enum_from_ge {A} (L : list A) : forall j i x, In (i, x) (enum_from j L) -> j <= i.
Proof.
  induction L as [|y L IH]; intros j i x H; [destruct H|]. simpl in H. destruct H as [E|H].
  - inversion E; subst. lia.
  - apply IH in H. lia.
Qed.
Lemma enum_from_lt {A} (L : list A) : forall j i x, In (i, x) (enum_from j L) -> i < j + length L.
Proof.
  induction L as [|y L IH]; intros j i x H; [destruct H|]. simpl in H. destruct H as [E|H].
  - inversion E; subst. simpl. lia.
  - apply IH in H. simpl. lia.
Qed.

Section Spine.
  Variable selof : nat -> nat.
  Variables (Cs : list celem) (Bs : list belem).

  Definition Proto (t : tree) (B : bind2) (Q : nat -> Prop) : Prop :=
    forall k S, kflag Q k -> ~ In (rootsel2 S) (ids t) -> dynclear2 t S -> keeps2 (inT t) k ->
      (forall n, Q n -> ~ In n (ids t)) ->
      exists S1,
        rel (inT t) Q S S1 /\
        getb2 FLAG (root_id t) S1 = fst (fst (pe2 Bs t B)) /\
        concl_now2 t S1 = snd (fst (pe2 Bs t B)) /\
        rel (inT t) Q (k (snd (pe2 Bs t B)) (fst (fst (pe2 Bs t B))) S1) (ev2 selof Cs Bs t (Some B) k S) /\
        dynclear2 t (ev2 selof Cs Bs t (Some B) k S).

  Lemma proto_join_leaf id cs c B Q a :
    is_join cs = true -> nth_error Bs (parent_of B) = Some a -> Proto (Leaf id cs c) B Q.
  Proof.
    intros Hj Hp k S Hkf Hroot Hdc Hk HQ.
    cbn [pe2 ev2]. rewrite Hj, Hp. cbn [fst snd].
    set (p := parent_of B) in *.
    set (Br := {| bc := bc B; bb := Some (p, a) |}).
    set (fr := negb (holds (elem_of Br) (tl cs))).
    set (step := fun (S : store2) (ia : nat * belem) =>
                   k {| bc := bc B; bb := Some ia |}
                     (negb (Nat.eqb (fst ia) p && holds (elem_of {| bc := bc B; bb := Some ia |}) (tl cs)))
                     (setb2 FLAG id (negb (Nat.eqb (fst ia) p && holds (elem_of {| bc := bc B; bb := Some ia |}) (tl cs))) S)).
    assert (HQid : forall n, (n = id \/ Q n) -> inT (Leaf id cs c) n \/ Q n).
    { intros n [->|H]; [left; red; simpl; auto|right; exact H]. }
    assert (Hfalse : forall L S0, (forall i x, In (i, x) L -> i <> p) ->
               onlyflag (fun n => n = id \/ Q n) S0 (fold_left step L S0)).
    { induction L as [|[i x] L IHL]; intros S0 HL; [apply of_refl|]. cbn [fold_left].
      eapply of_trans; [|apply IHL; intros i' x' H'; apply (HL i' x'); right; exact H'].
      unfold step. cbn [fst]. assert (E : Nat.eqb i p = false) by (apply Nat.eqb_neq; apply (HL i x); left; reflexivity).
      rewrite E. cbn [andb negb].
      eapply of_trans; [apply (of_setflag (fun n => n = id \/ Q n) id true S0); left; reflexivity|].
      apply (of_mono Q); [intros n H; right; exact H|apply Hkf]. }
    unfold enum. rewrite (enum_from_split Bs p a 0 Hp). rewrite fold_left_app. cbn [fold_left Nat.add].
    set (Spre := fold_left step (enum_from 0 (firstn p Bs)) S).
    assert (Hpre : onlyflag (fun n => n = id \/ Q n) S Spre).
    { apply Hfalse. intros i x Hin. apply enum_from_lt in Hin. rewrite firstn_length in Hin. lia. }
    assert (Hstep : step Spre (p, a) = k Br fr (setb2 FLAG id fr Spre)).
    { unfold step. cbn [fst]. rewrite Nat.eqb_refl. reflexivity. }
    rewrite Hstep.
    set (S1 := setb2 FLAG id fr Spre).
    assert (HS1 : onlyflag (fun n => n = id \/ Q n) S S1).
    { eapply of_trans; [exact Hpre|]. apply of_setflag. left. reflexivity. }
    assert (Hpost : onlyflag (fun n => n = id \/ Q n) (k Br fr S1)
                      (fold_left step (enum_from (Datatypes.S p) (skipn (Datatypes.S p) Bs)) (k Br fr S1))).
    { apply Hfalse. intros i x Hin. apply enum_from_ge in Hin. lia. }
    exists S1. refine (conj _ (conj _ (conj eq_refl (conj _ _)))).
    - apply (of_rel _ _ _ _ _ HQid HS1).
    - cbn [root_id]. apply getb2_setb2_same.
    - apply (of_rel _ _ _ _ _ HQid Hpost).
    - intros n [<-|[]]. rewrite (proj2 Hpost) by (unfold DYN, FLAG; lia).
      rewrite (Hk Br fr S1 DYN id) by (red; simpl; auto). rewrite (proj2 HS1) by (unfold DYN, FLAG; lia). apply Hdc. simpl. auto.
  Qed.

  (* an ExceptIf written inside the joining refinement's block: its left operand carries the join *)
  Lemma proto_exc id l r B Q :
    nextfree l = true -> nextfree r = true -> NoDup (ids (Node id SExc l r)) ->
    Proto l B (fun n => n = id \/ Q n) -> SingleI selof Cs Bs r (snd (pe2 Bs l B)) -> Proto (Node id SExc l r) B Q.
  Proof.
    intros Hnl Hnr Hnd Hl Hr k S Hkf Hroot Hdc Hk HQ.
    cbn [ids] in Hnd. apply NoDup_cons_iff in Hnd. destruct Hnd as [Hid Hnd].
    assert (Hidl : ~ In id (ids l)) by (intro; apply Hid, in_or_app; auto).
    assert (Hidr : ~ In id (ids r)) by (intro; apply Hid, in_or_app; auto).
    assert (Hlr : forall n, In n (ids l) -> ~ In n (ids r)) by (apply nodup_app_disj; exact Hnd).
    assert (Hrl : ~ In (rootsel2 S) (ids l)) by (intro; apply Hroot; simpl; right; apply in_or_app; auto).
    assert (Hrr : ~ In (rootsel2 S) (ids r)) by (intro; apply Hroot; simpl; right; apply in_or_app; auto).
    assert (Hrid : id <> rootsel2 S) by (intro E; apply Hroot; rewrite <- E; simpl; auto).
    assert (Hdcl : dynclear2 l S) by (intros n Hn; apply Hdc; simpl; right; apply in_or_app; auto).
    assert (Hdid : get2 DYN id S = []) by (apply Hdc; simpl; auto).
    assert (Hml : forall n, inT l n -> inT (Node id SExc l r) n) by (intros n Hn; red; simpl; right; apply in_or_app; auto).
    assert (Hmr : forall n, inT r n -> inT (Node id SExc l r) n) by (intros n Hn; red; simpl; right; apply in_or_app; auto).
    assert (Hmi : forall n, n = id -> inT (Node id SExc l r) n) by (intros n ->; red; simpl; auto).
    assert (Hkid : forall B0 f S' f', get2 f' id (k B0 f S') = get2 f' id S') by (intros; apply Hk; red; simpl; auto).
    assert (HklK : keeps2 (inT l) k) by (intros ? ? ? ? ? Hx; apply Hk; apply Hml; exact Hx).
    assert (HkrK : keeps2 (inT r) k) by (intros ? ? ? ? ? Hx; apply Hk; apply Hmr; exact Hx).
    set (Q' := fun n => n = id \/ Q n) in *.
    assert (HQ'l : forall n, Q' n -> ~ In n (ids l)).
    { intros n [->|Hq]; [exact Hidl|]. intro Hx. apply (HQ n Hq). simpl. right. apply in_or_app. auto. }
    assert (HmQ : forall n, Q' n -> inT (Node id SExc l r) n \/ Q n) by (intros n [->|Hq]; [left; apply Hmi; reflexivity|right; exact Hq]).
    assert (Hout : forall n, In n (ids r) -> ~ inT l n /\ ~ Q' n).
    { intros n Hn. split; [intro Hx; exact (Hlr n Hx Hn)|]. intros [->|Hq]; [contradiction|].
      apply (HQ n Hq). simpl. right. apply in_or_app. auto. }
    assert (NF1 : DYN <> FLAG) by (unfold DYN, FLAG; lia).
    assert (NF2 : RY <> FLAG) by (unfold RY, FLAG; lia).
    cbn [ev2].
    match goal with |- context [ev2 selof Cs Bs l (Some B) ?K S] => set (KK := K) end.
    assert (HKK : keeps2 (inT l) KK).
    { intros B0 fl S1 f0 n0 Hp0. red in Hp0. unfold KK.
      assert (id <> n0) by (intro; subst; contradiction).
      destruct fl.
      - rewrite HklK by exact Hp0. apply get2_setb2_diff. right. assumption.
      - match goal with |- get2 _ _ (if getb2 RY id ?S3 then _ else _) = _ =>
          assert (H3 : get2 f0 n0 S3 = get2 f0 n0 S1) end.
        { rewrite (ev2_frame selof Cs Bs r Hnr (inT l)); auto.
          - rewrite !get2_setb2_diff by (right; assumption). reflexivity.
          - intros n Hn Hn'. exact (Hlr n Hn' Hn).
          - intros B' f' S' f1 n1 Hp1. destruct f'; [reflexivity|]. red in Hp1.
            assert (id <> n1) by (intro; subst; contradiction).
            rewrite (yield_upd2_other selof (inT l) id _ _ k _ f1 n1 HklK Hp1 H0).
            apply get2_setb2_diff. right. assumption. }
        destruct (getb2 RY id _).
        + rewrite get2_set2_diff by (right; assumption). exact H3.
        + rewrite (yield_upd2_other selof (inT l) id _ _ k _ f0 n0 HklK Hp0 H).
          rewrite get2_set2_diff by (right; assumption). exact H3. }
    assert (HKKf : kflag Q' KK).
    { intros B' S'. unfold KK. cbv beta iota.
      eapply of_trans; [apply (of_setflag Q' id true S'); left; reflexivity|].
      apply (of_mono Q); [intros n Hq; right; exact Hq|apply Hkf]. }
    destruct (Hl KK S HKKf Hrl Hdcl HKK HQ'l) as [S1l [Hsb1 [Hfl1 [Hcl1 [Hfin1 Hfin1d]]]]].
    set (Sf := ev2 selof Cs Bs l (Some B) KK S) in *.
    cbn [pe2]. destruct (pe2 Bs l B) as [[fl cl] Bl] eqn:Epl. cbn [fst snd] in *.
    assert (Hr_S1l : forall f n, In n (ids r) -> get2 f n S1l = get2 f n S).
    { intros f n Hn. destruct (Hout n Hn). apply (rel_get _ _ _ _ _ _ Hsb1); assumption. }
    destruct fl.
    - (* the base does not hold: its false row is passed through *)
      exists (setb2 FLAG id true S1l). cbn [fst snd].
      refine (conj _ (conj _ (conj _ (conj _ _)))).
      + eapply rel_trans; [apply (rel_mono _ _ _ _ _ _ Hml HmQ Hsb1)|]. apply (sb_rel (fun n => n = id)); [exact Hmi|]. apply sb_setb2. reflexivity.
      + apply getb2_setb2_same.
      + cbn [concl_now2]. rewrite get2_setb2_diff by (left; unfold FLAG, DYN; lia). rewrite (rel_nf _ _ _ _ _ _ Hsb1 Hidl NF1). exact Hdid.
      + unfold KK in Hfin1. cbv beta iota zeta in Hfin1. apply (rel_mono _ _ _ _ _ _ Hml HmQ Hfin1).
      + unfold KK in Hfin1, Hfin1d. cbv beta iota zeta in Hfin1, Hfin1d. intros n [<-|Hn].
        * rewrite (rel_nf _ _ _ _ _ _ Hfin1 Hidl NF1). rewrite Hkid. rewrite get2_setb2_diff by (left; unfold FLAG, DYN; lia).
          rewrite (rel_nf _ _ _ _ _ _ Hsb1 Hidl NF1). exact Hdid.
        * apply in_app_or in Hn. destruct Hn as [Hn|Hn]; [apply Hfin1d; exact Hn|].
          destruct (Hout n Hn) as [Ho1 Ho2].
          rewrite (rel_get _ _ _ _ _ _ Hfin1 Ho1 Ho2). rewrite HkrK by exact Hn.
          rewrite get2_setb2_diff by (right; intro E; subst; contradiction).
          rewrite Hr_S1l by exact Hn. apply Hdc. simpl. right. apply in_or_app. auto.
    - (* the base holds: the exception branch decides *)
      unfold KK in Hfin1, Hfin1d. cbv beta iota zeta in Hfin1, Hfin1d.
      match type of Hfin1 with context [ev2 selof Cs Bs r (Some Bl) ?K1 ?SS] => set (K' := K1) in *; set (S2 := SS) in * end.
      assert (HS2 : same_but (fun n => n = id) S1l S2).
      { unfold S2. eapply sb_trans; apply sb_setb2; reflexivity. }
      assert (HS2flag : getb2 FLAG id S2 = false).
      { unfold S2. rewrite getb2_setb2_diff by (left; unfold RY, FLAG; lia). apply getb2_setb2_same. }
      assert (HS2ry : getb2 RY id S2 = false) by (apply getb2_setb2_same).
      assert (HS2dyn : get2 DYN id S2 = []).
      { unfold S2. rewrite !get2_setb2_diff by (left; unfold RY, FLAG, DYN; lia). rewrite (rel_nf _ _ _ _ _ _ Hsb1 Hidl NF1). exact Hdid. }
      assert (HS2r : forall f n, In n (ids r) -> get2 f n S2 = get2 f n S).
      { intros f n Hn. rewrite (sb_get _ _ _ _ _ HS2) by (intro E; subst; contradiction). apply Hr_S1l. exact Hn. }
      assert (HS2root : rootsel2 S2 = rootsel2 S) by (rewrite (sb_root _ _ _ HS2); apply (rel_root _ _ _ _ Hsb1)).
      assert (Hrr2 : ~ In (rootsel2 S2) (ids r)) by (rewrite HS2root; exact Hrr).
      assert (Hdcr : dynclear2 r S2).
      { intros n Hn. rewrite HS2r by exact Hn. apply Hdc. simpl. right. apply in_or_app. auto. }
      assert (HK' : keeps2 (inT r) K').
      { intros B' f' S' f1 n1 Hp1. red in Hp1. unfold K'. destruct f'; [reflexivity|].
        assert (Hne : id <> n1) by (intro; subst; contradiction).
        rewrite (yield_upd2_other selof (inT r) id _ _ k _ f1 n1 HkrK Hp1 Hne).
        apply get2_setb2_diff. right. exact Hne. }
      assert (HK'i : kign K') by (intros B' S'; reflexivity).
      destruct (Hr K' S2 HK'i Hrr2 Hdcr HK') as [S1r [Hsb2 [Hfl2 [Hcl2 [Hfin2 Hfin2d]]]]].
      destruct (pe2 Bs r Bl) as [[fr cr] Br] eqn:Epr. cbn [fst snd] in *.
      assert (Hid1r : forall f, get2 f id S1r = get2 f id S2) by (intros f; apply (sb_get _ _ _ _ _ Hsb2); exact Hidr).
      assert (Hl1r : forall f n, In n (ids l) -> get2 f n S1r = get2 f n S1l).
      { intros f n Hn. rewrite (sb_get _ _ _ _ _ Hsb2) by (exact (Hlr n Hn)).
        apply (sb_get _ _ _ _ _ HS2). intro E. subst. contradiction. }
      assert (Hroot1r : rootsel2 S1r = rootsel2 S) by (rewrite (sb_root _ _ _ Hsb2); exact HS2root).
      destruct fr.
      + (* the exception does not hold: the rule's own conclusion *)
        unfold K' in Hfin2 at 1. cbv beta iota in Hfin2.
        set (S3 := ev2 selof Cs Bs r (Some Bl) K' S2) in *.
        assert (Hid3 : forall f, get2 f id S3 = get2 f id S2).
        { intros f. rewrite (sb_get _ _ _ _ _ Hfin2) by exact Hidr. apply Hid1r. }
        assert (Hry : getb2 RY id S3 = false) by (unfold getb2; rewrite Hid3; exact HS2ry).
        rewrite Hry in Hfin1.
        set (S4 := set2 RY id (get2 RY id (setb2 FLAG id false S1l)) S3) in *.
        assert (HS4 : same_but (fun n => n = id) S3 S4) by (apply sb_set2; reflexivity).
        assert (Hl4 : forall f n, In n (ids l) -> get2 f n S4 = get2 f n S1l).
        { intros f n Hn. rewrite (sb_get _ _ _ _ _ HS4) by (intro E; subst; contradiction).
          rewrite (sb_get _ _ _ _ _ Hfin2) by (exact (Hlr n Hn)). apply Hl1r. exact Hn. }
        assert (Hcl4 : concl_now2 l S4 = cl) by (rewrite <- Hcl1; apply concl_now2_same; exact Hl4).
        rewrite Hcl4 in Hfin1.
        assert (Hroot4 : rootsel2 S4 = rootsel2 S).
        { rewrite (sb_root _ _ _ HS4), (sb_root _ _ _ Hfin2). exact Hroot1r. }
        assert (Hrid4 : id <> rootsel2 S4) by (rewrite Hroot4; exact Hrid).
        destruct (uc2_inner selof id Bl cl S4 Hrid4) as [HUsb [HUdyn HUother]].
        set (U := update_conclusion2 selof id Bl cl S4) in *.
        assert (HS4dyn : get2 DYN id S4 = []).
        { unfold S4. rewrite get2_set2_diff by (left; unfold RY, DYN; lia). rewrite Hid3. exact HS2dyn. }
        assert (HUflag : getb2 FLAG id U = false).
        { unfold getb2. rewrite HUother by (unfold FLAG, DYN; lia). unfold S4. rewrite get2_set2_diff by (left; unfold RY, FLAG; lia).
          rewrite Hid3. exact HS2flag. }
        unfold yield_upd2 in Hfin1. fold U in Hfin1. rewrite HUflag in Hfin1.
        exists U. refine (conj _ (conj HUflag (conj _ (conj _ _)))).
        * eapply rel_trans; [apply (rel_mono _ _ _ _ _ _ Hml HmQ Hsb1)|].
          eapply rel_trans; [apply (sb_rel _ _ _ _ _ Hmi HS2)|].
          eapply rel_trans; [apply (sb_rel _ _ _ _ _ Hmr Hsb2)|].
          eapply rel_trans; [apply (sb_rel _ _ _ _ _ Hmr Hfin2)|].
          eapply rel_trans; [apply (sb_rel _ _ _ _ _ Hmi HS4)|]. apply (sb_rel _ _ _ _ _ Hmi HUsb).
        * cbn [concl_now2]. rewrite HUdyn, HS4dyn. reflexivity.
        * eapply rel_trans; [|apply (rel_mono _ _ _ _ _ _ Hml HmQ Hfin1)]. apply (sb_rel (fun n => n = id)); [exact Hmi|]. apply sb_set2. reflexivity.
        * intros n [<-|Hn].
          -- rewrite (rel_nf _ _ _ _ _ _ Hfin1 Hidl NF1). apply get2_set2_same.
          -- apply in_app_or in Hn. destruct Hn as [Hn|Hn]; [apply Hfin1d; exact Hn|].
             destruct (Hout n Hn) as [Ho1 Ho2].
             assert (Hnid : n <> id) by (intro E; subst; contradiction).
             rewrite (rel_get _ _ _ _ _ _ Hfin1 Ho1 Ho2). rewrite get2_set2_diff by (right; congruence). rewrite HkrK by exact Hn.
             rewrite (sb_get _ _ _ _ _ HUsb Hnid). rewrite (sb_get _ _ _ _ _ HS4 Hnid). apply Hfin2d. exact Hn.
      + (* the exception holds: its conclusion overrides *)
        unfold K' in Hfin2 at 1. cbv beta iota in Hfin2. rewrite Hcl2 in Hfin2.
        set (S1r' := setb2 RY id true S1r) in *.
        assert (HS1r' : same_but (fun n => n = id) S1r S1r') by (apply sb_setb2; reflexivity).
        assert (Hroot1r' : rootsel2 S1r' = rootsel2 S) by (rewrite (sb_root _ _ _ HS1r'); exact Hroot1r).
        assert (Hrid' : id <> rootsel2 S1r') by (rewrite Hroot1r'; exact Hrid).
        destruct (uc2_inner selof id Br cr S1r' Hrid') as [HUsb [HUdyn HUother]].
        set (U := update_conclusion2 selof id Br cr S1r') in *.
        assert (Hdyn' : get2 DYN id S1r' = []).
        { unfold S1r'. rewrite get2_setb2_diff by (left; unfold RY, DYN; lia). rewrite Hid1r. exact HS2dyn. }
        assert (HUflag : getb2 FLAG id U = false).
        { unfold getb2. rewrite HUother by (unfold FLAG, DYN; lia). unfold S1r'. rewrite get2_setb2_diff by (left; unfold RY, FLAG; lia).
          rewrite Hid1r. exact HS2flag. }
        unfold yield_upd2 in Hfin2. fold U in Hfin2. rewrite HUflag in Hfin2.
        set (S3 := ev2 selof Cs Bs r (Some Bl) K' S2) in *.
        assert (Hry : getb2 RY id S3 = true).
        { unfold getb2. rewrite (sb_get _ _ _ _ _ Hfin2 Hidr). rewrite get2_set2_diff by (left; unfold DYN, RY; lia). rewrite Hkid.
          rewrite HUother by (unfold RY, DYN; lia). unfold S1r', setb2. rewrite get2_set2_same. reflexivity. }
        rewrite Hry in Hfin1.
        exists U. refine (conj _ (conj HUflag (conj _ (conj _ _)))).
        * eapply rel_trans; [apply (rel_mono _ _ _ _ _ _ Hml HmQ Hsb1)|].
          eapply rel_trans; [apply (sb_rel _ _ _ _ _ Hmi HS2)|].
          eapply rel_trans; [apply (sb_rel _ _ _ _ _ Hmr Hsb2)|].
          eapply rel_trans; [apply (sb_rel _ _ _ _ _ Hmi HS1r')|]. apply (sb_rel _ _ _ _ _ Hmi HUsb).
        * cbn [concl_now2]. rewrite HUdyn, Hdyn'. reflexivity.
        * eapply rel_trans; [|apply (rel_mono _ _ _ _ _ _ Hml HmQ Hfin1)].
          eapply rel_trans; [|apply (sb_rel (fun n => n = id)); [exact Hmi|]; apply sb_set2; reflexivity].
          eapply rel_trans; [|apply (sb_rel _ _ _ _ _ Hmr Hfin2)]. apply (sb_rel (fun n => n = id)); [exact Hmi|]. apply sb_set2. reflexivity.
        * intros n [<-|Hn].
          -- rewrite (rel_nf _ _ _ _ _ _ Hfin1 Hidl NF1). rewrite get2_set2_diff by (left; unfold RY, DYN; lia).
             rewrite (sb_get _ _ _ _ _ Hfin2 Hidr). apply get2_set2_same.
          -- apply in_app_or in Hn. destruct Hn as [Hn|Hn]; [apply Hfin1d; exact Hn|].
             destruct (Hout n Hn) as [Ho1 Ho2].
             assert (Hnid : n <> id) by (intro E; subst; contradiction).
             rewrite (rel_get _ _ _ _ _ _ Hfin1 Ho1 Ho2). rewrite get2_set2_diff by (right; congruence). apply Hfin2d. exact Hn.
  Qed.

  Lemma proto_I t B : Proto t B (fun _ => False) -> SingleI selof Cs Bs t B.
  Proof.
    intros H k S Hki Hroot Hdc Hk.
    assert (Hkf : kflag (fun _ => False) k) by (intros B' S'; rewrite Hki; apply of_refl).
    destruct (H k S Hkf Hroot Hdc Hk (fun n (F : False) => match F with end)) as [S1 [H1 [H2 [H3 [H4 H5]]]]].
    assert (Hm : forall n, inT t n \/ False -> inT t n) by (intros n [Hn|[]]; exact Hn).
    exists S1. refine (conj _ (conj H2 (conj H3 (conj _ H5)))).
    - apply (sb_mono _ _ _ _ Hm (proj1 H1)).
    - apply (sb_mono _ _ _ _ Hm (proj1 H4)).
  Qed.

  Lemma pe2_bc t : forall B, bc (snd (pe2 Bs t B)) = bc B.
  Proof.
    induction t as [id cs c | id s l IHl r IHr]; intros B.
    - cbn [pe2]. destruct (is_join cs); [|reflexivity]. destruct (nth_error Bs (parent_of B)); reflexivity.
    - specialize (IHl B). cbn [pe2]. destruct (pe2 Bs l B) as [[fl cl] Bl]. cbn [snd] in IHl.
      specialize (IHr Bl). destruct (pe2 Bs r Bl) as [[fr cr] Br]. cbn [snd] in IHr.
      destruct s; destruct fl; destruct fr; cbn [snd]; congruence.
  Qed.
  Lemma pe2_parent t B : parent_of (snd (pe2 Bs t B)) = parent_of B.
  Proof. unfold parent_of. rewrite pe2_bc. reflexivity. Qed.

  (* trees without the join: one row per binding, whatever b is *)
  Lemma single_jfree t : jfree t = true -> nextfree t = true -> NoDup (ids t) -> forall B, Single selof Cs Bs t B.
  Proof.
    induction t as [id cs c | id s l IHl r IHr]; intros Hj Hnf Hnd B.
    - apply single_leaf. simpl in Hj. destruct (is_join cs); [discriminate|reflexivity].
    - simpl in Hj. apply andb_prop in Hj. destruct Hj as [Hjl Hjr].
      assert (Hndl : NoDup (ids l)) by (cbn [ids] in Hnd; apply NoDup_cons_iff in Hnd; destruct Hnd as [_ Hnd]; apply nodup_app_l in Hnd; exact Hnd).
      assert (Hndr : NoDup (ids r)) by (cbn [ids] in Hnd; apply NoDup_cons_iff in Hnd; destruct Hnd as [_ Hnd]; apply nodup_app_r in Hnd; exact Hnd).
      destruct s; simpl in Hnf; try discriminate; apply andb_prop in Hnf; destruct Hnf as [Hnl Hnr].
      + apply single_exc; auto. apply single_I. apply IHr; auto.
      + apply single_alt; auto.
  Qed.

  (* the joining refinement with the refinements of its block *)
  Lemma proto_spine t : spineb t = true -> nextfree t = true -> NoDup (ids t) ->
    forall B Q, parent_of B < length Bs -> Proto t B Q.
  Proof.
    induction t as [id cs c | id s l IHl r IHr]; intros Hs Hnf Hnd B Q Hp.
    - simpl in Hs. destruct (nth_error Bs (parent_of B)) as [a|] eqn:E.
      + eapply proto_join_leaf; eauto.
      + apply nth_error_None in E. lia.
    - destruct s; simpl in Hs; try discriminate. apply andb_prop in Hs. destruct Hs as [Hsl Hjr].
      simpl in Hnf. apply andb_prop in Hnf. destruct Hnf as [Hnl Hnr].
      assert (Hndl : NoDup (ids l)) by (cbn [ids] in Hnd; apply NoDup_cons_iff in Hnd; destruct Hnd as [_ Hnd]; apply nodup_app_l in Hnd; exact Hnd).
      assert (Hndr : NoDup (ids r)) by (cbn [ids] in Hnd; apply NoDup_cons_iff in Hnd; destruct Hnd as [_ Hnd]; apply nodup_app_r in Hnd; exact Hnd).
      apply proto_exc; auto. apply single_I. apply single_jfree; auto.
  Qed.

  (* every tree of the two-variable fragment yields one row per binding of c *)
  Lemma single_okb t : okb t = true -> nextfree t = true -> NoDup (ids t) ->
    forall B, parent_of B < length Bs -> Single selof Cs Bs t B.
  Proof.
    induction t as [id cs c | id s l IHl r IHr]; intros Hok Hnf Hnd B Hp.
    - apply single_leaf. simpl in Hok. destruct (is_join cs); [discriminate|reflexivity].
    - assert (Hndl : NoDup (ids l)) by (cbn [ids] in Hnd; apply NoDup_cons_iff in Hnd; destruct Hnd as [_ Hnd]; apply nodup_app_l in Hnd; exact Hnd).
      assert (Hndr : NoDup (ids r)) by (cbn [ids] in Hnd; apply NoDup_cons_iff in Hnd; destruct Hnd as [_ Hnd]; apply nodup_app_r in Hnd; exact Hnd).
      assert (Hp' : parent_of (snd (pe2 Bs l B)) < length Bs) by (rewrite pe2_parent; exact Hp).
      destruct s; simpl in Hnf; try discriminate; apply andb_prop in Hnf; destruct Hnf as [Hnl Hnr]; simpl in Hok.
      + apply single_exc; auto.
        * apply orb_prop in Hok. destruct Hok as [H|H]; apply andb_prop in H; destruct H as [H1 H2].
          -- apply IHl; auto.
          -- apply single_jfree; auto.
        * apply orb_prop in Hok. destruct Hok as [H|H]; apply andb_prop in H; destruct H as [H1 H2].
          -- apply single_I. apply single_jfree; auto.
          -- apply orb_prop in H2. destruct H2 as [H2|H2].
             ++ apply single_I. apply IHr; auto.
             ++ apply proto_I. apply proto_spine; auto.
      + apply single_alt; auto.
        * apply orb_prop in Hok. destruct Hok as [H|H]; apply andb_prop in H; destruct H as [H1 H2].
          -- apply IHl; auto.
          -- apply single_jfree; auto.
        * apply orb_prop in Hok. destruct Hok as [H|H]; apply andb_prop in H; destruct H as [H1 H2].
          -- apply single_jfree; auto.
          -- apply IHr; auto.
  Qed.

  Lemma shape_okb t : okb t = true -> nextfree t = true -> NoDup (ids t) ->
    forall B, parent_of B < length Bs -> Shape selof Cs Bs t B.
  Proof.
    destruct t as [id cs c | id s l r]; intros Hok Hnf Hnd B Hp; [exact I|].
    assert (Hndl : NoDup (ids l)) by (cbn [ids] in Hnd; apply NoDup_cons_iff in Hnd; destruct Hnd as [_ Hnd]; apply nodup_app_l in Hnd; exact Hnd).
    assert (Hndr : NoDup (ids r)) by (cbn [ids] in Hnd; apply NoDup_cons_iff in Hnd; destruct Hnd as [_ Hnd]; apply nodup_app_r in Hnd; exact Hnd).
    assert (Hp' : parent_of (snd (pe2 Bs l B)) < length Bs) by (rewrite pe2_parent; exact Hp).
    destruct s; simpl in Hnf; try discriminate; apply andb_prop in Hnf; destruct Hnf as [Hnl Hnr]; simpl in Hok.
    - apply exc_shape; auto.
      + apply orb_prop in Hok. destruct Hok as [H|H]; apply andb_prop in H; destruct H as [H1 H2].
        * apply single_okb; auto.
        * apply single_jfree; auto.
      + apply orb_prop in Hok. destruct Hok as [H|H]; apply andb_prop in H; destruct H as [H1 H2].
        * apply single_I. apply single_jfree; auto.
        * apply orb_prop in H2. destruct H2 as [H2|H2].
          -- apply single_I. apply single_okb; auto.
          -- apply proto_I. apply proto_spine; auto.
    - apply alt_shape; auto.
      + apply orb_prop in Hok. destruct Hok as [H|H]; apply andb_prop in H; destruct H as [H1 H2].
        * apply single_okb; auto.
        * apply single_jfree; auto.
      + apply orb_prop in Hok. destruct Hok as [H|H]; apply andb_prop in H; destruct H as [H1 H2].
        * apply single_jfree; auto.
        * apply single_okb; auto.
  Qed.
End Spine.
