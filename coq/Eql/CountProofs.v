(* C02 -- exactly one result per assignment: for Union-free conditions the results of [eval] are a PARTITION of the
   assignment space (every assignment compatible with the incoming bindings is covered by exactly one result, and that
   result tells the truth about it), provided no domain lists an element twice. *)
From Coq Require Import List ZArith Bool Arith Lia.
From Krrood Require Import Eql.Syntax Eql.Sat Eql.Eval Eql.EvalProofs.
Import ListNotations.

Definition extendsb (rho : asg) (b : binds) : bool :=
  forallb (fun p : var * val => match lookup b (fst p) with Some v => val_eqb (rho (fst p)) v | None => true end) b.

Lemma lookup_some_key b : forall x v, lookup b x = Some v -> exists v', In (x, v') b.
Proof.
  induction b as [|[y w] b IH]; simpl; intros x v H; [discriminate|].
  destruct (Nat.eqb_spec x y) as [->|Hne]; eauto. destruct (IH _ _ H) as (v' & Hv). eauto.
Qed.

Lemma extendsb_iff rho b : extendsb rho b = true <-> extends rho b.
Proof.
  unfold extendsb. rewrite forallb_forall. split.
  - intros H x v Hl. destruct (lookup_some_key _ _ _ Hl) as (v' & Hin).
    specialize (H _ Hin). simpl in H. rewrite Hl in H. now apply val_eqb_eq.
  - intros H [x v'] Hin. simpl. destruct (lookup b x) eqn:E; auto. apply val_eqb_eq. auto.
Qed.

Lemma extendsb_false rho b : extendsb rho b = false <-> ~ extends rho b.
Proof. rewrite <- extendsb_iff. destruct (extendsb rho b); split; congruence. Qed.

Fixpoint ufree (c : cond) : bool :=
  match c with
  | CCmp _ _ _ => true
  | CAnd l r | CElseIf l r => ufree l && ufree r
  | CUnion _ _ => false
  | CNot c => ufree c
  | CExists _ _ | CForAll _ _ => false
  end.

Lemma ufree_qfree c : ufree c = true -> qfree c = true.
Proof.
  induction c as [op l r|l IHl r IHr|l IHl r IHr|l IHl r IHr|c IH|e c IH|y c IH]; simpl; intros H; auto;
    try discriminate; apply andb_prop in H as [Hl Hr]; now rewrite IHl, IHr.
Qed.

Lemma ufree_snd_ok c : ufree c = true -> forall pol, snd_ok pol c = true.
Proof.
  induction c as [op l r|l IHl r IHr|l IHl r IHr|l IHl r IHr|c IH|e c IH|y c IH]; simpl; intros H pol; auto;
    try (apply andb_prop in H as [Hl Hr]; rewrite IHl, IHr; auto); discriminate.
Qed.

(* ---------- counting ---------- *)
Section Count.
  Context {A : Type}.
  Definition cnt (p : A -> bool) (l : list A) : nat := length (filter p l).

  Lemma cnt_app p l m : cnt p (l ++ m) = cnt p l + cnt p m.
  Proof. unfold cnt. now rewrite filter_app, app_length. Qed.

  Lemma cnt_zero p l : (forall a, In a l -> p a = false) -> cnt p l = 0.
  Proof.
    unfold cnt. induction l as [|a l IH]; simpl; intros H; auto.
    rewrite (H a) by auto. apply IH. intros; apply H; auto.
  Qed.

  Lemma cnt_one_inv p l : cnt p l = 1 -> exists a, In a l /\ p a = true.
  Proof.
    unfold cnt. intros H. destruct (filter p l) as [|a [|]] eqn:E; simpl in H; try discriminate.
    assert (Ha : In a (filter p l)) by (rewrite E; now left). apply filter_In in Ha. eauto.
  Qed.
End Count.

Lemma cnt_map {A B} (p : A -> bool) (q : B -> bool) (g : A -> B) (l : list A) :
  (forall a, q (g a) = p a) -> cnt q (map g l) = cnt p l.
Proof.
  intros H. unfold cnt. induction l as [|a l IH]; auto. simpl. rewrite H.
  destruct (p a); simpl; now rewrite IH.
Qed.

Lemma cnt_flat_map_one {A B} (p : A -> bool) (q : B -> bool) (f : A -> list B) (l : list A) :
  cnt p l = 1 ->
  (forall a, In a l -> p a = false -> cnt q (f a) = 0) ->
  exists a, In a l /\ p a = true /\ cnt q (flat_map f l) = cnt q (f a).
Proof.
  induction l as [|a l IH]; intros H1 H0.
  - discriminate.
  - unfold cnt in H1. simpl in H1. simpl flat_map. rewrite cnt_app.
    destruct (p a) eqn:Pa; simpl in H1.
    + exists a. split; [now left|]. split; auto.
      assert (Z0 : cnt q (flat_map f l) = 0).
      { clear IH. assert (Hl : forall a', In a' l -> p a' = false).
        { intros a' Ha'. destruct (p a') eqn:E; auto. exfalso.
          assert (In a' (filter p l)) by (apply filter_In; auto).
          destruct (filter p l); [contradiction|discriminate]. }
        clear H1. induction l as [|a' l IHl]; auto. simpl. rewrite cnt_app.
        rewrite H0; [|right; now left|apply Hl; now left]. simpl. apply IHl.
        - intros; apply H0; auto. destruct H as [<-|H]; [now left|right; now right].
        - intros; apply Hl; now right. }
      lia.
    + destruct IH as (a' & Ha' & Pa' & E); auto.
      * intros; apply H0; auto. now right.
      * exists a'. split; [now right|]. split; auto. rewrite H0; auto. now left.
Qed.

Lemma cnt_flat_map_eq1 {A B} (p : A -> bool) (q : B -> bool) (f : A -> list B) (l : list A) :
  cnt p l = 1 ->
  (forall a, In a l -> p a = false -> cnt q (f a) = 0) ->
  (forall a, In a l -> p a = true -> cnt q (f a) = 1) ->
  cnt q (flat_map f l) = 1.
Proof.
  intros H1 H0 Ht. destruct (cnt_flat_map_one p q f l H1 H0) as (a & Ha & Pa & ->). auto.
Qed.

Section Partition.
  Variable W : world.
  Variable D : domains.
  Hypothesis Dnodup : forall x, NoDup (D x).

  Definition cov (rho : asg) (r : res) : bool := extendsb rho (fst r).
  Definition covo (rho : asg) (r : binds * val) : bool := extendsb rho (fst r).

  Lemma count_dom rho x : In (rho x) (D x) -> cnt (fun v => val_eqb (rho x) v) (D x) = 1.
  Proof.
    intros Hin. specialize (Dnodup x). unfold cnt. induction (D x) as [|v l IH]; [contradiction|].
    simpl. inversion Dnodup as [|? ? Hn Hd]; subst. destruct (val_eq_dec (rho x) v) as [E|E].
    - replace (val_eqb (rho x) v) with true by (symmetry; now apply val_eqb_eq). simpl. f_equal.
      apply (cnt_zero (fun w => val_eqb (rho x) w)). intros w Hw. destruct (val_eqb (rho x) w) eqn:Ew; auto.
      apply val_eqb_eq in Ew. congruence.
    - replace (val_eqb (rho x) v) with false.
      + apply IH; auto. destruct Hin; congruence.
      + symmetry. destruct (val_eqb (rho x) v) eqn:Ew; auto. apply val_eqb_eq in Ew. congruence.
  Qed.

  Lemma ev_opnd_partition e : forall b rho,
    extends rho b -> (forall x, In x (opnd_vars e) -> In (rho x) (D x)) ->
    cnt (covo rho) (ev_opnd W D e b) = 1.
  Proof.
    induction e as [w|x|e IH a]; simpl; intros b rho He Hd.
    - unfold cnt, covo. simpl. apply extendsb_iff in He. now rewrite He.
    - destruct (lookup b x) eqn:E.
      + unfold cnt, covo. simpl. apply extendsb_iff in He. now rewrite He.
      + rewrite <- (count_dom rho x) by (apply Hd; unfold opnd_vars; simpl; auto).
        unfold cnt. induction (D x) as [|v l IHl]; auto. simpl.
        assert (Ev : covo rho ((x, v) :: b, v) = val_eqb (rho x) v).
        { unfold covo. simpl fst. destruct (val_eqb (rho x) v) eqn:Ew.
          - apply extendsb_iff. apply extends_cons; auto. split; auto. now apply val_eqb_eq.
          - apply extendsb_false. intros Hx. apply extends_cons in Hx as [Hx _]; auto.
            apply val_eqb_eq in Hx. congruence. }
        rewrite Ev. destruct (val_eqb (rho x) v); simpl; now rewrite IHl.
    - rewrite <- (IH b rho He Hd). apply cnt_map. intros p. reflexivity.
  Qed.

  Lemma ev_cmp_partition op l r b rho :
    extends rho b -> (forall x, In x (opnd_vars l ++ opnd_vars r) -> In (rho x) (D x)) ->
    cnt (cov rho) (ev_cmp W D op l r b) = 1.
  Proof.
    intros He Hd. unfold ev_cmp.
    assert (Hmap : forall (g : binds * val -> res) e b1, (forall p, fst (g p) = fst p) ->
              extends rho b1 -> (forall x, In x (opnd_vars e) -> In (rho x) (D x)) ->
              cnt (cov rho) (map g (ev_opnd W D e b1)) = 1).
    { intros g e b1 Hg He1 Hd1. rewrite <- (ev_opnd_partition e b1 rho He1 Hd1).
      apply cnt_map. intros p. unfold cov, covo. now rewrite Hg. }
    assert (Hzero : forall (g : binds * val -> res) e b1, (forall p, fst (g p) = fst p) ->
              ~ extends rho b1 -> cnt (cov rho) (map g (ev_opnd W D e b1)) = 0).
    { intros g e b1 Hg Hn. apply cnt_zero. intros p Hp. apply in_map_iff in Hp as (p0 & <- & Hp0).
      unfold cov. rewrite Hg. apply extendsb_false. intros Hx. apply Hn.
      destruct p0 as [b2 v2]. eapply ev_opnd_sound; eauto. }
    destruct (right_first b r).
    - apply cnt_flat_map_eq1 with (p := covo rho).
      + apply ev_opnd_partition; auto. intros; apply Hd, in_or_app; auto.
      + intros p Hp Cp. apply Hzero; auto. apply extendsb_false. exact Cp.
      + intros p Hp Cp. apply Hmap; auto. apply extendsb_iff. exact Cp. intros; apply Hd, in_or_app; auto.
    - apply cnt_flat_map_eq1 with (p := covo rho).
      + apply ev_opnd_partition; auto. intros; apply Hd, in_or_app; auto.
      + intros p Hp Cp. apply Hzero; auto. apply extendsb_false. exact Cp.
      + intros p Hp Cp. apply Hmap; auto. apply extendsb_iff. exact Cp. intros; apply Hd, in_or_app; auto.
  Qed.

  Lemma eval_zero c b rho : qfree c = true -> ~ extends rho b -> cnt (cov rho) (eval W D c b) = 0.
  Proof.
    intros Q Hn. apply cnt_zero. intros [b' f] Hin. unfold cov. simpl. apply extendsb_false.
    intros Hx. apply Hn. eapply eval_mono; eauto.
  Qed.

  (* the partition: exactly one result covers each compatible assignment *)
  Theorem eval_partition c : ufree c = true -> forall b rho,
    extends rho b -> (forall x, In x (cond_vars c) -> In (rho x) (D x)) ->
    cnt (cov rho) (eval W D c b) = 1.
  Proof.
    induction c as [op l r|l IHl r IHr|l IHl r IHr|l IHl r IHr|c IH|e c IH|y c IH]; simpl; intros U b rho He Hd; try discriminate.
    - apply ev_cmp_partition; auto.
    - apply andb_prop in U as [Ul Ur]. apply cnt_flat_map_eq1 with (p := cov rho).
      + apply IHl; auto. intros; apply Hd, in_or_app; auto.
      + intros [b1 f1] Hp Cp. simpl. destruct f1.
        * unfold cnt, cov in *. simpl in *. now rewrite Cp.
        * apply eval_zero; [now apply ufree_qfree|]. apply extendsb_false. exact Cp.
      + intros [b1 f1] Hp Cp. simpl. destruct f1.
        * unfold cnt, cov in *. simpl in *. now rewrite Cp.
        * apply IHr; auto. apply extendsb_iff. exact Cp. intros; apply Hd, in_or_app; auto.
    - apply andb_prop in U as [Ul Ur]. apply cnt_flat_map_eq1 with (p := cov rho).
      + apply IHl; auto. intros; apply Hd, in_or_app; auto.
      + intros [b1 f1] Hp Cp. simpl. destruct f1.
        * apply eval_zero; [now apply ufree_qfree|]. apply extendsb_false. exact Cp.
        * unfold cnt, cov in *. simpl in *. now rewrite Cp.
      + intros [b1 f1] Hp Cp. simpl. destruct f1.
        * apply IHr; auto. apply extendsb_iff. exact Cp. intros; apply Hd, in_or_app; auto.
        * unfold cnt, cov in *. simpl in *. now rewrite Cp.
    - rewrite <- (IH U b rho He Hd). apply cnt_map. intros p. reflexivity.
  Qed.

  (* ... and it tells the truth: so a satisfying assignment is covered by exactly one TRUE result, and a
     non-satisfying one by none *)
  Definition covt (rho : asg) (r : res) : bool := cov rho r && negb (snd r).

  Theorem eval_exactly_once c : ufree c = true -> forall b rho,
    extends rho b -> (forall x, In x (cond_vars c) -> In (rho x) (D x)) ->
    cnt (covt rho) (eval W D c b) = if sat W D rho c then 1 else 0.
  Proof.
    intros U b rho He Hd. pose proof (eval_partition c U b rho He Hd) as H1.
    assert (Hflag : forall r, In r (eval W D c b) -> cov rho r = true -> snd r = negb (sat W D rho c)).
    { intros [b' f] Hin Hc. simpl. unfold cov in Hc. simpl in Hc. apply extendsb_iff in Hc.
      destruct f.
      - rewrite (eval_sound W D c false b b' (ufree_snd_ok c U false) Hin rho Hc). reflexivity.
      - rewrite (eval_sound W D c true b b' (ufree_snd_ok c U true) Hin rho Hc). reflexivity. }
    unfold cnt in *. revert H1 Hflag. induction (eval W D c b) as [|r l IHl]; simpl; intros H1 Hflag.
    - discriminate.
    - unfold covt at 1. destruct (cov rho r) eqn:Cr; simpl in *.
      + rewrite (Hflag r) by auto. rewrite negb_involutive.
        assert (Z0 : length (filter (covt rho) l) = 0).
        { apply (cnt_zero (covt rho)). intros a Ha. unfold covt. destruct (cov rho a) eqn:Ca; auto.
          exfalso. assert (In a (filter (cov rho) l)) by (apply filter_In; auto).
          destruct (filter (cov rho) l); [contradiction|discriminate]. }
        destruct (sat W D rho c); simpl; lia.
      + apply IHl; auto.
  Qed.
End Partition.

(* ---------- totality: in the conjunctive / else-if fragment every true result binds every variable ---------- *)
Fixpoint nnf (c : cond) : bool :=
  match c with
  | CCmp _ _ _ => true
  | CNot (CCmp _ _ _) => true
  | CNot _ => false
  | CAnd l r => nnf l && nnf r
  | CElseIf l r => nnf l && nnf r && same_vars (cond_vars l) (cond_vars r)
  | CUnion _ _ => false
  | CExists _ _ | CForAll _ _ => false
  end.

Lemma nnf_ufree c : nnf c = true -> ufree c = true.
Proof.
  induction c as [op l r|l IHl r IHr|l IHl r IHr|l IHl r IHr|c IH|e c IH|y c IH]; simpl; intros H; auto.
  - apply andb_prop in H as [Hl Hr]. now rewrite IHl, IHr.
  - apply andb_prop in H as [H _]. apply andb_prop in H as [Hl Hr]. now rewrite IHl, IHr.
  - destruct c; try discriminate. reflexivity.
Qed.

Lemma nmem_In x l : nmem x l = true <-> In x l.
Proof.
  unfold nmem. rewrite existsb_exists. split.
  - intros (y & Hy & E). apply Nat.eqb_eq in E. now subst.
  - intros H. exists x. split; auto. apply Nat.eqb_refl.
Qed.
Lemma nsubset_In l m : nsubset l m = true -> forall x, In x l -> In x m.
Proof. unfold nsubset. rewrite forallb_forall. intros H x Hx. apply nmem_In. auto. Qed.

Section Total.
  Variable W : world.
  Variable D : domains.

  Definition binds_all (b : binds) (xs : list var) : Prop := forall x, In x xs -> bound b x = true.

  Lemma bound_mono_opnd e : forall b b' v x, In (b', v) (ev_opnd W D e b) -> bound b x = true -> bound b' x = true.
  Proof.
    induction e as [w|y|e IH a]; simpl; intros b b' v x Hin Hb.
    - destruct Hin as [[= <- <-]|[]]. auto.
    - destruct (lookup b y) eqn:E.
      + destruct Hin as [[= <- <-]|[]]. auto.
      + apply in_map_iff in Hin as (w & [= <- <-] & Hw). unfold bound in *. simpl.
        destruct (Nat.eqb x y); auto.
    - apply in_map_iff in Hin as ([b1 v1] & [= <- <-] & H1). eauto.
  Qed.

  Lemma ev_opnd_binds e : forall b b' v, In (b', v) (ev_opnd W D e b) -> binds_all b' (opnd_vars e).
  Proof.
    induction e as [w|y|e IH a]; simpl; intros b b' v Hin x Hx.
    - destruct Hx.
    - unfold opnd_vars in Hx. simpl in Hx. destruct Hx as [<-|[]].
      destruct (lookup b y) eqn:E.
      + destruct Hin as [[= <- <-]|[]]. unfold bound. now rewrite E.
      + apply in_map_iff in Hin as (w & [= <- <-] & Hw). unfold bound. now rewrite lookup_cons_eq.
    - apply in_map_iff in Hin as ([b1 v1] & [= <- <-] & H1). eapply IH; eauto.
  Qed.

  Lemma ev_cmp_binds op l r b b' f :
    In (b', f) (ev_cmp W D op l r b) -> binds_all b' (opnd_vars l ++ opnd_vars r) /\
    (forall x, bound b x = true -> bound b' x = true).
  Proof.
    intros H. apply ev_cmp_inv in H as (b1 & lv & rv & _ & [[H1 H2]|[H1 H2]]); split.
    - intros x Hx. apply in_app_or in Hx as [Hx|Hx].
      + eapply bound_mono_opnd; eauto. eapply ev_opnd_binds; eauto.
      + eapply ev_opnd_binds; eauto.
    - intros x Hx. eapply bound_mono_opnd; eauto. eapply bound_mono_opnd; eauto.
    - intros x Hx. apply in_app_or in Hx as [Hx|Hx].
      + eapply ev_opnd_binds; eauto.
      + eapply bound_mono_opnd; eauto. eapply ev_opnd_binds; eauto.
    - intros x Hx. eapply bound_mono_opnd; eauto. eapply bound_mono_opnd; eauto.
  Qed.

  Lemma eval_bound_mono c : qfree c = true -> forall b b' f x, In (b', f) (eval W D c b) -> bound b x = true -> bound b' x = true.
  Proof.
    induction c as [op l r|l IHl r IHr|l IHl r IHr|l IHl r IHr|c IH|e c IH|y c IH]; simpl; intros Q b b' f x Hin Hb; try discriminate;
      try (apply andb_prop in Q as [Ql Qr]; specialize (IHl Ql); specialize (IHr Qr)); try specialize (IH Q).
    - eapply ev_cmp_binds; eauto.
    - apply in_flat_map in Hin as ([b1 f1] & H1 & H2). simpl in H2. destruct f1.
      + destruct H2 as [[= <- <-]|[]]. eauto.
      + eauto.
    - apply in_flat_map in Hin as ([b1 f1] & H1 & H2). simpl in H2. destruct f1.
      + eauto.
      + destruct H2 as [[= <- <-]|[]]. eauto.
    - apply in_app_or in Hin as [Hin|Hin]; [|apply filter_In in Hin as [Hin _]; eauto].
      apply in_flat_map in Hin as ([b1 f1] & H1 & H2). simpl in H2. destruct f1.
      + eauto.
      + destruct H2 as [[= <- <-]|[]]. eauto.
    - apply in_map_iff in Hin as ([b1 f1] & [= <- <-] & H1). eauto.
  Qed.

  Theorem eval_true_total c : nnf c = true -> forall b b',
    In (b', false) (eval W D c b) -> binds_all b' (cond_vars c).
  Proof.
    induction c as [op l r|l IHl r IHr|l IHl r IHr|l IHl r IHr|c IH|e c IH|y c IH]; simpl; intros N b b' Hin; try discriminate.
    - eapply ev_cmp_binds; eauto.
    - apply andb_prop in N as [Nl Nr].
      apply in_flat_map in Hin as ([b1 f1] & H1 & H2). simpl in H2. destruct f1.
      + destruct H2 as [[= ]|[]].
      + intros x Hx. apply in_app_or in Hx as [Hx|Hx].
        * eapply eval_bound_mono; eauto. apply ufree_qfree, nnf_ufree; auto. eapply IHl; eauto.
        * eapply IHr; eauto.
    - apply andb_prop in N as [N Sv]. apply andb_prop in N as [Nl Nr]. apply andb_prop in Sv as [S1 S2].
      apply in_flat_map in Hin as ([b1 f1] & H1 & H2). simpl in H2. destruct f1.
      + intros x Hx. eapply IHr; eauto. apply in_app_or in Hx as [Hx|Hx]; auto.
        eapply nsubset_In; eauto.
      + destruct H2 as [[= <-]|[]]. intros x Hx. eapply IHl; eauto. apply in_app_or in Hx as [Hx|Hx]; auto.
        eapply nsubset_In; eauto.
    - destruct c as [op l r| | | | | |]; try discriminate.
      apply in_map_iff in Hin as ([b1 f1] & [= <- Hf] & H1). simpl in *. eapply ev_cmp_binds; eauto.
  Qed.
End Total.
