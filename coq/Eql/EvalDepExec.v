(* C01 (flatten / nested sub-queries), proofs part 4:
   (a) the executable companion of the Spec computes exactly the answers ([answers_execD_correct], quantifiers over
       generated variables included);
   (b) the proved fragment as a decidable flag [in_FD] (computed next to the rows by the correspondence check) and the
       theorem that the flag implies model rows = answers. *)
From Coq Require Import List ZArith Bool Arith Lia.
From Krrood Require Import Eql.Syntax Eql.Sat Eql.Eval Eql.EvalProofs Eql.RunProofs Eql.EvalQInv Eql.EvalDepSpec Eql.EvalDep
  Eql.EvalDepGeneric Eql.EvalDepProofs Eql.EvalDepRun.
Import ListNotations.

Lemma wf_ds_in ds : wf_ds ds = true -> forall z g, In (z, g) ds -> forall x, In x (gen_allvars g) -> x < z.
Proof.
  induction ds as [|[z0 g0] ds IH]; intros H z g Hin; [contradiction|].
  apply wf_ds_cons in H as (Hg & _ & Hwf). destruct Hin as [[= -> ->]|Hin]; eauto.
Qed.

Lemma asg_of_cons_ne x y v b : x <> y -> asg_of ((y, v) :: b) x = asg_of b x.
Proof. intros H. unfold asg_of. now rewrite lookup_cons_ne. Qed.
Lemma asg_of_cons_eq x v b : asg_of ((x, v) :: b) x = v.
Proof. unfold asg_of. now rewrite lookup_cons_eq. Qed.

Lemma in_plain_of ds M x : In x (plain_of ds M) <-> In x M /\ find_decl ds x = None.
Proof.
  unfold plain_of. rewrite filter_In, nodup_In. unfold is_plain. destruct (find_decl ds x); split; intros [H1 H2]; split; auto; discriminate.
Qed.

Section Exec.
  Variable W : world.
  Variable D : domains.
  Variable DS : decls.
  Variable Q : list var.
  Variable P : list var.
  Hypothesis Hwf : wf_ds DS = true.
  Hypothesis HP : forall x, In x P -> find_decl DS x = None.
  Let base := assignments D P.

  (* every enumerated assignment gives the free generated variables values of their ranges ... *)
  Lemma gen_asgs_sound : forall ds pre, DS = pre ++ ds -> forall b, In b (gen_asgs W D base Q ds) ->
    (exists b0, In b0 base /\ forall x, find_decl DS x = None -> lookup b x = lookup b0 x) /\
    (forall z g, In (z, g) ds -> ~ In z Q -> In (asg_of b z) (range W D (asg_of b) g)).
  Proof.
    induction ds as [|[z g] ds IH]; intros pre Hds b Hin.
    - simpl in Hin. split; [exists b; auto|]. intros z g [].
    - assert (Hds' : DS = (pre ++ [(z, g)]) ++ ds) by (rewrite <- app_assoc; exact Hds).
      assert (Hwf2 : wf_ds ((z, g) :: ds) = true) by (eapply wf_ds_app_r; rewrite <- Hds; exact Hwf).
      pose proof (wf_ds_cons _ _ _ Hwf2) as (Hg & Hlt & Hwf3).
      simpl in Hin. apply in_flat_map in Hin as (b' & Hb' & Hin).
      destruct (IH _ Hds' b' Hb') as [(b0 & Hb0 & Hpl) Hval].
      destruct (nmem z Q) eqn:Ez.
      + destruct Hin as [<-|[]]. split; [eauto|]. intros z' g' [[= <- <-]|Hin'] Hq; [|auto].
        exfalso. apply Hq. now apply nmem_true.
      + apply in_map_iff in Hin as (v & <- & Hv). split.
        * exists b0. split; auto. intros x Hx. rewrite lookup_cons_ne; auto.
          intros ->. rewrite Hds in Hx. apply (in_find_decl (pre ++ (z, g) :: ds) z g); auto. apply in_or_app. right. now left.
        * intros z' g' Hin' Hq. destruct Hin' as [[= <- <-]|Hin'].
          -- rewrite asg_of_cons_eq. erewrite range_ext; [exact Hv|].
             intros x Hx. apply asg_of_cons_ne. apply gen_vars_sub in Hx. specialize (Hg x Hx). lia.
          -- pose proof (Hlt z' g' Hin') as Hz'. rewrite asg_of_cons_ne by lia.
             erewrite range_ext; [apply (Hval z' g' Hin' Hq)|].
             intros x Hx. apply asg_of_cons_ne. apply gen_vars_sub in Hx.
             pose proof (wf_ds_in ds Hwf3 z' g' Hin' x Hx). lia.
  Qed.

  (* ... and every admissible assignment is enumerated *)
  Lemma gen_asgs_complete rho :
    (forall x, In x P -> In (rho x) (D x)) ->
    forall ds pre, DS = pre ++ ds ->
    (forall z g, In (z, g) ds -> ~ In z Q -> In (rho z) (range W D rho g)) ->
    (forall z g x, In (z, g) ds -> ~ In z Q -> In x (gen_vars g) -> ~ In x Q /\ (find_decl DS x = None -> In x P)) ->
    exists b, In b (gen_asgs W D base Q ds) /\
              (forall x, In x P -> lookup b x = Some (rho x)) /\
              (forall z g, In (z, g) ds -> ~ In z Q -> lookup b z = Some (rho z)).
  Proof.
    intros HPd. induction ds as [|[z g] ds IH]; intros pre Hds Hval Hsc.
    - destruct (assignments_complete D P rho HPd) as (b & Hb & Hl). exists b. repeat split; auto. intros z g [].
    - assert (Hds' : DS = (pre ++ [(z, g)]) ++ ds) by (rewrite <- app_assoc; exact Hds).
      assert (HwfDS' : wf_ds (pre ++ (z, g) :: ds) = true) by (rewrite <- Hds; exact Hwf).
      assert (Hwf2 : wf_ds ((z, g) :: ds) = true) by (eapply wf_ds_app_r; eauto).
      pose proof (wf_ds_cons _ _ _ Hwf2) as (Hg & Hlt & Hwf3).
      destruct (IH _ Hds') as (b' & Hb' & Hp' & Hz').
      { intros z' g' Hin'. apply Hval. now right. }
      { intros z' g' x Hin'. apply Hsc. now right. }
      simpl. destruct (nmem z Q) eqn:Ez.
      + exists b'. split; [apply in_flat_map; exists b'; split; auto; now left|]. split; auto.
        intros z' g' [[= <- <-]|Hin'] Hq; [|eauto]. exfalso. apply Hq. now apply nmem_true.
      + assert (Hq : ~ In z Q) by (now apply nmem_false).
        assert (Er : range W D (asg_of b') g = range W D rho g).
        { apply range_ext. intros x Hx. destruct (Hsc z g x (or_introl eq_refl) Hq Hx) as [Hxq Hxp].
          unfold asg_of. destruct (find_decl DS x) as [g'|] eqn:Ef.
          - apply find_decl_in in Ef. rewrite Hds in Ef. apply in_app_or in Ef as [Ef|[[= <- <-]|Ef]].
            + pose proof (wf_ds_pre_gt _ _ _ _ HwfDS' x g' Ef). apply gen_vars_sub in Hx. specialize (Hg x Hx). lia.
            + apply gen_vars_sub in Hx. specialize (Hg z Hx). lia.
            + now rewrite (Hz' x g' Ef Hxq).
          - now rewrite (Hp' x (Hxp eq_refl)). }
        exists ((z, rho z) :: b'). split; [|split].
        * apply in_flat_map. exists b'. split; auto. apply in_map_iff. exists (rho z). split; auto.
          rewrite Er. apply Hval; auto. now left.
        * intros x Hx. rewrite lookup_cons_ne; auto. intros ->.
          apply (in_find_decl DS z g); [rewrite Hds; apply in_or_app; right; now left|auto].
        * intros z' g' [[= <- <-]|Hin'] Hq'; [apply lookup_cons_eq|].
          pose proof (Hlt z' g' Hin'). rewrite lookup_cons_ne by lia. eauto.
  Qed.
End Exec.

Section ExecSpec.
  Variable W : world.
  Variable D : domains.

  Lemma scoped_spec ds q : scoped ds q = true ->
    let Q := qvarsD_opt (q_cond q) in
    (forall z g x, In (z, g) ds -> ~ In z Q -> In x (gen_vars g) -> ~ In x Q) /\
    (forall x, In x (flat_map opnd_vars (q_sels q)) -> ~ In x Q) /\
    (forall x, In x (fvD_opt ds (q_cond q)) -> ~ In x Q).
  Proof.
    unfold scoped. intros H. apply andb_prop in H as [H H3]. apply andb_prop in H as [H1 H2].
    rewrite forallb_forall in H1, H2, H3. cbv zeta. repeat split.
    - intros z g x Hin Hq Hx. specialize (H1 _ Hin). simpl in H1. apply orb_prop in H1 as [H1|H1].
      + exfalso. apply Hq. now apply nmem_true.
      + rewrite forallb_forall in H1. specialize (H1 x Hx). apply negb_true_iff in H1. now apply nmem_false.
    - intros x Hx. specialize (H2 x Hx). apply negb_true_iff in H2. now apply nmem_false.
    - intros x Hx. specialize (H3 x Hx). apply negb_true_iff in H3. now apply nmem_false.
  Qed.

  Theorem answers_execD_correct ds q row : wf_ds ds = true -> scoped ds q = true ->
    (In row (answers_execD W D ds q) <-> answerD W D ds q row).
  Proof.
    intros Hwf Hsc. destruct (scoped_spec ds q Hsc) as (S1 & S2 & S3). cbv zeta in *.
    set (Q := qvarsD_opt (q_cond q)) in *. set (M := mentioned ds q). set (P := plain_of ds M).
    assert (HP : forall x, In x P -> find_decl ds x = None) by (intros x Hx; apply in_plain_of in Hx; tauto).
    unfold answers_execD, all_asgs, answerD. fold M P Q. split.
    - intros H. apply in_map_iff in H as (b & <- & Hb). apply filter_In in Hb as [Hb Hs].
      destruct (gen_asgs_sound W D ds Q P Hwf ds [] eq_refl b Hb) as [(b0 & Hb0 & Hpl) Hval].
      exists (asg_of b). split; [|auto]. split; auto.
      intros x Hx Hp. destruct (assignments_sound D P b0 Hb0 x) as (v & Hl & Hv).
      + apply in_plain_of. auto.
      + unfold asg_of. now rewrite (Hpl x Hp), Hl.
    - intros (rho & [Hv1 Hv2] & Hs & ->).
      destruct (gen_asgs_complete W D ds Q P Hwf HP rho) with (ds := ds) (pre := @nil (var * gen)) as (b & Hb & Hp & Hz); auto.
      { intros x Hx. apply in_plain_of in Hx as [Hx1 Hx2]. auto. }
      { intros z g x Hin Hq Hx. split; [eapply S1; eauto|]. intros Hn. apply in_plain_of. split; auto.
        unfold M, mentioned. apply in_or_app. right. apply in_or_app. right. apply in_flat_map. exists (z, g). auto. }
      assert (E : forall x, In x M -> ~ In x Q -> asg_of b x = rho x).
      { intros x Hx Hq. unfold asg_of. destruct (find_decl ds x) as [g|] eqn:Ef.
        - now rewrite (Hz x g (find_decl_in _ _ _ Ef) Hq).
        - rewrite Hp; auto. apply in_plain_of. auto. }
      apply in_map_iff. exists b. split.
      + apply map_den_ext. intros x Hx. apply E; [|now apply S2]. unfold M, mentioned. apply in_or_app. now left.
      + apply filter_In. split; auto. rewrite <- Hs. apply satD_opt_ext. intros x Hx. apply E; [|now apply S3].
        unfold M, mentioned. apply in_or_app. right. apply in_or_app. now left.
  Qed.

  (* ---------- the proved fragment as a flag ---------- *)
  Definition nilb {A} (l : list A) : bool := match l with [] => true | _ => false end.

  Fixpoint ne_rangesb (base : list binds) (ds : decls) : bool :=
    match ds with
    | [] => true
    | (z, g) :: ds' =>
        forallb (fun b => negb (nilb (range W D (asg_of b) g))) (gen_asgs W D base [] ds') && ne_rangesb base ds'
    end.

  Definition in_FD (ds : decls) (q : query) : bool :=
    let P := plain_of ds (mentioned ds q) in
    wf_ds ds && wf_sub ds && localb ds q && qfree_opt (q_cond q) &&
    forallb (fun x => negb (nilb (D x))) P && ne_rangesb (assignments D P) ds.

  Lemma ne_rangesb_app_r base pre ds : ne_rangesb base (pre ++ ds) = true -> ne_rangesb base ds = true.
  Proof.
    induction pre as [|[z g] pre IH]; simpl; auto. intros H. apply andb_prop in H as [_ H]. auto.
  Qed.

  Lemma ne_rangesb_spec ds q : wf_ds ds = true ->
    ne_rangesb (assignments D (plain_of ds (mentioned ds q))) ds = true -> ne_ranges W D ds (mentioned ds q).
  Proof.
    intros Hwf H pre z g ds' Hds rho Hpl Hval.
    set (M := mentioned ds q) in *. set (P := plain_of ds M) in *.
    assert (HP : forall x, In x P -> find_decl ds x = None) by (intros x Hx; apply in_plain_of in Hx; tauto).
    rewrite Hds in H. apply ne_rangesb_app_r in H. simpl in H. apply andb_prop in H as [H _].
    rewrite forallb_forall in H.
    assert (Hds' : ds = (pre ++ [(z, g)]) ++ ds') by (rewrite <- app_assoc; exact Hds).
    assert (HwfDS' : wf_ds (pre ++ (z, g) :: ds') = true) by (rewrite <- Hds; exact Hwf).
    assert (Hwf2 : wf_ds ((z, g) :: ds') = true) by (eapply wf_ds_app_r; eauto).
    pose proof (wf_ds_cons _ _ _ Hwf2) as (Hg & Hlt & Hwf3).
    assert (HM : forall z' g' x, In (z', g') ds -> In x (gen_vars g') -> In x M).
    { intros z' g' x Hin Hx. unfold M, mentioned. apply in_or_app. right. apply in_or_app. right.
      apply in_flat_map. exists (z', g'). auto. }
    destruct (gen_asgs_complete W D ds [] P Hwf HP rho) with (ds := ds') (pre := pre ++ [(z, g)]) as (b & Hb & Hp & Hz); auto.
    { intros x Hx. apply in_plain_of in Hx as [Hx1 Hx2]. auto. }
    { intros z' g' x Hin _ Hx. split; [intros []|]. intros Hn. apply in_plain_of. split; auto.
      apply (HM z' g'); auto. rewrite Hds. apply in_or_app. right. now right. }
    specialize (H b Hb). apply negb_true_iff in H.
    assert (Er : range W D (asg_of b) g = range W D rho g).
    { apply range_ext. intros x Hx. unfold asg_of. destruct (find_decl ds x) as [g'|] eqn:Ef.
      - apply find_decl_in in Ef. rewrite Hds in Ef. apply in_app_or in Ef as [Ef|[[= <- <-]|Ef]].
        + pose proof (wf_ds_pre_gt _ _ _ _ HwfDS' x g' Ef). apply gen_vars_sub in Hx. specialize (Hg x Hx). lia.
        + apply gen_vars_sub in Hx. specialize (Hg z Hx). lia.
        + now rewrite (Hz x g' Ef (fun F => F)).
      - rewrite Hp; auto. apply in_plain_of. split; auto. apply (HM z g); auto.
        rewrite Hds. apply in_or_app. right. now left. }
    rewrite <- Er. intros E. rewrite E in H. discriminate.
  Qed.

  Theorem in_FD_exact ds q : in_FD ds q = true ->
    forall row, In row (runD W D ds q) <-> answerD W D ds q row.
  Proof.
    unfold in_FD. intros H. cbv zeta in H.
    apply andb_prop in H as [H Hne]. apply andb_prop in H as [H Hpl]. apply andb_prop in H as [H Hq].
    apply andb_prop in H as [H Hloc]. apply andb_prop in H as [Hwf Hsub].
    apply runD_exact; auto.
    - intros x Hx Hp E. rewrite forallb_forall in Hpl.
      specialize (Hpl x (proj2 (in_plain_of _ _ _) (conj Hx Hp))). rewrite E in Hpl. discriminate.
    - apply ne_rangesb_spec; auto.
  Qed.

  Lemma scoped_qfree ds q : qfree_opt (q_cond q) = true -> scoped ds q = true.
  Proof.
    intros Qf. unfold scoped. replace (qvarsD_opt (q_cond q)) with (@nil var).
    - rewrite !andb_true_iff. repeat split; apply forallb_forall; intros; simpl; auto.
      apply forallb_forall. auto.
    - destruct (q_cond q) as [c|]; simpl in *; auto. now rewrite qvarsD_qfree.
  Qed.

  (* inside the flag the model's rows are exactly the rows of the executable Spec (what the correspondence check compares) *)
  Theorem in_FD_exec ds q : in_FD ds q = true ->
    forall row, In row (runD W D ds q) <-> In row (answers_execD W D ds q).
  Proof.
    intros H row. rewrite (in_FD_exact ds q H row). symmetry.
    unfold in_FD in H. cbv zeta in H.
    apply andb_prop in H as [H _]. apply andb_prop in H as [H _]. apply andb_prop in H as [H Hq].
    apply andb_prop in H as [H _]. apply andb_prop in H as [Hwf _].
    apply answers_execD_correct; auto. now apply scoped_qfree.
  Qed.
End ExecSpec.
