(* C01 (flatten / nested sub-queries), proofs part 2: the evaluation of a variable under a declaration list has the four
   properties the generic cover needs (by induction over the list), hence the rows of [runD] are exactly the answers of
   the Spec (Eql/EvalDepSpec.v) for quantifier-free conditions (main condition and sub-query conditions). *)
From Coq Require Import List ZArith Bool Arith Lia.
From Krrood Require Import Eql.Syntax Eql.Sat Eql.Eval Eql.EvalProofs Eql.RunProofs Eql.EvalDepSpec Eql.EvalDep Eql.EvalDepGeneric.
Import ListNotations.

(* ---------- declaration lists ---------- *)
Definition undecl (pre : decls) (x : var) : Prop := forall z g, In (z, g) pre -> x <> z.

Lemma wf_ds_cons z g ds : wf_ds ((z, g) :: ds) = true ->
  (forall x, In x (gen_allvars g) -> x < z) /\ (forall z' g', In (z', g') ds -> z' < z) /\ wf_ds ds = true.
Proof.
  simpl. intros H. apply andb_prop in H as [H H3]. apply andb_prop in H as [H1 H2].
  rewrite forallb_forall in H1, H2. repeat split; auto.
  - intros x Hx. apply Nat.ltb_lt. auto.
  - intros z' g' Hin. apply Nat.ltb_lt. apply (H2 (z', g') Hin).
Qed.

Lemma wf_ds_app_r pre ds : wf_ds (pre ++ ds) = true -> wf_ds ds = true.
Proof.
  induction pre as [|[z g] pre IH]; simpl; auto. intros H. apply andb_prop in H as [_ H]. auto.
Qed.

Lemma wf_ds_pre_gt pre z g ds : wf_ds (pre ++ (z, g) :: ds) = true -> forall z' g', In (z', g') pre -> z < z'.
Proof.
  induction pre as [|[z0 g0] pre IH]; simpl; intros H z' g' Hin; [contradiction|].
  apply andb_prop in H as [H H3]. apply andb_prop in H as [_ H2]. rewrite forallb_forall in H2.
  destruct Hin as [[= <- <-]|Hin].
  - apply Nat.ltb_lt. apply (H2 (z, g)). apply in_or_app. right. now left.
  - eauto.
Qed.

Lemma find_decl_undecl pre ds x : undecl pre x -> find_decl (pre ++ ds) x = find_decl ds x.
Proof.
  induction pre as [|[z g] pre IH]; simpl; intros H; auto.
  destruct (Nat.eqb_spec x z) as [->|Hne].
  - exfalso. apply (H z g); auto. now left.
  - apply IH. intros z' g' Hin. apply (H z' g'). now right.
Qed.

Lemma find_decl_lt ds z : (forall z' g', In (z', g') ds -> z' < z) -> find_decl ds z = None.
Proof.
  induction ds as [|[z0 g0] ds IH]; simpl; intros H; auto.
  destruct (Nat.eqb_spec z z0) as [->|Hne].
  - specialize (H z0 g0 (or_introl eq_refl)). lia.
  - apply IH. intros z' g' Hin. apply (H z' g'). now right.
Qed.

Lemma find_decl_in ds z g : find_decl ds z = Some g -> In (z, g) ds.
Proof.
  induction ds as [|[z0 g0] ds IH]; simpl; [discriminate|].
  destruct (Nat.eqb_spec z z0) as [->|Hne]; [intros [= ->]; now left|auto].
Qed.

Lemma in_find_decl ds z g : In (z, g) ds -> find_decl ds z <> None.
Proof.
  induction ds as [|[z0 g0] ds IH]; simpl; [contradiction|].
  intros [[= -> ->]|Hin]; [now rewrite Nat.eqb_refl|].
  destruct (Nat.eqb z z0); [discriminate|auto].
Qed.

(* the declaration found in a well-formed list at a given position *)
Lemma find_decl_at pre z g ds : wf_ds (pre ++ (z, g) :: ds) = true -> find_decl (pre ++ (z, g) :: ds) z = Some g.
Proof.
  intros H. rewrite find_decl_undecl.
  - simpl. now rewrite Nat.eqb_refl.
  - intros z' g' Hin. pose proof (wf_ds_pre_gt _ _ _ _ H z' g' Hin). lia.
Qed.

Lemma undecl_snoc pre z g x : undecl pre x -> x <> z -> undecl (pre ++ [(z, g)]) x.
Proof. intros H Hne z' g' Hin. apply in_app_or in Hin as [Hin|[[= <- <-]|[]]]; eauto. Qed.

Lemma undecl_lt pre z g ds x : wf_ds (pre ++ (z, g) :: ds) = true -> x < z -> undecl (pre ++ [(z, g)]) x.
Proof.
  intros H Hlt z' g' Hin. apply in_app_or in Hin as [Hin|[[= <- <-]|[]]]; [|lia].
  pose proof (wf_ds_pre_gt _ _ _ _ H z' g' Hin). lia.
Qed.

Definition wf_sub_q (ds : decls) : bool :=
  forallb (fun d : var * gen => match snd d with SubOf _ c => qfree_opt c | FlatOf _ => true end) ds.

(* sub-queries: quantifier-free condition over a plain variable of their own *)
Definition wf_sub (DS : decls) : bool :=
  forallb (fun d : var * gen => match snd d with SubOf z0 c => qfree_opt c && is_plain DS z0 | FlatOf _ => true end) DS.

Lemma wf_sub_in DS z z0 c : wf_sub DS = true -> In (z, SubOf z0 c) DS -> qfree_opt c = true /\ find_decl DS z0 = None.
Proof.
  unfold wf_sub. rewrite forallb_forall. intros H Hin. specialize (H _ Hin). simpl in H.
  apply andb_prop in H as [H1 H2]. split; auto. unfold is_plain in H2. destruct (find_decl DS z0); [discriminate|auto].
Qed.

Lemma wf_sub_q_of DS : wf_sub DS = true -> wf_sub_q DS = true.
Proof.
  unfold wf_sub, wf_sub_q. rewrite !forallb_forall. intros H d Hd. specialize (H d Hd).
  destruct (snd d); auto. apply andb_prop in H. tauto.
Qed.
Lemma wf_sub_q_app_r pre ds : wf_sub_q (pre ++ ds) = true -> wf_sub_q ds = true.
Proof. unfold wf_sub_q. rewrite forallb_app. intros H. apply andb_prop in H. tauto. Qed.

Lemma evv_binds W D ds : forall x b b' v, In (b', v) (evv W D ds x b) -> lookup b' x = Some v.
Proof.
  induction ds as [|[z g] ds IH]; simpl; intros x b b' v Hin.
  - unfold var_plain in Hin. destruct (lookup b x) eqn:E.
    + destruct Hin as [[= <- <-]|[]]. exact E.
    + apply in_map_iff in Hin as (w & [= <- <-] & _). apply lookup_cons_eq.
  - destruct (Nat.eqb_spec x z) as [->|Hne]; [|eauto].
    destruct (lookup b z) eqn:E.
    + destruct Hin as [[= <- <-]|[]]. exact E.
    + destruct g as [e|z0 c].
      * apply in_flat_map in Hin as ([b1 lv] & _ & Hin). apply in_map_iff in Hin as (w & [= <- <-] & _).
        apply lookup_cons_eq.
      * apply in_flat_map in Hin as (b1 & _ & Hin). apply in_map_iff in Hin as ([b2 v2] & [= <- <-] & _).
        apply lookup_cons_eq.
Qed.

Section Levels.
  Variable W : world.
  Variable D : domains.

  Let env (ds : decls) : venv := {| ve_var := evv W D ds; ve_roots := roots ds; ve_flat := flat_below ds |}.

  (* ----- frame ----- *)
  Lemma evv_frame ds : wf_ds ds = true -> wf_sub_q ds = true -> forall n x b b' v,
    x < n -> In (b', v) (evv W D ds x b) -> forall y, n <= y -> lookup b' y = lookup b y.
  Proof.
    induction ds as [|[z g] ds IH]; intros Hwf Hq n x b b' v Hx Hin y Hy.
    - simpl in Hin. unfold var_plain in Hin. destruct (lookup b x) eqn:E.
      + destruct Hin as [[= <- <-]|[]]. reflexivity.
      + apply in_map_iff in Hin as (w & [= <- <-] & _). apply lookup_cons_ne. lia.
    - apply wf_ds_cons in Hwf as (Hg & Hlt & Hwf'). simpl in Hq. apply andb_prop in Hq as [Hq0 Hq'].
      specialize (IH Hwf' Hq'). simpl in Hin.
      destruct (Nat.eqb_spec x z) as [->|Hne]; [|eapply IH; eauto].
      destruct (lookup b z) eqn:E.
      + destruct Hin as [[= <- <-]|[]]. reflexivity.
      + destruct g as [e|z0 c].
        * apply in_flat_map in Hin as ([b1 lv] & H1 & Hin). apply in_map_iff in Hin as (w & [= <- <-] & _).
          rewrite lookup_cons_ne by lia. simpl in H1.
          exact (opndG_frame W (env ds) z (IH z) e (fun x Hx' => Hg x Hx') _ _ _ H1 y ltac:(lia)).
        * apply in_flat_map in Hin as (b1 & H1 & Hin). apply in_map_iff in Hin as ([b2 v2] & [= <- <-] & H2).
          rewrite lookup_cons_ne by lia. simpl in *.
          rewrite (IH z z0 b1 b2 v2 (Hg z0 (or_introl eq_refl)) H2 y ltac:(lia)).
          exact (true_resultsG_frame W (env ds) z (IH z) c b b1 Hq0 (fun x Hx' => Hg x (or_intror Hx')) H1 y ltac:(lia)).
  Qed.

  (* ----- sound ----- *)
  Lemma evv_sound ds : wf_ds ds = true -> wf_sub_q ds = true -> forall x b b' v,
    In (b', v) (evv W D ds x b) -> forall rho, extends rho b' -> extends rho b /\ rho x = v.
  Proof.
    induction ds as [|[z g] ds IH]; intros Hwf Hq x b b' v Hin rho He.
    - simpl in Hin. unfold var_plain in Hin. destruct (lookup b x) eqn:E.
      + destruct Hin as [[= <- <-]|[]]. split; auto.
      + apply in_map_iff in Hin as (w & [= <- <-] & _). apply extends_cons in He as [H1 H2]; auto.
    - pose proof (evv_frame ds) as Hfr.
      apply wf_ds_cons in Hwf as (Hg & Hlt & Hwf'). simpl in Hq. apply andb_prop in Hq as [Hq0 Hq'].
      specialize (IH Hwf' Hq'). specialize (Hfr Hwf' Hq'). simpl in Hin.
      destruct (Nat.eqb_spec x z) as [->|Hne]; [|eapply IH; eauto].
      destruct (lookup b z) eqn:E.
      + destruct Hin as [[= <- <-]|[]]. split; auto.
      + destruct g as [e|z0 c].
        * apply in_flat_map in Hin as ([b1 lv] & H1 & Hin). apply in_map_iff in Hin as (w & [= <- <-] & _).
          simpl in H1.
          assert (E1 : lookup b1 z = None).
          { rewrite (opndG_frame W (env ds) z (Hfr z) e (fun x Hx' => Hg x Hx') _ _ _ H1 z (le_n z)). exact E. }
          apply extends_cons in He as [Hz He1]; auto. split; auto.
          apply (opndG_sound W (env ds) IH e _ _ _ H1 rho He1).
        * apply in_flat_map in Hin as (b1 & H1 & Hin). apply in_map_iff in Hin as ([b2 v2] & [= <- <-] & H2).
          simpl in *.
          assert (E1 : lookup b1 z = None).
          { rewrite (true_resultsG_frame W (env ds) z (Hfr z) c b b1 Hq0 (fun x Hx' => Hg x (or_intror Hx')) H1 z (le_n z)). exact E. }
          assert (E2 : lookup b2 z = None).
          { rewrite (Hfr z z0 b1 b2 v2 (Hg z0 (or_introl eq_refl)) H2 z (le_n z)). exact E1. }
          apply extends_cons in He as [Hz He2]; auto. split; auto.
          destruct (IH _ _ _ _ H2 rho He2) as [He1 _].
          apply (true_resultsG_sound W D (env ds) IH c b b1 Hq0 H1 rho He1).
  Qed.

  (* ----- admissible bindings ----- *)
  Variable DS : decls.
  Hypothesis HwfDS : wf_ds DS = true.
  Hypothesis HsubDS : wf_sub DS = true.

  (* what is bound is a value of its domain / of its range under every assignment that extends the bindings *)
  Definition BokD (b : binds) : Prop :=
    forall rho, extends rho b -> forall x v, lookup b x = Some v ->
      match find_decl DS x with None => In v (D x) | Some g => In v (range W D rho g) end.

  Lemma BokD_nil : BokD [].
  Proof. intros rho _ x v H. discriminate. Qed.

  Lemma BokD_cons b x v : lookup b x = None -> BokD b ->
    (forall rho, extends rho ((x, v) :: b) -> match find_decl DS x with None => In v (D x) | Some g => In v (range W D rho g) end) ->
    BokD ((x, v) :: b).
  Proof.
    intros Hn Hb Hx rho He y w Hl. destruct (Nat.eq_dec y x) as [->|Hne].
    - rewrite lookup_cons_eq in Hl. injection Hl as <-. apply Hx. exact He.
    - rewrite lookup_cons_ne in Hl by exact Hne. apply extends_cons in He as [_ He]; auto. eapply Hb; eauto.
  Qed.

  Lemma evv_keep ds : forall pre, DS = pre ++ ds -> forall x b b' v, undecl pre x ->
    In (b', v) (evv W D ds x b) -> BokD b -> BokD b'.
  Proof.
    induction ds as [|[z g] ds IH]; intros pre Hds x b b' v Hun Hin Hb.
    - simpl in Hin. unfold var_plain in Hin. destruct (lookup b x) eqn:E.
      + destruct Hin as [[= <- <-]|[]]. exact Hb.
      + apply in_map_iff in Hin as (w & [= <- <-] & Hw). apply BokD_cons; auto.
        intros rho _. rewrite Hds, find_decl_undecl by exact Hun. simpl. exact Hw.
    - assert (Hwf : wf_ds ((z, g) :: ds) = true) by (eapply wf_ds_app_r; rewrite <- Hds; exact HwfDS).
      assert (Hq : wf_sub_q ((z, g) :: ds) = true) by (eapply wf_sub_q_app_r; rewrite <- Hds; apply wf_sub_q_of; exact HsubDS).
      pose proof (evv_frame ds) as Hfr. pose proof (evv_sound ds) as Hsd.
      apply wf_ds_cons in Hwf as (Hg & Hlt & Hwf'). simpl in Hq. apply andb_prop in Hq as [Hq0 Hq'].
      specialize (Hfr Hwf' Hq'). specialize (Hsd Hwf' Hq').
      assert (Hds' : DS = (pre ++ [(z, g)]) ++ ds) by (rewrite <- app_assoc; exact Hds).
      assert (HwfDS' : wf_ds (pre ++ (z, g) :: ds) = true) by (rewrite <- Hds; exact HwfDS).
      assert (IH' : forall x b b' v, undecl (pre ++ [(z, g)]) x -> In (b', v) (evv W D ds x b) -> BokD b -> BokD b')
        by (intros; eapply (IH _ Hds'); eauto).
      simpl in Hin.
      destruct (Nat.eqb_spec x z) as [->|Hne]; [|eapply IH'; eauto; apply undecl_snoc; auto].
      assert (Hfz : find_decl DS z = Some g) by (rewrite Hds; apply find_decl_at; exact HwfDS').
      destruct (lookup b z) eqn:E.
      + destruct Hin as [[= <- <-]|[]]. exact Hb.
      + destruct g as [e|z0 c].
        * apply in_flat_map in Hin as ([b1 lv] & H1 & Hin). apply in_map_iff in Hin as (w & [= <- <-] & Hw).
          simpl in H1.
          assert (E1 : lookup b1 z = None).
          { rewrite (opndG_frame W (env ds) z (Hfr z) e (fun x Hx' => Hg x Hx') _ _ _ H1 z (le_n z)). exact E. }
          assert (Hb1 : BokD b1).
          { apply (opndG_keep W (env ds) BokD (undecl (pre ++ [(z, FlatOf e)])) IH' e) with (b := b) (v := lv); auto.
            intros x Hx. eapply undecl_lt; eauto. }
          apply BokD_cons; auto. intros rho He. rewrite Hfz. simpl.
          apply extends_cons in He as [_ He1]; auto.
          destruct (opndG_sound W (env ds) Hsd e _ _ _ H1 rho He1) as [_ ->]. exact Hw.
        * apply in_flat_map in Hin as (b1 & H1 & Hin). apply in_map_iff in Hin as ([b2 v2] & [= <- <-] & H2).
          simpl in *.
          assert (E1 : lookup b1 z = None).
          { rewrite (true_resultsG_frame W (env ds) z (Hfr z) c b b1 Hq0 (fun x Hx' => Hg x (or_intror Hx')) H1 z (le_n z)). exact E. }
          assert (E2 : lookup b2 z = None).
          { rewrite (Hfr z z0 b1 b2 v2 (Hg z0 (or_introl eq_refl)) H2 z (le_n z)). exact E1. }
          assert (Hun' : forall x, x < z -> undecl (pre ++ [(z, SubOf z0 c)]) x) by (intros; eapply undecl_lt; eauto).
          assert (Hb1 : BokD b1).
          { apply (true_resultsG_keep W (env ds) BokD (undecl (pre ++ [(z, SubOf z0 c)])) IH' c b b1 Hq0); auto;
              intros x Hx; apply Hun'; apply Hg; now right. }
          assert (Hb2 : BokD b2) by (eapply (IH' z0 b1 b2 v2); eauto; apply Hun'; apply Hg; now left).
          apply BokD_cons; auto. intros rho He. rewrite Hfz. simpl.
          apply extends_cons in He as [_ He2]; auto.
          destruct (Hsd _ _ _ _ H2 rho He2) as [He1 Hz0].
          destruct (wf_sub_in DS z z0 c HsubDS (find_decl_in _ _ _ Hfz)) as [_ Hp0].
          apply filter_In. split.
          -- pose proof (Hb2 rho He2 z0 v2 (evv_binds W D ds _ _ _ _ H2)) as Hd. rewrite Hp0 in Hd. exact Hd.
          -- destruct (true_resultsG_sound W D (env ds) Hsd c b b1 Hq0 H1 rho He1) as [_ Hs].
             rewrite <- Hs. apply sat_opt_ext. intros x _. unfold upd. destruct (Nat.eqb_spec x z0) as [->|]; auto.
  Qed.

  (* ----- complete ----- *)
  Definition InD (rho : asg) (x : var) : Prop := find_decl DS x = None -> In (rho x) (D x).
  (* admissible in the strong sense the evaluator produces: a sub-query's own variable holds the sub-query's value *)
  Definition GoodD (rho : asg) : Prop :=
    (forall z g x, In (z, g) DS -> In x (gen_vars g) -> InD rho x) /\
    (forall z g, In (z, g) DS -> In (rho z) (range W D rho g)) /\
    (forall z z0 c, In (z, SubOf z0 c) DS -> rho z0 = rho z).

  Lemma evv_complete ds : forall pre, DS = pre ++ ds -> forall x b rho, undecl pre x ->
    GoodD rho -> InD rho x -> extends rho b ->
    exists b', In (b', rho x) (evv W D ds x b) /\ extends rho b'.
  Proof.
    induction ds as [|[z g] ds IH]; intros pre Hds x b rho Hun Hgd Hid He.
    - simpl. unfold var_plain. destruct (lookup b x) eqn:E.
      + exists b. split; auto. left. now rewrite (He _ _ E).
      + exists ((x, rho x) :: b). split.
        * apply in_map_iff. exists (rho x). split; auto. apply Hid. rewrite Hds, find_decl_undecl by exact Hun. reflexivity.
        * apply extends_cons_weak; auto.
    - assert (Hwf : wf_ds ((z, g) :: ds) = true) by (eapply wf_ds_app_r; rewrite <- Hds; exact HwfDS).
      apply wf_ds_cons in Hwf as (Hg & Hlt & Hwf').
      assert (Hds' : DS = (pre ++ [(z, g)]) ++ ds) by (rewrite <- app_assoc; exact Hds).
      assert (HwfDS' : wf_ds (pre ++ (z, g) :: ds) = true) by (rewrite <- Hds; exact HwfDS).
      assert (Hinz : In (z, g) DS) by (rewrite Hds; apply in_or_app; right; now left).
      assert (IH' : forall x b rho, GoodD rho -> (undecl (pre ++ [(z, g)]) x /\ InD rho x) -> extends rho b ->
                      exists b', In (b', rho x) (evv W D ds x b) /\ extends rho b')
        by (intros x1 b1 rho1 G1 [U1 I1] E1; eapply (IH _ Hds'); eauto).
      assert (Hun' : forall x, x < z -> undecl (pre ++ [(z, g)]) x) by (intros; eapply undecl_lt; eauto).
      simpl.
      destruct (Nat.eqb_spec x z) as [->|Hne]; [|apply IH'; auto; split; auto; apply undecl_snoc; auto].
      destruct (lookup b z) eqn:E.
      + exists b. split; auto. left. now rewrite (He _ _ E).
      + destruct Hgd as (G1 & G2 & G3). destruct g as [e|z0 c].
        * destruct (opndG_complete W (env ds) GoodD (fun rho x => undecl (pre ++ [(z, FlatOf e)]) x /\ InD rho x) IH' e b rho)
            as (b1 & H1 & He1); auto; [repeat split; auto| |].
          { intros x Hx. split; [apply Hun', Hg, Hx|]. eapply G1; eauto. }
          exists ((z, rho z) :: b1). split; [|apply extends_cons_weak; auto].
          apply in_flat_map. exists (b1, den W rho e). split; auto. apply in_map_iff. exists (rho z). split; auto.
          apply (G2 z (FlatOf e) Hinz).
        * destruct (wf_sub_in DS z z0 c HsubDS Hinz) as [Hq0 Hp0].
          pose proof (G2 z _ Hinz) as Hr. simpl in Hr. apply filter_In in Hr as [Hr1 Hr2].
          pose proof (G3 z z0 c Hinz) as Hal.
          assert (Hs : sat_opt W D rho c = true).
          { rewrite <- Hr2. apply sat_opt_ext. intros x _. unfold upd. destruct (Nat.eqb_spec x z0) as [->|]; auto. }
          assert (Hi0 : InD rho z0) by (intros _; rewrite Hal; exact Hr1).
          destruct (true_resultsG_complete W D (env ds) GoodD (fun rho x => undecl (pre ++ [(z, SubOf z0 c)]) x /\ InD rho x) IH' c b rho)
            as (b1 & H1 & He1); auto; [repeat split; auto| |].
          { intros x Hx. split; [apply Hun', Hg; now right|].
            destruct (Nat.eq_dec x z0) as [->|Hne0]; auto.
            apply (G1 z (SubOf z0 c) x Hinz). simpl. apply in_remove_var. split; auto.
            destruct c as [c|]; simpl in *; [|contradiction]. now rewrite qfree_fv. }
          destruct (IH' z0 b1 rho) as (b2 & H2 & He2); auto; [repeat split; auto|split; auto; apply Hun', Hg; now left|].
          exists ((z, rho z0) :: b2). split; [|apply extends_cons_weak; auto].
          rewrite <- Hal. apply in_flat_map. exists b1. split; auto. apply in_map_iff. exists (b2, rho z0). auto.
  Qed.
End Levels.
