(* C08: decidable fragment predicates and the pure per-element reading of a selector tree. *)
From Coq Require Import List ZArith Bool Arith.
From Krrood Require Import Eql.RuleSpec Eql.RuleEval Eql.RuleBuild.
Import ListNotations.

(* ---- decidable fragment / class predicates used by the theorems and by the harness ---- *)
Definition cmp_eqb (a b : cmp) : bool :=
  match a, b with CEq, CEq | CNe, CNe | CLt, CLt | CLe, CLe | CGt, CGt | CGe, CGe => true | _, _ => false end.
Definition rhs_eqb (a b : rhs) : bool :=
  match a, b with RConst x, RConst y => Z.eqb x y | RAttr x, RAttr y => Nat.eqb x y | _, _ => false end.
Definition atom_eqb (a b : atom) : bool :=
  Nat.eqb (at_attr a) (at_attr b) && cmp_eqb (at_op a) (at_op b) && rhs_eqb (at_rhs a) (at_rhs b).
Fixpoint list_eqb {A} (eqb : A -> A -> bool) (a b : list A) : bool :=
  match a, b with [], [] => true | x :: a', y :: b' => eqb x y && list_eqb eqb a' b' | _, _ => false end.
Definition sel_eqb (a b : sel) : bool :=
  match a, b with SExc, SExc | SAlt, SAlt | SNext, SNext => true | _, _ => false end.
Fixpoint tree_eqb (a b : tree) : bool :=
  match a, b with
  | Leaf i cs c, Leaf j ds d => Nat.eqb i j && list_eqb atom_eqb cs ds && list_eqb Nat.eqb c d
  | Node i s l r, Node j s' l' r' => Nat.eqb i j && sel_eqb s s' && tree_eqb l l' && tree_eqb r r'
  | _, _ => false
  end.
Fixpoint nodupb (l : list nat) : bool :=
  match l with [] => true | x :: l' => negb (memb x l') && nodupb l' end.

(* Gb: the surgery produced the intended tree (and a proper one: every node occurs once) *)
Definition Gb (prog : rule) : bool :=
  match build prog with
  | Some h => match reify h with
              | Some t => tree_eqb (erase t) (tree_of prog) && nodupb (ids t)
              | None => false
              end
  | None => false
  end.

Fixpoint has_next (r : rule) : bool :=
  match r with
  | Rule _ _ body => (fix go (l : list (kind * rule)) : bool :=
                        match l with
                        | [] => false
                        | (k, q) :: l' => match k with KNext => true | _ => false end || has_next q || go l'
                        end) body
  end.



(* ---- the class the property text does not settle: a next_rule written in the level of a refinement that is not the
   first refinement of its rule (RR{N}, R{A}R{N}, ...).  When an earlier sibling refinement fires, the Spec's reading
   (sibling refinements form one else-if level, a next_rule of that level fires in addition) and the tree's reading (the
   first written refinement overrides everything written after it) differ.  Such programs are outside the fragment and
   are compared with the model only. ---- *)
Fixpoint next_in_level (r : rule) : bool :=
  match r with
  | Rule _ _ body => (fix go (l : list (kind * rule)) : bool :=
                        match l with
                        | [] => false
                        | (KNext, _) :: _ => true
                        | (KAlt, q) :: l' => next_in_level q || go l'
                        | (KRef, _) :: l' => go l'
                        end) body
  end.
Fixpoint later_ref_next (r : rule) : bool :=
  match r with
  | Rule _ _ body =>
      (fix go (l : list (kind * rule)) (seen_ref : bool) : bool :=
         match l with
         | [] => false
         | (KRef, q) :: l' => (seen_ref && next_in_level q) || later_ref_next q || go l' true
         | (_, q) :: l' => later_ref_next q || go l' seen_ref
         end) body false
  end.

(* ---- pure per-element evaluation of a tree without Next: (is_false, conclusions selected) ---- *)
Fixpoint pe (t : tree) (e : elem) : bool * list nat :=
  match t with
  | Leaf _ cs c => (negb (holds e cs), c)
  | Node _ SExc l r =>
      let (fl, cl) := pe l e in
      if fl then (true, [])
      else let (fr, cr) := pe r e in
           if fr then (false, union [] cl) else (false, union [] cr)
  | Node _ _ l r =>
      let (fl, cl) := pe l e in
      if fl then let (fr, cr) := pe r e in
                 if fr then (true, []) else (false, union [] cr)
      else (false, union [] cl)
  end.
Definition rows1 (t : tree) (ie : nat * elem) : list (list nat * nat) :=
  let (f, c) := pe t (snd ie) in
  if f then [] else match c with [] => [] | _ => [(c, fst ie)] end.

Fixpoint nextfree (t : tree) : bool :=
  match t with
  | Leaf _ _ _ => true
  | Node _ SNext _ _ => false
  | Node _ _ l r => nextfree l && nextfree r
  end.

(* a next_rule at the root: its conclusion is dropped for an element for which the earlier branches concluded *)
Definition next_disj (l r : tree) (e : elem) : bool :=
  let (fl, cl) := pe l e in
  let (fr, cr) := pe r e in
  negb (negb fl && negb fr && match cl with [] => false | _ => true end && match cr with [] => false | _ => true end).

(* the proved fragment: the surgery built the written tree (every node once) and the program has no next_rule.
   [next_disj] describes when a next_rule at the root is harmless; that case is compared, not proved. *)
Definition shape_ok (t : tree) (W : list elem) : bool :=
  match t with
  | Node _ SNext l r => nextfree l && nextfree r && forallb (next_disj l r) W
  | _ => nextfree t
  end.
Definition Fb (prog : rule) : bool := Gb prog && negb (has_next prog).

(* ---- the extended fragment: one next_rule, written last at the top level and without refinements of its own ---- *)
Fixpoint split_last {A} (l : list A) : option (list A * A) :=
  match l with
  | [] => None
  | [x] => Some ([], x)
  | x :: l' => match split_last l' with Some (a, y) => Some (x :: a, y) | None => None end
  end.
(* prog = Rule cs tg (body' ++ [(KNext, Rule csn tgn [])]) with no next_rule in Rule cs tg body' *)
Definition split_root_next (prog : rule) : option (rule * list atom * option nat) :=
  match prog with
  | Rule cs tg body =>
      match split_last body with
      | Some (body', (KNext, Rule csn tgn [])) =>
          if has_next (Rule cs tg body') then None else Some (Rule cs tg body', csn, tgn)
      | _ => None
      end
  end.

Definition tags_of (r : rule) : list nat := flat_map (fun q => tag_list (r_tag q)) (rules_of r).

(* ... built as written, and the next_rule's conclusion is not the conclusion of another rule (conclusions are identified
   by their tags in the model) *)
Definition Fb_next (prog : rule) : bool :=
  Gb prog &&
  match split_root_next prog with
  | Some (prog', _, Some tn) => negb (memb tn (tags_of prog'))
  | Some (_, _, None) => true
  | None => false
  end.


(* the proved fragment *)
Definition Fx0 (prog : rule) : bool := Fb prog || Fb_next prog.

(* ---- wider: the last top-level branch is a next_rule that may carry refinements (but no alternative / next_rule in
   its own block), there is no other next_rule, and its conclusions are not conclusions of the rest ---- *)
Fixpoint only_refs (body : list (kind * rule)) : bool :=
  match body with [] => true | (KRef, _) :: l' => only_refs l' | _ => false end.
Definition split_root_next2 (prog : rule) : option (rule * rule) :=
  match prog with
  | Rule cs tg body =>
      match split_last body with
      | Some (body', (KNext, q)) =>
          if has_next (Rule cs tg body') || has_next q || negb (only_refs (r_body q)) then None
          else Some (Rule cs tg body', q)
      | _ => None
      end
  end.
Definition disjointb (a b : list nat) : bool := forallb (fun x => negb (memb x b)) a.
Definition Fb_next2 (prog : rule) : bool :=
  Gb prog &&
  match split_root_next2 prog with
  | Some (prog', q) => disjointb (tags_of q) (tags_of prog')
  | None => false
  end.

(* the proved fragment *)
Definition Fx (prog : rule) : bool := Fb prog || Fb_next prog || Fb_next2 prog.
