(* C03 (c) -- isolation of whole evaluations interleaved step by step: a theorem about the coroutine machine itself.
   1. [ideal]: what a suspended evaluation will still deliver if every domain iterator simply walks the (de-duplicated)
      domain -- no caches, no other evaluations.
   2. [drive_ideal]: one next() of the real machine (shared caches, HashedIterable handles of krrood 1997e3c, selector node)
      delivers exactly the head of [ideal], whatever the other evaluations did to the caches in between
      (this is where C03_cache_any_schedule_repaired's invariant is used, per handle).
   3. [compile_ideal]: the ideal rows of a compiled query are its isolated rows [iso_rows] (the CPS / list-monad bridge).
   4. [sched_isolated]: every schedule of next/close steps over any number of evaluations whose query objects are pairwise
      distinct: each evaluation delivered a prefix of its isolated rows, all of them if it ended by itself, and never failed. *)
From Coq Require Import List ZArith Bool Arith Lia.
From Krrood Require Import Eql.DomainCacheSpec Eql.DomainCache Eql.DomainCacheProofs
                           Eql.ReevalSpec Eql.Reeval Eql.ReevalProofs Eql.DomainCacheSched.
Import ListNotations.
Open Scope Z_scope.

Definition is_prefix_rows (a b : list (list Z)) : Prop := exists x, b = a ++ x.

(* ------------------------------------------------------------------ lists *)
Lemma skipn_cons_nth {X} (l : list X) : forall j v r,
  skipn j l = v :: r -> nth_error l j = Some v /\ skipn (S j) l = r.
Proof.
  induction l as [|a l IH]; intros [|j] v r H; simpl in *; try discriminate.
  - injection H as -> ->. auto.
  - apply IH in H. auto.
Qed.

Lemma skipn_nil_len {X} (l : list X) j : skipn j l = [] -> (length l <= j)%nat.
Proof.
  intros H. assert (E : length (skipn j l) = (length l - j)%nat) by apply skipn_length.
  rewrite H in E. simpl in E. lia.
Qed.

Lemma prefix_nth (a b : list hv) j v : is_prefix a b -> nth_error a j = Some v -> nth_error b j = Some v.
Proof.
  intros [x ->] H. rewrite nth_error_app1; auto. apply nth_error_Some. congruence.
Qed.

Lemma upd_same {X} (l : list X) : forall h a, nth_error l h = Some a -> upd h a l = l.
Proof.
  induction l as [|b l IH]; intros [|h] a H; simpl in *; try discriminate; auto.
  - injection H as ->. auto.
  - f_equal. auto.
Qed.

Lemma Forall2_upd_both {X Y} (R : X -> Y -> Prop) l1 l2 h a b :
  Forall2 R l1 l2 -> R a b -> Forall2 R (upd h a l1) (upd h b l2).
Proof.
  intros H. revert h. induction H as [|x y l1 l2 Hxy H IH]; intros [|h] Hab; simpl; constructor; auto.
Qed.

Lemma Forall2_length' {X Y} (R : X -> Y -> Prop) l1 l2 : Forall2 R l1 l2 -> length l1 = length l2.
Proof. induction 1; simpl; auto. Qed.

Lemma Forall2_nth_l {X Y} (R : X -> Y -> Prop) l1 l2 h a :
  Forall2 R l1 l2 -> nth_error l1 h = Some a -> exists b, nth_error l2 h = Some b /\ R a b.
Proof. apply Forall2_nth_some. Qed.

Lemma Forall2_impl {X Y} (R R' : X -> Y -> Prop) l1 l2 :
  (forall a b, R a b -> R' a b) -> Forall2 R l1 l2 -> Forall2 R' l1 l2.
Proof. intros H. induction 1; constructor; auto. Qed.

Lemma nth_error_upd_other {X} (l : list X) h h' a : h' <> h -> nth_error (upd h a l) h' = nth_error l h'.
Proof. apply nth_error_upd_neq. Qed.

(* ------------------------------------------------------------------ caches only grow *)
Definition cext (cs cs' : list dstate) : Prop := Forall2 (fun d d' => exists e, cache d' = cache d ++ e) cs cs'.

Lemma cext_refl cs : cext cs cs.
Proof. induction cs; constructor; auto. exists []. now rewrite app_nil_r. Qed.

Lemma cext_trans a b c : cext a b -> cext b c -> cext a c.
Proof.
  intros H. revert c. induction H as [|x y l1 l2 [e He] H IH]; intros c Hc; inversion Hc; subst; constructor.
  - destruct H2 as [e' He']. exists (e ++ e'). rewrite He', He. now rewrite app_assoc.
  - apply IH; auto.
Qed.

Lemma cext_upd cs x d d' e : nth_error cs x = Some d -> cache d' = cache d ++ e -> cext cs (upd x d' cs).
Proof.
  revert x. induction cs as [|a cs IH]; intros [|x] Hn He; simpl in *; try discriminate.
  - injection Hn as ->. constructor; [eauto|apply cext_refl].
  - constructor; [exists []; now rewrite app_nil_r|apply IH; auto].
Qed.

(* ------------------------------------------------------------------ 1. the ideal reading of a suspended evaluation *)
Section Ideal.
  Variable W' : world.     (* the de-duplicated domains *)

  Fixpoint ideal (c : co) (pos : list (nat * nat)) (nd : nstate) : list (list Z) * bool :=
    match c with
    | CNew x k => ideal (k (length pos)) (pos ++ [(x, O)]) nd
    | CPull h k =>
        match nth_error pos h with
        | None => ([], false)
        | Some (x, i) => match nth_error (domW W' x) i with
                         | Some v => ideal (k (OYield v)) (upd h (x, S i) pos) nd
                         | None => ideal (k OStop) pos nd
                         end
        end
    | CYield r k => let p := ideal k pos nd in (r :: fst p, snd p)
    | CForget k => ideal k pos ([], snd nd)
    | CConclude key k => let nd' := conclude_node key nd in ideal (k (snd nd')) pos nd'
    | CConclClear k => ideal k pos (fst nd, [])
    | CEnd => ([], true)
    | CErr | COut => ([], false)
    end.

  (* ---------------------------------------------------------------- 2. one next() of the machine = the head of [ideal] *)
  Definition CInv (cs : list dstate) : Prop := Forall2 dgood cs W'.

  Definition hrel (cs : list dstate) (hp : nat * rstate) (p : nat * nat) : Prop :=
    fst hp = fst p /\
    match snd hp with
    | RLive j pend =>
        j = snd p /\
        match nth_error cs (fst hp) with
        | Some d => (j + length pend <= length (cache d))%nat /\ firstn (length pend) (skipn j (cache d)) = pend
        | None => True
        end
    | RDone => (length (domW W' (fst hp)) <= snd p)%nat
    | RClosed => False
    end.

  Lemma hrel_cext cs cs' hp p : cext cs cs' -> hrel cs hp p -> hrel cs' hp p.
  Proof.
    intros He [Hx H]. split; auto. destruct (snd hp) as [j pend| |]; auto.
    destruct H as [Hj H]. split; auto.
    destruct (nth_error cs' (fst hp)) as [d'|] eqn:E'; auto.
    destruct (nth_error cs (fst hp)) as [d|] eqn:E.
    - destruct (Forall2_nth_some _ _ _ _ _ He E) as (d2 & E2 & e & Hc). rewrite E' in E2. injection E2 as <-.
      destruct H as [Hb Hf]. rewrite Hc. split.
      + rewrite app_length. lia.
      + rewrite skipn_app. replace (j - length (cache d))%nat with O by lia. simpl.
        rewrite firstn_app. rewrite Hf.
        replace (length pend - length (skipn j (cache d)))%nat with O; [simpl; now rewrite app_nil_r|].
        rewrite skipn_length. lia.
    - pose proof (Forall2_nth_none _ _ _ _ He E) as En. congruence.
  Qed.

  Lemma rstep_sim d w j pend o d' st' :
    dgood d w -> (j + length pend <= length (cache d))%nat -> firstn (length pend) (skipn j (cache d)) = pend ->
    rstep d (RLive j pend) = (o, d', st') ->
    dgood d' w /\ (exists e, cache d' = cache d ++ e) /\
    match nth_error w j with
    | Some v => o = OYield v /\ exists pend', st' = RLive (S j) pend' /\
                                 (S j + length pend' <= length (cache d'))%nat /\
                                 firstn (length pend') (skipn (S j) (cache d')) = pend'
    | None => o = OStop /\ st' = RDone
    end.
  Proof.
    unfold dgood. intros Hd Hb Hf H.
    assert (Hp : is_prefix (cache d) w) by (rewrite <- Hd; apply fold_ins_prefix).
    simpl in H. destruct pend as [|v p].
    - destruct (skipn j (cache d)) as [|v r] eqn:Es.
      + apply skipn_nil_len in Es. simpl in Hb. assert (j = length (cache d)) by lia. subst j.
        destruct (rpull (cache d) (src d)) as [[[v|] c] r] eqn:Ep.
        * injection H as <- <- <-. apply rpull_some in Ep. destruct Ep as [-> Ep]. simpl.
          split; [congruence|]. split; [eauto|].
          assert (Hp' : is_prefix (cache d ++ [v]) w) by (rewrite <- Hd, <- Ep; apply fold_ins_prefix).
          assert (E : nth_error w (length (cache d)) = Some v).
          { apply (prefix_nth _ _ _ _ Hp'). rewrite nth_error_app2 by lia. rewrite Nat.sub_diag. reflexivity. }
          rewrite E. split; auto. exists []. rewrite app_length. simpl. repeat split; auto. lia.
        * injection H as <- <- <-. apply rpull_none in Ep. destruct Ep as (-> & -> & Ep). simpl.
          split; [congruence|]. split; [exists []; now rewrite app_nil_r|].
          assert (Hw : w = cache d) by congruence.
          assert (E : nth_error w (length (cache d)) = None) by (apply nth_error_None; rewrite Hw; apply Nat.le_refl).
          rewrite E. auto.
      + injection H as <- <- <-. destruct (skipn_cons_nth _ _ _ _ Es) as [En Es']. split; auto.
        split; [exists []; now rewrite app_nil_r|].
        assert (E : nth_error w j = Some v) by (apply (prefix_nth _ _ _ _ Hp En)).
        rewrite E. split; auto. exists r. split; auto.
        assert (L : length (skipn j (cache d)) = (length (cache d) - j)%nat) by apply skipn_length.
        rewrite Es in L. simpl in L. split; [lia|]. rewrite Es'. apply firstn_all.
    - injection H as <- <- <-. simpl in Hf, Hb.
      destruct (skipn j (cache d)) as [|v' r] eqn:Es; [discriminate|]. injection Hf as -> Hf.
      destruct (skipn_cons_nth _ _ _ _ Es) as [En Es']. split; auto.
      split; [exists []; now rewrite app_nil_r|].
      assert (E : nth_error w j = Some v) by (apply (prefix_nth _ _ _ _ Hp En)).
      rewrite E. split; auto. exists p. split; auto. split; [lia|]. now rewrite Es'.
  Qed.

  Definition outcome (r : ires) (c c' : co) (pos : list (nat * nat)) (nd : nstate) (pos' : list (nat * nat)) (nd' : nstate) : Prop :=
    match r with
    | IRow row => ideal c pos nd = (row :: fst (ideal c' pos' nd'), snd (ideal c' pos' nd'))
    | IStop => ideal c pos nd = ([], true) /\ c' = CEnd
    | IErr | IOut => ideal c pos nd = ([], false) /\ c' = CEnd
    | IClosed => False
    end.

  Notation drv := (drive rstate (RLive 0 []) rstep).

  Lemma drive_ideal c : forall o cs hs ns pos nd r c' cs' hs' ns',
    CInv cs -> Forall2 (hrel cs) hs pos -> nth_error ns o = Some nd ->
    drv o c cs hs ns = (r, c', cs', hs', ns') ->
    exists pos' nd', CInv cs' /\ cext cs cs' /\ Forall2 (hrel cs') hs' pos' /\ nth_error ns' o = Some nd' /\
                     (forall o', o' <> o -> nth_error ns' o' = nth_error ns o') /\
                     outcome r c c' pos nd pos' nd'.
  Proof.
    induction c as [x k IH|h k IH|row k IH|k IH|key k IH|k IH| | |]; intros o cs hs ns pos nd r c' cs' hs' ns' HC HH HN HD.
    - (* CNew *)
      simpl in HD. pose proof (Forall2_length' _ _ _ HH) as HL.
      assert (HH' : Forall2 (hrel cs) (hs ++ [(x, RLive 0 [])]) (pos ++ [(x, O)])).
      { apply Forall2_app; auto. constructor; [|constructor]. split; simpl; auto. split; auto.
        destruct (nth_error cs x); auto. simpl. split; [lia|reflexivity]. }
      destruct (IH (length hs) _ _ _ _ _ _ _ _ _ _ _ HC HH' HN HD) as (pos' & nd' & A & B & C & D & E & F).
      exists pos', nd'. repeat split; auto.
      unfold outcome in *. simpl. rewrite <- HL. exact F.
    - (* CPull *)
      simpl in HD. destruct (nth_error hs h) as [[x st]|] eqn:Eh.
      + destruct (Forall2_nth_l _ _ _ _ _ HH Eh) as ([x' i] & Ep & Hr).
        pose proof Hr as [Hx Hst]. simpl in Hx, Hst. subst x'.
        destruct (nth_error cs x) as [d|] eqn:Ec.
        * destruct (Forall2_nth_some _ _ _ _ _ HC Ec) as (w & Ew & Hdw).
          assert (Edom : domW W' x = w) by (unfold domW; apply nth_error_nth; auto).
          destruct st as [j pend| |]; [| |contradiction].
          -- destruct Hst as [-> [Hb Hf]].
             destruct (rstep d (RLive i pend)) as [[o_ d'] st'] eqn:Es.
             destruct (rstep_sim _ _ _ _ _ _ _ Hdw Hb Hf Es) as (Gd & [e Ge] & Gm).
             assert (HC1 : CInv (upd x d' cs)) by (eapply Forall2_upd; eauto).
             assert (HE1 : cext cs (upd x d' cs)) by (eapply cext_upd; eauto).
             destruct (nth_error w i) as [v|] eqn:Ev.
             ++ destruct Gm as (-> & pend' & -> & Gb & Gf).
                assert (HH1 : Forall2 (hrel (upd x d' cs)) (upd h (x, RLive (S i) pend') hs) (upd h (x, S i) pos)).
                { apply Forall2_upd_both.
                  - eapply Forall2_impl; [|exact HH]. intros a b. apply hrel_cext; auto.
                  - split; simpl; auto. split; auto. rewrite (nth_error_upd_eq _ _ _ _ Ec). auto. }
                destruct (IH _ _ _ _ _ _ _ _ _ _ _ _ HC1 HH1 HN HD) as (pos' & nd' & A & B & C & D & E & F).
                exists pos', nd'. repeat split; auto; [eapply cext_trans; eauto|].
                unfold outcome in *. simpl. rewrite Ep, Edom, Ev. exact F.
             ++ destruct Gm as (-> & ->).
                assert (HH1 : Forall2 (hrel (upd x d' cs)) (upd h (x, RDone) hs) pos).
                { rewrite <- (upd_same pos h (x, i) Ep). apply Forall2_upd_both.
                  - eapply Forall2_impl; [|exact HH]. intros a b. apply hrel_cext; auto.
                  - split; simpl; auto. rewrite Edom. apply nth_error_None; auto. }
                destruct (IH _ _ _ _ _ _ _ _ _ _ _ _ HC1 HH1 HN HD) as (pos' & nd' & A & B & C & D & E & F).
                exists pos', nd'. repeat split; auto; [eapply cext_trans; eauto|].
                unfold outcome in *. simpl. rewrite Ep, Edom, Ev. exact F.
          -- simpl in Hst. simpl in HD.
             assert (HC1 : CInv (upd x d cs)) by (eapply Forall2_upd; eauto).
             assert (HE1 : cext cs (upd x d cs)) by (eapply (cext_upd _ _ _ _ []); eauto; now rewrite app_nil_r).
             assert (HH1 : Forall2 (hrel (upd x d cs)) (upd h (x, RDone) hs) pos).
             { rewrite <- (upd_same pos h (x, i) Ep). apply Forall2_upd_both.
               - eapply Forall2_impl; [|exact HH]. intros a b. apply hrel_cext; auto.
               - split; simpl; auto. }
             destruct (IH _ _ _ _ _ _ _ _ _ _ _ _ HC1 HH1 HN HD) as (pos' & nd' & A & B & C & D & E & F).
             exists pos', nd'. repeat split; auto; [eapply cext_trans; eauto|].
             assert (Ev : nth_error w i = None) by (apply nth_error_None; rewrite <- Edom; auto).
             unfold outcome in *. simpl. rewrite Ep, Edom, Ev. exact F.
        * pose proof (Forall2_nth_none _ _ _ _ HC Ec) as Ew.
          assert (Ev : nth_error (domW W' x) i = None).
          { unfold domW. rewrite nth_overflow; [destruct i; reflexivity|]. apply nth_error_None; auto. }
          destruct (IH _ _ _ _ _ _ _ _ _ _ _ _ HC HH HN HD) as (pos' & nd' & A & B & C & D & E & F).
          exists pos', nd'. repeat split; auto.
          unfold outcome in *. simpl. rewrite Ep, Ev. exact F.
      + injection HD as <- <- <- <- <-.
        assert (Ep : nth_error pos h = None).
        { apply nth_error_None. rewrite <- (Forall2_length' _ _ _ HH). apply nth_error_None; auto. }
        exists pos, nd. repeat split; auto; [apply cext_refl|]. simpl. now rewrite Ep.
    - (* CYield *)
      simpl in HD. injection HD as <- <- <- <- <-. exists pos, nd. repeat split; auto. apply cext_refl.
    - (* CForget *)
      simpl in HD. rewrite HN in HD.
      assert (HN1 : nth_error (upd o ([], snd nd) ns) o = Some ([], snd nd)) by (eapply nth_error_upd_eq; eauto).
      destruct (IH _ _ _ _ _ _ _ _ _ _ _ HC HH HN1 HD) as (pos' & nd' & A & B & C & D & E & F).
      exists pos', nd'. repeat split; auto.
      intros o' Ho. rewrite (E o' Ho). apply nth_error_upd_neq; auto.
    - (* CConclude *)
      simpl in HD. rewrite HN in HD.
      assert (HN1 : nth_error (upd o (conclude_node key nd) ns) o = Some (conclude_node key nd)) by (eapply nth_error_upd_eq; eauto).
      destruct (IH _ _ _ _ _ _ _ _ _ _ _ _ HC HH HN1 HD) as (pos' & nd' & A & B & C & D & E & F).
      exists pos', nd'. repeat split; auto.
      intros o' Ho. rewrite (E o' Ho). apply nth_error_upd_neq; auto.
    - (* CConclClear *)
      simpl in HD. rewrite HN in HD.
      assert (HN1 : nth_error (upd o (fst nd, []) ns) o = Some (fst nd, [])) by (eapply nth_error_upd_eq; eauto).
      destruct (IH _ _ _ _ _ _ _ _ _ _ _ HC HH HN1 HD) as (pos' & nd' & A & B & C & D & E & F).
      exists pos', nd'. repeat split; auto.
      intros o' Ho. rewrite (E o' Ho). apply nth_error_upd_neq; auto.
    - simpl in HD. injection HD as <- <- <- <- <-. exists pos, nd. repeat split; auto. apply cext_refl.
    - simpl in HD. injection HD as <- <- <- <- <-. exists pos, nd. repeat split; auto. apply cext_refl.
    - simpl in HD. injection HD as <- <- <- <- <-. exists pos, nd. repeat split; auto. apply cext_refl.
  Qed.
End Ideal.

(* ------------------------------------------------------------------ 3. the ideal rows of a compiled query = iso_rows *)
Definition app_rows (rs : list (list Z)) (p : list (list Z) * bool) : list (list Z) * bool := (rs ++ fst p, snd p).

Lemma app_rows_nil p : app_rows [] p = p.
Proof. destruct p; reflexivity. Qed.
Lemma app_rows_app a b p : app_rows (a ++ b) p = app_rows a (app_rows b p).
Proof. unfold app_rows; simpl. now rewrite app_assoc. Qed.

(* sequential composition of row handlers that thread the selector's coverage memory *)
Notation seenT := (list (list Z)).
Fixpoint Kl {X} (K : X -> seenT -> list (list Z) * seenT) (xs : list X) (s : seenT) : list (list Z) * seenT :=
  match xs with
  | [] => ([], s)
  | x :: r => let '(r1, s1) := K x s in let '(r2, s2) := Kl K r s1 in (r1 ++ r2, s2)
  end.

Lemma Kl_single {X} (K : X -> seenT -> list (list Z) * seenT) x s : Kl K [x] s = K x s.
Proof. simpl. destruct (K x s) as [r1 s1]. now rewrite app_nil_r. Qed.

Lemma Kl_app {X} (K : X -> seenT -> list (list Z) * seenT) a : forall b s,
  Kl K (a ++ b) s = let '(r1, s1) := Kl K a s in let '(r2, s2) := Kl K b s1 in (r1 ++ r2, s2).
Proof.
  induction a as [|x a IH]; intros b s; simpl.
  - destruct (Kl K b s); reflexivity.
  - destruct (K x s) as [r1 s1]. rewrite IH. destruct (Kl K a s1) as [r2 s2]. destruct (Kl K b s2) as [r3 s3].
    now rewrite app_assoc.
Qed.

Lemma Kl_flat_map {X Y} (K : Y -> seenT -> list (list Z) * seenT) (f : X -> list Y) xs : forall s,
  Kl K (flat_map f xs) s = Kl (fun x => Kl K (f x)) xs s.
Proof.
  induction xs as [|x xs IH]; intros s; simpl; auto.
  rewrite Kl_app. destruct (Kl K (f x) s) as [r1 s1]. rewrite IH. reflexivity.
Qed.

Lemma Kl_ext {X} (K K' : X -> seenT -> list (list Z) * seenT) xs :
  (forall x s, K x s = K' x s) -> forall s, Kl K xs s = Kl K' xs s.
Proof.
  intros H. induction xs as [|x xs IH]; intros s; simpl; auto.
  rewrite H. destruct (K' x s) as [r1 s1]. now rewrite IH.
Qed.

Lemma Kl_stateless {X} (g : X -> list (list Z)) xs : forall s,
  Kl (fun x s => (g x, s)) xs s = (flat_map g xs, s).
Proof. induction xs as [|x xs IH]; intros s; simpl; auto. now rewrite IH. Qed.

Lemma with_varW_flat {R} W x b (kk : bindings -> list R) :
  with_varW W x b kk = flat_map kk (with_varW W x b (fun b' => [b'])).
Proof.
  unfold with_varW. destruct (lookup b x).
  - simpl. now rewrite app_nil_r.
  - induction (domW W x) as [|v l IH]; simpl; auto. now rewrite IH.
Qed.

Lemma bind_allW_flat {R} W xs : forall b (kk : bindings -> list R),
  bind_allW W xs b kk = flat_map kk (bind_allW W xs b (fun b' => [b'])).
Proof.
  induction xs as [|x xs IH]; intros b kk; simpl.
  - now rewrite app_nil_r.
  - rewrite (with_varW_flat W x b (fun b' => bind_allW W xs b' kk)).
    rewrite (with_varW_flat W x b (fun b' => bind_allW W xs b' (fun b'' => [b'']))).
    induction (with_varW W x b (fun b' => [b'])) as [|b' l IHl]; simpl; auto.
    rewrite flat_map_app. rewrite <- IHl. f_equal. apply IH.
Qed.

Section Compile.
  Variable W' : world.
  Variable A : attrs.
  Variable F : nat.
  Hypothesis HF : forall x, (F > length (domW W' x))%nat.

  Notation idl := (ideal W').

  (* [pos'] extends [pos]: nothing the segment found is touched *)
  Definition pres (pos pos' : list (nat * nat)) : Prop :=
    (length pos <= length pos')%nat /\ forall j, (j < length pos)%nat -> nth_error pos' j = nth_error pos j.

  Lemma pres_refl pos : pres pos pos.
  Proof. split; auto. Qed.

  (* a stretch of a generator body: delivers rows, updates the coverage memory, then continues with [resume] *)
  Definition seg (f : co -> co) (g : seenT -> list (list Z) * seenT) : Prop :=
    forall resume pos seen, exists pos', pres pos pos' /\
      idl (f resume) pos (seen, []) = app_rows (fst (g seen)) (idl resume pos' (snd (g seen), [])).

  Lemma hloop_seg body (g : Z -> seenT -> list (list Z) * seenT) h x done :
    (forall v, seg (body v) (g v)) ->
    forall f i pos seen, nth_error pos h = Some (x, i) -> (f > length (domW W' x) - i)%nat ->
    exists pos', (length pos <= length pos')%nat /\
                 (forall j, (j < length pos)%nat -> j <> h -> nth_error pos' j = nth_error pos j) /\
                 idl (hloop f h body done) pos (seen, []) =
                 app_rows (fst (Kl g (skipn i (domW W' x)) seen)) (idl done pos' (snd (Kl g (skipn i (domW W' x)) seen), [])).
  Proof.
    intros Hb. induction f as [|f IH]; intros i pos seen Hp Hf; [lia|].
    simpl. rewrite Hp. destruct (nth_error (domW W' x) i) as [v|] eqn:Ev.
    - assert (Hh : (h < length pos)%nat) by (apply nth_error_Some; congruence).
      destruct (Hb v (hloop f h body done) (upd h (x, S i) pos) seen) as (pos1 & [P1 P2] & E1).
      assert (L1 : length (upd h (x, S i) pos) = length pos).
      { clear -Hh. revert h Hh. induction pos as [|a pos IHp]; intros [|h] Hh; simpl in *; auto; try lia.
        f_equal. apply IHp. lia. }
      assert (Hp1 : nth_error pos1 h = Some (x, S i)).
      { rewrite P2 by lia. eapply nth_error_upd_eq; eauto. }
      assert (Hlen : (i < length (domW W' x))%nat) by (apply nth_error_Some; congruence).
      destruct (IH (S i) pos1 (snd (g v seen)) Hp1) as (pos' & Q1 & Q2 & E2); [lia|].
      exists pos'. split; [lia|]. split.
      + intros j Hj Hne. rewrite Q2 by lia. rewrite P2 by lia. apply nth_error_upd_neq; auto.
      + rewrite E1, E2.
        assert (Es : skipn i (domW W' x) = v :: skipn (S i) (domW W' x)).
        { clear -Ev. revert i Ev. induction (domW W' x) as [|a l IHl]; intros [|i] Ev; simpl in *; try discriminate.
          - injection Ev as ->. reflexivity.
          - apply IHl; auto. }
        rewrite Es. generalize (skipn (S i) (domW W' x)). intros rest.
        cbn [Kl]. destruct (g v seen) as [r1 s1]. cbn [fst snd].
        destruct (Kl g rest s1) as [r2 s2]. cbn [fst snd].
        now rewrite app_rows_app.
    - apply nth_error_None in Ev. rewrite skipn_all2 by auto. simpl. exists pos. split; auto. split; auto.
      now rewrite app_rows_nil.
  Qed.

  Lemma with_varC_seg x b (k : bindings -> co -> co) (K : bindings -> seenT -> list (list Z) * seenT) :
    (forall b', seg (k b') (K b')) ->
    seg (fun done => with_varC F x b k done) (Kl K (with_varW W' x b (fun b' => [b']))).
  Proof.
    intros Hk resume pos seen. unfold with_varC, with_varW. destruct (lookup b x).
    - destruct (Hk b resume pos seen) as (pos' & P & E). exists pos'. split; auto. now rewrite Kl_single.
    - simpl idl.
      destruct (hloop_seg (fun v resume0 => k ((x, v) :: b) resume0) (fun v => K ((x, v) :: b)) (length pos) x resume
                          (fun v => Hk ((x, v) :: b)) F O (pos ++ [(x, O)]) seen) as (pos' & Q1 & Q2 & E).
      + rewrite nth_error_app2 by lia. now rewrite Nat.sub_diag.
      + pose proof (HF x). lia.
      + exists pos'. split.
        * rewrite app_length in Q1. simpl in Q1. split; [lia|].
          intros j Hj. rewrite Q2; [apply nth_error_app1; auto|rewrite app_length; simpl; lia|lia].
        * rewrite E. simpl skipn.
          rewrite Kl_flat_map. rewrite (Kl_ext (fun v => Kl K [(x, v) :: b]) (fun v => K ((x, v) :: b))); auto.
          intros v s. apply Kl_single.
  Qed.

  Lemma bind_allC_seg (k : bindings -> co -> co) (K : bindings -> seenT -> list (list Z) * seenT) :
    (forall b', seg (k b') (K b')) ->
    forall xs b, seg (fun done => bind_allC F xs b k done) (Kl K (bind_allW W' xs b (fun b' => [b']))).
  Proof.
    intros Hk. induction xs as [|x xs IH]; intros b.
    - intros resume pos seen. cbn [bind_allC bind_allW eval_condsC eval_condsW]. destruct (Hk b resume pos seen) as (pos' & P & E).
      exists pos'. split; auto. now rewrite Kl_single.
    - simpl bind_allC.
      pose proof (with_varC_seg x b (fun b' resume => bind_allC F xs b' k resume)
                                (fun b' => Kl K (bind_allW W' xs b' (fun b'' => [b'']))) (fun b' => IH b')) as Hs.
      intros resume pos seen. destruct (Hs resume pos seen) as (pos' & P & E). exists pos'. split; auto.
      rewrite E. simpl bind_allW.
      rewrite (with_varW_flat W' x b (fun b' => bind_allW W' xs b' (fun b'' => [b'']))).
      now rewrite Kl_flat_map.
  Qed.

  Lemma seg_id : seg (fun r => r) (fun s => ([], s)).
  Proof. intros resume pos seen. exists pos. split; [apply pres_refl|]. simpl. now rewrite app_rows_nil. Qed.

  Lemma eval_atomC_seg a (k : bindings -> co -> co) (K : bindings -> seenT -> list (list Z) * seenT) :
    (forall b', seg (k b') (K b')) ->
    forall b, seg (fun done => eval_atomC A F a b k done) (Kl K (eval_atomW W' A a b)).
  Proof.
    intros Hk b. unfold eval_atomC, eval_atomW.
    pose proof (bind_allC_seg (fun b' resume => if sat_atom A b' a then k b' resume else resume)
                              (fun b' s => if sat_atom A b' a then K b' s else ([], s))) as Hs.
    intros resume pos seen.
    destruct (Hs (fun b' => match sat_atom A b' a as t return seg (fun resume => if t then k b' resume else resume)
                                                              (fun s => if t then K b' s else ([], s)) with
                            | true => Hk b' | false => seg_id end) (atom_vars a) b resume pos seen) as (pos' & P & E).
    exists pos'. split; auto. rewrite E.
    rewrite (bind_allW_flat W' (atom_vars a) b (fun b' => if sat_atom A b' a then [b'] else [])).
    rewrite Kl_flat_map.
    rewrite (Kl_ext (fun b' => Kl K (if sat_atom A b' a then [b'] else []))
                    (fun b' s => if sat_atom A b' a then K b' s else ([], s))); auto.
    intros b' s. destruct (sat_atom A b' a); [apply Kl_single|reflexivity].
  Qed.

  Lemma eval_condsC_seg (k : bindings -> co -> co) (K : bindings -> seenT -> list (list Z) * seenT) :
    (forall b', seg (k b') (K b')) ->
    forall cs b, seg (fun done => eval_condsC A F cs b k done) (Kl K (eval_condsW W' A cs b)).
  Proof.
    intros Hk. induction cs as [|a cs IH]; intros b.
    - intros resume pos seen. cbn [bind_allC bind_allW eval_condsC eval_condsW]. destruct (Hk b resume pos seen) as (pos' & P & E).
      exists pos'. split; auto. now rewrite Kl_single.
    - simpl eval_condsC.
      pose proof (eval_atomC_seg a (fun b' resume => eval_condsC A F cs b' k resume)
                                 (fun b' => Kl K (eval_condsW W' A cs b')) (fun b' => IH b') b) as Hs.
      intros resume pos seen. destruct (Hs resume pos seen) as (pos' & P & E). exists pos'. split; auto.
      rewrite E. simpl eval_condsW. now rewrite Kl_flat_map.
  Qed.

  Lemma Kl_conclude exc sel bs : forall seen,
    Kl (fun b s => conclude A exc sel [b] s) bs seen = conclude A exc sel bs seen.
  Proof.
    induction bs as [|b bs IH]; intros seen; simpl; auto.
    destruct (memkey ((if forallb (sat_atom A b) exc then 1 else 0) :: row sel b) seen) eqn:Em.
    - rewrite IH. destruct (conclude A exc sel bs seen); reflexivity.
    - rewrite IH. destruct (conclude A exc sel bs (seen ++ [(if forallb (sat_atom A b) exc then 1 else 0) :: row sel b])); reflexivity.
  Qed.

  Theorem compile_ideal q : idl (compile A F q) [] ([], []) = (iso_rows W' A q, true).
  Proof.
    unfold compile, iso_rows. destruct (q_rule q) as [exc|].
    - (* rule query *)
      simpl idl.
      set (kr := fun (b : bindings) (resume : co) =>
                   CConclude ((if forallb (sat_atom A b) exc then 1 else 0) :: row (q_sel q) b)
                     (fun pend => match pend with
                                  | [] => CConclClear resume
                                  | [t] => CYield (t :: row (q_sel q) b) (CConclClear resume)
                                  | _ => CYield ((-5) :: row (q_sel q) b) (CConclClear resume)
                                  end)).
      assert (Hk : forall b, seg (kr b) (fun s => conclude A exc (q_sel q) [b] s)).
      { intros b resume pos seen. exists pos. split; [apply pres_refl|]. unfold kr. simpl.
        unfold conclude_node. simpl.
        destruct (memkey ((if forallb (sat_atom A b) exc then 1 else 0) :: row (q_sel q) b) seen); simpl.
        - now rewrite app_rows_nil.
        - unfold add_tag. simpl. reflexivity. }
      destruct (eval_condsC_seg kr _ Hk (q_conds q) [] CEnd [] []) as (pos' & P & E).
      fold kr. rewrite E. rewrite Kl_conclude. simpl. unfold app_rows. simpl. now rewrite app_nil_r.
    - (* rule-free query *)
      set (k0 := fun (b' : bindings) (r : co) => CYield (row (q_sel q) b') r).
      assert (H0 : forall b', seg (k0 b') (fun s => ([row (q_sel q) b'], s))).
      { intros b' resume pos seen. exists pos. split; [apply pres_refl|]. reflexivity. }
      set (k1 := fun (b : bindings) (resume : co) => bind_allC F (q_sel q) b k0 resume).
      assert (H1 : forall b, seg (k1 b) (fun s => (bind_allW W' (q_sel q) b (fun b' => [row (q_sel q) b']), s))).
      { intros b resume pos seen.
        destruct (bind_allC_seg k0 _ H0 (q_sel q) b resume pos seen) as (pos' & P & E).
        exists pos'. split; auto. unfold k1. rewrite E. rewrite Kl_stateless. simpl.
        now rewrite <- (bind_allW_flat W' (q_sel q) b (fun b' => [row (q_sel q) b'])). }
      destruct (eval_condsC_seg k1 _ H1 (q_conds q) [] CEnd [] []) as (pos' & P & E).
      fold k0. fold k1. rewrite E. rewrite Kl_stateless. simpl. unfold app_rows. simpl. now rewrite app_nil_r.
  Qed.
End Compile.

(* ------------------------------------------------------------------ 4. every schedule over any number of evaluations *)
Lemma ins_length c v : (length (ins c v) <= S (length c))%nat.
Proof. unfold ins. destruct (mem v c); [lia|rewrite app_length; simpl; lia]. Qed.

Lemma fold_ins_length l : forall c, (length (fold_left ins l c) <= length c + length l)%nat.
Proof.
  induction l as [|v l IH]; intros c; simpl; [lia|].
  pose proof (IH (ins c v)). pose proof (ins_length c v). lia.
Qed.

Lemma dedup_length l : (length (dedup l) <= length l)%nat.
Proof. unfold dedup. pose proof (fold_ins_length l []). simpl in *. lia. Qed.

Lemma dom_len W : forall x, (length (domW (map dedup W) x) <= maxlen W)%nat.
Proof.
  unfold domW. induction W as [|w W0 IH]; intros [|x]; simpl; try lia.
  - apply Nat.le_trans with (length w); [apply dedup_length|apply Nat.le_max_l].
  - apply Nat.le_trans with (maxlen W0); [apply IH|apply Nat.le_max_r].
Qed.

Lemma fuel_enough W x : (fuel_for W > length (domW (map dedup W) x))%nat.
Proof. unfold fuel_for. pose proof (dom_len W x). lia. Qed.

Lemma length_upd {X} (l : list X) : forall h a, length (upd h a l) = length l.
Proof. induction l as [|b l IH]; intros [|h] a; simpl; auto. Qed.

Lemma map_upd_same {X Y} (f : X -> Y) (l : list X) : forall h a b,
  nth_error l h = Some b -> f a = f b -> map f (upd h a l) = map f l.
Proof.
  induction l as [|c l IH]; intros [|h] a b H E; simpl in *; try discriminate; auto.
  - injection H as ->. now rewrite E.
  - f_equal. eapply IH; eauto.
Qed.

Arguments i_obj {H} _.
Arguments i_co {H} _.
Arguments i_hs {H} _.
Arguments caches {H} _.
Arguments iters {H} _.
Arguments nodes {H} _.
Notation rsys := (isys rstate).
Notation riter := (iter rstate).
Notation rirun := (irun rstate (RLive 0 []) rstep).
Notation ristep := (istep rstate (RLive 0 []) rstep).

Section System.
  Variable W : world.
  Variable A : attrs.
  Variable qobjs : list query.
  Let W' := map dedup W.

  Definition target (o : nat) : list (list Z) := iso_rows W' A (nth o qobjs q_none).

  Definition iter_ok (S : rsys) (it : riter) (t : itrace) : Prop :=
    t_failed t = false /\
    is_prefix_rows (t_rows t) (target (i_obj it)) /\
    (t_stopped t = true -> t_rows t = target (i_obj it)) /\
    exists pos nd, Forall2 (hrel W' (caches S)) (i_hs it) pos /\ nth_error (nodes S) (i_obj it) = Some nd /\
                   (t_closed t = false -> app_rows (t_rows t) (ideal W' (i_co it) pos nd) = (target (i_obj it), true)) /\
                   (t_closed t = true -> i_co it = CEnd).

  Record SInv (S : rsys) (T : list itrace) : Prop := {
    S_c : CInv W' (caches S);
    S_len : length T = length (iters S);
    S_ok : forall j it t, nth_error (iters S) j = Some it -> nth_error T j = Some t -> iter_ok S it t;
    S_nd : NoDup (map (@i_obj rstate) (iters S))
  }.

  Lemma other_obj S j1 j2 (it1 it2 : riter) :
    NoDup (map (@i_obj rstate) (iters S)) -> nth_error (iters S) j1 = Some it1 -> nth_error (iters S) j2 = Some it2 ->
    j1 <> j2 -> i_obj it1 <> i_obj it2.
  Proof.
    intros Hn H1 H2 Hne E. apply Hne.
    apply (proj1 (NoDup_nth_error _) Hn).
    - rewrite map_length. apply nth_error_Some. congruence.
    - rewrite (map_nth_error _ _ _ H1), (map_nth_error _ _ _ H2). now rewrite E.
  Qed.

  Lemma SInv_step o S T : SInv S T -> let '(r, S1) := ristep o S in SInv S1 (record o r T).
  Proof.
    intros [Hc Hl Hok Hnd]. destruct o as [i|i]; simpl.
    - (* INext i *)
      destruct (nth_error (iters S) i) as [it|] eqn:Ei.
      + assert (Et : exists t, nth_error T i = Some t).
        { destruct (nth_error T i) eqn:E; eauto. apply nth_error_None in E.
          assert (i < length (iters S))%nat by (apply nth_error_Some; congruence). lia. }
        destruct Et as [t Et]. rewrite Et.
        destruct (Hok _ _ _ Ei Et) as (Hf & Hp & Hs & pos & nd & HH & HN & Hopen & Hcl).
        destruct (drive rstate (RLive 0 []) rstep (i_obj it) (i_co it) (caches S) (i_hs it) (nodes S))
          as [[[[r c'] cs'] hs'] ns'] eqn:HD.
        destruct (drive_ideal W' _ _ _ _ _ _ _ _ _ _ _ _ Hc HH HN HD) as (pos' & nd' & A1 & A2 & A3 & A4 & A5 & A6).
        assert (Hobjs : map (@i_obj rstate) (upd i {| i_co := c'; i_hs := hs'; i_obj := i_obj it |} (iters S))
                        = map (@i_obj rstate) (iters S)) by (eapply map_upd_same; eauto).
        constructor; simpl.
        * exact A1.
        * rewrite !length_upd. auto.
        * intros j it2 t2 Hj Ht.
          apply nth_error_upd_inv in Hj. apply nth_error_upd_inv in Ht.
          destruct Hj as [(-> & -> & _)|(Hne & Hj)]; destruct Ht as [(E1 & -> & _)|(Hne' & Ht)]; try congruence.
          -- (* the iterator that stepped *)
             unfold iter_ok. simpl.
             destruct (t_closed t) eqn:Ecl.
             ++ (* closed earlier: the continuation is CEnd, the step returned StopIteration *)
                rewrite (Hcl eq_refl) in HD. simpl in HD. injection HD as <- <- <- <- <-. simpl.
                rewrite orb_false_r. repeat split; auto.
                exists pos, nd. repeat split; auto; congruence.
             ++ pose proof (Hopen eq_refl) as Heq. unfold outcome in A6.
                destruct r as [row| | | |]; simpl.
                ** rewrite A6 in Heq. unfold app_rows in Heq. simpl in Heq.
                   injection Heq as Hrows Hsnd.
                   repeat split; auto.
                   --- exists (fst (ideal W' c' pos' nd')). rewrite <- Hrows. now rewrite <- app_assoc.
                   --- intros Hst. exfalso. rewrite (Hs Hst) in Hrows.
                       assert (L : length (target (i_obj it) ++ row :: fst (ideal W' c' pos' nd')) = length (target (i_obj it))) by congruence.
                       rewrite app_length in L. simpl in L. lia.
                   --- exists pos', nd'. repeat split; auto; [|congruence].
                       intros _. unfold app_rows. simpl. rewrite <- app_assoc. simpl. now rewrite Hrows, Hsnd.
                ** destruct A6 as [A6 ->]. rewrite A6 in Heq. unfold app_rows in Heq. simpl in Heq.
                   rewrite app_nil_r in Heq. injection Heq as Hrows.
                   simpl. rewrite orb_true_r. repeat split; auto.
                   exists pos', nd'. repeat split; auto; try congruence.
                   intros _. unfold app_rows. simpl. now rewrite app_nil_r, Hrows.
                ** destruct A6 as [A6 _]. rewrite A6 in Heq. unfold app_rows in Heq. simpl in Heq. congruence.
                ** destruct A6 as [A6 _]. rewrite A6 in Heq. unfold app_rows in Heq. simpl in Heq. congruence.
                ** contradiction.
          -- (* the others: their handles see larger caches, their node is a different one *)
             destruct (Hok _ _ _ Hj Ht) as (Hf2 & Hp2 & Hs2 & pos2 & nd2 & HH2 & HN2 & Ho2 & Hc2).
             unfold iter_ok. simpl. repeat split; auto.
             exists pos2, nd2. repeat split; auto.
             ++ eapply Forall2_impl; [|exact HH2]. intros a b. apply hrel_cext; auto.
             ++ rewrite A5; auto. eapply other_obj; eauto.
        * rewrite Hobjs. auto.
      + (* no such iterator *)
        assert (Et : nth_error T i = None) by (apply nth_error_None; rewrite Hl; apply nth_error_None; auto).
        rewrite Et. constructor; auto.
    - (* IClose i *)
      destruct (nth_error (iters S) i) as [it|] eqn:Ei.
      + assert (Et : exists t, nth_error T i = Some t).
        { destruct (nth_error T i) eqn:E; eauto. apply nth_error_None in E.
          assert (i < length (iters S))%nat by (apply nth_error_Some; congruence). lia. }
        destruct Et as [t Et]. rewrite Et.
        assert (Hobjs : map (@i_obj rstate) (upd i {| i_co := CEnd; i_hs := i_hs it; i_obj := i_obj it |} (iters S))
                        = map (@i_obj rstate) (iters S)) by (eapply map_upd_same; eauto).
        constructor; simpl; auto.
        * rewrite !length_upd. auto.
        * intros j it2 t2 Hj Ht.
          apply nth_error_upd_inv in Hj. apply nth_error_upd_inv in Ht.
          destruct Hj as [(-> & -> & _)|(Hne & Hj)]; destruct Ht as [(E1 & -> & _)|(Hne' & Ht)]; try congruence.
          -- destruct (Hok _ _ _ Ei Et) as (Hf & Hp & Hs & pos & nd & HH & HN & Hopen & Hcl).
             unfold iter_ok. simpl. repeat split; auto. exists pos, nd. repeat split; auto. congruence.
          -- destruct (Hok _ _ _ Hj Ht) as (Hf2 & Hp2 & Hs2 & pos2 & nd2 & HH2 & HN2 & Ho2 & Hc2).
             unfold iter_ok. simpl. repeat split; auto. exists pos2, nd2. repeat split; auto.
        * rewrite Hobjs. auto.
      + assert (Et : nth_error T i = None) by (apply nth_error_None; rewrite Hl; apply nth_error_None; auto).
        rewrite Et. constructor; auto.
  Qed.

  Lemma SInv_run ops : forall S T S' T', SInv S T -> rirun ops S T = (S', T') -> SInv S' T'.
  Proof.
    induction ops as [|o ops IH]; intros S T S' T' I H; simpl in H.
    - injection H as <- <-. auto.
    - pose proof (SInv_step o S T I) as I1. destruct (ristep o S) as [r S1]. eapply IH; eauto.
  Qed.

  Lemma SInv_init itobj :
    NoDup itobj -> Forall (fun o => o < length qobjs)%nat itobj ->
    SInv (isys1 W A qobjs itobj) (map (fun _ => trace0) itobj).
  Proof.
    intros Hn Hb. constructor; simpl.
    - unfold CInv, W'. clear. induction W; simpl; constructor; auto. reflexivity.
    - now rewrite !map_length.
    - intros j it t Hj Ht.
      destruct (nth_error itobj j) as [o|] eqn:Eo.
      + rewrite (map_nth_error _ _ _ Eo) in Hj. rewrite (map_nth_error _ _ _ Eo) in Ht. injection Hj as <-. injection Ht as <-.
        unfold iter_ok. simpl. repeat split; auto; try discriminate.
        * exists (target o). reflexivity.
        * exists [], ([], []). repeat split; auto; try discriminate.
          -- assert (o < length qobjs)%nat.
             { rewrite Forall_forall in Hb. apply Hb. eapply nth_error_In; eauto. }
             rewrite nth_error_map. destruct (nth_error qobjs o) eqn:E; auto.
             apply nth_error_None in E. lia.
          -- intros _. unfold app_rows. simpl.
             rewrite (compile_ideal W' A (fuel_for W) (fuel_enough W) (nth o qobjs q_none)). reflexivity.
      + rewrite nth_error_map, Eo in Hj. discriminate.
    - rewrite map_map. simpl. rewrite map_id. auto.
  Qed.

  (* every schedule of next()/close() steps, any number of evaluations of pairwise distinct query objects (a rule-free
     query object evaluated several times is modelled as several objects: it keeps nothing on its node) *)
  Theorem sched_isolated itobj ops S' T' :
    NoDup itobj -> Forall (fun o => o < length qobjs)%nat itobj ->
    rirun ops (isys1 W A qobjs itobj) (map (fun _ => trace0) itobj) = (S', T') ->
    forall i t, nth_error T' i = Some t ->
    exists o, nth_error itobj i = Some o /\
              t_failed t = false /\
              is_prefix_rows (t_rows t) (iso_rows (map dedup W) A (nth o qobjs q_none)) /\
              (t_stopped t = true -> t_rows t = iso_rows (map dedup W) A (nth o qobjs q_none)).
  Proof.
    intros Hn Hb Hr i t Ht.
    pose proof (SInv_run ops _ _ _ _ (SInv_init itobj Hn Hb) Hr) as [Hc Hl Hok Hnd].
    assert (Ei : exists it, nth_error (iters S') i = Some it).
    { destruct (nth_error (iters S') i) eqn:E; eauto. apply nth_error_None in E.
      assert (i < length T')%nat by (apply nth_error_Some; congruence). lia. }
    destruct Ei as [it Ei]. destruct (Hok _ _ _ Ei Ht) as (Hf & Hp & Hs & _).
    (* the objects never change *)
    assert (Hobj : forall ops S T S1 T1, rirun ops S T = (S1, T1) -> map (@i_obj rstate) (iters S1) = map (@i_obj rstate) (iters S)).
    { clear. induction ops as [|o ops IH]; intros S T S1 T1 H; simpl in H.
      - injection H as <- <-. auto.
      - destruct (ristep o S) as [r S2] eqn:Es. rewrite (IH _ _ _ _ H).
        destruct o as [i|i]; simpl in Es.
        + destruct (nth_error (iters S) i) as [it|] eqn:Ei; [|injection Es as <- <-; auto].
          destruct (drive rstate (RLive 0 []) rstep (i_obj it) (i_co it) (caches S) (i_hs it) (nodes S)) as [[[[r0 c'] cs'] hs'] ns'].
          injection Es as <- <-. simpl. eapply map_upd_same; eauto.
        + destruct (nth_error (iters S) i) as [it|] eqn:Ei; injection Es as <- <-; auto.
          simpl. eapply map_upd_same; eauto. }
    pose proof (Hobj _ _ _ _ _ Hr) as Ho. simpl in Ho. rewrite map_map in Ho. simpl in Ho. rewrite map_id in Ho.
    exists (i_obj it). split.
    - rewrite <- Ho. apply map_nth_error; auto.
    - repeat split; auto.
  Qed.
End System.

(* ------------------------------------------------------------------ 5. the machine and Reeval.run cannot drift apart *)
Lemma list_eq_nth {X} (l1 l2 : list X) :
  length l1 = length l2 -> (forall i a b, nth_error l1 i = Some a -> nth_error l2 i = Some b -> a = b) -> l1 = l2.
Proof.
  revert l2. induction l1 as [|a l1 IH]; intros [|b l2] HL H; simpl in *; try discriminate; auto.
  f_equal.
  - apply (H O a b); reflexivity.
  - apply IH; [lia|]. intros i x y Hx Hy. apply (H (S i)); auto.
Qed.

Section Link.
  Variable W : world.
  Variable A : attrs.
  Variable qobjs : list query.

  Notation tgt := (target W A qobjs).
  Notation Inv := (SInv W A qobjs).

  Definition queries_of (itobj : list nat) : list query := map (fun o => nth o qobjs q_none) itobj.

  (* whatever the schedule: if every evaluation ended by itself, the rows are those of the whole-evaluation model *)
  Theorem sched_exhausted_is_hist itobj ops S' T' :
    NoDup itobj -> Forall (fun o => o < length qobjs)%nat itobj ->
    rirun ops (isys1 W A qobjs itobj) (map (fun _ => trace0) itobj) = (S', T') ->
    Forall (fun t => t_stopped t = true) T' ->
    map t_rows T' = hist A (cold W) (queries_of itobj).
  Proof.
    intros Hn Hb Hr Hall.
    rewrite (hist_isolated (map dedup W) A (queries_of itobj) (cold W) (good_cold W)).
    pose proof (SInv_run W A qobjs ops _ _ _ _ (SInv_init W A qobjs itobj Hn Hb) Hr) as I.
    apply list_eq_nth.
    - unfold queries_of. rewrite !map_length. rewrite (S_len _ _ _ _ _ I).
      assert (E : length (iters S') = length (map (@i_obj rstate) (iters S'))) by now rewrite map_length.
      rewrite E. clear E.
      assert (Hobj : forall ops S T S1 T1, rirun ops S T = (S1, T1) -> length (iters S1) = length (iters S)).
      { clear. induction ops as [|o ops IH]; intros S T S1 T1 H; simpl in H.
        - injection H as <- <-. auto.
        - destruct (ristep o S) as [r S2] eqn:Es. rewrite (IH _ _ _ _ H).
          destruct o as [i|i]; simpl in Es.
          + destruct (nth_error (iters S) i) as [it|] eqn:Ei; [|injection Es as <- <-; auto].
            destruct (drive rstate (RLive 0 []) rstep (i_obj it) (i_co it) (caches S) (i_hs it) (nodes S)) as [[[[r0 c'] cs'] hs'] ns'].
            injection Es as <- <-. simpl. apply length_upd.
          + destruct (nth_error (iters S) i) as [it|] eqn:Ei; injection Es as <- <-; auto. simpl. apply length_upd. }
      rewrite map_length. rewrite (Hobj _ _ _ _ _ Hr). simpl. now rewrite map_length.
    - intros i a b Ha Hb'.
      rewrite nth_error_map in Ha. destruct (nth_error T' i) as [t|] eqn:Et; [|discriminate]. injection Ha as <-.
      destruct (sched_isolated W A qobjs itobj ops S' T' Hn Hb Hr i t Et) as (o & Eo & _ & _ & Hs).
      unfold queries_of in Hb'. rewrite map_map in Hb'. rewrite (map_nth_error _ _ _ Eo) in Hb'. injection Hb' as <-.
      apply Hs. rewrite Forall_forall in Hall. apply Hall. eapply nth_error_In; eauto.
  Qed.

  (* progress: an evaluation that is stepped often enough ends by itself *)
  Lemma record_other o r T j : (forall i, o = INext i \/ o = IClose i -> i <> j) -> nth_error (record o r T) j = nth_error T j.
  Proof.
    intros H. destruct o as [i|i]; simpl; destruct (nth_error T i); auto; apply nth_error_upd_neq; intro E; subst;
      eapply H; eauto.
  Qed.

  Lemma run_to_end i n : forall S T S' T' it t,
    Inv S T -> nth_error (iters S) i = Some it -> nth_error T i = Some t -> t_closed t = false ->
    (n + length (t_rows t) > length (tgt (i_obj it)))%nat ->
    rirun (repeat (INext i) n) S T = (S', T') ->
    (exists t', nth_error T' i = Some t' /\ t_stopped t' = true /\ t_closed t' = false) /\
    (forall j, j <> i -> nth_error T' j = nth_error T j) /\ Inv S' T'.
  Proof.
    induction n as [|n IH]; intros S T S' T' it t I Ei Et Ecl Hn Hr.
    - (* no step left: the rows are already complete -- impossible unless ... *)
      simpl in Hr. injection Hr as <- <-. exfalso.
      destruct (S_ok _ _ _ _ _ I _ _ _ Ei Et) as (_ & [x Hx] & _).
      assert (L : length (tgt (i_obj it)) = length (t_rows t ++ x)) by congruence.
      rewrite app_length in L. simpl in Hn. lia.
    - cbn [repeat irun] in Hr. pose proof (SInv_step W A qobjs (INext i) S T I) as I1.
      destruct (ristep (INext i) S) as [r S1] eqn:Es.
      (* what the step did to the iterator and its trace *)
      assert (Ei1 : exists it1, nth_error (iters S1) i = Some it1 /\ i_obj it1 = i_obj it).
      { simpl in Es. rewrite Ei in Es.
        destruct (drive rstate (RLive 0 []) rstep (i_obj it) (i_co it) (caches S) (i_hs it) (nodes S)) as [[[[r0 c'] cs'] hs'] ns'].
        injection Es as <- <-. simpl. eexists. split; [eapply nth_error_upd_eq; eauto|reflexivity]. }
      destruct Ei1 as (it1 & Ei1 & Eo1).
      assert (Hoth : forall j, j <> i -> nth_error (record (INext i) r T) j = nth_error T j).
      { intros j Hj. apply record_other. intros k [E|E]; [injection E as <-|discriminate]; congruence. }
      destruct r as [row| | | |].
      + (* a row *)
        assert (Et1 : nth_error (record (INext i) (IRow row) T) i =
                      Some {| t_rows := t_rows t ++ [row]; t_closed := t_closed t; t_stopped := t_stopped t; t_failed := t_failed t |}).
        { simpl. rewrite Et. eapply nth_error_upd_eq; eauto. }
        destruct (IH _ _ S' T' _ _ I1 Ei1 Et1) as (Ht' & Ho' & I').
        * exact Ecl.
        * simpl. rewrite app_length. simpl. rewrite Eo1. lia.
        * exact Hr.
        * split; auto. split; auto. intros j Hj. rewrite Ho' by auto. apply Hoth; auto.
      + (* StopIteration: stopped now, and it stays so *)
        assert (Et1 : nth_error (record (INext i) IStop T) i =
                      Some {| t_rows := t_rows t; t_closed := t_closed t; t_stopped := t_stopped t || negb (t_closed t); t_failed := t_failed t |}).
        { simpl. rewrite Et. eapply nth_error_upd_eq; eauto. }
        assert (Hstay : forall n S T S' T' t, nth_error T i = Some t -> t_stopped t = true -> t_closed t = false ->
                          rirun (repeat (INext i) n) S T = (S', T') ->
                          (exists t', nth_error T' i = Some t' /\ t_stopped t' = true /\ t_closed t' = false) /\
                          (forall j, j <> i -> nth_error T' j = nth_error T j)).
        { clear. induction n as [|n IHn]; intros S T S' T' t Et Hs Hc Hr; cbn [repeat irun] in Hr.
          - injection Hr as <- <-. split; eauto.
          - destruct (ristep (INext i) S) as [r S1].
            assert (E1 : exists t1, nth_error (record (INext i) r T) i = Some t1 /\ t_stopped t1 = true /\ t_closed t1 = false).
            { simpl. rewrite Et. eexists. split; [eapply nth_error_upd_eq; eauto|].
              destruct r; simpl; rewrite ?Hs; auto. }
            destruct E1 as (t1 & E1 & Hs1 & Hc1).
            destruct (IHn _ _ _ _ _ E1 Hs1 Hc1 Hr) as [A1 A2]. split; auto.
            intros j Hj. rewrite A2 by auto. apply record_other. intros k [E|E]; [injection E as <-|discriminate]; congruence. }
        destruct (Hstay n S1 _ S' T' _ Et1) as [A1 A2]; auto.
        * simpl. rewrite Ecl. simpl. apply orb_true_r.
        * split; auto. split.
          -- intros j Hj. rewrite A2 by auto. apply Hoth; auto.
          -- eapply SInv_run; eauto.
      + (* RuntimeError: excluded by the invariant of the next state *)
        exfalso. assert (Et1 : nth_error (record (INext i) IErr T) i =
                               Some {| t_rows := t_rows t; t_closed := t_closed t; t_stopped := t_stopped t; t_failed := true |}).
        { simpl. rewrite Et. eapply nth_error_upd_eq; eauto. }
        destruct (S_ok _ _ _ _ _ I1 _ _ _ Ei1 Et1) as (Hf & _). discriminate.
      + exfalso. assert (Et1 : nth_error (record (INext i) IOut T) i =
                               Some {| t_rows := t_rows t; t_closed := t_closed t; t_stopped := t_stopped t; t_failed := true |}).
        { simpl. rewrite Et. eapply nth_error_upd_eq; eauto. }
        destruct (S_ok _ _ _ _ _ I1 _ _ _ Ei1 Et1) as (Hf & _). discriminate.
      + (* IClosed is not the result of a next *)
        exfalso. simpl in Es. rewrite Ei in Es.
        destruct (drive rstate (RLive 0 []) rstep (i_obj it) (i_co it) (caches S) (i_hs it) (nodes S)) as [[[[r0 c'] cs'] hs'] ns'] eqn:HD.
        injection Es as -> _.
        destruct (S_ok _ _ _ _ _ I _ _ _ Ei Et) as (_ & _ & _ & pos & nd & HH & HN & _).
        destruct (drive_ideal _ _ _ _ _ _ _ _ _ _ _ _ _ (S_c _ _ _ _ _ I) HH HN HD) as (? & ? & _ & _ & _ & _ & _ & F).
        exact F.
  Qed.
End Link.

Lemma irun_app a : forall b S T,
  rirun (a ++ b) S T = let '(S1, T1) := rirun a S T in rirun b S1 T1.
Proof.
  induction a as [|o a IH]; intros b S T; simpl; auto.
  destruct (ristep o S) as [r S1]. apply IH.
Qed.

Lemma irun_objs ops : forall S T S1 T1,
  rirun ops S T = (S1, T1) -> map (@i_obj rstate) (iters S1) = map (@i_obj rstate) (iters S).
Proof.
  induction ops as [|o ops IH]; intros S T S1 T1 H; simpl in H.
  - injection H as <- <-. auto.
  - destruct (ristep o S) as [r S2] eqn:Es. rewrite (IH _ _ _ _ H).
    destruct o as [i|i]; simpl in Es.
    + destruct (nth_error (iters S) i) as [it|] eqn:Ei; [|injection Es as <- <-; auto].
      destruct (drive rstate (RLive 0 []) rstep (i_obj it) (i_co it) (caches S) (i_hs it) (nodes S)) as [[[[r0 c'] cs'] hs'] ns'].
      injection Es as <- <-. simpl. eapply map_upd_same; eauto.
    + destruct (nth_error (iters S) i) as [it|] eqn:Ei; injection Es as <- <-; auto.
      simpl. eapply map_upd_same; eauto.
Qed.

Section Sequential.
  Variable W : world.
  Variable A : attrs.
  Variable qobjs : list query.
  Notation tgt := (target W A qobjs).
  Notation Inv := (SInv W A qobjs).

  (* every evaluation in turn, each stepped until it has ended: [for q in queries: list(q.evaluate())] *)
  Fixpoint seq_sched (i : nat) (itobj : list nat) : list iop :=
    match itobj with
    | [] => []
    | o :: r => repeat (INext i) (S (length (tgt o))) ++ seq_sched (S i) r
    end.

  Lemma seq_all_stopped rest : forall i S T S' T',
    Inv S T ->
    (forall j t, (j < i)%nat -> nth_error T j = Some t -> t_stopped t = true) ->
    (forall j t, (i <= j)%nat -> nth_error T j = Some t -> t_closed t = false /\ t_rows t = []) ->
    (forall k o, nth_error rest k = Some o -> nth_error (map (@i_obj rstate) (iters S)) (i + k) = Some o) ->
    length T = (i + length rest)%nat ->
    rirun (seq_sched i rest) S T = (S', T') ->
    Forall (fun t => t_stopped t = true) T'.
  Proof.
    induction rest as [|o rest IH]; intros i S T S' T' I Hlo Hhi Hobj HL Hr.
    - simpl in Hr. injection Hr as <- <-. apply Forall_forall. intros t Hin.
      apply In_nth_error in Hin. destruct Hin as [j Hj]. apply (Hlo j t); auto.
      assert (j < length T)%nat by (apply nth_error_Some; congruence). simpl in HL. lia.
    - cbn [seq_sched] in Hr. rewrite irun_app in Hr.
      destruct (rirun (repeat (INext i) (Datatypes.S (length (tgt o)))) S T) as [S1 T1] eqn:E1.
      pose proof (Hobj O o eq_refl) as Ho. rewrite Nat.add_0_r in Ho.
      rewrite nth_error_map in Ho. destruct (nth_error (iters S) i) as [it|] eqn:Ei; [|discriminate].
      injection Ho as Ho.
      assert (Et : exists t, nth_error T i = Some t).
      { destruct (nth_error T i) eqn:E; eauto. apply nth_error_None in E. simpl in HL. lia. }
      destruct Et as [t Et]. destruct (Hhi i t (Nat.le_refl _) Et) as [Hc Hrw].
      assert (Hn' : (Datatypes.S (length (tgt o)) + length (t_rows t) > length (tgt (i_obj it)))%nat).
      { rewrite Hrw, Ho. simpl. lia. }
      destruct (run_to_end W A qobjs i (Datatypes.S (length (tgt o))) S T S1 T1 it t I Ei Et Hc Hn' E1)
        as ((t' & Et' & Hs' & Hc') & Hoth & I1).
      eapply (IH (Datatypes.S i)); [exact I1| | | | |exact Hr].
      + intros j tj Hj Htj. destruct (Nat.eq_dec j i) as [->|Hne].
        * congruence.
        * rewrite Hoth in Htj by auto. apply (Hlo j tj); auto. lia.
      + intros j tj Hj Htj. rewrite Hoth in Htj by lia. apply (Hhi j tj); auto. lia.
      + intros k o' Hk. rewrite (irun_objs _ _ _ _ _ E1). replace (Datatypes.S i + k)%nat with (i + Datatypes.S k)%nat by lia.
        apply Hobj. exact Hk.
      + assert (length (iters S1) = length (iters S)).
        { pose proof (irun_objs _ _ _ _ _ E1) as E. apply (f_equal (@length nat)) in E. now rewrite !map_length in E. }
        rewrite (S_len _ _ _ _ _ I1), H, <- (S_len _ _ _ _ _ I), HL. simpl. lia.
  Qed.

  (* the sequential schedule of the machine IS the whole-evaluation model *)
  Theorem sched_sequential_is_hist itobj S' T' :
    NoDup itobj -> Forall (fun o => o < length qobjs)%nat itobj ->
    rirun (seq_sched O itobj) (isys1 W A qobjs itobj) (map (fun _ => trace0) itobj) = (S', T') ->
    map t_rows T' = hist A (cold W) (queries_of qobjs itobj).
  Proof.
    intros Hn Hb Hr. apply (sched_exhausted_is_hist W A qobjs itobj (seq_sched O itobj) S' T' Hn Hb Hr).
    eapply (seq_all_stopped itobj O); [apply (SInv_init W A qobjs itobj Hn Hb)| | | | |exact Hr].
    - intros j t Hj. lia.
    - intros j t _ Hj. rewrite nth_error_map in Hj. destruct (nth_error itobj j); [|discriminate].
      injection Hj as <-. auto.
    - intros k o Hk. simpl. rewrite map_map. simpl. rewrite map_id. exact Hk.
    - simpl. now rewrite map_length.
  Qed.
End Sequential.

(* ------------------------------------------------------------------ 6. what does NOT hold: one rule-query object twice live *)
Definition q_rule_x : query := {| q_sel := [0%nat]; q_conds := [ACmpC 0 Cge 1]; q_rule := Some [ACmpC 0 Cge 2] |}.
Definition W_x : world := [[10; 11; 12; 13]].
Definition A_x : attrs := [(10, 0); (11, 1); (12, 2); (13, 3)].
Definition sched_x : list iop := [INext 0; INext 1; INext 1; INext 0; INext 0; INext 1; INext 1]%nat.

Lemma refuted_rule_object_twice :
  map (fun t => (t_rows t, t_stopped t)) (snd (rirun sched_x (isys1 W_x A_x [q_rule_x] [0; 0]%nat) [trace0; trace0]))
  = [([[0; 11]; [1; 13]], true); ([[0; 11]; [1; 12]], true)] /\
  iso_rows (map dedup W_x) A_x q_rule_x = [[0; 11]; [1; 12]; [1; 13]] /\
  (* two distinct objects of the same rule query: isolated, as the theorem says *)
  map (fun t => (t_rows t, t_stopped t)) (snd (rirun sched_x (isys1 W_x A_x [q_rule_x; q_rule_x] [0; 1]%nat) [trace0; trace0]))
  = [([[0; 11]; [1; 12]; [1; 13]], false); ([[0; 11]; [1; 12]; [1; 13]], true)].
Proof. repeat split; vm_compute; reflexivity. Qed.

(* the form the harness uses for rule-free queries: every evaluation is its own object (isys0) -- also when the SAME rule-free
   query object is evaluated several times, because such an object keeps nothing on its node *)
Corollary sched_isolated0 W A qs ops S' T' :
  rirun ops (isys0 W A qs) (map (fun _ => trace0) (seq 0 (length qs))) = (S', T') ->
  forall i t, nth_error T' i = Some t ->
  exists q, nth_error qs i = Some q /\
            t_failed t = false /\
            is_prefix_rows (t_rows t) (iso_rows (map dedup W) A q) /\
            (t_stopped t = true -> t_rows t = iso_rows (map dedup W) A q).
Proof.
  intros Hr i t Ht.
  assert (Hb : Forall (fun o => o < length qs)%nat (seq 0 (length qs))).
  { apply Forall_forall. intros o Ho. apply in_seq in Ho. lia. }
  destruct (sched_isolated W A qs (seq 0 (length qs)) ops S' T' (seq_NoDup _ _) Hb Hr i t Ht) as (o & Eo & Hf & Hp & Hs).
  assert (Ho : (o < length qs)%nat /\ o = i).
  { assert (i < length (seq 0 (length qs)))%nat by (apply nth_error_Some; congruence).
    rewrite seq_length in H. rewrite (nth_error_nth' _ O) in Eo by (now rewrite seq_length).
    rewrite seq_nth in Eo by auto. injection Eo as <-. simpl. auto. }
  destruct Ho as [Hlt ->].
  destruct (nth_error qs i) as [q|] eqn:Eq; [|apply nth_error_None in Eq; lia].
  exists q. rewrite (nth_error_nth _ _ q_none Eq) in Hp, Hs. auto.
Qed.
