(* The proved fragment of C01 as a decidable flag next to the rows, for the correspondence check. *)
From Coq Require Import List ZArith Bool Arith.
From Krrood Require Import Base.Sx Eql.Syntax Eql.Sat Eql.Eval Eql.Show Eql.RunQProofs.
Import ListNotations.
Open Scope Z_scope.

Definition case_in_F01 (c : ecase) : bool := in_F01 (mk_domains (e_doms c)) (e_query c).
Definition rows_and_frag (c : ecase) : sx := SL [model_rows c; spec_rows c; SB (case_in_F01 c)].

(* inside the flag the model's rows are exactly the Spec's answers (as sets) *)
Theorem case_in_F01_exact c : case_in_F01 c = true ->
  forall row, In row (run (mk_world (e_world c)) (mk_domains (e_doms c)) (e_query c)) <->
              answer (mk_world (e_world c)) (mk_domains (e_doms c)) (e_query c) row.
Proof. apply in_F01_exact. Qed.
