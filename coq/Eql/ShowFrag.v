(* The proved fragment of C01 as a decidable flag next to the rows, for the correspondence check. *)
From Coq Require Import List ZArith Bool Arith.
From Krrood Require Import Base.Sx Eql.Syntax Eql.Sat Eql.Eval Eql.Show Eql.RunQProofs.
Import ListNotations.
Open Scope Z_scope.

Definition case_in_F01 (c : ecase) : bool := in_F01 (mk_domains (e_doms c)) (e_query c).
Definition rows_and_frag (c : ecase) : sx := SL [model_rows c; spec_rows c; SB (case_in_F01 c)].

(* inside the flag the model's rows are exactly the Spec's answers (as sets) *)
Theorem case_in_F01_exact c : case_in_F01 c = true ->
  forall row, In row (run (mk_world (e_world c)) (mk_domains (e_doms c)) (e_query c)) <->
              answer (mk_world (e_world c)) (mk_domains (e_doms c)) (e_query c) row.
Proof. apply in_F01_exact. Qed.

(* ---------- C02: the conjunctive / else-if fragment as a decidable flag ---------- *)
From Coq Require Import Permutation.
From Krrood Require Import Eql.CountProofs Eql.BagProofs.

Fixpoint nodup_valb (l : list val) : bool :=
  match l with [] => true | v :: l' => negb (existsb (val_eqb v) l') && nodup_valb l' end.
Lemma nodup_valb_spec l : nodup_valb l = true -> NoDup l.
Proof.
  induction l as [|v l IH]; simpl; intros H; constructor; apply andb_prop in H as [H1 H2]; auto.
  intros Hin. apply negb_true_iff in H1. assert (E : existsb (val_eqb v) l = true).
  { apply existsb_exists. exists v. split; auto. now apply val_eqb_eq. }
  congruence.
Qed.

Lemma mk_domains_nodup l : forallb (fun p : var * list val => nodup_valb (snd p)) l = true ->
  forall x, NoDup (mk_domains l x).
Proof.
  induction l as [|[y vs] l IH]; simpl; intros H x; [constructor|].
  apply andb_prop in H as [H1 H2]. destruct (Nat.eqb x y); [now apply nodup_valb_spec|auto].
Qed.

Definition case_in_F02 (c : ecase) : bool :=
  forallb (fun p : var * list val => nodup_valb (snd p)) (e_doms c) &&
  match q_cond (e_query c) with
  | Some cd => nnf cd && nsubset (flat_map opnd_vars (q_sels (e_query c))) (cond_vars cd)
  | None => false
  end.

(* inside the flag the model's rows are a permutation of the Spec's enumeration of satisfying assignments *)
Theorem case_in_F02_perm c : case_in_F02 c = true ->
  Permutation (run (mk_world (e_world c)) (mk_domains (e_doms c)) (e_query c))
              (answers_exec (mk_world (e_world c)) (mk_domains (e_doms c)) (e_query c)).
Proof.
  unfold case_in_F02. intros H. apply andb_prop in H as [Hd H].
  destruct (q_cond (e_query c)) as [cd|] eqn:Ec; [|discriminate]. apply andb_prop in H as [Hn Hr].
  apply (run_perm _ _ (mk_domains_nodup _ Hd) (e_query c) cd Ec Hn).
  intros x Hx. eapply nsubset_In; eauto.
Qed.

Definition rows_and_frags (c : ecase) : sx :=
  SL [model_rows c; spec_rows c; SB (case_in_F01 c); SB (case_in_F02 c)].
