(* Concrete cases with generated variables (flatten / nested sub-queries) written by the harness, and printing of the
   Spec's outcome into [sx].  Independent of the model. *)
From Coq Require Import List ZArith Bool Arith.
From Krrood Require Import Base.Sx Eql.Syntax Eql.Sat Eql.ShowSpec Eql.EvalDepSpec.
Import ListNotations.
Open Scope Z_scope.

Record dcase : Type := { dc_case : ecase; dc_decls : decls }.

Definition dspec_rows (c : dcase) : sx :=
  show_rows (answers_execD (mk_world (e_world (dc_case c))) (mk_domains (e_doms (dc_case c))) (dc_decls c) (e_query (dc_case c))).
(* the executable Spec is the Spec (Eql/EvalDepProofs.v: answers_execD_correct) when the declarations are in dependency
   order and quantified variables are scoped *)
Definition dspec_wf (c : dcase) : bool :=
  wf_ds (dc_decls c) && scoped (dc_decls c) (e_query (dc_case c)).
Definition dspec_out (c : dcase) : sx := SL [dspec_rows c; SB (dspec_wf c)].
