(* C09 -- result quantifiers.  Hand-written model of the counting loop of
   ResultQuantifier._evaluate__ / The._evaluate__ / The.evaluate (symbolic.py) on top of the
   constraint checks *translated from the source* (Gen/Quant.v). *)
From Coq Require Import List ZArith Bool Lia.
From Krrood Require Import Base.Sx Eql.QuantSpec.
From Krrood Require Gen.Quant.
Import ListNotations.
Open Scope Z_scope.
Module G := Gen.Quant.

(* exceptions of the generated file, by name, into the Spec's enumeration *)
Definition qx (e : G.exn) : exn :=
  match e with
  | G.NegativeQuantificationError => NegativeQuantificationError
  | G.QuantificationConsistencyError => QuantificationConsistencyError
  | G.GreaterThanExpectedNumberOfSolutions => GreaterThanExpectedNumberOfSolutions
  | G.LessThanExpectedNumberOfSolutions => LessThanExpectedNumberOfSolutions
  end.

Inductive constraint :=
| CExactly (c : G.Exactly) | CAtLeast (c : G.AtLeast) | CAtMost (c : G.AtMost) | CRange (c : G.Range).

Definition assert_sat (c : constraint) (n : Z) (done : bool) : option exn :=
  option_map qx
  match c with
  | CExactly c => G.Exactly_assert_satisfaction c n done
  | CAtLeast c => G.AtLeast_assert_satisfaction c n done
  | CAtMost c => G.AtMost_assert_satisfaction c n done
  | CRange c => G.Range_assert_satisfaction c n done
  end.

(* construction as the user writes it: Range(AtLeast(a), AtMost(b)) evaluates its arguments
   left to right, each running its own __post_init__, then Range.__post_init__ *)
Definition construct (k : ctor) : constraint + exn :=
  match k with
  | KExactly v => let c := G.Build_Exactly v in
                  match G.Exactly_post_init c with Some e => inr (qx e) | None => inl (CExactly c) end
  | KAtLeast v => let c := G.Build_AtLeast v in
                  match G.AtLeast_post_init c with Some e => inr (qx e) | None => inl (CAtLeast c) end
  | KAtMost v => let c := G.Build_AtMost v in
                 match G.AtMost_post_init c with Some e => inr (qx e) | None => inl (CAtMost c) end
  | KRange lo hi =>
      let a := G.Build_AtLeast lo in let b := G.Build_AtMost hi in
      match G.AtLeast_post_init a with Some e => inr (qx e) | None =>
      match G.AtMost_post_init b with Some e => inr (qx e) | None =>
      let c := G.Build_Range a b in
      match G.Range_post_init c with Some e => inr (qx e) | None => inl (CRange c) end end end
  end.

(* ---------- the counting loop ---------- *)
Section Loop.
  Context {A : Type}.

  (* ResultQuantifier._evaluate__: rows of the child are counted; the constraint is checked with
     done=False after each increment *before* the row is yielded and with done=True at exhaustion.
     Result: the rows that were yielded, and the exception that ended the iteration (if any). *)
  Fixpoint loop (c : option constraint) (rows : list A) (n : Z) : list A * option exn :=
    match rows with
    | [] => ([], match c with Some c => assert_sat c n true | None => None end)
    | r :: rest =>
        let n' := n + 1 in
        match (match c with Some c => assert_sat c n' false | None => None end) with
        | Some e => ([], Some e)
        | None => let '(ys, e) := loop c rest n' in (r :: ys, e)
        end
    end.

  Definition run_an (c : option constraint) (rows : list A) := loop c rows 0.

  (* The: constraint Exactly(1); Less -> NoSolutionFound, Greater -> MultipleSolutionFound;
     evaluate() = list(...)[0] *)
  Definition run_the (rows : list A) : the_result A :=
    match loop (Some (CExactly (G.Build_Exactly 1))) rows 0 with
    | (_, Some LessThanExpectedNumberOfSolutions) => NoSolutionFound
    | (_, Some GreaterThanExpectedNumberOfSolutions) => MultipleSolutionFound
    | (_, Some _) => TheOther
    | (y :: _, None) => TheValue y
    | ([], None) => TheOther   (* list(...)[0] on an empty list: IndexError *)
    end.
End Loop.

(* one case: construct k, then evaluate over [rows].  A construction error is the outcome. *)
Definition model_an (k : option ctor) (rows : list Z) : sx :=
  match k with
  | None => show_an (run_an None rows)
  | Some k => match construct k with
              | inr e => SL [SZ (-1); SZ (exn_id (Some e))]
              | inl c => show_an (run_an (Some c) rows)
              end
  end.
Definition model_the (rows : list Z) : sx := show_the (run_the rows).

Definition case_code (c : qcase) (impl : sx) : Z :=
  match c with
  | QAn k rows => classify impl (model_an k rows) (spec_an k rows)
  | QThe rows => classify impl (model_the rows) (spec_the rows)
  end.
