(* C01 -- whole queries: the rows of [run] are exactly the answers of the Spec. *)
From Coq Require Import List ZArith Bool Arith Lia.
From Krrood Require Import Eql.Syntax Eql.Sat Eql.Eval Eql.EvalProofs.
Import ListNotations.

Definition snd_ok_opt (c : option cond) : bool :=
  match c with Some c => snd_ok true c | None => true end.
Definition qfree_opt (c : option cond) : bool :=
  match c with Some c => qfree c | None => true end.

Lemma in_product {A} (ls : list (list A)) : forall row,
  In row (product ls) <-> Forall2 (fun v l => In v l) row ls.
Proof.
  induction ls as [|l ls IH]; simpl; intros row.
  - split.
    + intros [<-|[]]. constructor.
    + intros H. inversion H. now left.
  - split.
    + intros H. apply in_flat_map in H as (a & Ha & H). apply in_map_iff in H as (r & <- & Hr).
      constructor; auto. now apply IH.
    + intros H. inversion H as [|v l' r ls' Hv Hr]; subst.
      apply in_flat_map. exists v. split; auto. apply in_map_iff. exists r. split; auto. now apply IH.
Qed.

Section Run.
  Variable W : world.
  Variable D : domains.

  Lemma ev_opnd_shape e : forall b b1 v,
    In (b1, v) (ev_opnd W D e b) ->
    match opnd_var e with
    | None => b1 = b
    | Some x => match lookup b x with
                | Some _ => b1 = b
                | None => exists w, In w (D x) /\ b1 = (x, w) :: b
                end
    end.
  Proof.
    induction e as [u|x|e IH a]; simpl; intros b b1 v Hin.
    - destruct Hin as [[= <- <-]|[]]. reflexivity.
    - destruct (lookup b x) eqn:E.
      + destruct Hin as [[= <- <-]|[]]. reflexivity.
      + apply in_map_iff in Hin as (w & [= <- <-] & Hw). eauto.
    - apply in_map_iff in Hin as ([b2 v2] & [= <- <-] & H2). simpl. exact (IH _ _ _ H2).
  Qed.

  Lemma select_complete sels b rho :
    extends rho b -> (forall x, In x (flat_map opnd_vars sels) -> In (rho x) (D x)) ->
    In (map (den W rho) sels) (select W D sels b).
  Proof.
    intros He Hd. unfold select. apply in_product.
    induction sels as [|s sels IH]; simpl; constructor.
    - destruct (ev_opnd_complete W D s b rho He) as (b' & H1 & _).
      + intros x Hx. apply Hd. simpl. apply in_or_app. auto.
      + apply in_map_iff. exists (b', den W rho s). auto.
    - apply IH. intros x Hx. apply Hd. simpl. apply in_or_app. auto.
  Qed.

  Lemma select_sound sels : forall b row rho0,
    In row (select W D sels b) -> NoDup (flat_map opnd_vars sels) -> b_ok D b -> extends rho0 b ->
    exists rho, extends rho b /\ (forall x, ~ In x (flat_map opnd_vars sels) -> rho x = rho0 x) /\
                (forall x, In x (flat_map opnd_vars sels) -> In (rho x) (D x)) /\
                row = map (den W rho) sels.
  Proof.
    unfold select. induction sels as [|s sels IH]; intros b row rho0 Hin Hnd Hb He0.
    - simpl in *. destruct Hin as [<-|[]]. exists rho0. repeat split; auto. intros x [].
    - cbn [map] in Hin. apply in_product in Hin. inversion Hin as [|v l' row' ls' Hv Hrow]; subst.
      apply in_product in Hrow. cbn [flat_map] in *.
      assert (Hnd' : NoDup (flat_map opnd_vars sels)).
      { unfold opnd_vars at 1 in Hnd. destruct (opnd_var s); simpl in Hnd; [now inversion Hnd|exact Hnd]. }
      destruct (IH b row' rho0 Hrow Hnd' Hb He0) as (rho1 & He1 & Hag & Hdm & ->).
      apply in_map_iff in Hv as ([b1 v1] & Hv1 & H1). simpl in Hv1. subst v1.
      pose proof (ev_opnd_shape _ _ _ _ H1) as Hs.
      unfold opnd_vars in *. destruct (opnd_var s) as [x|] eqn:Ev; simpl in *.
      + destruct (lookup b x) eqn:El.
        * (* root bound by the condition *)
          subst b1. exists rho1. split; [exact He1|]. split; [|split].
          -- intros y Hy. apply Hag. tauto.
          -- intros y [<-|Hy]; auto. rewrite (He1 _ _ El). eapply Hb; eauto.
          -- f_equal. symmetry. eapply ev_opnd_sound; eauto.
        * destruct Hs as (w & Hw & ->).
          inversion Hnd as [|? ? Hnotin _]; subst.
          exists (upd rho1 x w).
          assert (Eu : upd rho1 x w x = w) by (unfold upd; now rewrite Nat.eqb_refl).
          assert (En : forall y, y <> x -> upd rho1 x w y = rho1 y).
          { intros y Hy. unfold upd. destruct (Nat.eqb_spec y x); [contradiction|reflexivity]. }
          assert (Hext : extends (upd rho1 x w) b).
          { intros y u Hl. rewrite En; auto. intros ->. congruence. }
          split; [exact Hext|]. split; [|split].
          -- intros y Hy. rewrite En by (intros ->; apply Hy; auto). apply Hag. tauto.
          -- intros y [<-|Hy]; [now rewrite Eu|]. rewrite En; auto. intros ->. contradiction.
          -- f_equal.
             ++ symmetry. eapply ev_opnd_sound; eauto. apply extends_cons; auto.
             ++ apply map_ext_in. intros e' He'. apply den_ext. intros y Hy. symmetry. apply En.
                intros ->. apply Hnotin. apply in_flat_map. exists e'. split; auto.
      + subst b1. exists rho1. split; [exact He1|]. split; [|split]; auto.
        f_equal. symmetry. eapply ev_opnd_sound; eauto.
  Qed.

  (* ---------- whole queries ---------- *)
  Theorem run_complete q row : qfree_opt (q_cond q) = true -> answer W D q row -> In row (run W D q).
  Proof.
    intros Q (rho & Hd & Hs & ->). unfold run. apply in_flat_map.
    assert (Hsel : forall x, In x (flat_map opnd_vars (q_sels q)) -> In (rho x) (D x)).
    { intros x Hx. apply Hd. unfold query_vars. apply in_or_app. auto. }
    destruct (q_cond q) as [c|] eqn:Ec; simpl in *.
    - destruct (eval_complete W D c Q [] rho (extends_nil rho)) as (b' & H1 & He).
      + intros x Hx. apply Hd. unfold query_vars. rewrite Ec. apply in_or_app. right. now rewrite qfree_fv.
      + rewrite Hs in H1. simpl in H1. exists b'. split.
        * apply in_map_iff. exists (b', false). split; auto. apply filter_In. auto.
        * apply select_complete; auto.
    - exists []. split; [now left|]. apply select_complete; auto. apply extends_nil.
  Qed.

  Definition fill (b : binds) : asg :=
    fun x => match lookup b x with Some v => v | None => hd (VI 0) (D x) end.

  Theorem run_sound q row :
    snd_ok_opt (q_cond q) = true ->
    NoDup (flat_map opnd_vars (q_sels q)) ->
    (forall x, In x (query_vars q) -> D x <> []) ->
    In row (run W D q) -> answer W D q row.
  Proof.
    intros Hok Hnd Hne Hin. unfold run in Hin. apply in_flat_map in Hin as (b1 & Hb1 & Hrow).
    assert (Hb : b_ok D b1 /\ forall rho, extends rho b1 -> sat_opt W D rho (q_cond q) = true).
    { destruct (q_cond q) as [c|]; simpl in *.
      - apply in_map_iff in Hb1 as ([b f] & <- & Hf). apply filter_In in Hf as [Hf Ht].
        simpl in *. destruct f; [discriminate|]. split.
        + eapply eval_bok; eauto. eapply snd_ok_qfree; eauto. apply b_ok_nil.
        + intros rho He. eapply (eval_sound W D c true); eauto.
      - destruct Hb1 as [<-|[]]. split; auto. apply b_ok_nil. }
    destruct Hb as [Hb Hsat].
    assert (He0 : extends (fill b1) b1). { intros x v Hl. unfold fill. now rewrite Hl. }
    destruct (select_sound _ _ _ _ Hrow Hnd Hb He0) as (rho & He & Hag & Hdm & ->).
    exists rho. repeat split; auto.
    intros x Hx. destruct (in_dec Nat.eq_dec x (flat_map opnd_vars (q_sels q))) as [Hi|Hi]; auto.
    rewrite Hag by exact Hi. unfold fill. destruct (lookup b1 x) eqn:El.
    - eapply Hb; eauto.
    - specialize (Hne x Hx). destruct (D x); [contradiction|]. simpl. auto.
  Qed.

  Theorem run_exact q :
    snd_ok_opt (q_cond q) = true ->
    NoDup (flat_map opnd_vars (q_sels q)) ->
    (forall x, In x (query_vars q) -> D x <> []) ->
    forall row, In row (run W D q) <-> answer W D q row.
  Proof.
    intros H1 H2 H3 row. split; [apply run_sound; auto | apply run_complete].
    destruct (q_cond q); simpl in *; auto. eapply snd_ok_qfree; eauto.
  Qed.
End Run.
