(* C01 -- whole queries: the rows of [run] are exactly the answers of the Spec. *)
From Coq Require Import List ZArith Bool Arith Lia.
From Krrood Require Import Eql.Syntax Eql.Sat Eql.Eval Eql.EvalProofs.
Import ListNotations.

Definition snd_ok_opt (c : option cond) : bool :=
  match c with Some c => snd_ok true c | None => true end.
Definition qfree_opt (c : option cond) : bool :=
  match c with Some c => qfree c | None => true end.

Lemma in_product {A} (ls : list (list A)) : forall row,
  In row (product ls) <-> Forall2 (fun v l => In v l) row ls.
Proof.
  induction ls as [|l ls IH]; simpl; intros row.
  - split.
    + intros [<-|[]]. constructor.
    + intros H. inversion H. now left.
  - split.
    + intros H. apply in_flat_map in H as (a & Ha & H). apply in_map_iff in H as (r & <- & Hr).
      constructor; auto. now apply IH.
    + intros H. inversion H as [|v l' r ls' Hv Hr]; subst.
      apply in_flat_map. exists v. split; auto. apply in_map_iff. exists r. split; auto. now apply IH.
Qed.

Section Run.
  Variable W : world.
  Variable D : domains.

  Lemma ev_opnd_shape e : forall b b1 v,
    In (b1, v) (ev_opnd W D e b) ->
    match opnd_var e with
    | None => b1 = b
    | Some x => match lookup b x with
                | Some _ => b1 = b
                | None => exists w, In w (D x) /\ b1 = (x, w) :: b
                end
    end.
  Proof.
    induction e as [u|x|e IH a]; simpl; intros b b1 v Hin.
    - destruct Hin as [[= <- <-]|[]]. reflexivity.
    - destruct (lookup b x) eqn:E.
      + destruct Hin as [[= <- <-]|[]]. reflexivity.
      + apply in_map_iff in Hin as (w & [= <- <-] & Hw). eauto.
    - apply in_map_iff in Hin as ([b2 v2] & [= <- <-] & H2). simpl. exact (IH _ _ _ H2).
  Qed.

  Lemma select_complete sels : forall b rho,
    extends rho b -> (forall x, In x (flat_map opnd_vars sels) -> In (rho x) (D x)) ->
    In (map (den W rho) sels) (select W D sels b).
  Proof.
    induction sels as [|s sels IH]; intros b rho He Hd; [now left|].
    cbn [select map].
    destruct (ev_opnd_complete W D s b rho He) as (b' & H1 & He').
    - intros x Hx. apply Hd. simpl. apply in_or_app. auto.
    - apply in_flat_map. exists (b', den W rho s). split; auto. cbn [fst snd].
      apply in_map. apply IH; auto. intros x Hx. apply Hd. simpl. apply in_or_app. auto.
  Qed.

  (* since 32abf51 the selected expressions are evaluated under one assignment: no disjointness condition on them *)
  Lemma select_sound sels : forall b row rho0,
    In row (select W D sels b) -> b_ok D b -> extends rho0 b ->
    exists rho, extends rho b /\ (forall x, ~ In x (flat_map opnd_vars sels) -> rho x = rho0 x) /\
                (forall x, In x (flat_map opnd_vars sels) -> In (rho x) (D x)) /\
                row = map (den W rho) sels.
  Proof.
    induction sels as [|s sels IH]; intros b row rho0 Hin Hb He0.
    - simpl in *. destruct Hin as [<-|[]]. exists rho0. repeat split; auto. intros x [].
    - cbn [select] in Hin. apply in_flat_map in Hin as ([b1 v] & H1 & Hrow). cbn [fst snd] in Hrow.
      apply in_map_iff in Hrow as (row' & <- & Hrow').
      pose proof (ev_opnd_bok W D _ _ _ _ H1 Hb) as Hb1.
      pose proof (ev_opnd_shape _ _ _ _ H1) as Hs.
      assert (Hx : exists rho0', extends rho0' b1 /\ (forall y, ~ In y (opnd_vars s) -> rho0' y = rho0 y) /\
                                 (forall y, In y (opnd_vars s) -> exists u, lookup b1 y = Some u)).
      { unfold opnd_vars. destruct (opnd_var s) as [x|] eqn:Ev.
        - destruct (lookup b x) eqn:El.
          + subst b1. exists rho0. split; [auto|]. split; [auto|]. intros y [<-|[]]. eauto.
          + destruct Hs as (w & Hw & ->). exists (upd rho0 x w). split; [|split].
            * apply extends_cons; auto. split.
              -- unfold upd. now rewrite Nat.eqb_refl.
              -- intros y u Hl. unfold upd. destruct (Nat.eqb_spec y x) as [->|]; [congruence|]. now apply He0.
            * intros y Hy. unfold upd. destruct (Nat.eqb_spec y x) as [->|]; [|reflexivity]. exfalso. apply Hy. now left.
            * intros y [<-|[]]. exists w. apply lookup_cons_eq.
        - subst b1. exists rho0. split; [auto|]. split; [auto|]. intros y []. }
      destruct Hx as (rho0' & He0' & Hag0 & Hbd).
      destruct (IH b1 row' rho0' Hrow' Hb1 He0') as (rho1 & He1 & Hag & Hdm & ->).
      destruct (ev_opnd_sound W D _ _ _ _ H1 rho1 He1) as [Heb Hden].
      exists rho1. split; [exact Heb|]. cbn [flat_map map]. split; [|split].
      + intros y Hy. rewrite Hag by (intros H; apply Hy; apply in_or_app; auto).
        apply Hag0. intros H; apply Hy; apply in_or_app; auto.
      + intros y Hy. apply in_app_or in Hy as [Hy|Hy]; [|auto].
        destruct (Hbd y Hy) as (u & Hu). rewrite (He1 _ _ Hu). eapply Hb1; eauto.
      + now rewrite Hden.
  Qed.

  (* ---------- whole queries ---------- *)
  Theorem run_complete q row : qfree_opt (q_cond q) = true -> answer W D q row -> In row (run W D q).
  Proof.
    intros Q (rho & Hd & Hs & ->). unfold run. apply in_flat_map.
    assert (Hsel : forall x, In x (flat_map opnd_vars (q_sels q)) -> In (rho x) (D x)).
    { intros x Hx. apply Hd. unfold query_vars. apply in_or_app. auto. }
    destruct (q_cond q) as [c|] eqn:Ec; simpl in *.
    - destruct (eval_complete W D c Q [] rho (extends_nil rho)) as (b' & H1 & He).
      + intros x Hx. apply Hd. unfold query_vars. rewrite Ec. apply in_or_app. right. now rewrite qfree_fv.
      + rewrite Hs in H1. simpl in H1. exists b'. split.
        * apply in_map_iff. exists (b', false). split; auto. apply filter_In. auto.
        * apply select_complete; auto.
    - exists []. split; [now left|]. apply select_complete; auto. apply extends_nil.
  Qed.

  Definition fill (b : binds) : asg :=
    fun x => match lookup b x with Some v => v | None => hd (VI 0) (D x) end.

  Theorem run_sound q row :
    snd_ok_opt (q_cond q) = true ->
    (forall x, In x (query_vars q) -> D x <> []) ->
    In row (run W D q) -> answer W D q row.
  Proof.
    intros Hok Hne Hin. unfold run in Hin. apply in_flat_map in Hin as (b1 & Hb1 & Hrow).
    assert (Hb : b_ok D b1 /\ forall rho, extends rho b1 -> sat_opt W D rho (q_cond q) = true).
    { destruct (q_cond q) as [c|]; simpl in *.
      - apply in_map_iff in Hb1 as ([b f] & <- & Hf). apply filter_In in Hf as [Hf Ht].
        simpl in *. destruct f; [discriminate|]. split.
        + eapply eval_bok; eauto. eapply snd_ok_qfree; eauto. apply b_ok_nil.
        + intros rho He. eapply (eval_sound W D c true); eauto.
      - destruct Hb1 as [<-|[]]. split; auto. apply b_ok_nil. }
    destruct Hb as [Hb Hsat].
    assert (He0 : extends (fill b1) b1). { intros x v Hl. unfold fill. now rewrite Hl. }
    destruct (select_sound _ _ _ _ Hrow Hb He0) as (rho & He & Hag & Hdm & ->).
    exists rho. repeat split; auto.
    intros x Hx. destruct (in_dec Nat.eq_dec x (flat_map opnd_vars (q_sels q))) as [Hi|Hi]; auto.
    rewrite Hag by exact Hi. unfold fill. destruct (lookup b1 x) eqn:El.
    - eapply Hb; eauto.
    - specialize (Hne x Hx). destruct (D x); [contradiction|]. simpl. auto.
  Qed.

  Theorem run_exact q :
    snd_ok_opt (q_cond q) = true ->
    (forall x, In x (query_vars q) -> D x <> []) ->
    forall row, In row (run W D q) <-> answer W D q row.
  Proof.
    intros H1 H3 row. split; [apply run_sound; auto | apply run_complete].
    destruct (q_cond q); simpl in *; auto. eapply snd_ok_qfree; eauto.
  Qed.
  (* quantifier-free queries: no side condition on the shape of the condition or of the selection *)
  Theorem run_exact_qfree q :
    qfree_opt (q_cond q) = true ->
    (forall x, In x (query_vars q) -> D x <> []) ->
    forall row, In row (run W D q) <-> answer W D q row.
  Proof.
    intros Q. apply run_exact. destruct (q_cond q); simpl in *; auto. now rewrite snd_ok_is_qfree.
  Qed.

  Theorem run_sound_qfree q row :
    qfree_opt (q_cond q) = true ->
    (forall x, In x (query_vars q) -> D x <> []) ->
    In row (run W D q) -> answer W D q row.
  Proof. intros Q Hne. apply (run_exact_qfree q Q Hne). Qed.

  Lemma eval_sound_qfree c pol b b' :
    qfree c = true -> In (b', negb pol) (eval W D c b) ->
    forall rho, extends rho b' -> sat W D rho c = pol.
  Proof. intros Q. apply eval_sound. now rewrite snd_ok_is_qfree. Qed.
End Run.
