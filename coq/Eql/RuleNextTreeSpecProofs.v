(* C08 proofs, part H: programs whose last top-level branch is a next_rule that may carry refinements. *)
From Coq Require Import List ZArith Bool Arith Lia Permutation.
From Krrood Require Import Eql.RuleSpec Eql.RuleEval Eql.RuleBuild Eql.RulePure Eql.RuleEvalProofs Eql.RuleSpecProofs
  Eql.RuleProofs Eql.RuleNextProofs Eql.RuleNextSpecProofs Eql.RuleNextTreeProofs Eql.RuleBuildProofs.
Import ListNotations.

Lemma split_root_next2_spec prog prog' q :
  split_root_next2 prog = Some (prog', q) ->
  exists cs tg body', prog' = Rule cs tg body' /\ prog = Rule cs tg (body' ++ [(KNext, q)]) /\
                      has_next prog' = false /\ has_next q = false /\ only_refs (r_body q) = true.
Proof.
  destruct prog as [cs tg body]. unfold split_root_next2.
  destruct (split_last body) as [[body' [k q0]]|] eqn:E; [|discriminate].
  destruct k; try discriminate.
  destruct (has_next (Rule cs tg body')) eqn:H1; [discriminate|].
  destruct (has_next q0) eqn:H2; [discriminate|].
  destruct (only_refs (r_body q0)) eqn:H3; [|discriminate].
  cbn [orb negb]. intros H. inversion H; subst. exists cs, tg, body'. repeat split; auto.
  rewrite (split_last_app _ _ _ E). reflexivity.
Qed.

(* a branch with only refinements in its block: its level is its own refinement nest *)
Lemma tlevel_only_refs q k acc : only_refs (r_body q) = true -> tlevel k q acc = joinE k acc (met q).
Proof.
  intros H. rewrite tlevel_plug. destruct q as [cs tg body]. cbn [r_body] in H. cbn [Bfr].
  assert (E : (fix go (l : list (kind * rule)) : list frame :=
                 match l with
                 | [] => []
                 | (KRef, _) :: l' => go l'
                 | (k0, q) :: l' => (FL 0 (sel_of k0) (met q) :: Bfr q) ++ go l'
                 end) body = []).
  { induction body as [|[k0 q0] body IH]; [reflexivity|]. destruct k0; try discriminate. apply IH. exact H. }
  rewrite E. reflexivity.
Qed.
Lemma level_only_refs e q st : only_refs (r_body q) = true ->
  level e KNext q st = (if holds e (r_conds q) then (true, snd st ++ snd (level e KAlt q (false, []))) else st) /\
  (holds e (r_conds q) = false -> level e KAlt q (false, []) = (false, [])).
Proof.
  intros H. destruct q as [cs tg body]. cbn [r_body r_conds] in *. cbn [level].
  assert (E : forall s0, (fix sib (l : list (kind * rule)) (s : lstate) {struct l} : lstate :=
                 match l with
                 | [] => s
                 | (KRef, _) :: l' => sib l' s
                 | (k', q) :: l' => sib l' (level e k' q s)
                 end) body s0 = s0).
  { induction body as [|[k0 q0] body IH]; intros s0; [reflexivity|]. destruct k0; try discriminate. apply IH. exact H. }
  rewrite !E. cbn [fst snd negb andb app]. destruct (holds e cs); split; try reflexivity; discriminate.
Qed.

Lemma tree_of_root_next2 cs tg body' q : only_refs (r_body q) = true ->
  tree_of (Rule cs tg (body' ++ [(KNext, q)])) = Node 0 SNext (tree_of (Rule cs tg body')) (met q).
Proof.
  intros H. unfold tree_of. cbn [tlevel].
  assert (Hme : forall b,
     (fix rf (l : list (kind * rule)) {struct l} : tree :=
        match l with
        | [] => Leaf 0 cs (tag_list tg)
        | (KRef, q) :: l' => Node 0 SExc (rf l') (tlevel KAlt q None)
        | _ :: l' => rf l'
        end) (b ++ [(KNext, q)])
     = (fix rf (l : list (kind * rule)) {struct l} : tree :=
        match l with
        | [] => Leaf 0 cs (tag_list tg)
        | (KRef, q) :: l' => Node 0 SExc (rf l') (tlevel KAlt q None)
        | _ :: l' => rf l'
        end) b).
  { induction b as [|[k q0] b IH]; [reflexivity|]. cbn [app]. destruct k; rewrite IH; reflexivity. }
  rewrite Hme. clear Hme.
  match goal with |- _ (body' ++ _) ?m = _ => generalize m end.
  induction body' as [|[k q0] b IH]; intros t0.
  - cbn [app]. rewrite (tlevel_only_refs q KNext (Some t0) H). reflexivity.
  - cbn [app]. destruct k; apply IH.
Qed.

Lemma rdr1_root_next2 cs tg body' q e : only_refs (r_body q) = true ->
  rdr1 (Rule cs tg (body' ++ [(KNext, q)])) e = rdr1 (Rule cs tg body') e ++ rdr1 q e.
Proof.
  intros H. unfold rdr1 at 1 2. cbn [level].
  assert (Hexc : forall b s,
     (fix rf (l : list (kind * rule)) (s : lstate) {struct l} : lstate :=
        match l with
        | [] => s
        | (KRef, q) :: l' => rf l' (level e KAlt q s)
        | _ :: l' => rf l' s
        end) (b ++ [(KNext, q)]) s
     = (fix rf (l : list (kind * rule)) (s : lstate) {struct l} : lstate :=
        match l with
        | [] => s
        | (KRef, q) :: l' => rf l' (level e KAlt q s)
        | _ :: l' => rf l' s
        end) b s).
  { induction b as [|[k q0] b IH]; intros s; [reflexivity|]. cbn [app]. destruct k; apply IH. }
  rewrite Hexc. clear Hexc.
  match goal with |- snd (_ (body' ++ _) ?m) = _ => generalize m end.
  induction body' as [|[k q0] b IH]; intros st.
  - cbn [app]. destruct (level_only_refs e q st H) as [E1 E2]. rewrite E1. unfold rdr1.
    destruct (holds e (r_conds q)); [reflexivity|]. rewrite (E2 eq_refl). cbn [snd]. rewrite app_nil_r. reflexivity.
  - cbn [app]. destruct k; apply IH.
Qed.
