(* C08 proofs, part H: programs whose last top-level branch is a next_rule that may carry refinements. *)
From Coq Require Import List ZArith Bool Arith Lia Permutation.
From Krrood Require Import Eql.RuleSpec Eql.RuleEval Eql.RuleBuild Eql.RulePure Eql.RuleEvalProofs Eql.RuleSpecProofs
  Eql.RuleProofs Eql.RuleNextProofs Eql.RuleNextSpecProofs Eql.RuleNextTreeProofs Eql.RuleBuildProofs.
Import ListNotations.

Lemma split_root_next2_spec prog prog' q :
  split_root_next2 prog = Some (prog', q) ->
  exists cs tg body', prog' = Rule cs tg body' /\ prog = Rule cs tg (body' ++ [(KNext, q)]) /\
                      has_next prog' = false /\ has_next q = false /\ only_refs (r_body q) = true.
Proof.
  destruct prog as [cs tg body]. unfold split_root_next2.
  destruct (split_last body) as [[body' [k q0]]|] eqn:E; [|discriminate].
  destruct k; try discriminate.
  destruct (has_next (Rule cs tg body')) eqn:H1; [discriminate|].
  destruct (has_next q0) eqn:H2; [discriminate|].
  destruct (only_refs (r_body q0)) eqn:H3; [|discriminate].
  cbn [orb negb]. intros H. inversion H; subst. exists cs, tg, body'. repeat split; auto.
  rewrite (split_last_app _ _ _ E). reflexivity.
Qed.

(* a branch with only refinements in its block: its level is its own refinement nest *)
Lemma tlevel_only_refs q k acc : only_refs (r_body q) = true -> tlevel k q acc = joinE k acc (met q).
Proof.
  intros H. rewrite tlevel_plug. destruct q as [cs tg body]. cbn [r_body] in H. cbn [Bfr].
  assert (E : (fix go (l : list (kind * rule)) : list frame :=
                 match l with
                 | [] => []
                 | (KRef, _) :: l' => go l'
                 | (k0, q) :: l' => (FL 0 (sel_of k0) (met q) :: Bfr q) ++ go l'
                 end) body = []).
  { induction body as [|[k0 q0] body IH]; [reflexivity|]. destruct k0; try discriminate. apply IH. exact H. }
  rewrite E. reflexivity.
Qed.
Lemma level_only_refs e q st : only_refs (r_body q) = true ->
  level e KNext q st = (if holds e (r_conds q) then (true, snd st ++ snd (level e KAlt q (false, []))) else st) /\
  (holds e (r_conds q) = false -> level e KAlt q (false, []) = (false, [])).
Proof.
  intros H. destruct q as [cs tg body]. cbn [r_body r_conds] in *. cbn [level].
  assert (E : forall s0, (fix sib (l : list (kind * rule)) (s : lstate) {struct l} : lstate :=
                 match l with
                 | [] => s
                 | (KRef, _) :: l' => sib l' s
                 | (k', q) :: l' => sib l' (level e k' q s)
                 end) body s0 = s0).
  { induction body as [|[k0 q0] body IH]; intros s0; [reflexivity|]. destruct k0; try discriminate. apply IH. exact H. }
  rewrite !E. cbn [fst snd negb andb app]. destruct (holds e cs); split; try reflexivity; discriminate.
Qed.

Lemma tree_of_root_next2 cs tg body' q : only_refs (r_body q) = true ->
  tree_of (Rule cs tg (body' ++ [(KNext, q)])) = Node 0 SNext (tree_of (Rule cs tg body')) (met q).
Proof.
  intros H. unfold tree_of. cbn [tlevel].
  assert (Hme : forall b,
     (fix rf (l : list (kind * rule)) {struct l} : tree :=
        match l with
        | [] => Leaf 0 cs (tag_list tg)
        | (KRef, q) :: l' => Node 0 SExc (rf l') (tlevel KAlt q None)
        | _ :: l' => rf l'
        end) (b ++ [(KNext, q)])
     = (fix rf (l : list (kind * rule)) {struct l} : tree :=
        match l with
        | [] => Leaf 0 cs (tag_list tg)
        | (KRef, q) :: l' => Node 0 SExc (rf l') (tlevel KAlt q None)
        | _ :: l' => rf l'
        end) b).
  { induction b as [|[k q0] b IH]; [reflexivity|]. cbn [app]. destruct k; rewrite IH; reflexivity. }
  rewrite Hme. clear Hme.
  match goal with |- _ (body' ++ _) ?m = _ => generalize m end.
  induction body' as [|[k q0] b IH]; intros t0.
  - cbn [app]. rewrite (tlevel_only_refs q KNext (Some t0) H). reflexivity.
  - cbn [app]. destruct k; apply IH.
Qed.

Lemma rdr1_root_next2 cs tg body' q e : only_refs (r_body q) = true ->
  rdr1 (Rule cs tg (body' ++ [(KNext, q)])) e = rdr1 (Rule cs tg body') e ++ rdr1 q e.
Proof.
  intros H. unfold rdr1 at 1 2. cbn [level].
  assert (Hexc : forall b s,
     (fix rf (l : list (kind * rule)) (s : lstate) {struct l} : lstate :=
        match l with
        | [] => s
        | (KRef, q) :: l' => rf l' (level e KAlt q s)
        | _ :: l' => rf l' s
        end) (b ++ [(KNext, q)]) s
     = (fix rf (l : list (kind * rule)) (s : lstate) {struct l} : lstate :=
        match l with
        | [] => s
        | (KRef, q) :: l' => rf l' (level e KAlt q s)
        | _ :: l' => rf l' s
        end) b s).
  { induction b as [|[k q0] b IH]; intros s; [reflexivity|]. cbn [app]. destruct k; apply IH. }
  rewrite Hexc. clear Hexc.
  match goal with |- snd (_ (body' ++ _) ?m) = _ => generalize m end.
  induction body' as [|[k q0] b IH]; intros st.
  - cbn [app]. destruct (level_only_refs e q st H) as [E1 E2]. rewrite E1. unfold rdr1.
    destruct (holds e (r_conds q)); [reflexivity|]. rewrite (E2 eq_refl). cbn [snd]. rewrite app_nil_r. reflexivity.
  - cbn [app]. destruct k; apply IH.
Qed.

Theorem rules_next2_ok prog : Fb_next2 prog = true -> forall W,
  exists rows xs, model prog W = Some rows /\ singles rows = Some xs /\ Permutation xs (rdr prog W).
Proof.
  unfold Fb_next2. intros H W. apply andb_prop in H. destruct H as [HG Hs].
  destruct (split_root_next2 prog) as [[prog' q]|] eqn:Esp; [|discriminate].
  destruct (split_root_next2_spec _ _ _ Esp) as [cs [tg [body' [-> [-> [Hn [Hnq Hor]]]]]]].
  set (prog' := Rule cs tg body') in *. set (prog := Rule cs tg (body' ++ [(KNext, q)])) in *.
  destruct (Gb_spec prog HG) as [h [t [Hb [Hr [He Hnd]]]]].
  unfold prog in He. rewrite (tree_of_root_next2 cs tg body' q Hor) in He. fold prog' in He.
  destruct t as [|id s l r]; [discriminate He|]. cbn [erase] in He.
  injection He as Es El Er. subst s.
  assert (Hmq : met q = tree_of q) by (unfold tree_of; rewrite (tlevel_only_refs q KAlt None Hor); reflexivity).
  assert (Hpel : forall e, pe l e = pe (tree_of prog') e) by (intros e; rewrite <- El; symmetry; apply pe_erase).
  assert (Hper : forall e, pe r e = pe (tree_of q) e) by (intros e; rewrite <- Hmq, <- Er; symmetry; apply pe_erase).
  assert (Hnfl : nextfree l = true) by (rewrite <- nextfree_erase, El; apply (pe_tree_of prog' (0, 0)%Z Hn)).
  assert (Hnfr : nextfree r = true) by (rewrite <- nextfree_erase, Er, Hmq; apply (pe_tree_of q (0, 0)%Z Hnq)).
  unfold model. rewrite Hb, Hr.
  exists (run W (Node id SNext l r)).
  rewrite (run_root_next_tree W id l r Hnfl Hnfr Hnd).
  set (h1 := fun ie : nat * elem =>
               if fst (pe l (snd ie)) then tagsrows (fst ie) (rdr1 q (snd ie)) else tagsrows (fst ie) (rdr1 prog' (snd ie))).
  set (h2 := fun ie : nat * elem =>
               if fst (pe l (snd ie)) then [] else tagsrows (fst ie) (rdr1 q (snd ie))).
  assert (Hfacts : forall e,
     let (fl, cl) := pe l e in let (fr, cr) := pe r e in
     rdr1 prog' e = (if fl then [] else cl) /\ length (rdr1 prog' e) <= 1 /\
     rdr1 q e = (if fr then [] else cr) /\ length (rdr1 q e) <= 1 /\
     (fl = false -> fr = false -> nonempty cl && set_eqb cl cr = false)).
  { intros e. destruct (pe_tree_of prog' e Hn) as [_ [Hr1 Hl1]]. rewrite <- Hpel in Hr1.
    destruct (pe_tree_of q e Hnq) as [_ [Hr2 Hl2]]. rewrite <- Hper in Hr2.
    destruct (pe l e) as [fl cl]. destruct (pe r e) as [fr cr]. cbn [fst snd] in *.
    refine (conj Hr1 (conj Hl1 (conj Hr2 (conj Hl2 _)))). intros -> ->. rewrite Hr1 in Hl1. rewrite Hr2 in Hl2.
    destruct cl as [|a [|a' cl]]; [reflexivity| |simpl in Hl1; lia].
    destruct cr as [|b [|b' cr]]; [reflexivity| |simpl in Hl2; lia].
    cbn [nonempty andb]. unfold set_eqb. cbn [forallb memb existsb]. rewrite !orb_false_r, !andb_true_r.
    destruct (Nat.eqb a b) eqn:Eab; [|reflexivity]. exfalso. apply Nat.eqb_eq in Eab. subst b.
    assert (Ha1 : In a (tags_of prog')) by (apply (rdr1_tags prog' e); rewrite Hr1; simpl; auto).
    assert (Ha2 : In a (tags_of q)) by (apply (rdr1_tags q e); rewrite Hr2; simpl; auto).
    unfold disjointb in Hs. rewrite forallb_forall in Hs. specialize (Hs a Ha2). apply negb_true_iff in Hs.
    unfold memb in Hs. assert (existsb (Nat.eqb a) (tags_of prog') = true) by (apply existsb_exists; exists a; split; [exact Ha1|apply Nat.eqb_refl]).
    congruence. }
  assert (H1 : forall ie, singles (g1 l r ie) = Some (h1 ie)).
  { intros [i e]. unfold g1, h1. cbn [fst snd]. specialize (Hfacts e).
    destruct (pe l e) as [fl cl]. destruct (pe r e) as [fr cr]. cbn [fst snd] in *.
    destruct Hfacts as [F1 [F2 [F3 [F4 _]]]]. destruct fl.
    - rewrite F3. destruct fr; [reflexivity|]. apply singles_emitq. rewrite <- F3. exact F4.
    - rewrite F1. apply singles_emitq. rewrite <- F1. exact F2. }
  assert (H2 : forall ie, singles (g2 l r ie) = Some (h2 ie)).
  { intros [i e]. unfold g2, h2, covR. cbn [fst snd]. specialize (Hfacts e).
    destruct (pe l e) as [fl cl]. destruct (pe r e) as [fr cr]. cbn [fst snd] in *.
    destruct Hfacts as [F1 [F2 [F3 [F4 F5]]]]. destruct fl.
    - destruct fr; cbn [negb andb]; [reflexivity|].
      destruct (nonempty cr) eqn:Ene; cbn [negb]; [reflexivity|]. rewrite (empty_union [] cr Ene). reflexivity.
    - destruct fr; cbn [negb andb]; [rewrite F3; reflexivity|].
      rewrite (F5 eq_refl eq_refl). cbn [negb]. rewrite F3. apply singles_emitq. rewrite <- F3. exact F4. }
  exists (flat_map h1 (enum W) ++ flat_map h2 (enum W)). split; [reflexivity|]. split.
  - apply singles_app; apply singles_flat_map; assumption.
  - eapply Permutation_trans; [apply flat_map_app_perm|].
    unfold rdr. assert (Heq : forall ie, h1 ie ++ h2 ie = map (fun tg => (tg, fst ie)) (rdr1 prog (snd ie))).
    { intros [i e]. unfold h1, h2, prog. cbn [fst snd]. rewrite (rdr1_root_next2 cs tg body' q e Hor). fold prog'.
      specialize (Hfacts e). destruct (pe l e) as [fl cl]. destruct (pe r e) as [fr cr]. cbn [fst snd] in *.
      destruct Hfacts as [F1 _]. destruct fl.
      - rewrite F1. rewrite app_nil_r. reflexivity.
      - unfold tagsrows. rewrite map_app. reflexivity. }
    clear - Heq. induction (enum W) as [|ie L IH]; [constructor|]. cbn [flat_map]. rewrite Heq.
    apply Permutation_app_head. exact IH.
Qed.

Definition w_next_ref : rule :=
  Rule (cnd CLe 3) (Some 0) [(KRef, leafr CEq 1 1); (KNext, Rule (cnd CGe 2) (Some 2) [(KRef, leafr CEq 3 3)])].
Lemma next2_nonvacuous :
  Fb_next2 w_next_ref = true /\ Fb_next w_next_ref = false /\
  rdr w_next_ref W8 = [(0, 0); (1, 1); (0, 2); (2, 2); (0, 3); (3, 3); (2, 4); (2, 5); (2, 6); (2, 7)].
Proof. repeat match goal with |- _ /\ _ => split end; vm_compute; reflexivity. Qed.
