(* C03 (b) -- what the harness evaluates for a history of whole evaluations: model, Spec, classification. *)
From Coq Require Import List ZArith Bool.
From Krrood Require Import Base.Sx Eql.DomainCacheSpec Eql.DomainCache Eql.ReevalSpec Eql.Reeval Eql.ReevalSpecSx Eql.DomainCacheSched.
Import ListNotations.
Open Scope Z_scope.

Definition hist_model (c : hist_case) : sx := let '(W, A, qs) := c in SL (map sx_rows (hist A (cold W) qs)).
Definition hist_code (c : hist_case) (impl : sx) : Z := classify impl (hist_model c) (hist_spec c).
(* the whole-evaluation model and the coroutine machine agree on sequential schedules (checked per case, not proved) *)
Fixpoint seq_ops (i : nat) (n : nat) : list iop := match n with O => [] | S m => INext i :: seq_ops i m end.
