(* C01 with quantifiers, part 1: invariants of [eval] that hold for EVERY condition (exists / for_all included):
   results keep the incoming bindings, bind only variables of the condition, bind only domain elements. *)
From Coq Require Import List ZArith Bool Arith Lia.
From Krrood Require Import Eql.Syntax Eql.Sat Eql.Eval Eql.EvalProofs.
Import ListNotations.

Definition pres (b b' : binds) : Prop := forall x v, lookup b x = Some v -> lookup b' x = Some v.

Lemma pres_refl b : pres b b.
Proof. intros x v H; exact H. Qed.
Lemma pres_trans b1 b2 b3 : pres b1 b2 -> pres b2 b3 -> pres b1 b3.
Proof. intros H1 H2 x v H. auto. Qed.
Lemma pres_extends rho b b' : pres b b' -> extends rho b' -> extends rho b.
Proof. intros H He x v Hl. apply He. auto. Qed.

Lemma lookup_app b1 b2 x :
  lookup (b1 ++ b2) x = match lookup b1 x with Some v => Some v | None => lookup b2 x end.
Proof.
  induction b1 as [|[y w] b1 IH]; simpl; auto. destruct (Nat.eqb x y); auto.
Qed.

Lemma lookup_restrict xs b x :
  lookup (restrict xs b) x = if nmem x xs then lookup b x else None.
Proof.
  unfold restrict. induction b as [|[y w] b IH]; simpl.
  - now destruct (nmem x xs).
  - destruct (nmem y xs) eqn:Ey; simpl.
    + destruct (Nat.eqb_spec x y) as [->|Hne].
      * now rewrite Ey.
      * exact IH.
    + destruct (Nat.eqb_spec x y) as [->|Hne].
      * rewrite Ey in IH. rewrite IH. now rewrite Ey.
      * exact IH.
Qed.

Lemma nmem_true x l : nmem x l = true <-> In x l.
Proof.
  unfold nmem. rewrite existsb_exists. split.
  - intros (y & Hy & E). apply Nat.eqb_eq in E. now subst.
  - intros H. exists x. split; auto. apply Nat.eqb_refl.
Qed.
Lemma nmem_false x l : nmem x l = false <-> ~ In x l.
Proof. rewrite <- nmem_true. destruct (nmem x l); split; congruence. Qed.

Section Inv.
  Variable W : world.
  Variable D : domains.

  (* ---------- operands / comparator ---------- *)
  Lemma ev_opnd_pres e : forall b b' v, In (b', v) (ev_opnd W D e b) -> pres b b'.
  Proof.
    induction e as [w|x|e IH a]; simpl; intros b b' v Hin.
    - destruct Hin as [[= <- <-]|[]]. apply pres_refl.
    - destruct (lookup b x) eqn:E.
      + destruct Hin as [[= <- <-]|[]]. apply pres_refl.
      + apply in_map_iff in Hin as (w & [= <- <-] & Hw). intros y u Hl.
        rewrite lookup_cons_ne; auto. intros ->. congruence.
    - apply in_map_iff in Hin as ([b1 v1] & [= <- <-] & H1). eauto.
  Qed.

  Lemma ev_cmp_pres op l r b b' f : In (b', f) (ev_cmp W D op l r b) -> pres b b'.
  Proof.
    intros H. apply ev_cmp_inv in H as (b1 & lv & rv & _ & [[H1 H2]|[H1 H2]]);
      eapply pres_trans; eapply ev_opnd_pres; eauto.
  Qed.

  (* domain of the result: nothing outside the incoming bindings and the variables of the expression *)
  Definition dom_in (b b' : binds) (xs : list var) : Prop :=
    forall x, lookup b' x <> None -> lookup b x <> None \/ In x xs.

  Lemma dom_in_refl b xs : dom_in b b xs.
  Proof. intros x H. auto. Qed.
  Lemma dom_in_trans b1 b2 b3 xs ys zs :
    dom_in b1 b2 xs -> dom_in b2 b3 ys -> (forall x, In x xs -> In x zs) -> (forall x, In x ys -> In x zs) ->
    dom_in b1 b3 zs.
  Proof. intros H1 H2 Hx Hy x H. destruct (H2 x H) as [H'|H']; auto. destruct (H1 x H'); auto. Qed.
  Lemma dom_in_weaken b b' xs ys : dom_in b b' xs -> (forall x, In x xs -> In x ys) -> dom_in b b' ys.
  Proof. intros H Hs x Hx. destruct (H x Hx); auto. Qed.

  Lemma ev_opnd_dom e : forall b b' v, In (b', v) (ev_opnd W D e b) -> dom_in b b' (opnd_vars e).
  Proof.
    induction e as [w|x|e IH a]; simpl; intros b b' v Hin.
    - destruct Hin as [[= <- <-]|[]]. apply dom_in_refl.
    - destruct (lookup b x) eqn:E.
      + destruct Hin as [[= <- <-]|[]]. apply dom_in_refl.
      + apply in_map_iff in Hin as (w & [= <- <-] & Hw). intros y Hy.
        destruct (Nat.eq_dec y x) as [->|Hne]; [right; unfold opnd_vars; simpl; auto|].
        left. now rewrite lookup_cons_ne in Hy.
    - apply in_map_iff in Hin as ([b1 v1] & [= <- <-] & H1). eapply IH; eauto.
  Qed.

  Lemma ev_cmp_dom op l r b b' f : In (b', f) (ev_cmp W D op l r b) -> dom_in b b' (opnd_vars l ++ opnd_vars r).
  Proof.
    intros H. apply ev_cmp_inv in H as (b1 & lv & rv & _ & [[H1 H2]|[H1 H2]]);
      (eapply dom_in_trans; [eapply ev_opnd_dom; eauto|eapply ev_opnd_dom; eauto| |]);
      intros x Hx; apply in_or_app; auto.
  Qed.

  (* ---------- exists_scan only selects ---------- *)
  Lemma exists_scan_in others : forall rs seen r, In r (exists_scan others seen rs) -> In r rs /\ snd r = false.
  Proof.
    induction rs as [|[b1 f] rs IH]; simpl; intros seen r H; [contradiction|].
    destruct f.
    - destruct (IH _ _ H); auto.
    - destruct (existsb _ seen).
      + destruct (IH _ _ H); auto.
      + destruct H as [<-|H]; auto. destruct (IH _ _ H); auto.
  Qed.

  (* ---------- for_all: shape of the results ---------- *)
  Lemma fold_filter_subset {A} (fs : list (A -> bool)) : forall (l : list A) a,
    In a (fold_left (fun ss f => filter f ss) fs l) -> In a l.
  Proof.
    induction fs as [|f fs IH]; simpl; intros l a H; auto.
    apply IH in H. apply filter_In in H. tauto.
  Qed.

  Lemma forall_fold_subset c (bvs : list binds) : forall (s0 : list binds) s1,
    In s1 (fold_left (fun (ss : list binds) (bv : binds) => filter (fun s1 => first_true (eval W D c (bv ++ s1))) ss) bvs s0) ->
    In s1 s0.
  Proof.
    induction bvs as [|bv bvs IH]; simpl; intros s0 s1 H; auto.
    apply IH in H. apply filter_In in H. tauto.
  Qed.

  Definition forall_bvs (b : binds) (y : var) : list binds :=
    match lookup b y with Some _ => [b] | None => map (fun v => (y, v) :: b) (D y) end.

  Lemma forall_bvs_pres b y bv : In bv (forall_bvs b y) -> pres b bv.
  Proof.
    unfold forall_bvs. destruct (lookup b y) eqn:E.
    - intros [<-|[]]. apply pres_refl.
    - intros H. apply in_map_iff in H as (v & <- & _). intros x u Hl.
      rewrite lookup_cons_ne; auto. intros ->. congruence.
  Qed.

  (* ---------- conditions ---------- *)
  Lemma eval_pres c : forall b b' f, In (b', f) (eval W D c b) -> pres b b'.
  Proof.
    induction c as [op l r|l IHl r IHr|l IHl r IHr|l IHl r IHr|c IH|e c IH|y c IH]; simpl; intros b b' f Hin.
    - eapply ev_cmp_pres; eauto.
    - apply in_flat_map in Hin as ([b1 f1] & H1 & H2). simpl in H2. destruct f1.
      + destruct H2 as [[= <- <-]|[]]. eauto.
      + eapply pres_trans; eauto.
    - apply in_flat_map in Hin as ([b1 f1] & H1 & H2). simpl in H2. destruct f1.
      + eapply pres_trans; eauto.
      + destruct H2 as [[= <- <-]|[]]. eauto.
    - apply in_app_or in Hin as [Hin|Hin]; [|apply filter_In in Hin as [Hin _]; eauto].
      apply in_flat_map in Hin as ([b1 f1] & H1 & H2). simpl in H2. destruct f1.
      + eapply pres_trans; eauto.
      + destruct H2 as [[= <- <-]|[]]. eauto.
    - apply in_map_iff in Hin as ([b1 f1] & [= <- <-] & H1). eauto.
    - apply exists_scan_in in Hin as [Hin _]. eauto.
    - fold (forall_bvs b y) in Hin. destruct (forall_bvs b y) as [|bv0 bvs] eqn:Ebv.
      + destruct Hin as [[= <- <-]|[]]. apply pres_refl.
      + apply in_map_iff in Hin as (s1 & [= <- <-] & Hs). intros x v Hl.
        rewrite lookup_app. destruct (lookup s1 x) eqn:Es; [|exact Hl].
        apply forall_fold_subset in Hs. apply in_map_iff in Hs as ([b1 f1] & <- & Hp).
        apply filter_In in Hp as [Hp _]. simpl in Es. rewrite lookup_restrict in Es.
        destruct (nmem x _); [|discriminate]. rewrite <- Es.
        apply (IH _ _ _ Hp). apply (forall_bvs_pres b y bv0); [rewrite Ebv; now left|exact Hl].
  Qed.

  Lemma forall_bvs_bok b y bv : In bv (forall_bvs b y) -> b_ok D b -> b_ok D bv.
  Proof.
    unfold forall_bvs. destruct (lookup b y) eqn:E.
    - intros [<-|[]]. auto.
    - intros H Hb. apply in_map_iff in H as (v & <- & Hv). intros x u.
      destruct (Nat.eq_dec x y) as [->|Hne].
      + rewrite lookup_cons_eq. intros [= <-]. exact Hv.
      + rewrite lookup_cons_ne by exact Hne. apply Hb.
  Qed.

  Lemma forall_bvs_dom b y bv : In bv (forall_bvs b y) -> dom_in b bv [y].
  Proof.
    unfold forall_bvs. destruct (lookup b y) eqn:E.
    - intros [<-|[]]. apply dom_in_refl.
    - intros H. apply in_map_iff in H as (v & <- & _). intros x Hx.
      destruct (Nat.eq_dec x y) as [->|Hne]; [right; now left|]. left. now rewrite lookup_cons_ne in Hx.
  Qed.

  Lemma in_remove_var_vars x y l : In x (remove_var y l) -> In x l.
  Proof. intros H. apply in_remove_var in H. tauto. Qed.

  Lemma eval_bok_q c : forall b b' f, In (b', f) (eval W D c b) -> b_ok D b -> b_ok D b'.
  Proof.
    induction c as [op l r|l IHl r IHr|l IHl r IHr|l IHl r IHr|c IH|e c IH|y c IH]; simpl; intros b b' f Hin Hb.
    - eapply ev_cmp_bok; eauto.
    - apply in_flat_map in Hin as ([b1 f1] & H1 & H2). simpl in H2. destruct f1.
      + destruct H2 as [[= <- <-]|[]]. eauto.
      + eauto.
    - apply in_flat_map in Hin as ([b1 f1] & H1 & H2). simpl in H2. destruct f1.
      + eauto.
      + destruct H2 as [[= <- <-]|[]]. eauto.
    - apply in_app_or in Hin as [Hin|Hin]; [|apply filter_In in Hin as [Hin _]; eauto].
      apply in_flat_map in Hin as ([b1 f1] & H1 & H2). simpl in H2. destruct f1.
      + eauto.
      + destruct H2 as [[= <- <-]|[]]. eauto.
    - apply in_map_iff in Hin as ([b1 f1] & [= <- <-] & H1). eauto.
    - apply exists_scan_in in Hin as [Hin _]. eauto.
    - fold (forall_bvs b y) in Hin. destruct (forall_bvs b y) as [|bv0 bvs] eqn:Ebv.
      + destruct Hin as [[= <- <-]|[]]. auto.
      + apply in_map_iff in Hin as (s1 & [= <- <-] & Hs). intros x v.
        rewrite lookup_app. destruct (lookup s1 x) eqn:Es; [|apply Hb].
        intros [= <-].
        apply forall_fold_subset in Hs. apply in_map_iff in Hs as ([b1 f1] & <- & Hp).
        apply filter_In in Hp as [Hp _]. simpl in Es. rewrite lookup_restrict in Es.
        destruct (nmem x _); [|discriminate].
        eapply (IH _ _ _ Hp); eauto. apply (forall_bvs_bok b y bv0); auto. rewrite Ebv. now left.
  Qed.

  Lemma eval_dom c : forall b b' f, In (b', f) (eval W D c b) -> dom_in b b' (cond_vars c).
  Proof.
    induction c as [op l r|l IHl r IHr|l IHl r IHr|l IHl r IHr|c IH|e c IH|y c IH]; simpl; intros b b' f Hin.
    - eapply ev_cmp_dom; eauto.
    - apply in_flat_map in Hin as ([b1 f1] & H1 & H2). simpl in H2. destruct f1.
      + destruct H2 as [[= <- <-]|[]]. eapply dom_in_weaken; eauto. intros; apply in_or_app; auto.
      + eapply dom_in_trans; eauto; intros; apply in_or_app; auto.
    - apply in_flat_map in Hin as ([b1 f1] & H1 & H2). simpl in H2. destruct f1.
      + eapply dom_in_trans; eauto; intros; apply in_or_app; auto.
      + destruct H2 as [[= <- <-]|[]]. eapply dom_in_weaken; eauto. intros; apply in_or_app; auto.
    - apply in_app_or in Hin as [Hin|Hin].
      + apply in_flat_map in Hin as ([b1 f1] & H1 & H2). simpl in H2. destruct f1.
        * eapply dom_in_trans; eauto; intros; apply in_or_app; auto.
        * destruct H2 as [[= <- <-]|[]]. eapply dom_in_weaken; eauto. intros; apply in_or_app; auto.
      + apply filter_In in Hin as [Hin _]. eapply dom_in_weaken; eauto. intros; apply in_or_app; auto.
    - apply in_map_iff in Hin as ([b1 f1] & [= <- <-] & H1). eauto.
    - apply exists_scan_in in Hin as [Hin _]. eapply dom_in_weaken; eauto. intros; apply in_or_app; auto.
    - fold (forall_bvs b y) in Hin. destruct (forall_bvs b y) as [|bv0 bvs] eqn:Ebv.
      + destruct Hin as [[= <- <-]|[]]. apply dom_in_refl.
      + apply in_map_iff in Hin as (s1 & [= <- <-] & Hs). intros x Hx.
        rewrite lookup_app in Hx. destruct (lookup s1 x) eqn:Es; [|auto].
        apply forall_fold_subset in Hs. apply in_map_iff in Hs as ([b1 f1] & <- & Hp).
        simpl in Es. rewrite lookup_restrict in Es.
        destruct (nmem x _) eqn:En; [|discriminate]. apply nmem_true in En.
        right. right. eapply in_remove_var_vars; eauto.
  Qed.
End Inv.
