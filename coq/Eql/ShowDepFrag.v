(* The proved fragment of C01 for queries with generated variables (flatten / nested sub-queries) as a decidable flag next
   to the rows, for the correspondence check. *)
From Coq Require Import List ZArith Bool Arith.
From Krrood Require Import Base.Sx Eql.Syntax Eql.Sat Eql.Eval Eql.ShowSpec Eql.EvalDepSpec Eql.EvalDep Eql.ShowDep
  Eql.EvalDepExec Eql.EvalDepProofs Eql.EvalDepRun Eql.RunProofs.
Import ListNotations.
Open Scope Z_scope.

Definition dcase_in_FD (c : dcase) : bool :=
  in_FD (mk_world (e_world (dc_case c))) (mk_domains (e_doms (dc_case c))) (dc_decls c) (e_query (dc_case c)).

(* the excluded class: the query is in the fragment but for a variable that may be left without a value -- a plain
   variable over an empty domain, a flattened collection that is empty, a sub-query without an answer
   (findings C01-h / C01-h2) *)
Definition dcase_emptyrange (c : dcase) : bool :=
  let ds := dc_decls c in let q := e_query (dc_case c) in
  wf_ds ds && wf_sub ds && localb ds q && qfree_opt (q_cond q) && negb (dcase_in_FD c).

(* [model rows; Spec rows; in-fragment flag; the executable Spec is the Spec; empty-range class] *)
Definition rows_dep (c : dcase) : sx :=
  SL [dmodel_rows c; dspec_rows c; SB (dcase_in_FD c); SB (dspec_wf c); SB (dcase_emptyrange c)].

Theorem dcase_in_FD_exact c : dcase_in_FD c = true ->
  forall row, In row (runD (mk_world (e_world (dc_case c))) (mk_domains (e_doms (dc_case c))) (dc_decls c) (e_query (dc_case c))) <->
              answerD (mk_world (e_world (dc_case c))) (mk_domains (e_doms (dc_case c))) (dc_decls c) (e_query (dc_case c)) row.
Proof. apply in_FD_exact. Qed.

Theorem dcase_in_FD_exec c : dcase_in_FD c = true ->
  forall row, In row (runD (mk_world (e_world (dc_case c))) (mk_domains (e_doms (dc_case c))) (dc_decls c) (e_query (dc_case c))) <->
              In row (answers_execD (mk_world (e_world (dc_case c))) (mk_domains (e_doms (dc_case c))) (dc_decls c) (e_query (dc_case c))).
Proof. apply in_FD_exec. Qed.
