(* The proved fragment of C01 for queries with generated variables (flatten / nested sub-queries) as a decidable flag next
   to the rows, for the correspondence check. *)
From Coq Require Import List ZArith Bool Arith.
From Krrood Require Import Base.Sx Eql.Syntax Eql.Sat Eql.Eval Eql.ShowSpec Eql.EvalDepSpec Eql.EvalDep Eql.ShowDep
  Eql.EvalDepExec Eql.EvalDepProofs Eql.EvalDepRun Eql.RunProofs Eql.EvalDepExists.
Import ListNotations.
Open Scope Z_scope.

(* quantifier-free queries ([in_FD]), or one positive existential conjunct over a plain / flattened variable ([in_FDx]);
   and the executable Spec is the Spec ([dspec_wf]: implied by [in_FD], a computation for [in_FDx]) *)
Definition dcase_in_FD (c : dcase) : bool :=
  let W := mk_world (e_world (dc_case c)) in let D := mk_domains (e_doms (dc_case c)) in
  (in_FD W D (dc_decls c) (e_query (dc_case c)) || in_FDx W D (dc_decls c) (e_query (dc_case c))) && dspec_wf c.

(* the excluded class: the query is in the fragment but for a variable that may be left without a value -- a plain
   variable over an empty domain, a flattened collection that is empty, a sub-query without an answer
   (findings C01-h / C01-h2) *)
Definition base_ok (ds : decls) (q : query) : bool := wf_ds ds && wf_sub ds && localb ds q && qfree_opt (q_cond q).
Definition dcase_emptyrange (c : dcase) : bool :=
  let W := mk_world (e_world (dc_case c)) in let D := mk_domains (e_doms (dc_case c)) in
  let ds := dc_decls c in let q := e_query (dc_case c) in
  negb (dcase_in_FD c) && dspec_wf c &&
  (base_ok ds q ||
   match q_cond q with
   | Some cd => match ex_shape cd with
                | Some (c0, y, body) => ex_side ds (q_sels q) c0 y body && base_ok ds (strip_query q c0 body)
                | None => false
                end
   | None => false
   end).

(* [model rows; Spec rows; in-fragment flag; the executable Spec is the Spec; empty-range class] *)
Definition rows_dep (c : dcase) : sx :=
  SL [dmodel_rows c; dspec_rows c; SB (dcase_in_FD c); SB (dspec_wf c); SB (dcase_emptyrange c)].

Theorem dcase_in_FD_exact c : dcase_in_FD c = true ->
  forall row, In row (runD (mk_world (e_world (dc_case c))) (mk_domains (e_doms (dc_case c))) (dc_decls c) (e_query (dc_case c))) <->
              answerD (mk_world (e_world (dc_case c))) (mk_domains (e_doms (dc_case c))) (dc_decls c) (e_query (dc_case c)) row.
Proof.
  unfold dcase_in_FD. cbv zeta. intros H. apply andb_prop in H as [H _]. apply orb_prop in H as [H|H].
  - now apply in_FD_exact.
  - now apply in_FDx_exact.
Qed.

Theorem dcase_in_FD_exec c : dcase_in_FD c = true ->
  forall row, In row (runD (mk_world (e_world (dc_case c))) (mk_domains (e_doms (dc_case c))) (dc_decls c) (e_query (dc_case c))) <->
              In row (answers_execD (mk_world (e_world (dc_case c))) (mk_domains (e_doms (dc_case c))) (dc_decls c) (e_query (dc_case c))).
Proof.
  intros H row. rewrite (dcase_in_FD_exact c H row). symmetry.
  unfold dcase_in_FD in H. cbv zeta in H. apply andb_prop in H as [_ H]. unfold dspec_wf in H. apply andb_prop in H as [H1 H2].
  now apply answers_execD_correct.
Qed.
