(* C08 proofs, part C: the pure reading of the intended tree is the Spec's ripple-down-rules interpreter. *)
From Coq Require Import List ZArith Bool Arith Lia.
From Krrood Require Import Eql.RuleSpec Eql.RuleEval Eql.RuleBuild Eql.RulePure.
Import ListNotations.

Section RuleInd.
  Variable P : rule -> Prop.
  Hypothesis H : forall cs tg body, Forall (fun kq => P (snd kq)) body -> P (Rule cs tg body).
  Fixpoint rule_ind' (r : rule) : P r :=
    match r with
    | Rule cs tg body =>
        H cs tg body ((fix go (l : list (kind * rule)) : Forall (fun kq => P (snd kq)) l :=
                         match l with
                         | [] => Forall_nil _
                         | kq :: l' => Forall_cons kq (rule_ind' (snd kq)) (go l')
                         end) body)
    end.
End RuleInd.

Lemma union_nil_small c : length c <= 1 -> union [] c = c.
Proof. destruct c as [|x [|y c]]; simpl; intros; try reflexivity; lia. Qed.

Definition rel (e : elem) (a : option tree) (st : lstate) : Prop :=
  match a with
  | None => st = (false, [])
  | Some t => fst st = negb (fst (pe t e)) /\ snd st = (if fst (pe t e) then [] else snd (pe t e)) /\
              length (snd st) <= 1 /\ nextfree t = true
  end.

Definition nonext_body (body : list (kind * rule)) : Prop :=
  Forall (fun kq => fst kq <> KNext /\ has_next (snd kq) = false) body.

Lemma has_next_body cs tg body : has_next (Rule cs tg body) = false -> nonext_body body.
Proof.
  simpl. induction body as [|[k q] body IH]; intros Hn; [constructor|].
  apply Bool.orb_false_iff in Hn. destruct Hn as [Hn Hb]. apply Bool.orb_false_iff in Hn. destruct Hn as [Hk Hq].
  constructor; [|apply IH; exact Hb]. split; [destruct k; simpl in *; congruence|exact Hq].
Qed.

(* once a branch of a level has fired, head and alternatives of the rest of the level leave the state alone *)
Lemma level_fired e r : has_next r = false -> forall k o, k <> KNext -> level e k r (true, o) = (true, o).
Proof.
  induction r as [cs tg body IH] using rule_ind'. intros Hn k o Hk. apply has_next_body in Hn.
  cbn [level].
  assert (Hmay : (match k with KNext => true | _ => negb (fst (true, o)) end && holds e cs) = false)
    by (destruct k; try reflexivity; congruence).
  rewrite Hmay. clear Hmay.
  induction body as [|[k0 q] body IHb]; [reflexivity|].
  inversion IH as [|? ? Hq Hrest]; subst. inversion Hn as [|? ? [Hk0 Hnq] Hnrest]; subst. simpl in Hk0, Hq.
  destruct k0.
  - apply IHb; assumption.
  - rewrite (Hq Hnq KAlt o) by discriminate. apply IHb; assumption.
  - congruence.
Qed.

Lemma level_ok e r : has_next r = false -> forall k a st, k <> KNext -> rel e a st ->
  rel e (Some (tlevel k r a)) (level e k r st).
Proof.
  induction r as [cs tg body IH] using rule_ind'. intros Hn k a st Hk Hrel.
  apply has_next_body in Hn.
  (* the branch with its refinements: the first written refinement that fires wins *)
  assert (Hme : forall s0, s0 = (false, []) \/ (fst s0 = true /\ length (snd s0) <= 1) ->
     let met := (fix rf (l : list (kind * rule)) {struct l} : tree :=
                   match l with
                   | [] => Leaf 0 cs (tag_list tg)
                   | (KRef, q) :: l' => Node 0 SExc (rf l') (tlevel KAlt q None)
                   | _ :: l' => rf l'
                   end) body in
     let exc := (fix rf (l : list (kind * rule)) (s : lstate) {struct l} : lstate :=
                   match l with
                   | [] => s
                   | (KRef, q) :: l' => rf l' (level e KAlt q s)
                   | _ :: l' => rf l' s
                   end) body s0 in
     nextfree met = true /\ fst (pe met e) = negb (holds e cs) /\
     (s0 = (false, []) -> holds e cs = true -> snd (pe met e) = (if fst exc then snd exc else tag_list tg)) /\
     (s0 = (false, []) -> length (if fst exc then snd exc else tag_list tg) <= 1) /\
     (fst s0 = true -> exc = s0)).
  { clear Hrel. induction body as [|[k0 q] body IHb]; intros s0 Hs0.
    - cbn zeta. simpl. repeat split.
      + intros -> _. reflexivity.
      + intros ->. simpl. destruct tg; simpl; lia.
    - inversion IH as [|? ? Hq Hrest]; subst. inversion Hn as [|? ? [_ Hnq] Hnrest]; subst. simpl in Hq.
      specialize (IHb Hrest Hnrest).
      destruct k0; try (apply IHb; assumption).
      (* a refinement q *)
      pose proof (Hq Hnq KAlt None (false, []) ltac:(discriminate) eq_refl) as Hrq. simpl in Hrq.
      destruct Hrq as [Hqf [Hqs [Hql Hqn]]].
      destruct Hs0 as [->|[Hf0 Hl0]].
      + (* nothing fired before q *)
        destruct (pe (tlevel KAlt q None) e) as [fr cr] eqn:Eq. simpl in Hqf, Hqs.
        destruct (level e KAlt q (false, [])) as [sf sc] eqn:El. simpl in Hqf, Hqs, Hql. subst sf sc.
        destruct fr; simpl negb in *.
        * (* q does not fire: as if it were not there *)
          destruct (IHb (false, []) (or_introl eq_refl)) as [I1 [I2 [I3 [I4 I5]]]].
          cbn zeta in *.
          set (rest := (fix rf (l : list (kind * rule)) {struct l} : tree := _) body) in *.
          cbn [pe nextfree]. rewrite I1, Hqn, Eq.
          specialize (I3 eq_refl). specialize (I4 eq_refl).
          destruct (holds e cs); simpl negb in *; destruct (pe rest e) as [fl cl]; simpl in I2, I3; subst fl.
          -- repeat split; try reflexivity; try discriminate.
             ++ intros _ _. simpl. rewrite (I3 eq_refl). apply union_nil_small. exact I4.
             ++ intros _. exact I4.
          -- repeat split; try reflexivity; try discriminate. intros _. exact I4.
        * (* q fires: it wins, whatever comes after *)
          destruct (IHb (true, cr) (or_intror (conj eq_refl Hql))) as [I1 [I2 [_ [_ I5]]]].
          cbn zeta in *.
          set (rest := (fix rf (l : list (kind * rule)) {struct l} : tree := _) body) in *.
          cbn [pe nextfree]. rewrite I1, Hqn, Eq. rewrite (I5 eq_refl).
          destruct (holds e cs); simpl negb in *; destruct (pe rest e) as [fl cl]; simpl in I2; subst fl.
          -- repeat split; try reflexivity; try discriminate.
             ++ intros _ _. simpl. apply union_nil_small. exact Hql.
             ++ intros _. exact Hql.
          -- repeat split; try reflexivity; try discriminate. intros _. exact Hql.
      + (* something fired before q: q's level leaves the state alone *)
        destruct s0 as [sf sc]. simpl in Hf0, Hl0. subst sf.
        rewrite (level_fired e q Hnq KAlt sc) by discriminate.
        destruct (IHb (true, sc) (or_intror (conj eq_refl Hl0))) as [I1 [I2 [_ [_ I5]]]].
        cbn zeta in *.
        set (rest := (fix rf (l : list (kind * rule)) {struct l} : tree := _) body) in *.
        cbn [pe nextfree]. rewrite I1, Hqn.
        destruct (holds e cs); simpl negb in *; destruct (pe rest e) as [fl cl]; simpl in I2; subst fl.
        * repeat split; try discriminate.
          -- destruct (pe (tlevel KAlt q None) e) as [fr cr]. destruct fr; reflexivity.
          -- intros _. apply I5. reflexivity.
        * repeat split; try reflexivity; try discriminate. intros _. apply I5. reflexivity. }
  (* the siblings *)
  assert (Hsib : forall t0 st0, rel e (Some t0) st0 ->
     rel e (Some ((fix sib (l : list (kind * rule)) (t : tree) {struct l} : tree :=
               match l with
               | [] => t
               | (KRef, _) :: l' => sib l' t
               | (k', q) :: l' => sib l' (tlevel k' q (Some t))
               end) body t0))
           ((fix sib (l : list (kind * rule)) (s : lstate) {struct l} : lstate :=
               match l with
               | [] => s
               | (KRef, _) :: l' => sib l' s
               | (k', q) :: l' => sib l' (level e k' q s)
               end) body st0)).
  { clear Hrel Hme. induction body as [|[k0 q] body IHb]; intros t0 st0 H0; [exact H0|].
    inversion IH as [|? ? Hq Hrest]; subst. inversion Hn as [|? ? [Hk0 Hnq] Hnrest]; subst.
    simpl in Hk0.
    destruct k0; try (apply IHb; assumption).
    - apply IHb; try assumption. apply Hq; [exact Hnq|discriminate|exact H0].
    - congruence. }
  cbn [tlevel level]. apply Hsib. clear Hsib.
  destruct (Hme (false, []) (or_introl eq_refl)) as [Hme3 [Hme1 [Hme2' [Hlen' _]]]]. clear Hme.
  cbn zeta in *.
  set (me := (fix rf (l : list (kind * rule)) {struct l} : tree := _) body) in *.
  set (exc_s := (fix rf (l : list (kind * rule)) (s : lstate) {struct l} : lstate := _) body (false, [])) in *.
  set (mine := if fst exc_s then snd exc_s else tag_list tg) in *.
  assert (Hmine_len : length mine <= 1) by (apply Hlen'; reflexivity).
  assert (Hme2 : holds e cs = true -> snd (pe me e) = mine) by (apply Hme2'; reflexivity).
  destruct a as [ta|]; simpl in Hrel.
  - destruct Hrel as [Hf [Hs [Hl Hnx]]].
    assert (Hsel : sel_of k = SAlt) by (destruct k; try reflexivity; congruence).
    assert (Hmay : match k with KNext => true | _ => negb (fst st) end = negb (fst st)) by (destruct k; try reflexivity; congruence).
    rewrite Hmay, Hsel. red. cbn [pe nextfree]. rewrite Hnx, Hme3.
    destruct (pe ta e) as [fa ca]. simpl in Hf, Hs. destruct st as [sf sc]. simpl in *. subst sf.
    destruct fa; simpl.
    + (* nothing fired so far *)
      subst sc. destruct (pe me e) as [fm cm]. simpl in *. subst fm.
      destruct (holds e cs); simpl.
      * rewrite (Hme2 eq_refl). rewrite union_nil_small by exact Hmine_len. repeat split; auto.
      * repeat split; auto.
    + subst sc. rewrite union_nil_small by exact Hl. repeat split; auto.
  - subst st.
    assert (Hmay : match k with KNext => true | _ => negb (fst (false, @nil nat)) end = true) by (destruct k; reflexivity).
    rewrite Hmay. red. rewrite Hme3. simpl andb.
    destruct (pe me e) as [fm cm]. simpl in *. subst fm.
    destruct (holds e cs); simpl.
    + rewrite (Hme2 eq_refl). repeat split; auto.
    + repeat split; auto.
Qed.

Theorem pe_tree_of prog e : has_next prog = false ->
  nextfree (tree_of prog) = true /\
  rdr1 prog e = (if fst (pe (tree_of prog) e) then [] else snd (pe (tree_of prog) e)) /\
  length (rdr1 prog e) <= 1.
Proof.
  intros Hn. destruct (level_ok e prog Hn KAlt None (false, []) ltac:(discriminate) eq_refl) as [_ [Hs [Hl Hnx]]].
  unfold tree_of, rdr1. auto.
Qed.
