(* C08 proofs, part C: the pure reading of the intended tree is the Spec's ripple-down-rules interpreter. *)
From Coq Require Import List ZArith Bool Arith Lia.
From Krrood Require Import Eql.RuleSpec Eql.RuleEval Eql.RuleBuild Eql.RulePure.
Import ListNotations.

Section RuleInd.
  Variable P : rule -> Prop.
  Hypothesis H : forall cs tg body, Forall (fun kq => P (snd kq)) body -> P (Rule cs tg body).
  Fixpoint rule_ind' (r : rule) : P r :=
    match r with
    | Rule cs tg body =>
        H cs tg body ((fix go (l : list (kind * rule)) : Forall (fun kq => P (snd kq)) l :=
                         match l with
                         | [] => Forall_nil _
                         | kq :: l' => Forall_cons kq (rule_ind' (snd kq)) (go l')
                         end) body)
    end.
End RuleInd.

Lemma union_nil_small c : length c <= 1 -> union [] c = c.
Proof. destruct c as [|x [|y c]]; simpl; intros; try reflexivity; lia. Qed.

Definition rel (e : elem) (a : option tree) (st : lstate) : Prop :=
  match a with
  | None => st = (false, [])
  | Some t => fst st = negb (fst (pe t e)) /\ snd st = (if fst (pe t e) then [] else snd (pe t e)) /\
              length (snd st) <= 1 /\ nextfree t = true
  end.

Definition nonext_body (body : list (kind * rule)) : Prop :=
  Forall (fun kq => fst kq <> KNext /\ has_next (snd kq) = false) body.

Lemma has_next_body cs tg body : has_next (Rule cs tg body) = false -> nonext_body body.
Proof.
  simpl. induction body as [|[k q] body IH]; intros Hn; [constructor|].
  apply Bool.orb_false_iff in Hn. destruct Hn as [Hn Hb]. apply Bool.orb_false_iff in Hn. destruct Hn as [Hk Hq].
  constructor; [|apply IH; exact Hb]. split; [destruct k; simpl in *; congruence|exact Hq].
Qed.

Lemma level_ok e r : has_next r = false -> forall k a st, k <> KNext -> rel e a st ->
  rel e (Some (tlevel k r a)) (level e k r st).
Proof.
  induction r as [cs tg body IH] using rule_ind'. intros Hn k a st Hk Hrel.
  apply has_next_body in Hn.
  (* the exception level *)
  assert (Hexc : forall a0 st0, rel e a0 st0 ->
     rel e ((fix rf (l : list (kind * rule)) (a : option tree) {struct l} : option tree :=
               match l with
               | [] => a
               | (KRef, q) :: l' => rf l' (Some (tlevel KAlt q a))
               | _ :: l' => rf l' a
               end) body a0)
           ((fix rf (l : list (kind * rule)) (s : lstate) {struct l} : lstate :=
               match l with
               | [] => s
               | (KRef, q) :: l' => rf l' (level e KAlt q s)
               | _ :: l' => rf l' s
               end) body st0)).
  { clear Hrel. induction body as [|[k0 q] body IHb]; intros a0 st0 H0; [exact H0|].
    inversion IH as [|? ? Hq Hrest]; subst. inversion Hn as [|? ? [_ Hnq] Hnrest]; subst.
    destruct k0; try (apply IHb; assumption).
    apply IHb; try assumption. apply Hq; [exact Hnq|discriminate|exact H0]. }
  (* the siblings *)
  assert (Hsib : forall t0 st0, rel e (Some t0) st0 ->
     rel e (Some ((fix sib (l : list (kind * rule)) (t : tree) {struct l} : tree :=
               match l with
               | [] => t
               | (KRef, _) :: l' => sib l' t
               | (k', q) :: l' => sib l' (tlevel k' q (Some t))
               end) body t0))
           ((fix sib (l : list (kind * rule)) (s : lstate) {struct l} : lstate :=
               match l with
               | [] => s
               | (KRef, _) :: l' => sib l' s
               | (k', q) :: l' => sib l' (level e k' q s)
               end) body st0)).
  { clear Hrel Hexc. induction body as [|[k0 q] body IHb]; intros t0 st0 H0; [exact H0|].
    inversion IH as [|? ? Hq Hrest]; subst. inversion Hn as [|? ? [Hk0 Hnq] Hnrest]; subst.
    simpl in Hk0.
    destruct k0; try (apply IHb; assumption).
    - apply IHb; try assumption. apply Hq; [exact Hnq|discriminate|exact H0].
    - congruence. }
  cbn [tlevel level]. apply Hsib. clear Hsib.
  specialize (Hexc None (false, []) eq_refl).
  set (exc_t := (fix rf (l : list (kind * rule)) (a : option tree) {struct l} : option tree := _) body None) in *.
  set (exc_s := (fix rf (l : list (kind * rule)) (s : lstate) {struct l} : lstate := _) body (false, [])) in *.
  (* the branch itself with its exception level *)
  set (me := match exc_t with None => Leaf 0 cs (tag_list tg) | Some x => Node 0 SExc (Leaf 0 cs (tag_list tg)) x end).
  set (mine := if fst exc_s then snd exc_s else tag_list tg).
  assert (Hmine_len : length mine <= 1).
  { unfold mine. destruct exc_t as [x|]; simpl in Hexc.
    - destruct Hexc as [_ [_ [Hl _]]]. destruct (fst exc_s); [exact Hl|destruct tg; simpl; lia].
    - rewrite Hexc. simpl. destruct tg; simpl; lia. }
  assert (Hme : fst (pe me e) = negb (holds e cs) /\ (holds e cs = true -> snd (pe me e) = mine) /\ nextfree me = true).
  { unfold me, mine. destruct exc_t as [x|]; simpl in Hexc.
    - destruct Hexc as [Hf [Hs [Hl Hnx]]]. simpl. destruct (holds e cs); simpl.
      + destruct (pe x e) as [fr cr]. simpl in *. rewrite Hf. destruct fr; simpl.
        * split; [reflexivity|]. split; [|exact Hnx]. intros _. apply union_nil_small. destruct tg; simpl; lia.
        * split; [reflexivity|]. split; [|exact Hnx]. intros _. rewrite Hs. apply union_nil_small. rewrite <- Hs. exact Hl.
      + split; [reflexivity|]. split; [discriminate|exact Hnx].
    - rewrite Hexc. simpl. split; [reflexivity|]. split; [reflexivity|reflexivity]. }
  destruct Hme as [Hme1 [Hme2 Hme3]].
  destruct a as [ta|]; simpl in Hrel.
  - destruct Hrel as [Hf [Hs [Hl Hnx]]].
    assert (Hsel : sel_of k = SAlt) by (destruct k; try reflexivity; congruence).
    assert (Hmay : match k with KNext => true | _ => negb (fst st) end = negb (fst st)) by (destruct k; try reflexivity; congruence).
    rewrite Hmay, Hsel. red. cbn [pe nextfree]. rewrite Hnx, Hme3.
    destruct (pe ta e) as [fa ca]. simpl in Hf, Hs. destruct st as [sf sc]. simpl in *. subst sf.
    destruct fa; simpl.
    + (* nothing fired so far *)
      subst sc. destruct (pe me e) as [fm cm]. simpl in *. subst fm.
      destruct (holds e cs); simpl.
      * rewrite (Hme2 eq_refl). rewrite union_nil_small by exact Hmine_len. repeat split; auto.
      * repeat split; auto.
    + subst sc. rewrite union_nil_small by exact Hl. repeat split; auto.
  - subst st.
    assert (Hmay : match k with KNext => true | _ => negb (fst (false, @nil nat)) end = true) by (destruct k; reflexivity).
    rewrite Hmay. red. rewrite Hme3. simpl andb.
    destruct (pe me e) as [fm cm]. simpl in *. subst fm.
    destruct (holds e cs); simpl.
    + rewrite (Hme2 eq_refl). repeat split; auto.
    + repeat split; auto.
Qed.

Theorem pe_tree_of prog e : has_next prog = false ->
  nextfree (tree_of prog) = true /\
  rdr1 prog e = (if fst (pe (tree_of prog) e) then [] else snd (pe (tree_of prog) e)) /\
  length (rdr1 prog e) <= 1.
Proof.
  intros Hn. destruct (level_ok e prog Hn KAlt None (false, []) ltac:(discriminate) eq_refl) as [_ [Hs [Hl Hnx]]].
  unfold tree_of, rdr1. auto.
Qed.
